import RreModel.Proto
import RreModel.C10.Spec
/-
Driver for C10 (part A, the undo-frame API of `Facts`).
  case := `<init> <ops>`   (see harness/src/bin/c10.rs for the grammar)
  obs  := step;step;…      step := `<res>/<depth>/<cell0>,<cell1>,<cell2>`
  drv_c10 model   : case        ↦ obs predicted by the model
  drv_c10 oracle  : case | obs  ↦ `ok <tags>` / `fail stepOk@<i>` (Spec.checkFrom on the observations)
-/
open Proto C10

def keysObserved : List Nat := [0, 1, 2]

def insertSorted (e : Nat × Int) : List (Nat × Int) → List (Nat × Int)
  | [] => [e]
  | x :: xs => if e.1 ≤ x.1 then e :: x :: xs else x :: insertSorted e xs

def parseVal (s : String) : Option Val :=
  if s.startsWith "i" then (s.drop 1).toString.toInt?.map .int
  else if s.startsWith "o" then
    let r := (s.drop 1).toString
    if r.isEmpty then some (.obj [])
    else do
      let fs ← (r.splitOn "+").mapM fun fv =>
        match fv.splitOn ":" with
        | [f, v] => do pure ((← f.toNat?), (← v.toInt?))
        | _ => none
      pure (.obj (fs.foldr insertSorted []))
  else none

def showVal : Val → String
  | .int n => s!"i{n}"
  | .obj fs =>
    "o" ++ "+".intercalate (fs.map fun (f, v) => s!"{f}:{v}")

def showCell (c : Cell) : String :=
  (match c.val with | some v => showVal v | none => "~") ++ (if c.ty then "t" else "n")

def parseCell (s : String) : Option Cell :=
  let body := (s.dropEnd 1).toString
  let ty := s.endsWith "t"
  if !(s.endsWith "t" || s.endsWith "n") then none
  else if body = "~" then some { val := none, ty := ty }
  else do
    let v ← parseVal body
    pure { val := some v, ty := ty }

def parseInit (s : String) : Option (Nat → Cell) :=
  if s = "-" then some (fun _ => {})
  else do
    let kvs ← (s.splitOn ",").mapM fun kv =>
      match kv.splitOn "=" with
      | [k, v] => do pure ((← k.toNat?), (← parseVal v))
      | _ => none
    pure (kvs.foldl (fun d (k, v) => upd d k { val := some v, ty := true }) (fun _ => {}))

def parseOp (s : String) : Option Op :=
  if s = "B" then some .begin
  else if s = "C" then some .commit
  else if s = "R" then some .rollback
  else if s.startsWith "S" then
    match (s.drop 1).toString.splitOn "=" with
    | [k, v] => do pure (.set (← k.toNat?) (← parseVal v))
    | _ => none
  else if s.startsWith "N" then
    match (s.drop 1).toString.splitOn "=" with
    | [p, v] => do
      match ← (p.splitOn ".").mapM (·.toNat?) with
      | k :: path => pure (.setNested k path (← v.toInt?))
      | [] => none
    | _ => none
  else if s.startsWith "D" then (s.drop 1).toString.toNat?.map .remove
  else none

def parseOps (s : String) : Option (List Op) :=
  if s = "-" then some [] else (s.splitOn ",").mapM parseOp

def parseCase (line : String) : Option ((Nat → Cell) × List Op) :=
  match tokens line with
  | [i, o] => do pure ((← parseInit i), (← parseOps o))
  | _ => none

def showRes : Res → String
  | .ok => "ok"
  | .err .fieldNotFound => "fnf"
  | .err .typeMismatch => "tm"
  | .removed true => "r1"
  | .removed false => "r0"

def parseRes (s : String) : Option Res :=
  if s = "ok" then some .ok else if s = "fnf" then some (.err .fieldNotFound)
  else if s = "tm" then some (.err .typeMismatch) else if s = "r1" then some (.removed true)
  else if s = "r0" then some (.removed false) else none

def showObs (o : Obs) : String :=
  s!"{showRes o.res}/{o.depth}/" ++ ",".intercalate (o.cells.map fun e => showCell e.2)

def parseObs (s : String) : Option Obs :=
  match s.splitOn "/" with
  | [r, d, cs] => do
    let cells ← (cs.splitOn ",").mapM parseCell
    if cells.length ≠ keysObserved.length then none
    else pure { res := ← parseRes r, depth := ← d.toNat?, cells := keysObserved.zip cells }
  | _ => none

def parseTrace (s : String) : Option (List Obs) :=
  if s = "-" then some [] else (s.splitOn ";").mapM parseObs

def modelLine (line : String) : String :=
  match parseCase line with
  | some (d, ops) =>
    let os := trace keysObserved ⟨d, []⟩ ops
    if os.isEmpty then "-" else ";".intercalate (os.map showObs)
  | none => "bad-case"

def tagsOf (ops : List Op) (init : Snap) (os : List Obs) : List String :=
  let rec go (depth : Nat) (prev : Snap) : List Op → List Obs → List String
    | op :: ops, o :: os =>
      let t :=
        (match op with
         | .rollback => (if depth > 0 && o.cells != prev then ["rb_restoring", "nontrivial"] else [])
                        ++ (if depth == 0 then ["noop_close"] else []) ++ (if depth ≥ 2 then ["rb_nested"] else [])
         | .commit => (if depth ≥ 2 then ["commit_nested"] else []) ++ (if depth == 0 then ["noop_close"] else [])
         | .setNested _ _ _ => (match o.res with | .err .fieldNotFound => ["nested_fnf"] | .err .typeMismatch => ["nested_tm"] | _ => ["nested_ok"])
         | _ => [])
      t ++ go o.depth o.cells ops os
    | _, _ => []
  (go 0 init ops os).eraseDups

def oracleLine (line : String) : String :=
  match line.splitOn " | " with
  | [c, o] =>
    match parseCase c, parseTrace o.trimAscii.toString with
    | some (d, ops), some os =>
      let init := proj keysObserved d
      if checkFrom [] init ops os then
        let lenTag := s!"len{ops.length}"
        joinSp ("ok" :: lenTag :: tagsOf ops init os)
      else
        match firstBad 0 [] init ops os with
        | some i => s!"fail stepOk@{i}"
        | none => "fail checkFrom"
    | _, _ => "bad-input"
  | _ => "bad-input"

def main (args : List String) : IO Unit :=
  match args with
  | ["model"] => mapLines modelLine
  | ["oracle"] => mapLines oracleLine
  | _ => IO.eprintln "usage: drv_c10 model|oracle"
