import RreModel.Proto
import RreModel.C10.Spec
/-
Driver for C10 (part A, the undo-frame API of `Facts`).
  case := `<init> <ops>`   (see harness/src/bin/c10.rs for the grammar)
  obs  := step;step;…      step := `<res>/<depth>/<cell0>,<cell1>,<cell2>`
  drv_c10 model   : case        ↦ obs predicted by the model
  drv_c10 oracle  : case | obs  ↦ `ok <tags>` / `fail stepOk@<i>` (Spec.checkFrom on the observations)
-/
open Proto C10

/-- observed keys: k0..k2, and every further key the case mentions (k3, k4 … for the wide families) -/
def keysUpTo (n : Nat) : List Nat := List.range (max 3 n)

def insertSorted {α : Type} (e : Nat × α) : List (Nat × α) → List (Nat × α)
  | [] => [e]
  | x :: xs => if e.1 ≤ x.1 then e :: x :: xs else x :: insertSorted e xs

/-! value text (same grammar as harness/src/bin/c10.rs):
  val    := `z` null | `b0`/`b1` | `i<int>` | `n<hex bits>` float | `s<hex>` string | `e<hex>` expression
          | `a` [scalar (`+` scalar)*]   array of scalars
          | `o` [<f>`:`member (`+` <f>`:`member)*]
  member := <int> (legacy, = i<int>) | scalar | `(` val `)` for arrays and objects -/

inductive PV where
  | leaf (l : VLeaf)
  | obj (fs : List (Nat × PV))

def stopChar (c : Char) : Bool := c == '+' || c == ')' || c == '('

def hexText? (s : String) : Option String :=
  if s.isEmpty then some "" else hexString? s

def parseScalarTok (t : String) : Option VScalar :=
  if t = "z" then some .null
  else if t = "b0" then some (.bool false)
  else if t = "b1" then some (.bool true)
  else if t.startsWith "i" then (t.drop 1).toString.toInt?.map .int
  else if t.startsWith "n" then
    let h := (t.drop 1).toString
    if h.isEmpty then none
    else h.toList.foldlM (fun (acc : Nat) (c : Char) =>
      if c.isDigit then some (acc * 16 + (c.toNat - '0'.toNat))
      else if 'a' ≤ c && c ≤ 'f' then some (acc * 16 + (c.toNat - 'a'.toNat + 10)) else none) 0 |>.map .num
  else if t.startsWith "s" then (hexText? (t.drop 1).toString).map .str
  else if t.startsWith "e" then (hexText? (t.drop 1).toString).map .expr
  else none

partial def parsePV (cs : List Char) : Option (PV × List Char) :=
  match cs with
  | 'o' :: r =>
    let rec fields (r : List Char) (acc : List (Nat × PV)) : Option (PV × List Char) :=
      match r with
      | [] => some (.obj acc.reverse, [])
      | ')' :: _ => some (.obj acc.reverse, r)
      | _ =>
        let r := match r with | '+' :: r' => r' | _ => r
        let (ft, r1) := r.span (· != ':')
        match (String.ofList ft).toNat?, r1 with
        | some f, ':' :: r2 =>
          match r2 with
          | '(' :: r3 =>
            match parsePV r3 with
            | some (v, ')' :: r4) => fields r4 ((f, v) :: acc)
            | _ => none
          | _ =>
            let (tok, r3) := r2.span (fun c => !stopChar c)
            let t := String.ofList tok
            match t.toInt? with
            | some n => fields r3 ((f, .leaf (.int n)) :: acc)
            | none =>
              match parseScalarTok t with
              | some sc => fields r3 ((f, .leaf (.sc sc)) :: acc)
              | none => none
        | _, _ => none
    fields r []
  | 'a' :: r =>
    let rec items (r : List Char) (acc : List VScalar) : Option (PV × List Char) :=
      match r with
      | [] => some (.leaf (.arr acc.reverse), [])
      | ')' :: _ => some (.leaf (.arr acc.reverse), r)
      | _ =>
        let r := match r with | '+' :: r' => r' | _ => r
        let (tok, r1) := r.span (fun c => !stopChar c)
        match parseScalarTok (String.ofList tok) with
        | some sc => items r1 (sc :: acc)
        | none => none
    items r []
  | _ =>
    let (tok, r) := cs.span (fun c => !stopChar c)
    (parseScalarTok (String.ofList tok)).map fun sc => (.leaf (.sc sc), r)

def pvLeaf : PV → Option VLeaf
  | .leaf l => some l
  | .obj _ => none

def sortFields {α : Type} (fs : List (Nat × α)) : List (Nat × α) := fs.foldr insertSorted []

def pvVal1 : PV → Option Val1
  | .leaf l => some (.leaf l)
  | .obj fs => do
    let fs ← fs.mapM fun (f, v) => do pure (f, ← pvLeaf v)
    pure (.obj (sortFields fs))

def pvVal : PV → Option Val
  | .leaf l => some (.leaf l)
  | .obj fs => do
    let fs ← fs.mapM fun (f, v) => do pure (f, ← pvVal1 v)
    pure (.obj (sortFields fs))

def parseVal (s : String) : Option Val :=
  match parsePV s.toList with
  | some (v, []) => pvVal v
  | _ => none

/-- the value written by `set_nested`: a bare integer (legacy) or a non-object value -/
def parseLeaf (s : String) : Option VLeaf :=
  match s.toInt? with
  | some n => some (.int n)
  | none =>
    match parsePV s.toList with
    | some (v, []) => pvLeaf v
    | _ => none

def hexDigitsOf (n : Nat) : String :=
  let rec go (fuel n : Nat) (acc : List Char) : List Char :=
    match fuel with
    | 0 => acc
    | fuel + 1 =>
      let d := n % 16
      let c := if d < 10 then Char.ofNat ('0'.toNat + d) else Char.ofNat ('a'.toNat + d - 10)
      if n / 16 = 0 then c :: acc else go fuel (n / 16) (c :: acc)
  String.ofList (go 64 n [])

def showScalar : VScalar → String
  | .null => "z"
  | .bool b => if b then "b1" else "b0"
  | .int n => s!"i{n}"
  | .num b => "n" ++ hexDigitsOf b
  | .str s => "s" ++ (if s.isEmpty then "" else hexOfString s)
  | .expr s => "e" ++ (if s.isEmpty then "" else hexOfString s)

def showLeaf : VLeaf → String
  | .sc s => showScalar s
  | .arr xs => "a" ++ "+".intercalate (xs.map showScalar)

/-- a member of an object: integers bare (legacy), other scalars tagged, arrays / objects in parentheses -/
def showMemberLeaf : VLeaf → String
  | .sc (.int n) => s!"{n}"
  | .sc s => showScalar s
  | l => "(" ++ showLeaf l ++ ")"

def showVal1 : Val1 → String
  | .leaf l => showLeaf l
  | .obj fs => "o" ++ "+".intercalate (fs.map fun (f, v) => s!"{f}:{showMemberLeaf v}")

def showMember1 : Val1 → String
  | .leaf l => showMemberLeaf l
  | v => "(" ++ showVal1 v ++ ")"

def showVal : Val → String
  | .leaf l => showLeaf l
  | .obj fs => "o" ++ "+".intercalate (fs.map fun (f, v) => s!"{f}:{showMember1 v}")

def showCell (c : Cell) : String :=
  (match c.val with | some v => showVal v | none => "~") ++ (if c.ty then "t" else "n")

def parseCell (s : String) : Option Cell :=
  let body := (s.dropEnd 1).toString
  let ty := s.endsWith "t"
  if !(s.endsWith "t" || s.endsWith "n") then none
  else if body = "~" then some { val := none, ty := ty }
  else do
    let v ← parseVal body
    pure { val := some v, ty := ty }

def parseInit (s : String) : Option (Nat → Cell) :=
  if s = "-" then some (fun _ => {})
  else do
    let kvs ← (s.splitOn ",").mapM fun kv =>
      match kv.splitOn "=" with
      | [k, v] => do pure ((← k.toNat?), (← parseVal v))
      | _ => none
    pure (kvs.foldl (fun d (k, v) => upd d k { val := some v, ty := true }) (fun _ => {}))

def parseOp (s : String) : Option Op :=
  if s = "B" then some .begin
  else if s = "C" then some .commit
  else if s = "R" then some .rollback
  else if s.startsWith "S" then
    match (s.drop 1).toString.splitOn "=" with
    | [k, v] => do pure (.set (← k.toNat?) (← parseVal v))
    | _ => none
  else if s.startsWith "N" then
    match (s.drop 1).toString.splitOn "=" with
    | [p, v] => do
      match ← (p.splitOn ".").mapM (·.toNat?) with
      | k :: path => pure (.setNested k path (← parseLeaf v))
      | [] => none
    | _ => none
  else if s.startsWith "D" then (s.drop 1).toString.toNat?.map .remove
  else none

def parseOps (s : String) : Option (List Op) :=
  if s = "-" then some [] else (s.splitOn ",").mapM parseOp

def maxKey : List Op → Nat
  | [] => 0
  | op :: l => max (match opKey op with | some k => k + 1 | none => 0) (maxKey l)

/-- number of observed keys of a case: 3, or more when the initial store or an operation names k3, k4 … -/
def caseKeys (initText : String) (ops : List Op) : List Nat :=
  let ik := if initText = "-" then 0 else
    (initText.splitOn ",").foldl (fun m kv => match (kv.splitOn "=").head?.bind (·.toNat?) with | some k => max m (k + 1) | none => m) 0
  keysUpTo (max ik (maxKey ops))

def parseCase (line : String) : Option ((Nat → Cell) × List Op × List Nat) :=
  match tokens line with
  | [i, o] => do
    let ops ← parseOps o
    pure ((← parseInit i), ops, caseKeys i ops)
  | _ => none

def showRes : Res → String
  | .ok => "ok"
  | .err .fieldNotFound => "fnf"
  | .err .typeMismatch => "tm"
  | .removed true => "r1"
  | .removed false => "r0"

def parseRes (s : String) : Option Res :=
  if s = "ok" then some .ok else if s = "fnf" then some (.err .fieldNotFound)
  else if s = "tm" then some (.err .typeMismatch) else if s = "r1" then some (.removed true)
  else if s = "r0" then some (.removed false) else none

def showObs (o : Obs) : String :=
  s!"{showRes o.res}/{o.depth}/" ++ ",".intercalate (o.cells.map fun e => showCell e.2)

def parseObs (keysObserved : List Nat) (s : String) : Option Obs :=
  match s.splitOn "/" with
  | [r, d, cs] => do
    let cells ← (cs.splitOn ",").mapM parseCell
    if cells.length ≠ keysObserved.length then none
    else pure { res := ← parseRes r, depth := ← d.toNat?, cells := keysObserved.zip cells }
  | _ => none

def parseTrace (keysObserved : List Nat) (s : String) : Option (List Obs) :=
  if s = "-" then some [] else (s.splitOn ";").mapM (parseObs keysObserved)

def modelLine (line : String) : String :=
  match parseCase line with
  | some (d, ops, keysObserved) =>
    let os := trace keysObserved ⟨d, []⟩ ops
    if os.isEmpty then "-" else ";".intercalate (os.map showObs)
  | none => "bad-case"

/-- values an implementation may confuse with "absent" -/
def falsyVal : Val → Bool
  | .leaf (.sc .null) => true
  | .leaf (.sc (.bool false)) => true
  | .leaf (.sc (.int 0)) => true
  | .leaf (.sc (.num 0)) => true
  | .leaf (.sc (.str "")) => true
  | .leaf (.arr []) => true
  | .obj [] => true
  | .obj [(_, .leaf (.sc .null))] => true
  | _ => false

/-- tags of a restoring rollback: which kind of value came back -/
def restoredTags (before after : Snap) : List String :=
  (before.zip after).foldl (fun acc (b, a) =>
    if b.2 == a.2 then acc else
      match a.2.val with
      | none => "rb_to_absent" :: acc
      | some v => (if v == Val.null then ["rb_to_null"] else []) ++ (if falsyVal v then ["rb_to_falsy"] else []) ++ acc) []

def tagsOf (ops : List Op) (init : Snap) (os : List Obs) : List String :=
  let rec go (depth : Nat) (prev : Snap) : List Op → List Obs → List String
    | op :: ops, o :: os =>
      let t :=
        (match op with
         | .rollback => (if depth > 0 && o.cells != prev then ["rb_restoring", "nontrivial"] ++ restoredTags prev o.cells else [])
                        ++ (if depth == 0 then ["noop_close"] else []) ++ (if depth ≥ 2 then ["rb_nested"] else [])
         | .commit => (if depth ≥ 2 then ["commit_nested"] else []) ++ (if depth == 0 then ["noop_close"] else [])
         | .setNested _ _ _ => (match o.res with | .err .fieldNotFound => ["nested_fnf"] | .err .typeMismatch => ["nested_tm"] | _ => ["nested_ok"])
         | _ => [])
      t ++ go o.depth o.cells ops os
    | _, _ => []
  (go 0 init ops os).eraseDups

def oracleLine (line : String) : String :=
  match line.splitOn " | " with
  | [c, o] =>
    match parseCase c with
    | none => "bad-input"
    | some (d, ops, keysObserved) =>
    match parseTrace keysObserved o.trimAscii.toString with
    | none => "bad-input"
    | some os =>
      let init := proj keysObserved d
      if checkFrom [] init ops os then
        let lenTag := s!"len{ops.length}"
        joinSp ("ok" :: lenTag :: tagsOf ops init os)
      else
        match firstBad 0 [] init ops os with
        | some i => s!"fail stepOk@{i}"
        | none => "fail checkFrom"
  | _ => "bad-input"

def main (args : List String) : IO Unit :=
  match args with
  | ["model"] => mapLines modelLine
  | ["oracle"] => mapLines oracleLine
  | _ => IO.eprintln "usage: drv_c10 model|oracle"
