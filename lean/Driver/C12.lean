import RreModel.Proto
import RreModel.C12.Spec
import RreModel.C12.Spec2
import RreModel.C12.Clear
/-
Driver for C12 (see harness/src/bin/c12.rs for the line formats).
  drv_c12 model   : case        ↦ observation predicted by the model
  drv_c12 oracle  : case | obs  ↦ `ok <tags>` / `fail <clause>` (the Spec predicates on the observations)
Case kinds: TW, WM (T: `wmStepOk`; S/N: `wmfStepOk`), WS T (`wsOk`), WS S/N (`wssOk`, observation `hang` = the constructor did
not return), AN none, S, T (`anStepOk`), AN E (session, `ansStepOk`).
Round 4 case kinds (Spec2.lean): KW (`kwOk`: the stream operators of operators.rs), ST (`stOk`: StdDev value, any percentile), MS (`msOk`:
manager statistics, moving average, aggregate across windows), TS (`tsOk`), AS (`asOk`), SA (`anomaliesOk` / `trendOk`), EV (`evOk`). The
float operations of the model (`FOps` / `FCmp`) are instantiated with Lean's `Float` (`floatOps`, `floatCmp`, `pctIdxF`).
`average` divides in IEEE double precision exactly as the Rust code does (`sum as f64 / n as f64`);
floats cross the wire as bit patterns only.
-/
open Proto C12

/-- f64 division of two exactly representable integers, as a bit pattern -/
def divBits (s : Int) (n : Nat) : Nat := (Float.ofInt s / Float.ofNat n).toBits.toNat

-- ---------------------------------------------------------------- parsing the case
def items (s : String) : List String := if s = "-" then [] else s.splitOn ","

def parseVal (s : String) : Option (Option Int) :=
  if s = "s" ∨ s = "m" ∨ s.startsWith "t" then some none
  else if s.startsWith "n" ∨ s.startsWith "i" then (String.ofList (s.toList.drop 1)).toInt?.map some
  else none

def stripFlags (s : String) : String × Bool :=
  let cs := s.toList.reverse
  let fl := cs.takeWhile (fun c => c = 'x' ∨ c = 'y')
  (String.ofList (cs.dropWhile (fun c => c = 'x' ∨ c = 'y')).reverse, fl.isEmpty)

/-- `ts:val[x][y]` ↦ (event, passes the stream/type filter) -/
def parseEv (id : Nat) (tok : String) : Option (Ev × Bool) :=
  let (core, pass) := stripFlags tok
  match core.splitOn ":" with
  | [ts, v] => do
    let ts ← ts.toNat?
    let v ← parseVal v
    pure ({ id := id, ts := ts, val := v }, pass)
  | _ => none

def enum {α} (l : List α) : List (Nat × α) := (List.range l.length).zip l

/-- the finer view of the field for the `AG` cases -/
def parseFVal (s : String) : Option FVal :=
  let rest := String.ofList (s.toList.drop 1)
  if s = "s" then some (.str 7) else if s = "m" then some .missing
  else if s.startsWith "n" then rest.toInt?.map .num
  else if s.startsWith "i" then rest.toInt?.map .int
  else if s.startsWith "t" then rest.toInt?.map .str
  else none

def parseAEv (id : Nat) (tok : String) : Option AEv :=
  match tok.splitOn ":" with
  | [_, v] => (parseFVal v).map fun fv => { id := id, v := fv }
  | _ => none

def parseEvs (s : String) : Option (List Ev) :=
  (enum (items s)).mapM fun (i, t) => (parseEv i t).map (·.1)

/-- a duration: `<ms>` (`Duration::from_millis`) or `u<micros>` (`Duration::from_micros`); every component reads it with
`as_millis()`, which truncates — the model works in whole milliseconds -/
def parseDurArg (s : String) : Option DurArg :=
  if s.startsWith "u" then (String.ofList (s.toList.drop 1)).toNat?.map DurArg.micros else s.toNat?.map DurArg.millis

/-- the milliseconds of the token: `DurArg.ms` (Model.lean; `C12.parseDur_truncates`: = `as_millis()` of the `Duration` the harness builds) -/
def parseDur (s : String) : Option Nat := (parseDurArg s).map DurArg.ms

/-- the numeric view of a field over the extended reals (`XV` cases) -/
def parseXVal (s : String) : Option (Option XNum) :=
  if s = "s" ∨ s = "m" then some none
  else if s = "p" then some (some .pinf) else if s = "q" then some (some .ninf) else if s = "z" then some (some .nan)
  else if s = "M" then some (some .hi) else if s = "L" then some (some .lo)
  else if s.startsWith "n" ∨ s.startsWith "i" then (String.ofList (s.toList.drop 1)).toInt?.map (fun i => some (.fin i))
  else none

def parseXEv (tok : String) : Option (Option XNum) :=
  match tok.splitOn ":" with
  | [_, v] => parseXVal v
  | _ => none

def parseWType (s : String) : Option WType :=
  if s = "S" then some .sliding else if s = "T" then some .tumbling else if s = "N" then some .session else none

def parseTWOp (i : Nat) (tok : String) : Option TWOp :=
  let rest := String.ofList (tok.toList.drop 1)
  if tok.startsWith "a" then (parseEv i rest).map fun p => .add p.1
  else if tok.startsWith "r" then (parseEv i rest).map fun p => .record p.1
  else none

/-- an op list with `c` (= `clear()`) tokens: the events are numbered in the order they are offered, clears do not count -/
def parseCOps {α : Type} (f : Nat → String → Option α) : Nat → List String → Option (List (COp α))
  | _, [] => some []
  | k, tok :: rest =>
    if tok = "c" then (parseCOps f k rest).map (COp.clear :: ·)
    else do
      let a ← f k tok
      let r ← parseCOps f (k + 1) rest
      pure (COp.op a :: r)

def copEvents {α : Type} : List (COp α) → List α
  | [] => []
  | .op a :: r => a :: copEvents r
  | .clear :: r => copEvents r

/-- did the history go on after a clear? -/
def reusedAfterClear {α : Type} : List (COp α) → Bool
  | [] => false
  | .clear :: r => r.any (fun o => match o with | .op _ => true | .clear => false) || reusedAfterClear r
  | _ :: r => reusedAfterClear r

def parseANOp (i : Nat) (tok : String) : Option ANOp :=
  match tok.splitOn "@" with
  | [now, ev] => do
    let now ← now.toNat?
    let (e, pass) ← parseEv i ev
    pure { now := now, pass := pass, e := e }
  | _ => none

inductive Case where
  | tw (t : WType) (d start cap : Nat) (ops : List TWOp)
  | wm (t : WType) (d cap maxW : Nat) (es : List Ev)
  | ws (d cap : Nat) (es : List Ev)
  | an (w : AWin) (cap : Nat) (ops : List ANOp)
  | wss (t : WType) (d cap : Nat) (es : List Ev)          -- WindowedStream::new, sliding / session configuration
  | ans (timeout cap : Nat) (ops : List ANOp)             -- StreamAlphaNode with a session window
  | ag (es : List AEv)                                    -- First/Last/CountDistinct/CountBy/Percentile/StdDev of one window
  | xv (vs : List (Option XNum))                          -- min/max/sum of one window whose numeric fields range over all of f64
  | kw (t : WType) (d cap : Nat) (keys : List Nat) (es : List Ev)   -- the stream operators of operators.rs
  | st (ks : List Int) (es : List AEv)                    -- StdDev value and arbitrary percentiles of one window
  | ms (t : WType) (d cap maxW k : Nat) (es : List Ev)    -- manager statistics + moving average
  | ts (t : WType) (d start cap a b : Nat) (ops : List TWOp)  -- TimeWindow statistics
  | ev (vs : List EVal)                                   -- get_numeric / get_string / get_boolean
  | as (w : AWin) (cap : Nat) (ops : List ANOp)           -- StreamAlphaNode statistics
  | sa (t2 : Int) (idx : List Nat) (es : List AEv)        -- StreamAnalytics::detect_anomalies / calculate_trend
  | twc (t : WType) (d start cap : Nat) (ops : List (COp TWOp))   -- TW / AN / AN E histories with `c` = clear() tokens
  | anc (w : AWin) (cap : Nat) (ops : List (COp ANOp))
  | ansc (timeout cap : Nat) (ops : List (COp ANOp))

def parseEVal (s : String) : Option EVal :=
  let rest := String.ofList (s.toList.drop 1)
  if s = "m" then some .missing else if s = "u" then some .null
  else if s = "b0" then some (.boolean false) else if s = "b1" then some (.boolean true)
  else if s = "p" then some (.number .pinf) else if s = "q" then some (.number .ninf) else if s = "z" then some (.number .nan)
  else if s = "M" then some (.number .hi) else if s = "L" then some (.number .lo)
  else if s.startsWith "n" then rest.toInt?.map fun i => .number (.fin i)
  else if s.startsWith "i" then rest.toInt?.map .integer
  else if s.startsWith "t" then rest.toInt?.map .string
  else none

def parseCase (line : String) : Option Case :=
  match tokens line with
  | ["KW", t, d, c, ks, es] => do
    let keys ← parseNats? ks
    let es ← parseEvs es
    if keys.length ≠ es.length then none
    else pure (.kw (← parseWType t) (← parseDur d) (← c.toNat?) keys es)
  | ["ST", ks, es] => do
    pure (.st (← (items ks).mapM (·.toInt?)) (← (enum (items es)).mapM fun (i, t) => parseAEv i t))
  | ["MS", t, d, c, m, k, es] => do
    pure (.ms (← parseWType t) (← parseDur d) (← c.toNat?) (← m.toNat?) (← k.toNat?) (← parseEvs es))
  | ["TS", t, d, s, c, a, b, ops] => do
    let ops ← (enum (items ops)).mapM fun (i, x) => parseTWOp i x
    pure (.ts (← parseWType t) (← parseDur d) (← s.toNat?) (← c.toNat?) (← a.toNat?) (← b.toNat?) ops)
  | ["EV", vs] => (items vs).mapM parseEVal |>.map .ev
  | ["SA", t2, idx, es] => do
    let idx ← parseNats? idx
    let es ← (enum (items es)).mapM fun (i, t) => parseAEv i t
    if idx.length ≠ es.length then none else pure (.sa (← t2.toInt?) idx es)
  | ["AS", w, d, c, ops] => do
    let d ← parseDur d
    let w ← (if w = "-" then some AWin.none else if w = "S" then some (AWin.sliding d)
             else if w = "T" then some (AWin.tumbling d) else none)
    let ops ← (enum (items ops)).mapM fun (i, x) => parseANOp i x
    pure (.as w (← c.toNat?) ops)
  | ["TW", t, d, s, c, ops] => do
    let t ← parseWType t
    if (items ops).contains "c" then
      pure (.twc t (← parseDur d) (← s.toNat?) (← c.toNat?) (← parseCOps parseTWOp 0 (items ops)))
    else
    let ops ← (enum (items ops)).mapM fun (i, x) => parseTWOp i x
    pure (.tw t (← parseDur d) (← s.toNat?) (← c.toNat?) ops)
  | ["WM", t, d, c, m, es] => do
    pure (.wm (← parseWType t) (← parseDur d) (← c.toNat?) (← m.toNat?) (← parseEvs es))
  | ["WS", "T", d, c, es] => do
    pure (.ws (← parseDur d) (← c.toNat?) (← parseEvs es))
  | ["WS", t, d, c, es] => do
    let t ← parseWType t
    pure (.wss t (← parseDur d) (← c.toNat?) (← parseEvs es))
  | ["AG", es] => do
    pure (.ag (← (enum (items es)).mapM fun (i, t) => parseAEv i t))
  | ["XV", k, es] => if k = "r" ∨ k = "a" then (items es).mapM parseXEv |>.map .xv else none
  | ["AN", "E", d, c, ops] => do
    if (items ops).contains "c" then
      pure (.ansc (← parseDur d) (← c.toNat?) (← parseCOps parseANOp 0 (items ops)))
    else
    let ops ← (enum (items ops)).mapM fun (i, x) => parseANOp i x
    pure (.ans (← parseDur d) (← c.toNat?) ops)
  | ["AN", w, d, c, ops] => do
    let d ← parseDur d
    let w ← (if w = "-" then some AWin.none else if w = "S" then some (AWin.sliding d)
             else if w = "T" then some (AWin.tumbling d) else none)
    if (items ops).contains "c" then
      pure (.anc w (← c.toNat?) (← parseCOps parseANOp 0 (items ops)))
    else
    let ops ← (enum (items ops)).mapM fun (i, x) => parseANOp i x
    pure (.an w (← c.toNat?) ops)
  | _ => none

-- ---------------------------------------------------------------- rendering (model mode)
def showIds (es : List Ev) : String := showNats (es.map (·.id))
def showON (x : Option Nat) : String := match x with | none => "-" | some n => toString n
def showOI (x : Option Int) : String := match x with | none => "-" | some n => toString n
def showAgg (a : Agg) : String := s!"{a.count},{a.sum},{showON a.avg},{showOI a.min},{showOI a.max}"
def showAgg3 (a : Nat × Int × Option Nat) : String := s!"{a.1},{a.2.1},{showON a.2.2}"
def b01 (b : Bool) : String := if b then "1" else "0"

def showTWObs (o : TWObs) : String :=
  match o.aggs with
  | [t, a, op] => s!"{b01 o.ret}/{o.start}/{o.stop}/{showIds o.events}/{showAgg t}~{showAgg a}~{showAgg3 o.agg3}~{showAgg op}"
  | _ => "bad-obs"

def showWObs (w : WObs) : String := s!"{w.start}/{w.stop}/{showIds w.events}/{showAgg w.agg}"
def showWindows (ws : List WObs) : String := if ws.isEmpty then "_" else "+".intercalate (ws.map showWObs)
def joinSteps (ss : List String) : String := if ss.isEmpty then "-" else ";".intercalate ss
def sortedNats (l : List Nat) : List Nat := l.mergeSort (fun a b => decide (a ≤ b))

def showAgg2 (a : Agg2) : String :=
  let cb := if a.countBy.isEmpty then "_" else ",".intercalate (a.countBy.map fun p => s!"{p.1}={p.2}")
  s!"{showON a.first}/{showON a.last}/{a.distinct}/{cb}/{",".intercalate (a.pcts.map showOI)}/{if a.stdDefined then "+" else "-"}"

def showX : XNum → String
  | .ninf => "q" | .lo => "L" | .fin i => toString i | .hi => "M" | .pinf => "p" | .nan => "z"
def showOX (x : Option XNum) : String := match x with | none => "-" | some v => showX v
def parseOX (s : String) : Option (Option XNum) :=
  if s = "-" then some none else if s = "q" then some (some .ninf) else if s = "L" then some (some .lo)
  else if s = "M" then some (some .hi) else if s = "p" then some (some .pinf) else if s = "z" then some (some .nan)
  else s.toInt?.map fun i => some (.fin i)

/-- `T:min,max,sum/A:min,max/O:min,max`; `n` = not observed (sum with NaN / ±f64::MAX present: order dependent;
operators::Min/Max with a NaN present: they compare with `partial_cmp().unwrap()`) -/
def showXV (vs : List (Option XNum)) : String :=
  let mm := s!"{showOX (xMin vs)},{showOX (xMax vs)}"
  let sum := showX (xSumFold vs)
  let o := if (vs.filterMap id).contains .nan then "n,n" else mm
  s!"{mm},{sum}/{mm}/{o}"

-- ---- round 4: stream operators, StdDev / percentiles, statistics, field extraction
/-- the f64 operations of the aggregates, in IEEE double arithmetic (what the Rust code computes with) -/
def floatOps : FOps Float :=
  { zero := 0.0, ofInt := Float.ofInt, ofNat := Float.ofNat, add := (· + ·), sub := (· - ·), mul := (· * ·), div := (· / ·),
    sqrt := Float.sqrt }

/-- `(percentile / 100.0 * (n - 1) as f64).round() as usize` for the percentile `k / 10` (the harness builds it as `k as f64 / 10.0`) -/
def pctIdxF (k : Int) (n : Nat) : Nat := ((Float.ofInt k / 10.0) / 100.0 * Float.ofNat (n - 1)).round.toUSize.toNat

/-- the key of an event: `keys[id]` as the harness's key selector reads it -/
def keyFn (keys : List Nat) (e : Ev) : Nat := keyView (keys[e.id]?.getD 0)

def showWin (w : WinO) : String := s!"{showIds w.events}~{showAgg w.agg}"
def showRed (l : List Ev) : String := ".".intercalate (l.map fun e => toString e.id)
def showORed (l : Option (List Ev)) : String := match l with | none => "-" | some l => showRed l
def joinedS (v : List String) (sort : Bool) (sep : String) : String :=
  let v := if sort then v.mergeSort (fun a b => !(decide (b < a))) else v
  if v.isEmpty then "_" else sep.intercalate v
def byKeyS {β : Type} (m : List (Nat × β)) (f : β → String) : String :=
  joinedS (m.map fun p => s!"{p.1}={f p.2}") false ";"

def showKW (t : WType) (o : KWObs) : String :=
  let tum := decide (t = .tumbling)
  let wf := if tum then showNats (sortedNats (o.wf.map (·.id))) else showIds o.wf
  "!".intercalate
    [ byKeyS o.ka (fun ws => joinedS (ws.map showWin) tum "+"),
      byKeyS o.kr (fun rs => joinedS (rs.map showRed) tum "+"),
      joinedS (o.wa.map showWin) tum "+",
      joinedS (o.wr.map showRed) tum "+",
      wf,
      byKeyS o.ks (fun p => s!"{p.1}:{showWin p.2.1}:{showORed p.2.2}"),
      showNats o.kk,
      showIds o.kf,
      byKeyS o.gs (fun p => s!"{p.1}:{showWin p.2.1}:{showON p.2.2.1}:{showON p.2.2.2}"),
      s!"{o.ds.1}:{o.ds.2.1}:{showWin o.ds.2.2.1}:{showORed o.ds.2.2.2}" ]

def showST (o : STObs) : String :=
  s!"{showON o.std}/{if o.pcts.isEmpty then "-" else ",".intercalate (o.pcts.map showOI)}"

def stModel (ks : List Int) (es : List AEv) : STObs :=
  { std := (aggStdDev floatOps es).map fun x => x.toBits.toNat, pcts := ks.map fun k => aggPercentileAt (pctIdxF k) es }

def showMS (o : MSObs) : String :=
  s!"{showWindows o.windows}!{o.total}/{showON o.latest}/{o.stats.totalWindows},{o.stats.totalEvents},{showON o.stats.oldest},{showON o.stats.newest},{o.stats.avg}/{showON o.ma}/{o.acrossSum},{o.acrossCount}"

def showTS (o : TSObs) : String :=
  s!"{showIds o.events}/{showON o.latest}/{showIds o.inRange}/{o.durMs}/{o.afterClear}"

def floatCmp : FCmp Float :=
  { abs := Float.abs, gt := fun a b => decide (a > b), lt := fun a b => decide (a < b), hundred := 100.0, five := 5.0, negFive := -5.0 }

def showTrend : Trend → String
  | .increasing => "I" | .decreasing => "D" | .stable => "S"

def showAS (o : ASObs) : String :=
  s!"{showIds o.events}/{o.events.length}/{o.stats.count},{showON o.stats.oldest},{showON o.stats.newest},{showON o.stats.durMs}/{o.afterClear}"

def showEV (v : EVal) : String :=
  s!"{showOX v.numeric}:{showOI v.str}:{match v.bool with | none => "-" | some b => b01 b}"

def modelLine (line : String) : String :=
  match parseCase line with
  | some (.tw t d s c ops) => joinSteps ((twTrace divBits (TW.new t d s c) ops).map showTWObs)
  | some (.wm t d c m es) =>
    match wmTrace divBits (WM.new t d c m) es with
    | some tr => joinSteps (tr.map showWindows)
    | none => "panic"
  | some (.ws d c es) =>
    match wsTumbling d c es with
    | some ws => s!"{showWindows (ws.map (TW.wobs divBits))};{showNats (sortedNats (ws.map (·.events.length)))}"
    | none => "panic"
  | some (.an w c ops) =>
    match anTrace { window := w, cap := c, events := [] } ops with
    | some tr => joinSteps (tr.map fun o => s!"{b01 o.ret}/{showIds o.events}")
    | none => "panic"
  | some (.wss t d c es) =>
    let ws := wsSliding t d c es
    s!"{showWindows (ws.map (TW.wobs divBits))};{showNats (ws.map (·.events.length))}"
  | some (.ans timeout c ops) =>
    joinSteps ((ansTrace { timeout := timeout, cap := c, events := [], last := none } ops).map
      fun o => s!"{b01 o.ret}/{showIds o.events}")
  | some (.ag es) => showAgg2 (aggregate2 es)
  | some (.xv vs) => showXV vs
  | some (.kw t d c keys es) =>
    if t ≠ .tumbling ∧ d < 2 then "bad-case"
    else match kwModel divBits (keyFn keys) t d c es with
      | some o => showKW t o
      | none => "panic"
  | some (.st ks es) => showST (stModel ks es)
  | some (.ms t d c m k es) =>
    match msModel divBits (WM.new t d c m) k es with
    | some o => showMS o
    | none => "panic"
  | some (.ts t d s c a b ops) => showTS (tsModel (TW.new t d s c) a b ops)
  | some (.ev vs) => if vs.isEmpty then "-" else ",".intercalate (vs.map showEV)
  | some (.twc t d s c ops) => joinSteps ((twTraceC divBits (TW.new t d s c) ops).map showTWObs)
  | some (.anc w c ops) =>
    match anTraceC { window := w, cap := c, events := [] } ops with
    | some tr => joinSteps (tr.map fun o => s!"{b01 o.ret}/{showIds o.events}")
    | none => "panic"
  | some (.ansc timeout c ops) =>
    joinSteps ((ansTraceC { timeout := timeout, cap := c, events := [], last := none } ops).map
      fun o => s!"{b01 o.ret}/{showIds o.events}")
  | some (.sa t2 idx es) =>
    let ws := windowsByIndex idx es
    s!"{showNats (detectAnomalies floatOps floatCmp (Float.ofInt t2 / 2.0) ws)}/{showTrend (calcTrend floatOps floatCmp ws)}"
  | some (.as w c ops) =>
    match asModel { window := w, cap := c, events := [] } ops with
    | some o => showAS o
    | none => "panic"
  | none => "bad-case"

-- ---------------------------------------------------------------- parsing observations (oracle mode)
def optNat? (s : String) : Option (Option Nat) := if s = "-" then some none else s.toNat?.map some
def optInt? (s : String) : Option (Option Int) := if s = "-" then some none else s.toInt?.map some

def parseAgg (s : String) : Option Agg :=
  match s.splitOn "," with
  | [c, sm, av, mn, mx] => do
    pure { count := ← c.toNat?, sum := ← sm.toInt?, avg := ← optNat? av, min := ← optInt? mn, max := ← optInt? mx }
  | _ => none

def parseAgg3 (s : String) : Option (Nat × Int × Option Nat) :=
  match s.splitOn "," with
  | [c, sm, av] => do pure (← c.toNat?, ← sm.toInt?, ← optNat? av)
  | _ => none

def resolve (tbl : List Ev) (s : String) : Option (List Ev) := do
  let ids ← parseNats? s
  ids.mapM fun i => tbl[i]?

def parseBool (s : String) : Option Bool := if s = "1" then some true else if s = "0" then some false else none

def parseTWObs (tbl : List Ev) (s : String) : Option TWObs :=
  match s.splitOn "/" with
  | [r, a, b, ids, ag] =>
    match ag.splitOn "~" with
    | [t, x, e3, o] => do
      pure { ret := ← parseBool r, start := ← a.toNat?, stop := ← b.toNat?, events := ← resolve tbl ids,
             aggs := [← parseAgg t, ← parseAgg x, ← parseAgg o], agg3 := ← parseAgg3 e3 }
    | _ => none
  | _ => none

def parseWObs (tbl : List Ev) (s : String) : Option WObs :=
  match s.splitOn "/" with
  | [a, b, ids, ag] => do
    pure { start := ← a.toNat?, stop := ← b.toNat?, events := ← resolve tbl ids, agg := ← parseAgg ag }
  | _ => none

def parseWindows (tbl : List Ev) (s : String) : Option (List WObs) :=
  if s = "_" then some [] else (s.splitOn "+").mapM (parseWObs tbl)

def steps (s : String) : List String := if s = "-" then [] else s.splitOn ";"

def parseANObs (tbl : List Ev) (s : String) : Option ANObs :=
  match s.splitOn "/" with
  | [r, ids] => do pure { ret := ← parseBool r, events := ← resolve tbl ids }
  | _ => none

def parseCountBy (s : String) : Option (List (Int × Nat)) :=
  if s = "_" then some [] else
  (s.splitOn ",").mapM fun kv =>
    match kv.splitOn "=" with
    | [k, c] => do pure (← k.toInt?, ← c.toNat?)
    | _ => none

def parseAgg2 (s : String) : Option Agg2 :=
  match s.splitOn "/" with
  | [f, l, d, cb, ps, sd] => do
    let ps ← (ps.splitOn ",").mapM optInt?
    let sd ← (if sd = "+" then some true else if sd = "-" then some false else none)
    pure { first := ← optNat? f, last := ← optNat? l, distinct := ← d.toNat?, countBy := ← parseCountBy cb,
           pcts := ps, stdDefined := sd }
  | _ => none

-- ---- round 4 observations
def parseWin (tbl : List Ev) (s : String) : Option WinO :=
  match s.splitOn "~" with
  | [ids, ag] => do pure { events := ← resolve tbl ids, agg := ← parseAgg ag }
  | _ => none

def parseRed (tbl : List Ev) (s : String) : Option (List Ev) :=
  (s.splitOn ".").mapM fun x => do tbl[← x.toNat?]?

def parseORed (tbl : List Ev) (s : String) : Option (Option (List Ev)) :=
  if s = "-" then some none else (parseRed tbl s).map some

def listOf {β : Type} (sep : String) (f : String → Option β) (s : String) : Option (List β) :=
  if s = "_" then some [] else (s.splitOn sep).mapM f

def keyed {β : Type} (f : String → Option β) (s : String) : Option (List (Nat × β)) :=
  listOf ";" (fun kv => match kv.splitOn "=" with
    | [k, v] => do pure (← k.toNat?, ← f v)
    | _ => none) s

def parseKW (tbl : List Ev) (s : String) : Option KWObs :=
  match s.splitOn "!" with
  | [ka, kr, wa, wr, wf, ks, kk, kf, gs, ds] => do
    let ks ← keyed (fun v => match v.splitOn ":" with
      | [c, w, r] => do pure (← c.toNat?, ← parseWin tbl w, ← parseORed tbl r)
      | _ => none) ks
    let gs ← keyed (fun v => match v.splitOn ":" with
      | [c, w, f, l] => do pure (← c.toNat?, ← parseWin tbl w, ← optNat? f, ← optNat? l)
      | _ => none) gs
    let ds ← (match ds.splitOn ":" with
      | [c, l, w, r] => do pure (← c.toNat?, ← l.toNat?, ← parseWin tbl w, ← parseORed tbl r)
      | _ => none)
    pure { ka := ← keyed (listOf "+" (parseWin tbl)) ka, kr := ← keyed (listOf "+" (parseRed tbl)) kr,
           wa := ← listOf "+" (parseWin tbl) wa, wr := ← listOf "+" (parseRed tbl) wr, wf := ← resolve tbl wf,
           ks := ks, kk := ← parseNats? kk, kf := ← resolve tbl kf, gs := gs, ds := ds }
  | _ => none

def parseST (s : String) : Option STObs :=
  match s.splitOn "/" with
  | [sd, ps] => do pure { std := ← optNat? sd, pcts := ← (if ps = "" then some [] else (ps.splitOn ",").mapM optInt?) }
  | _ => none

def parseMS (tbl : List Ev) (s : String) : Option MSObs :=
  match s.splitOn "!" with
  | [w, rest] =>
    match rest.splitOn "/" with
    | [tot, lat, st, ma, ac] =>
      match st.splitOn ",", ac.splitOn "," with
      | [tw, te, od, nw, av], [as, ac] => do
        pure { windows := ← parseWindows tbl w, total := ← tot.toNat?, latest := ← optNat? lat,
               stats := { totalWindows := ← tw.toNat?, totalEvents := ← te.toNat?, oldest := ← optNat? od, newest := ← optNat? nw,
                          avg := ← av.toNat? },
               ma := ← optNat? ma, acrossSum := ← as.toInt?, acrossCount := ← ac.toInt? }
      | _, _ => none
    | _ => none
  | _ => none

def parseTS (tbl : List Ev) (s : String) : Option TSObs :=
  match s.splitOn "/" with
  | [ids, lat, rng, du, ac] => do
    pure { events := ← resolve tbl ids, latest := ← optNat? lat, inRange := ← resolve tbl rng, durMs := ← du.toNat?,
           afterClear := ← ac.toNat? }
  | _ => none

def parseAS (tbl : List Ev) (s : String) : Option (ASObs × Nat) :=
  match s.splitOn "/" with
  | [ids, cnt, st, ac] =>
    match st.splitOn "," with
    | [c, od, nw, du] => do
      pure ({ events := ← resolve tbl ids,
              stats := { count := ← c.toNat?, oldest := ← optNat? od, newest := ← optNat? nw, durMs := ← optNat? du },
              afterClear := ← ac.toNat? }, ← cnt.toNat?)
    | _ => none
  | _ => none

def parseEVObs (s : String) : Option (Option XNum × Option Int × Option Bool) :=
  match s.splitOn ":" with
  | [n, st, b] => do
    let b ← (if b = "-" then some none else (parseBool b).map some)
    pure (← parseOX n, ← optInt? st, b)
  | _ => none

-- ---------------------------------------------------------------- oracle
def isLate (ts : List Nat) : Bool :=
  (ts.foldl (fun (acc : Nat × Bool) t => (max acc.1 t, acc.2 || decide (t < acc.1))) (0, false)).2

def tagsOf (comp : String) (ts : List Nat) (extra : List String) : String :=
  let late := isLate ts
  joinSp (["ok", comp] ++ (if late then ["late"] else ["in-order"]) ++ extra
          ++ [s!"len{ts.length}"] ++ (if late && ts.length ≥ 2 then ["nontrivial"] else []))

def twFirstBad (t : WType) (d cap : Nat) : Nat → TWObs → List TWOp → List TWObs → Option (Nat × String)
  | _, _, [], [] => none
  | i, o, op :: ops, o' :: os =>
    if twStepOk divBits t d cap o op o' then twFirstBad t d cap (i + 1) o' ops os
    else
      let why :=
        if !(o'.aggs.all (aggOk divBits o'.events) && aggOk3 divBits o'.events o'.agg3) then "aggregate"
        else match op with
          | .record _ => if !(o'.events.all fun x => decide (o'.start ≤ x.ts)) then "record-retains-too-old"
                         else "record-retained-set"
          | .add _ => "add-event"
      some (i, why)
  | i, _, _, _ => some (i, "length")

def twFirstBadC (t : WType) (d cap : Nat) : Nat → TWObs → List (COp TWOp) → List TWObs → Option (Nat × String)
  | _, _, [], [] => none
  | i, o, op :: ops, o' :: os =>
    if twStepOkC divBits t d cap o op o' then twFirstBadC t d cap (i + 1) o' ops os
    else
      let why :=
        if !(o'.aggs.all (aggOk divBits o'.events) && aggOk3 divBits o'.events o'.agg3) then "aggregate"
        else match op with
          | .clear => "clear"
          | .op (.record _) => if !(o'.events.all fun x => decide (o'.start ≤ x.ts)) then "record-retains-too-old"
                               else "record-retained-set"
          | .op (.add _) => "add-event"
      some (i, why)
  | i, _, _, _ => some (i, "length")

def anFirstBadC (w : AWin) (cap : Nat) : Nat → List Ev → List (COp ANOp) → List ANObs → Option (Nat × String)
  | _, _, [], [] => none
  | i, o, .op op :: ops, o' :: os =>
    if anStepOk w cap o op o' then anFirstBadC w cap (i + 1) o'.events ops os
    else
      let why :=
        if o'.ret != (op.pass && w.inSpan op.now op.e.ts) then "accept"
        else if o'.ret && !(o'.events.all fun x => w.live op.now x.ts) then "retains-outside-window"
        else "retained-set"
      some (i, why)
  | i, _, .clear :: ops, o' :: os =>
    if o'.ret && o'.events.isEmpty then anFirstBadC w cap (i + 1) [] ops os else some (i, "clear")
  | i, _, _, _ => some (i, "length")

def ansFirstBadC (timeout cap : Nat) : Nat → Option Nat → List Ev → List (COp ANOp) → List ANObs → Option (Nat × String)
  | _, _, _, [], [] => none
  | i, last, o, .op op :: ops, o' :: os =>
    if ansStepOk timeout cap last o op o' then ansFirstBadC timeout cap (i + 1) (sessLast timeout last op) o'.events ops os
    else some (i, if o'.ret != op.pass then "session-accept" else "session-retained-set")
  | i, _, _, .clear :: ops, o' :: os =>
    if o'.ret && o'.events.isEmpty then ansFirstBadC timeout cap (i + 1) none [] ops os else some (i, "clear")
  | i, _, _, _, _ => some (i, "length")

def wmFirstBad (d cap maxW : Nat) : Nat → List WObs → List Ev → List (List WObs) → Option Nat
  | _, _, [], [] => none
  | i, o, e :: es, o' :: os =>
    if wmStepOk divBits d cap maxW o e o' then wmFirstBad d cap maxW (i + 1) o' es os else some i
  | i, _, _, _ => some i

def anFirstBad (w : AWin) (cap : Nat) : Nat → List Ev → List ANOp → List ANObs → Option (Nat × String)
  | _, _, [], [] => none
  | i, o, op :: ops, o' :: os =>
    if anStepOk w cap o op o' then anFirstBad w cap (i + 1) o'.events ops os
    else
      let why :=
        if o'.ret != (op.pass && w.inSpan op.now op.e.ts) then "accept"
        else if o'.ret && !(o'.events.all fun x => w.live op.now x.ts) then "retains-outside-window"
        else "retained-set"
      some (i, why)
  | i, _, _, _ => some (i, "length")

def wmfFirstBad (d cap maxW : Nat) : Nat → List WObs → List Ev → List (List WObs) → Option Nat
  | _, _, [], [] => none
  | i, o, e :: es, o' :: os =>
    if wmfStepOk divBits d cap maxW o e o' then wmfFirstBad d cap maxW (i + 1) o' es os else some i
  | i, _, _, _ => some i

def ansFirstBad (timeout cap : Nat) : Nat → Option Nat → List Ev → List ANOp → List ANObs → Option (Nat × String)
  | _, _, _, [], [] => none
  | i, last, o, op :: ops, o' :: os =>
    if ansStepOk timeout cap last o op o' then ansFirstBad timeout cap (i + 1) (sessLast timeout last op) o'.events ops os
    else some (i, if o'.ret != op.pass then "session-accept" else "session-retained-set")
  | i, _, _, _, _ => some (i, "length")

/-- tags for the sliding/session manager: did some window end up *without* an event of its span that went to an
earlier window (first-fit), did an event within `d` of the previous arrival open a new window all the same -/
def spanIncomplete (es : List Ev) (o : List WObs) : Bool :=
  o.any fun w => es.any fun x => decide (w.start ≤ x.ts) && decide (x.ts < w.stop) && !(w.events.contains x)
                                  && o.any (fun w2 => w2.events.contains x)

/-- session node: a late event (older than the timeout at the clock) wiped a session that held other events -/
def lateWipe (timeout : Nat) : List Ev → List ANOp → List ANObs → Bool
  | _, [], _ => false
  | _, _, [] => false
  | o, op :: ops, o' :: os =>
    (op.pass && decide (op.now - op.e.ts > timeout) && !o.isEmpty && o'.events.isEmpty) || lateWipe timeout o'.events ops os

def oracleCase (c : Case) (obs : String) : String :=
  match c with
  | .tw t d s cap ops =>
    let tbl := ops.map (·.ev)
    match (steps obs).mapM (parseTWObs tbl) with
    | none => "fail tw-unparsable-observation"
    | some os =>
      let init : TWObs := twInitObs s d
      match twFirstBad t d cap 0 init ops os with
      | some (i, why) => s!"fail tw-{why}@{i}"
      | none =>
        let evicted := os.length > 0 && (os.getLast?.map (·.events.length)).getD 0 < ops.length
        tagsOf "TW" (tbl.map (·.ts))
          ((if ops.any (fun o => match o with | .record _ => true | _ => false) then ["record"] else [])
           ++ (if ops.any (fun o => match o with | .add _ => true | _ => false) then ["add"] else [])
           ++ (if evicted then ["dropped-some"] else [])
           ++ (if os.any (fun o => !o.ret) then ["refused"] else [])
           ++ (if os.any (fun o => o.events.length == cap) then ["at-cap"] else [])
           ++ (if tbl.any (fun e => e.val.isNone) then ["non-numeric"] else []))
  | .wm t d cap maxW es =>
    if obs = "panic" then
      if t = .tumbling ∧ d = 0 ∧ !es.isEmpty then "ok WM panic-zero-duration" else "fail wm-unexpected-panic"
    else if t = .tumbling ∧ d = 0 ∧ !es.isEmpty then "fail wm-expected-panic"
    else
      match (steps obs).mapM (parseWindows es) with
      | none => "fail wm-unparsable-observation"
      | some os =>
        if t = .tumbling then
          match wmFirstBad d cap maxW 0 [] es os with
          | some i => s!"fail wm-step@{i}"
          | none =>
            tagsOf "WM" (es.map (·.ts))
              ((if os.any (fun o => o.length ≥ 2) then ["multi-window"] else [])
               ++ (if os.any (fun o => o.length == maxW) then ["at-window-limit"] else [])
               ++ (if os.any (fun o => o.any fun w => w.events.length == cap) then ["at-cap"] else []))
        else
          match wmfFirstBad d cap maxW 0 [] es os with
          | some i => s!"fail wm-fixed-step@{i}"
          | none =>
            let last := os.getLast?.getD []
            tagsOf (if t = .sliding then "WM-sliding" else "WM-session") (es.map (·.ts))
              ((if os.any (fun o => o.length ≥ 2) then ["multi-window"] else [])
               ++ (if os.any (fun o => o.length == maxW) then ["at-window-limit"] else [])
               ++ (if os.any (fun o => o.any fun w => w.events.length == cap) then ["at-cap"] else [])
               ++ (if os.any (fun o => o.any fun w => w.events.length ≥ 2) then ["shared-window"] else [])
               ++ (if spanIncomplete es last then ["span-incomplete"] else []))
  | .ws d cap es =>
    if obs = "panic" then
      if d = 0 ∧ !es.isEmpty then "ok WS panic-zero-duration" else "fail ws-unexpected-panic"
    else if d = 0 ∧ !es.isEmpty then "fail ws-expected-panic"
    else
      match obs.splitOn ";" with
      | [w, cnt] =>
        match parseWindows es w, parseNats? cnt with
        | some o, some counts =>
          if !(wsOk divBits (if d = 0 then 1 else d) cap es o) then "fail ws-partition"
          else if counts != sortedNats (o.map (·.events.length)) then "fail ws-counts"
          else tagsOf "WS" (es.map (·.ts))
            ((if o.length ≥ 2 then ["multi-window"] else [])
             ++ (if o.any (fun w => w.events.length == cap) then ["at-cap"] else []))
        | _, _ => "fail ws-unparsable-observation"
      | _ => "fail ws-unparsable-observation"
  | .wss t d cap es =>
    if obs = "hang" then "fail ws-sliding-hang"
    else
      match obs.splitOn ";" with
      | [w, cnt] =>
        match parseWindows es w, parseNats? cnt with
        | some o, some counts =>
          if !(wssOk divBits d cap es o) then "fail ws-sliding-grid"
          else if counts != o.map (·.events.length) then "fail ws-sliding-counts"
          else tagsOf (if t = .sliding then "WS-sliding" else "WS-session") (es.map (·.ts))
            ((if o.length ≥ 2 then ["multi-window"] else [])
             ++ (if o.any (fun w => w.events.length == cap) then ["at-cap"] else [])
             ++ (if d ≤ 1 then ["tiny-duration"] else [])
             ++ (if es.any (fun x => (o.filter fun w => w.events.contains x).length ≥ 2) then ["overlap"] else []))
        | _, _ => "fail ws-unparsable-observation"
      | _ => "fail ws-unparsable-observation"
  | .ag es =>
    match parseAgg2 obs with
    | none => "fail ag-unparsable-observation"
    | some a =>
      if agg2Ok es a then
        joinSp (["ok", "AG", s!"len{es.length}"]
          ++ (if a.distinct < ((es.map (·.v)).filter (· ≠ .missing)).length then ["duplicates"] else [])
          ++ (if a.countBy.length < a.distinct then ["merged-keys"] else [])
          ++ (if es.length ≥ 2 then ["nontrivial"] else []))
      else
        let why :=
          if a.first != es.head?.map (·.id) || a.last != es.getLast?.map (·.id) then "first-last"
          else if a.distinct != distinctCount ((es.map (·.v)).filter (· ≠ .missing)) then "count-distinct"
          else if !(countByOk (es.filterMap (·.v.key)) a.countBy) then "count-by"
          else if a.stdDefined != decide (2 ≤ (avals es).length) then "stddev-defined"
          else "percentile"
        s!"fail ag-{why}"
  | .xv vs =>
    let pair (s : String) : Option (Option (Option XNum × Option XNum)) :=
      match s.splitOn "," with
      | ["n", "n"] => some none
      | [a, b] => do pure (some (← parseOX a, ← parseOX b))
      | _ => none
    let hasNan := (vs.filterMap id).contains .nan
    match obs.splitOn "/" with
    | [t, a, o] =>
      match t.splitOn "," with
      | [tmn, tmx, tsum] =>
        match pair s!"{tmn},{tmx}", pair a, pair o with
        | some (some (mn, mx)), some (some (amn, amx)), some op =>
          if !(xMinOk vs mn) then "fail xv-min"
          else if !(xMaxOk vs mx) then "fail xv-max"
          else if !(xMinOk vs amn && xMaxOk vs amx) then "fail xv-aggregator-min-max"
          else if !(match op with | some (omn, omx) => xMinOk vs omn && xMaxOk vs omx | none => hasNan) then "fail xv-operators-min-max"
          -- the sum of exactly the window's numeric values: the closed form where the order of addition does not matter,
          -- the fold in the order of the deque where it does (NaN, ±f64::MAX present)
          else if !(tsum = showX (if xSumComparable vs then xSum vs else xSumFold vs)) then "fail xv-sum"
          else
            let v := vs.filterMap id
            joinSp (["ok", "XV", s!"len{vs.length}"]
              ++ (if v.contains .pinf || v.contains .ninf then ["infinite"] else [])
              ++ (if hasNan then ["nan"] else [])
              ++ (if v.contains .hi || v.contains .lo then ["f64-max"] else [])
              ++ (if mn == some .ninf || mx == some .pinf then ["infinite-extreme"] else [])
              ++ (if v.length ≥ 2 && (v.any fun x => match x with | .fin _ => false | _ => true) then ["nontrivial"] else []))
        | _, _, _ => "fail xv-unparsable-observation"
      | _ => "fail xv-unparsable-observation"
    | _ => "fail xv-unparsable-observation"
  | .kw t d cap keys es =>
    if t ≠ .tumbling ∧ d < 2 then "bad-input"
    else if obs = "panic" then (if wsPanics t d es then "ok KW panic-zero-duration" else "fail kw-unexpected-panic")
    else if wsPanics t d es then "fail kw-expected-panic"
    else
      match parseKW es obs with
      | none => "fail kw-unparsable-observation"
      | some o =>
        let k := keyFn keys
        if kwOk divBits k t d cap es o then
          let kind := if t = .tumbling then "tumbling" else if t = .sliding then "sliding" else "session"
          let multi := o.ka.any fun p => p.2.length ≥ 2
          tagsOf "KW" (es.map (·.ts))
            ([kind, s!"keys{o.kk.length}"] ++ (if multi then ["multi-window"] else [])
             ++ (if o.ka.any (fun p => p.2.any fun w => w.events.length == cap) then ["at-cap"] else [])
             ++ (if keys.contains 9 then ["non-string-key"] else [])
             ++ (if o.kk.length ≥ 2 && multi && !(isLate (es.map (·.ts))) then ["nontrivial"] else []))
        else
          let keysE := o.kk
          let why :=
            if !(keysOk k es keysE && o.ka.map (·.1) == keysE && o.kr.map (·.1) == keysE && o.ks.map (·.1) == keysE && o.gs.map (·.1) == keysE)
              then "keys"
            else if !(o.ka.all fun p => winsOk t (expWindows t d cap (ofKey k p.1 es)) (p.2.map (·.events))) then "keyed-window-events"
            else if !(o.ka.all (fun p => p.2.all fun w => aggOk divBits w.events w.agg) && o.wa.all (fun w => aggOk divBits w.events w.agg))
              then "window-aggregate"
            else if !(o.kr.all fun p => winsOk t ((expWindows t d cap (ofKey k p.1 es)).filter fun w => !w.isEmpty) p.2) then "keyed-window-reduce"
            else if !(winsOk t (expWindows t d cap es) (o.wa.map (·.events))) then "window-events"
            else if !(winsOk t ((expWindows t d cap es).filter fun w => !w.isEmpty) o.wr) then "window-reduce"
            else if !(if t = .tumbling then sameMultiset (expWindows t d cap es).flatten o.wf else (expWindows t d cap es).flatten == o.wf)
              then "window-flatten"
            else if !(o.kf == keysE.flatMap (fun q => ofKey k q es)) then "keyed-flatten"
            else if !(o.ks.all fun p => p.2.1 == (ofKey k p.1 es).length && p.2.2.1.events == ofKey k p.1 es
                        && aggOk divBits p.2.2.1.events p.2.2.1.agg && p.2.2.2 == someIfNonempty (ofKey k p.1 es)) then "keyed-stream"
            else if !(o.gs.all fun p => p.2.1 == (ofKey k p.1 es).length && p.2.2.1.events == ofKey k p.1 es
                        && aggOk divBits p.2.2.1.events p.2.2.1.agg
                        && p.2.2.2.1 == (ofKey k p.1 es).head?.map (·.id) && p.2.2.2.2 == (ofKey k p.1 es).getLast?.map (·.id))
              then "grouped-stream"
            else "data-stream"
          s!"fail kw-{why}"
  | .st ks es =>
    match parseST obs with
    | none => "fail st-unparsable-observation"
    | some o =>
      if stOk ks es o then
        joinSp (["ok", "ST", s!"len{es.length}"]
          ++ (if o.std.isSome then ["stddev-defined"] else [])
          ++ (if o.std == some 0 then ["stddev-zero"] else [])
          ++ (if o.pcts.any (·.isNone) && !(avals es).isEmpty then ["rank-beyond-end"] else [])
          ++ (if ks.any (fun k => (pctRanks k (avals es).length).eraseDups.length ≥ 2) then ["rank-tie"] else [])
          ++ (if (avals es).length ≥ 3 then ["nontrivial"] else []))
      else if !(stdOk (avals es) o.std) then "fail st-stddev" else "fail st-percentile"
  | .ms t d _ _ k es =>
    let willPanic := decide (t = .tumbling) && d == 0 && !es.isEmpty
    if obs = "panic" then (if willPanic then "ok MS panic-zero-duration" else "fail ms-unexpected-panic")
    else if willPanic then "fail ms-expected-panic"
    else
      match parseMS es obs with
      | none => "fail ms-unparsable-observation"
      | some o =>
        if !(o.windows.all fun w => aggOk divBits w.events w.agg) then "fail ms-aggregate"
        else if msOk divBits k o then
          tagsOf "MS" (es.map (·.ts))
            ([s!"k{k}"] ++ (if o.windows.length ≥ 2 then ["multi-window"] else [])
             ++ (if o.windows.length > k then ["older-windows-excluded"] else [])
             ++ (if o.ma.isSome then ["moving-average-defined"] else [])
             ++ (if o.windows.length ≥ 2 && o.ma.isSome then ["nontrivial"] else []))
        else if o.ma != (let recent := ((o.windows.drop (o.windows.length - k)).map (·.events)).flatten
                         if recent.isEmpty then none else some (divBits (vals recent).sum recent.length)) then "fail ms-moving-average"
        else if !(o.acrossSum == (vals ((o.windows.map (·.events)).flatten)).sum
                  && o.acrossCount == Int.ofNat ((o.windows.map (·.events)).flatten).length) then "fail ms-aggregate-across-windows"
        else "fail ms-statistics"
  | .ts _ d _ _ a b ops =>
    let tbl := ops.map (·.ev)
    match parseTS tbl obs with
    | none => "fail ts-unparsable-observation"
    | some o =>
      if tsOk d a b o then
        tagsOf "TS" (tbl.map (·.ts))
          ((if o.inRange.length < o.events.length then ["range-excludes-some"] else [])
           ++ (if !o.inRange.isEmpty then ["range-nonempty"] else []))
      else if o.inRange != o.events.filter (fun x => decide (a ≤ x.ts) && decide (x.ts < b)) then "fail ts-events-in-range"
      else if o.durMs != d || o.afterClear != 0 then "fail ts-duration-clear"
      else "fail ts-latest-timestamp"
  | .sa t2 idx es =>
    let ws := windowsByIndex idx es
    match obs.splitOn "/" with
    | [an, tr] =>
      match parseNats? an, (if tr = "I" then some Trend.increasing else if tr = "D" then some .decreasing else if tr = "S" then some .stable else none) with
      | some an, some tr =>
        if !(anomaliesOk t2 ws an) then "fail sa-anomalies"
        else if !(trendOk ws tr) then "fail sa-trend"
        else
          joinSp (["ok", "SA", s!"windows{ws.length}", s!"trend-{showTrend tr}"]
            ++ (if !an.isEmpty then ["anomalies"] else [])
            ++ (if ws.length ≥ 3 && (avals (ws.take (ws.length - 1)).flatten).length ≥ 10 then ["baseline"] else [])
            ++ (if (trendExact ws).isNone then ["trend-tie"] else [])
            ++ (if ws.length ≥ 3 then ["nontrivial"] else []))
      | _, _ => "fail sa-unparsable-observation"
    | _ => "fail sa-unparsable-observation"
  | .as w _ ops =>
    let willPanic := (match w with | .tumbling 0 => true | _ => false) && ops.any (·.pass)
    if obs = "panic" then (if willPanic then "ok AS panic-zero-duration" else "fail as-unexpected-panic")
    else if willPanic then "fail as-expected-panic"
    else
      let tbl := ops.map (·.e)
      match parseAS tbl obs with
      | none => "fail as-unparsable-observation"
      | some (o, cnt) =>
        if asOk w o && cnt == o.events.length then
          tagsOf "AS" (tbl.map (·.ts))
            ((if o.events.length ≥ 2 then ["several-retained"] else [])
             ++ (if o.stats.oldest.isSome && o.stats.oldest != (o.events.map (·.ts)).min? then ["oldest-not-least"] else []))
        else "fail as-statistics"
  | .ev vs =>
    match (items obs).mapM parseEVObs with
    | none => "fail ev-unparsable-observation"
    | some os =>
      if os.length == vs.length && (vs.zip os).all (fun p => evOk p.1 p.2.1 p.2.2.1 p.2.2.2) then
        joinSp (["ok", "EV", s!"len{vs.length}"] ++ (if vs.length ≥ 2 then ["nontrivial"] else []))
      else "fail ev-field-extraction"
  | .ans timeout cap ops =>
    let tbl := ops.map (·.e)
    match (steps obs).mapM (parseANObs tbl) with
    | none => "fail an-unparsable-observation"
    | some os =>
      match ansFirstBad timeout cap 0 none [] ops os with
      | some (i, why) => s!"fail an-{why}@{i}"
      | none =>
        let accepted := (os.filter (·.ret)).length
        tagsOf "AN" (tbl.map (·.ts))
          (["session"] ++ (if accepted < ops.length then ["rejected-some"] else [])
           ++ (if (os.getLast?.map (·.events.length)).getD 0 < accepted then ["evicted-some"] else [])
           ++ (if os.any (fun o => o.events.length == cap) then ["at-cap"] else [])
           ++ (if os.any (fun o => o.events.length ≥ 2) then ["shared-session"] else [])
           ++ (if lateWipe timeout [] ops os then ["late-wipe"] else []))
  | .twc t d s cap ops =>
    let tbl := (copEvents ops).map (·.ev)
    match (steps obs).mapM (parseTWObs tbl) with
    | none => "fail tw-unparsable-observation"
    | some os =>
      match twFirstBadC t d cap 0 (twInitObs s d) ops os with
      | some (i, why) => s!"fail tw-{why}@{i}"
      | none =>
        -- consistency of the executable oracle with the stated one
        if !twRunOkC divBits t d cap (twInitObs s d) ops os then "fail tw-runOkC"
        else
        tagsOf "TW" (tbl.map (·.ts))
          (["clear"] ++ (if reusedAfterClear ops then ["reused-after-clear"] else [])
           ++ (if os.any (fun o => !o.ret) then ["refused"] else [])
           ++ (if os.any (fun o => o.events.length == cap) then ["at-cap"] else []))
  | .anc w cap ops =>
    let evs := copEvents ops
    let willPanic := (match w with | .tumbling 0 => true | _ => false) && evs.any (·.pass)
    if obs = "panic" then (if willPanic then "ok AN panic-zero-duration" else "fail an-unexpected-panic")
    else if willPanic then "fail an-expected-panic"
    else
      let tbl := evs.map (·.e)
      match (steps obs).mapM (parseANObs tbl) with
      | none => "fail an-unparsable-observation"
      | some os =>
        match anFirstBadC w cap 0 [] ops os with
        | some (i, why) => s!"fail an-{why}@{i}"
        | none =>
          if !anRunOkC w cap [] ops os then "fail an-runOkC"
          else
          let kind := match w with | .none => "no-window" | .sliding _ => "sliding" | .tumbling _ => "tumbling"
          tagsOf "AN" (tbl.map (·.ts))
            ([kind, "clear"] ++ (if reusedAfterClear ops then ["reused-after-clear"] else []))
  | .ansc timeout cap ops =>
    let tbl := (copEvents ops).map (·.e)
    match (steps obs).mapM (parseANObs tbl) with
    | none => "fail an-unparsable-observation"
    | some os =>
      match ansFirstBadC timeout cap 0 none [] ops os with
      | some (i, why) => s!"fail an-{why}@{i}"
      | none =>
        if !ansRunOkC timeout cap none [] ops os then "fail an-runOkC"
        else
        tagsOf "AN" (tbl.map (·.ts))
          (["session", "clear"] ++ (if reusedAfterClear ops then ["reused-after-clear"] else []))
  | .an w cap ops =>
    let willPanic := (match w with | .tumbling 0 => true | _ => false) && ops.any (·.pass)
    if obs = "panic" then (if willPanic then "ok AN panic-zero-duration" else "fail an-unexpected-panic")
    else if willPanic then "fail an-expected-panic"
    else
      let tbl := ops.map (·.e)
      match (steps obs).mapM (parseANObs tbl) with
      | none => "fail an-unparsable-observation"
      | some os =>
        match anFirstBad w cap 0 [] ops os with
        | some (i, why) => s!"fail an-{why}@{i}"
        | none =>
          let accepted := (os.filter (·.ret)).length
          let kind := match w with | .none => "no-window" | .sliding _ => "sliding" | .tumbling _ => "tumbling"
          tagsOf "AN" (tbl.map (·.ts))
            ([kind] ++ (if accepted < ops.length then ["rejected-some"] else [])
             ++ (if (os.getLast?.map (·.events.length)).getD 0 < accepted then ["evicted-some"] else [])
             ++ (if os.any (fun o => o.events.length == cap) then ["at-cap"] else []))

def oracleLine (line : String) : String :=
  match line.splitOn " | " with
  | [c, o] =>
    match parseCase c with
    | some cs => oracleCase cs o.trimAscii.toString
    | none => "bad-input"
  | _ => "bad-input"

def main (args : List String) : IO Unit :=
  match args with
  | ["model"] => mapLines modelLine
  | ["oracle"] => mapLines oracleLine
  | _ => IO.eprintln "usage: drv_c12 model|oracle"
