import RreModel.Proto
import RreModel.C12.Spec
/-
Driver for C12 (see harness/src/bin/c12.rs for the line formats).
  drv_c12 model   : case        ↦ observation predicted by the model
  drv_c12 oracle  : case | obs  ↦ `ok <tags>` / `fail <clause>` (the Spec predicates on the observations)
Case kinds: TW, WM (T: `wmStepOk`; S/N: `wmfStepOk`), WS T (`wsOk`), WS S/N (`wssOk`, observation `hang` = the constructor did
not return), AN none, S, T (`anStepOk`), AN E (session, `ansStepOk`).
`average` divides in IEEE double precision exactly as the Rust code does (`sum as f64 / n as f64`);
floats cross the wire as bit patterns only.
-/
open Proto C12

/-- f64 division of two exactly representable integers, as a bit pattern -/
def divBits (s : Int) (n : Nat) : Nat := (Float.ofInt s / Float.ofNat n).toBits.toNat

-- ---------------------------------------------------------------- parsing the case
def items (s : String) : List String := if s = "-" then [] else s.splitOn ","

def parseVal (s : String) : Option (Option Int) :=
  if s = "s" ∨ s = "m" ∨ s.startsWith "t" then some none
  else if s.startsWith "n" ∨ s.startsWith "i" then (String.ofList (s.toList.drop 1)).toInt?.map some
  else none

def stripFlags (s : String) : String × Bool :=
  let cs := s.toList.reverse
  let fl := cs.takeWhile (fun c => c = 'x' ∨ c = 'y')
  (String.ofList (cs.dropWhile (fun c => c = 'x' ∨ c = 'y')).reverse, fl.isEmpty)

/-- `ts:val[x][y]` ↦ (event, passes the stream/type filter) -/
def parseEv (id : Nat) (tok : String) : Option (Ev × Bool) :=
  let (core, pass) := stripFlags tok
  match core.splitOn ":" with
  | [ts, v] => do
    let ts ← ts.toNat?
    let v ← parseVal v
    pure ({ id := id, ts := ts, val := v }, pass)
  | _ => none

def enum {α} (l : List α) : List (Nat × α) := (List.range l.length).zip l

/-- the finer view of the field for the `AG` cases -/
def parseFVal (s : String) : Option FVal :=
  let rest := String.ofList (s.toList.drop 1)
  if s = "s" then some (.str 7) else if s = "m" then some .missing
  else if s.startsWith "n" then rest.toInt?.map .num
  else if s.startsWith "i" then rest.toInt?.map .int
  else if s.startsWith "t" then rest.toInt?.map .str
  else none

def parseAEv (id : Nat) (tok : String) : Option AEv :=
  match tok.splitOn ":" with
  | [_, v] => (parseFVal v).map fun fv => { id := id, v := fv }
  | _ => none

def parseEvs (s : String) : Option (List Ev) :=
  (enum (items s)).mapM fun (i, t) => (parseEv i t).map (·.1)

/-- a duration: `<ms>` (`Duration::from_millis`) or `u<micros>` (`Duration::from_micros`); every component reads it with
`as_millis()`, which truncates — the model works in whole milliseconds -/
def parseDurArg (s : String) : Option DurArg :=
  if s.startsWith "u" then (String.ofList (s.toList.drop 1)).toNat?.map DurArg.micros else s.toNat?.map DurArg.millis

/-- the milliseconds of the token: `DurArg.ms` (Model.lean; `C12.parseDur_truncates`: = `as_millis()` of the `Duration` the harness builds) -/
def parseDur (s : String) : Option Nat := (parseDurArg s).map DurArg.ms

/-- the numeric view of a field over the extended reals (`XV` cases) -/
def parseXVal (s : String) : Option (Option XNum) :=
  if s = "s" ∨ s = "m" then some none
  else if s = "p" then some (some .pinf) else if s = "q" then some (some .ninf) else if s = "z" then some (some .nan)
  else if s = "M" then some (some .hi) else if s = "L" then some (some .lo)
  else if s.startsWith "n" ∨ s.startsWith "i" then (String.ofList (s.toList.drop 1)).toInt?.map (fun i => some (.fin i))
  else none

def parseXEv (tok : String) : Option (Option XNum) :=
  match tok.splitOn ":" with
  | [_, v] => parseXVal v
  | _ => none

def parseWType (s : String) : Option WType :=
  if s = "S" then some .sliding else if s = "T" then some .tumbling else if s = "N" then some .session else none

def parseTWOp (i : Nat) (tok : String) : Option TWOp :=
  let rest := String.ofList (tok.toList.drop 1)
  if tok.startsWith "a" then (parseEv i rest).map fun p => .add p.1
  else if tok.startsWith "r" then (parseEv i rest).map fun p => .record p.1
  else none

def parseANOp (i : Nat) (tok : String) : Option ANOp :=
  match tok.splitOn "@" with
  | [now, ev] => do
    let now ← now.toNat?
    let (e, pass) ← parseEv i ev
    pure { now := now, pass := pass, e := e }
  | _ => none

inductive Case where
  | tw (t : WType) (d start cap : Nat) (ops : List TWOp)
  | wm (t : WType) (d cap maxW : Nat) (es : List Ev)
  | ws (d cap : Nat) (es : List Ev)
  | an (w : AWin) (cap : Nat) (ops : List ANOp)
  | wss (t : WType) (d cap : Nat) (es : List Ev)          -- WindowedStream::new, sliding / session configuration
  | ans (timeout cap : Nat) (ops : List ANOp)             -- StreamAlphaNode with a session window
  | ag (es : List AEv)                                    -- First/Last/CountDistinct/CountBy/Percentile/StdDev of one window
  | xv (vs : List (Option XNum))                          -- min/max/sum of one window whose numeric fields range over all of f64

def parseCase (line : String) : Option Case :=
  match tokens line with
  | ["TW", t, d, s, c, ops] => do
    let t ← parseWType t
    let ops ← (enum (items ops)).mapM fun (i, x) => parseTWOp i x
    pure (.tw t (← parseDur d) (← s.toNat?) (← c.toNat?) ops)
  | ["WM", t, d, c, m, es] => do
    pure (.wm (← parseWType t) (← parseDur d) (← c.toNat?) (← m.toNat?) (← parseEvs es))
  | ["WS", "T", d, c, es] => do
    pure (.ws (← parseDur d) (← c.toNat?) (← parseEvs es))
  | ["WS", t, d, c, es] => do
    let t ← parseWType t
    pure (.wss t (← parseDur d) (← c.toNat?) (← parseEvs es))
  | ["AG", es] => do
    pure (.ag (← (enum (items es)).mapM fun (i, t) => parseAEv i t))
  | ["XV", k, es] => if k = "r" ∨ k = "a" then (items es).mapM parseXEv |>.map .xv else none
  | ["AN", "E", d, c, ops] => do
    let ops ← (enum (items ops)).mapM fun (i, x) => parseANOp i x
    pure (.ans (← parseDur d) (← c.toNat?) ops)
  | ["AN", w, d, c, ops] => do
    let d ← parseDur d
    let w ← (if w = "-" then some AWin.none else if w = "S" then some (AWin.sliding d)
             else if w = "T" then some (AWin.tumbling d) else none)
    let ops ← (enum (items ops)).mapM fun (i, x) => parseANOp i x
    pure (.an w (← c.toNat?) ops)
  | _ => none

-- ---------------------------------------------------------------- rendering (model mode)
def showIds (es : List Ev) : String := showNats (es.map (·.id))
def showON (x : Option Nat) : String := match x with | none => "-" | some n => toString n
def showOI (x : Option Int) : String := match x with | none => "-" | some n => toString n
def showAgg (a : Agg) : String := s!"{a.count},{a.sum},{showON a.avg},{showOI a.min},{showOI a.max}"
def showAgg3 (a : Nat × Int × Option Nat) : String := s!"{a.1},{a.2.1},{showON a.2.2}"
def b01 (b : Bool) : String := if b then "1" else "0"

def showTWObs (o : TWObs) : String :=
  match o.aggs with
  | [t, a, op] => s!"{b01 o.ret}/{o.start}/{o.stop}/{showIds o.events}/{showAgg t}~{showAgg a}~{showAgg3 o.agg3}~{showAgg op}"
  | _ => "bad-obs"

def showWObs (w : WObs) : String := s!"{w.start}/{w.stop}/{showIds w.events}/{showAgg w.agg}"
def showWindows (ws : List WObs) : String := if ws.isEmpty then "_" else "+".intercalate (ws.map showWObs)
def joinSteps (ss : List String) : String := if ss.isEmpty then "-" else ";".intercalate ss
def sortedNats (l : List Nat) : List Nat := l.mergeSort (fun a b => decide (a ≤ b))

def showAgg2 (a : Agg2) : String :=
  let cb := if a.countBy.isEmpty then "_" else ",".intercalate (a.countBy.map fun p => s!"{p.1}={p.2}")
  s!"{showON a.first}/{showON a.last}/{a.distinct}/{cb}/{",".intercalate (a.pcts.map showOI)}/{if a.stdDefined then "+" else "-"}"

def showX : XNum → String
  | .ninf => "q" | .lo => "L" | .fin i => toString i | .hi => "M" | .pinf => "p" | .nan => "z"
def showOX (x : Option XNum) : String := match x with | none => "-" | some v => showX v
def parseOX (s : String) : Option (Option XNum) :=
  if s = "-" then some none else if s = "q" then some (some .ninf) else if s = "L" then some (some .lo)
  else if s = "M" then some (some .hi) else if s = "p" then some (some .pinf) else if s = "z" then some (some .nan)
  else s.toInt?.map fun i => some (.fin i)

/-- `T:min,max,sum/A:min,max/O:min,max`; `n` = not observed (sum with NaN / ±f64::MAX present: order dependent;
operators::Min/Max with a NaN present: they compare with `partial_cmp().unwrap()`) -/
def showXV (vs : List (Option XNum)) : String :=
  let mm := s!"{showOX (xMin vs)},{showOX (xMax vs)}"
  let sum := if xSumComparable vs then showX (xSum vs) else "n"
  let o := if (vs.filterMap id).contains .nan then "n,n" else mm
  s!"{mm},{sum}/{mm}/{o}"

def modelLine (line : String) : String :=
  match parseCase line with
  | some (.tw t d s c ops) => joinSteps ((twTrace divBits (TW.new t d s c) ops).map showTWObs)
  | some (.wm t d c m es) =>
    match wmTrace divBits (WM.new t d c m) es with
    | some tr => joinSteps (tr.map showWindows)
    | none => "panic"
  | some (.ws d c es) =>
    match wsTumbling d c es with
    | some ws => s!"{showWindows (ws.map (TW.wobs divBits))};{showNats (sortedNats (ws.map (·.events.length)))}"
    | none => "panic"
  | some (.an w c ops) =>
    match anTrace { window := w, cap := c, events := [] } ops with
    | some tr => joinSteps (tr.map fun o => s!"{b01 o.ret}/{showIds o.events}")
    | none => "panic"
  | some (.wss t d c es) =>
    let ws := wsSliding t d c es
    s!"{showWindows (ws.map (TW.wobs divBits))};{showNats (ws.map (·.events.length))}"
  | some (.ans timeout c ops) =>
    joinSteps ((ansTrace { timeout := timeout, cap := c, events := [], last := none } ops).map
      fun o => s!"{b01 o.ret}/{showIds o.events}")
  | some (.ag es) => showAgg2 (aggregate2 es)
  | some (.xv vs) => showXV vs
  | none => "bad-case"

-- ---------------------------------------------------------------- parsing observations (oracle mode)
def optNat? (s : String) : Option (Option Nat) := if s = "-" then some none else s.toNat?.map some
def optInt? (s : String) : Option (Option Int) := if s = "-" then some none else s.toInt?.map some

def parseAgg (s : String) : Option Agg :=
  match s.splitOn "," with
  | [c, sm, av, mn, mx] => do
    pure { count := ← c.toNat?, sum := ← sm.toInt?, avg := ← optNat? av, min := ← optInt? mn, max := ← optInt? mx }
  | _ => none

def parseAgg3 (s : String) : Option (Nat × Int × Option Nat) :=
  match s.splitOn "," with
  | [c, sm, av] => do pure (← c.toNat?, ← sm.toInt?, ← optNat? av)
  | _ => none

def resolve (tbl : List Ev) (s : String) : Option (List Ev) := do
  let ids ← parseNats? s
  ids.mapM fun i => tbl[i]?

def parseBool (s : String) : Option Bool := if s = "1" then some true else if s = "0" then some false else none

def parseTWObs (tbl : List Ev) (s : String) : Option TWObs :=
  match s.splitOn "/" with
  | [r, a, b, ids, ag] =>
    match ag.splitOn "~" with
    | [t, x, e3, o] => do
      pure { ret := ← parseBool r, start := ← a.toNat?, stop := ← b.toNat?, events := ← resolve tbl ids,
             aggs := [← parseAgg t, ← parseAgg x, ← parseAgg o], agg3 := ← parseAgg3 e3 }
    | _ => none
  | _ => none

def parseWObs (tbl : List Ev) (s : String) : Option WObs :=
  match s.splitOn "/" with
  | [a, b, ids, ag] => do
    pure { start := ← a.toNat?, stop := ← b.toNat?, events := ← resolve tbl ids, agg := ← parseAgg ag }
  | _ => none

def parseWindows (tbl : List Ev) (s : String) : Option (List WObs) :=
  if s = "_" then some [] else (s.splitOn "+").mapM (parseWObs tbl)

def steps (s : String) : List String := if s = "-" then [] else s.splitOn ";"

def parseANObs (tbl : List Ev) (s : String) : Option ANObs :=
  match s.splitOn "/" with
  | [r, ids] => do pure { ret := ← parseBool r, events := ← resolve tbl ids }
  | _ => none

def parseCountBy (s : String) : Option (List (Int × Nat)) :=
  if s = "_" then some [] else
  (s.splitOn ",").mapM fun kv =>
    match kv.splitOn "=" with
    | [k, c] => do pure (← k.toInt?, ← c.toNat?)
    | _ => none

def parseAgg2 (s : String) : Option Agg2 :=
  match s.splitOn "/" with
  | [f, l, d, cb, ps, sd] => do
    let ps ← (ps.splitOn ",").mapM optInt?
    let sd ← (if sd = "+" then some true else if sd = "-" then some false else none)
    pure { first := ← optNat? f, last := ← optNat? l, distinct := ← d.toNat?, countBy := ← parseCountBy cb,
           pcts := ps, stdDefined := sd }
  | _ => none

-- ---------------------------------------------------------------- oracle
def isLate (ts : List Nat) : Bool :=
  (ts.foldl (fun (acc : Nat × Bool) t => (max acc.1 t, acc.2 || decide (t < acc.1))) (0, false)).2

def tagsOf (comp : String) (ts : List Nat) (extra : List String) : String :=
  let late := isLate ts
  joinSp (["ok", comp] ++ (if late then ["late"] else ["in-order"]) ++ extra
          ++ [s!"len{ts.length}"] ++ (if late && ts.length ≥ 2 then ["nontrivial"] else []))

def twFirstBad (t : WType) (d cap : Nat) : Nat → TWObs → List TWOp → List TWObs → Option (Nat × String)
  | _, _, [], [] => none
  | i, o, op :: ops, o' :: os =>
    if twStepOk divBits t d cap o op o' then twFirstBad t d cap (i + 1) o' ops os
    else
      let why :=
        if !(o'.aggs.all (aggOk divBits o'.events) && aggOk3 divBits o'.events o'.agg3) then "aggregate"
        else match op with
          | .record _ => if !(o'.events.all fun x => decide (o'.start ≤ x.ts)) then "record-retains-too-old"
                         else "record-retained-set"
          | .add _ => "add-event"
      some (i, why)
  | i, _, _, _ => some (i, "length")

def wmFirstBad (d cap maxW : Nat) : Nat → List WObs → List Ev → List (List WObs) → Option Nat
  | _, _, [], [] => none
  | i, o, e :: es, o' :: os =>
    if wmStepOk divBits d cap maxW o e o' then wmFirstBad d cap maxW (i + 1) o' es os else some i
  | i, _, _, _ => some i

def anFirstBad (w : AWin) (cap : Nat) : Nat → List Ev → List ANOp → List ANObs → Option (Nat × String)
  | _, _, [], [] => none
  | i, o, op :: ops, o' :: os =>
    if anStepOk w cap o op o' then anFirstBad w cap (i + 1) o'.events ops os
    else
      let why :=
        if o'.ret != (op.pass && w.inSpan op.now op.e.ts) then "accept"
        else if o'.ret && !(o'.events.all fun x => w.live op.now x.ts) then "retains-outside-window"
        else "retained-set"
      some (i, why)
  | i, _, _, _ => some (i, "length")

def wmfFirstBad (d cap maxW : Nat) : Nat → List WObs → List Ev → List (List WObs) → Option Nat
  | _, _, [], [] => none
  | i, o, e :: es, o' :: os =>
    if wmfStepOk divBits d cap maxW o e o' then wmfFirstBad d cap maxW (i + 1) o' es os else some i
  | i, _, _, _ => some i

def ansFirstBad (timeout cap : Nat) : Nat → Option Nat → List Ev → List ANOp → List ANObs → Option (Nat × String)
  | _, _, _, [], [] => none
  | i, last, o, op :: ops, o' :: os =>
    if ansStepOk timeout cap last o op o' then ansFirstBad timeout cap (i + 1) (sessLast timeout last op) o'.events ops os
    else some (i, if o'.ret != op.pass then "session-accept" else "session-retained-set")
  | i, _, _, _, _ => some (i, "length")

/-- tags for the sliding/session manager: did some window end up *without* an event of its span that went to an
earlier window (first-fit), did an event within `d` of the previous arrival open a new window all the same -/
def spanIncomplete (es : List Ev) (o : List WObs) : Bool :=
  o.any fun w => es.any fun x => decide (w.start ≤ x.ts) && decide (x.ts < w.stop) && !(w.events.contains x)
                                  && o.any (fun w2 => w2.events.contains x)

/-- session node: a late event (older than the timeout at the clock) wiped a session that held other events -/
def lateWipe (timeout : Nat) : List Ev → List ANOp → List ANObs → Bool
  | _, [], _ => false
  | _, _, [] => false
  | o, op :: ops, o' :: os =>
    (op.pass && decide (op.now - op.e.ts > timeout) && !o.isEmpty && o'.events.isEmpty) || lateWipe timeout o'.events ops os

def oracleCase (c : Case) (obs : String) : String :=
  match c with
  | .tw t d s cap ops =>
    let tbl := ops.map (·.ev)
    match (steps obs).mapM (parseTWObs tbl) with
    | none => "fail tw-unparsable-observation"
    | some os =>
      let init : TWObs := twInitObs s d
      match twFirstBad t d cap 0 init ops os with
      | some (i, why) => s!"fail tw-{why}@{i}"
      | none =>
        let evicted := os.length > 0 && (os.getLast?.map (·.events.length)).getD 0 < ops.length
        tagsOf "TW" (tbl.map (·.ts))
          ((if ops.any (fun o => match o with | .record _ => true | _ => false) then ["record"] else [])
           ++ (if ops.any (fun o => match o with | .add _ => true | _ => false) then ["add"] else [])
           ++ (if evicted then ["dropped-some"] else [])
           ++ (if os.any (fun o => !o.ret) then ["refused"] else [])
           ++ (if os.any (fun o => o.events.length == cap) then ["at-cap"] else [])
           ++ (if tbl.any (fun e => e.val.isNone) then ["non-numeric"] else []))
  | .wm t d cap maxW es =>
    if obs = "panic" then
      if t = .tumbling ∧ d = 0 ∧ !es.isEmpty then "ok WM panic-zero-duration" else "fail wm-unexpected-panic"
    else if t = .tumbling ∧ d = 0 ∧ !es.isEmpty then "fail wm-expected-panic"
    else
      match (steps obs).mapM (parseWindows es) with
      | none => "fail wm-unparsable-observation"
      | some os =>
        if t = .tumbling then
          match wmFirstBad d cap maxW 0 [] es os with
          | some i => s!"fail wm-step@{i}"
          | none =>
            tagsOf "WM" (es.map (·.ts))
              ((if os.any (fun o => o.length ≥ 2) then ["multi-window"] else [])
               ++ (if os.any (fun o => o.length == maxW) then ["at-window-limit"] else [])
               ++ (if os.any (fun o => o.any fun w => w.events.length == cap) then ["at-cap"] else []))
        else
          match wmfFirstBad d cap maxW 0 [] es os with
          | some i => s!"fail wm-fixed-step@{i}"
          | none =>
            let last := os.getLast?.getD []
            tagsOf (if t = .sliding then "WM-sliding" else "WM-session") (es.map (·.ts))
              ((if os.any (fun o => o.length ≥ 2) then ["multi-window"] else [])
               ++ (if os.any (fun o => o.length == maxW) then ["at-window-limit"] else [])
               ++ (if os.any (fun o => o.any fun w => w.events.length == cap) then ["at-cap"] else [])
               ++ (if os.any (fun o => o.any fun w => w.events.length ≥ 2) then ["shared-window"] else [])
               ++ (if spanIncomplete es last then ["span-incomplete"] else []))
  | .ws d cap es =>
    if obs = "panic" then
      if d = 0 ∧ !es.isEmpty then "ok WS panic-zero-duration" else "fail ws-unexpected-panic"
    else if d = 0 ∧ !es.isEmpty then "fail ws-expected-panic"
    else
      match obs.splitOn ";" with
      | [w, cnt] =>
        match parseWindows es w, parseNats? cnt with
        | some o, some counts =>
          if !(wsOk divBits (if d = 0 then 1 else d) cap es o) then "fail ws-partition"
          else if counts != sortedNats (o.map (·.events.length)) then "fail ws-counts"
          else tagsOf "WS" (es.map (·.ts))
            ((if o.length ≥ 2 then ["multi-window"] else [])
             ++ (if o.any (fun w => w.events.length == cap) then ["at-cap"] else []))
        | _, _ => "fail ws-unparsable-observation"
      | _ => "fail ws-unparsable-observation"
  | .wss t d cap es =>
    if obs = "hang" then "fail ws-sliding-hang"
    else
      match obs.splitOn ";" with
      | [w, cnt] =>
        match parseWindows es w, parseNats? cnt with
        | some o, some counts =>
          if !(wssOk divBits d cap es o) then "fail ws-sliding-grid"
          else if counts != o.map (·.events.length) then "fail ws-sliding-counts"
          else tagsOf (if t = .sliding then "WS-sliding" else "WS-session") (es.map (·.ts))
            ((if o.length ≥ 2 then ["multi-window"] else [])
             ++ (if o.any (fun w => w.events.length == cap) then ["at-cap"] else [])
             ++ (if d ≤ 1 then ["tiny-duration"] else [])
             ++ (if es.any (fun x => (o.filter fun w => w.events.contains x).length ≥ 2) then ["overlap"] else []))
        | _, _ => "fail ws-unparsable-observation"
      | _ => "fail ws-unparsable-observation"
  | .ag es =>
    match parseAgg2 obs with
    | none => "fail ag-unparsable-observation"
    | some a =>
      if agg2Ok es a then
        joinSp (["ok", "AG", s!"len{es.length}"]
          ++ (if a.distinct < ((es.map (·.v)).filter (· ≠ .missing)).length then ["duplicates"] else [])
          ++ (if a.countBy.length < a.distinct then ["merged-keys"] else [])
          ++ (if es.length ≥ 2 then ["nontrivial"] else []))
      else
        let why :=
          if a.first != es.head?.map (·.id) || a.last != es.getLast?.map (·.id) then "first-last"
          else if a.distinct != distinctCount ((es.map (·.v)).filter (· ≠ .missing)) then "count-distinct"
          else if !(countByOk (es.filterMap (·.v.key)) a.countBy) then "count-by"
          else if a.stdDefined != decide (2 ≤ (avals es).length) then "stddev-defined"
          else "percentile"
        s!"fail ag-{why}"
  | .xv vs =>
    let pair (s : String) : Option (Option (Option XNum × Option XNum)) :=
      match s.splitOn "," with
      | ["n", "n"] => some none
      | [a, b] => do pure (some (← parseOX a, ← parseOX b))
      | _ => none
    let hasNan := (vs.filterMap id).contains .nan
    match obs.splitOn "/" with
    | [t, a, o] =>
      match t.splitOn "," with
      | [tmn, tmx, tsum] =>
        match pair s!"{tmn},{tmx}", pair a, pair o with
        | some (some (mn, mx)), some (some (amn, amx)), some op =>
          if !(xMinOk vs mn) then "fail xv-min"
          else if !(xMaxOk vs mx) then "fail xv-max"
          else if !(xMinOk vs amn && xMaxOk vs amx) then "fail xv-aggregator-min-max"
          else if !(match op with | some (omn, omx) => xMinOk vs omn && xMaxOk vs omx | none => hasNan) then "fail xv-operators-min-max"
          else if !(if xSumComparable vs then tsum = showX (xSum vs) else tsum = "n") then "fail xv-sum"
          else
            let v := vs.filterMap id
            joinSp (["ok", "XV", s!"len{vs.length}"]
              ++ (if v.contains .pinf || v.contains .ninf then ["infinite"] else [])
              ++ (if hasNan then ["nan"] else [])
              ++ (if v.contains .hi || v.contains .lo then ["f64-max"] else [])
              ++ (if mn == some .ninf || mx == some .pinf then ["infinite-extreme"] else [])
              ++ (if v.length ≥ 2 && (v.any fun x => match x with | .fin _ => false | _ => true) then ["nontrivial"] else []))
        | _, _, _ => "fail xv-unparsable-observation"
      | _ => "fail xv-unparsable-observation"
    | _ => "fail xv-unparsable-observation"
  | .ans timeout cap ops =>
    let tbl := ops.map (·.e)
    match (steps obs).mapM (parseANObs tbl) with
    | none => "fail an-unparsable-observation"
    | some os =>
      match ansFirstBad timeout cap 0 none [] ops os with
      | some (i, why) => s!"fail an-{why}@{i}"
      | none =>
        let accepted := (os.filter (·.ret)).length
        tagsOf "AN" (tbl.map (·.ts))
          (["session"] ++ (if accepted < ops.length then ["rejected-some"] else [])
           ++ (if (os.getLast?.map (·.events.length)).getD 0 < accepted then ["evicted-some"] else [])
           ++ (if os.any (fun o => o.events.length == cap) then ["at-cap"] else [])
           ++ (if os.any (fun o => o.events.length ≥ 2) then ["shared-session"] else [])
           ++ (if lateWipe timeout [] ops os then ["late-wipe"] else []))
  | .an w cap ops =>
    let willPanic := (match w with | .tumbling 0 => true | _ => false) && ops.any (·.pass)
    if obs = "panic" then (if willPanic then "ok AN panic-zero-duration" else "fail an-unexpected-panic")
    else if willPanic then "fail an-expected-panic"
    else
      let tbl := ops.map (·.e)
      match (steps obs).mapM (parseANObs tbl) with
      | none => "fail an-unparsable-observation"
      | some os =>
        match anFirstBad w cap 0 [] ops os with
        | some (i, why) => s!"fail an-{why}@{i}"
        | none =>
          let accepted := (os.filter (·.ret)).length
          let kind := match w with | .none => "no-window" | .sliding _ => "sliding" | .tumbling _ => "tumbling"
          tagsOf "AN" (tbl.map (·.ts))
            ([kind] ++ (if accepted < ops.length then ["rejected-some"] else [])
             ++ (if (os.getLast?.map (·.events.length)).getD 0 < accepted then ["evicted-some"] else [])
             ++ (if os.any (fun o => o.events.length == cap) then ["at-cap"] else []))

def oracleLine (line : String) : String :=
  match line.splitOn " | " with
  | [c, o] =>
    match parseCase c with
    | some cs => oracleCase cs o.trimAscii.toString
    | none => "bad-input"
  | _ => "bad-input"

def main (args : List String) : IO Unit :=
  match args with
  | ["model"] => mapLines modelLine
  | ["oracle"] => mapLines oracleLine
  | _ => IO.eprintln "usage: drv_c12 model|oracle"
