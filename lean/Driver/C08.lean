import RreModel.Proto
import RreModel.C08.Spec
/-
Driver for C08.
  case := op op …    I | E | L<ps> | J<f>:<ps> | X<f> | R<h>     <ps> := - | p,p,…
  obs  := step;step;…   step := res/present/logical/explicit/valid/stats
          res := h<k> | u | ok:<cascade> | err   (a trailing `!flag` from the harness makes it unparsable)
          `C` = working_memory_mut().clear_modification_tracking(): not an operation of the model — it inserts and
          retracts nothing. Its step has result `c` and must repeat the sets of the step before it (clause
          `maintenance`); the driver checks exactly that, removes the op and its step, and hands the rest to the
          model / Spec.runOk unchanged (so every theorem is about the same `Op` type as before).
          Reach ops (engine paths beyond insert/insert_logical/retract; every one is DESUGARED here into the model's own `Op`s, so
          every theorem is about the same `Op` type as before):
            N | P | D | G      twins of `insert`: unique fact type / insert_with_template / load_deffacts_by_name / load_deffacts  ↦ insert
            U<h> | A | Z       engine.update(h, ..) / add_rule / reset(): insert and retract nothing                         ↦ a `C`-like step
            F<a>               TWO steps: engine.insert(trigger fact) ↦ insert; then reset() + fire_all() with the fired rule's
                               action returning ONE ActionResult a:  r<h> Retract(h) ↦ retract h | t<h> RetractByType(type of h; the
                               type is unique to h only for `N` facts) ↦ retract h / nothing | i InsertFact ↦ insert_explicit |
                               l<ps> InsertLogicalFact ↦ insert_logical ps | u<h> Update(h), n None, g ActivateAgendaGroup,
                               c CallFunction, s ScheduleRule, m (no result; the action MODIFIES fields of the F and D facts, which
                               fire_all writes back with working_memory.update) ↦ a `C`-like step
            Lk<ps>             insert_logical whose premise handles were first looked up with resolve_premise_keys("<type>.id=<p>")
                               (the harness flags `!resolve` unless the lookup finds exactly the live premises)              ↦ insert_logical ps
            K<h>               engine.update(h, kill=true) + reset() + fire_all() with GRL rules `when F.kill == true then retract($F)`
                               (types F and D only)                                                                          ↦ retract h / nothing
            W                  engine.reset_with_deffacts(): working memory AND truth maintenance start again (handles from 1); one
                               deffacts fact is loaded ↦ a NEW history starts (model and oracle run it from `init`) with one insert
            Q<f>               PROMOTION of a fact to a stated one: tms_mut().remove_justifications(f) + tms_mut().add_explicit_justification(f).
                               As far as facts and support go this IS `add_explicit_justification(f)`: the justifications that are
                               dropped could only have kept f, which the explicit one does from now on, and f's dependents are
                               untouched ↦ add_explicit_justification f. The one observable difference is the COUNT of stored
                               justifications (stats field 1), which the model line corrects by the number dropped (`removedOfSeg`).
            F<a>+<a>[+<a>]     ONE firing whose action returns SEVERAL ActionResults, applied by process_action_results in the order
                               emitted ↦ insert (trigger), then the operations the results stand for, in that order. The states
                               BETWEEN the results of one firing cannot be observed through the API: the harness shows ONE step for the
                               firing, its result = the single results joined by `+` (the twin TMS is fed the calls in the emitted order),
                               its sets = the state after the firing. Model mode prints the same (`collapse`). Oracle mode (`expand`)
                               evaluates Spec.runOk on the full history: the unobservable steps take the reported result and the sets
                               the clauses themselves force there (the model's, which meet every clause by model_meets_spec and are the
                               only ones that do by cascade_exact); the LAST result's step is the real observation after the firing, so
                               every clause is evaluated on what the implementation shows once the firing is over.
          Rule names: a logical token (`L`, `Lk`, `J`, `Fl`) may end in `@<n>` = the source-rule NAME the harness hands to the call
          (entry n of its table: empty, blank, very long, non-ASCII, equal names …). The name is a label — `Model.Op` has no
          rule name and the property does not mention one — so the suffix is removed here (`stripName`) and model, oracle and
          every theorem see the same history as without it.
  drv_c08 model   : case        ↦ obs predicted by the model
  drv_c08 oracle  : case | obs  ↦ `ok <tags>` / `fail <clause>@<step>` (Spec.runOk on the observations)
-/
open Proto C08

def parseOp (t : String) : Option Op :=
  if t = "I" then some .insert
  else if t = "E" then some .insertExplicit
  else if t.startsWith "L" then (parseNats? (t.drop 1).toString).map .insertLogical
  else if t.startsWith "J" then
    match (t.drop 1).toString.splitOn ":" with
    | [f, ps] => do
      let f ← f.toNat?
      let ps ← parseNats? ps
      pure (.addLogical f ps)
    | _ => none
  else if t.startsWith "X" then (t.drop 1).toString.toNat?.map .addExplicit
  else if t.startsWith "Q" then (t.drop 1).toString.toNat?.map .addExplicit
  else if t.startsWith "R" then (t.drop 1).toString.toNat?.map .retract
  else none

/-- the fact types the harness gives to the handles a token creates, in creation order
(`F`/`D`: the shared types of explicit / logical facts, `N`: a type of its own, `P`: template type, `T`: trigger) -/
def groupActs (t : String) : Option (List String) :=
  if t.startsWith "F" && (t.splitOn "+").length ≥ 2 then some ((t.drop 1).toString.splitOn "+") else none

def kindsOfTok (t : String) : List Char :=
  if (groupActs t).isSome then
    'T' :: ((groupActs t).getD []).filterMap fun a => if a = "i" then some 'F' else if a.startsWith "l" then some 'D' else none
  else
  if t = "I" || t = "E" then ['F']
  else if t.startsWith "L" then ['D']
  else if t = "N" then ['N']
  else if t = "P" || t = "D" || t = "G" || t = "W" then ['P']
  else if t = "Fi" then ['T', 'F']
  else if t.startsWith "Fl" then ['T', 'D']
  else if t.startsWith "F" then ['T']
  else []

def kindOf (kinds : List Char) (h : Nat) : Char := if h = 0 then '?' else kinds.getD (h - 1) '?'

/-- a token of the case line ↦ the model operations (or `none` = a step that must change nothing) it stands for -/
def parseAct (kinds : List Char) (a : String) : Option (Option Op) :=
  if a = "i" then some (some .insertExplicit)
  else if a = "n" || a = "g" || a = "c" || a = "s" then some none
  else if a.startsWith "l" then (parseNats? (a.drop 1).toString).map fun ps => some (.insertLogical ps)
  else if a.startsWith "r" then (a.drop 1).toString.toNat?.map fun h => some (.retract h)
  else if a.startsWith "t" then (a.drop 1).toString.toNat?.map fun h => some (.retract (if kindOf kinds h == 'N' then h else 0))
  else if a.startsWith "u" then (a.drop 1).toString.toNat?.map fun _ => none
  else none

/-- a firing with several results: the trigger's insert, then the operations the results stand for (results that insert and
retract nothing are dropped; if none is left the firing is one step that must change nothing) -/
def parseGroup (kinds : List Char) (acts : List String) : Option (List (Option Op)) :=
  (acts.mapM (parseAct kinds)).map fun l =>
    let ops := l.filterMap id
    some .insert :: (if ops.isEmpty then [none] else ops.map some)

def parseTok (kinds : List Char) (t : String) : Option (List (Option Op)) :=
  if (groupActs t).isSome then parseGroup kinds ((groupActs t).getD [])
  else
  if t = "C" || t = "A" || t = "Z" then some [none]
  else if t = "N" || t = "P" || t = "D" || t = "G" || t = "W" then some [some .insert]
  else if t.startsWith "U" then (t.drop 1).toString.toNat?.map fun _ => [none]
  else if t.startsWith "K" then
    (t.drop 1).toString.toNat?.map fun h =>
      [some (.retract (if kindOf kinds h == 'F' || kindOf kinds h == 'D' then h else 0))]
  else if t = "Fi" then some [some .insert, some .insertExplicit]
  else if t = "Fn" || t = "Fm" || t = "Fg" || t = "Fc" || t = "Fs" then some [some .insert, none]
  else if t.startsWith "Lk" then (parseNats? (t.drop 2).toString).map fun ps => [some (.insertLogical ps)]
  else if t.startsWith "Fr" then (t.drop 2).toString.toNat?.map fun h => [some .insert, some (.retract h)]
  else if t.startsWith "Ft" then
    (t.drop 2).toString.toNat?.map fun h => [some .insert, some (.retract (if kindOf kinds h == 'N' then h else 0))]
  else if t.startsWith "Fu" then (t.drop 2).toString.toNat?.map fun _ => [some .insert, none]
  else if t.startsWith "Fl" then (parseNats? (t.drop 2).toString).map fun ps => [some .insert, some (.insertLogical ps)]
  else if t.startsWith "F" then none
  else (parseOp t).map fun op => [some op]

/-- the histories of a case: `W` (reset_with_deffacts) starts a new one, of which it is the first token -/
def splitW : List String → List (List String)
  | [] => [[]]
  | t :: ts =>
    match splitW ts with
    | seg :: segs => if t = "W" then [] :: (t :: seg) :: segs else (t :: seg) :: segs
    | [] => [[t]]

/-- a token without its rule-name suffix `@<n>` (only logical tokens may carry one; `n` must be a number) -/
def stripName (t : String) : Option String :=
  match t.splitOn "@" with
  | [a] => some a
  | [a, n] =>
    if (a.startsWith "L" || a.startsWith "J" || a.startsWith "Fl") && n.toNat?.isSome then some a else none
  | _ => none

/-- which of the steps a token stands for cannot be observed (all results of a multi-result firing but the last) -/
def hiddenOf (t : String) (n : Nat) : List Bool :=
  if (groupActs t).isSome && n ≥ 3 then false :: (List.replicate (n - 2) true ++ [false]) else List.replicate n false

def parseSeg (toks : List String) : Option (List (Option Op) × List Bool) := do
  let toks ← toks.mapM stripName
  let kinds := (toks.map kindsOfTok).flatten
  let l ← toks.mapM fun t => (parseTok kinds t).map fun ops => (ops, hiddenOf t ops.length)
  pure ((l.map (·.1)).flatten, (l.map (·.2)).flatten)

/-- justifications dropped so far by promotions (`Q<f>`: every justification stored for `f` goes before the explicit one is
added), per step of a history: `cnt` = justifications currently stored per fact -/
def bump (cnt : List (Nat × Nat)) (f : Nat) : List (Nat × Nat) :=
  if cnt.any (·.1 == f) then cnt.map fun (g, c) => if g == f then (g, c + 1) else (g, c) else (f, 1) :: cnt

def removedOfOps (isQ : Bool) : List (Option Op) → Nat → List (Nat × Nat) → Nat → List Nat × Nat × List (Nat × Nat) × Nat
  | [], n, cnt, rem => ([], n, cnt, rem)
  | op :: ops, n, cnt, rem =>
    let (n', cnt', rem') :=
      match op with
      | some .insert | some .insertExplicit | some (.insertLogical _) => (n + 1, bump cnt (n + 1), rem)
      | some (.addLogical f _) => (n, bump cnt f, rem)
      | some (.addExplicit f) =>
        if isQ then (n, bump (cnt.filter (·.1 != f)) f, rem + ((cnt.find? (·.1 == f)).map (·.2)).getD 0)
        else (n, bump cnt f, rem)
      | _ => (n, cnt, rem)
    let r := removedOfOps isQ ops n' cnt' rem'
    (rem' :: r.1, r.2)

def removedOfSeg (toks : List String) : List Nat :=
  match toks.mapM stripName with
  | none => []
  | some toks =>
    let kinds := (toks.map kindsOfTok).flatten
    let rec go (ts : List String) (n : Nat) (cnt : List (Nat × Nat)) (rem : Nat) : List Nat :=
      match ts with
      | [] => []
      | t :: r =>
        let (l, n', cnt', rem') := removedOfOps (t.startsWith "Q") ((parseTok kinds t).getD []) n cnt rem
        l ++ go r n' cnt' rem'
    go toks 0 [] 0

/-- a step with its justification count lowered by `rem` -/
def lessJusts (st : String) (rem : Nat) : String :=
  if rem = 0 then st else
  match st.splitOn "/" with
  | [r, p, l, e, v, stats] =>
    match parseNats? stats with
    | some (j :: rest) => "/".intercalate [r, p, l, e, v, showNats ((j - rem) :: rest)]
    | _ => st
  | _ => st

/-- the histories of a case line (at least one; the first may be empty), each with its hidden-step flags -/
def parseSegsH (line : String) : Option (List (List (Option Op) × List Bool)) :=
  ((splitW (tokens line)).filter fun seg => !seg.isEmpty).mapM parseSeg

def parseSegs (line : String) : Option (List (List (Option Op))) := (parseSegsH line).map fun l => l.map (·.1)

def univSegs (segs : List (List (Option Op))) : Nat := (segs.map fun ts => universeOf (stripC ts)).foldl max 0

/-- what every step shows before anything happened: no fact, no justification -/
def emptySets : String := "-/-/-/-/0,0,0,0"

/-- the sets of a step (everything after the result) -/
def setsOf (step : String) : String :=
  match step.splitOn "/" with
  | _ :: rest => "/".intercalate rest
  | [] => ""

/-- the two views of a step's text the maintenance clause needs (`C08.StepView`, Spec.lean) -/
def strView : StepView String String := { setsOf := setsOf, cstep := fun prev => s!"c/{prev}" }

/-- model mode: put a step `c/<sets of the step before>` back for every `C` (`C08.weave`, Spec.lean) -/
def weave (ts : List (Option Op)) (steps : List String) (prev : String) : List String := C08.weave strView ts steps prev

/-- oracle mode: check the `C` steps (result `c`, sets unchanged) and remove them (`C08.unweave`, Spec.lean:
theorems `C08.maintenance_noop`, `C08.maintenance_exact`); `.error i` = the maintenance clause fails at (original) step `i` -/
def unweave (ts : List (Option Op)) (steps : List String) (prev : String) (i : Nat) : Except Nat (List String) :=
  C08.unweave strView ts steps prev i

def resOf (st : String) : String := (st.splitOn "/").headD ""

/-- model mode: the unobservable steps of a multi-result firing disappear, their results are put in front of the result of the
firing's last step, joined by `+` -/
def collapse : List Bool → List String → String → List String
  | true :: hs, st :: sts, pre => collapse hs sts (pre ++ resOf st ++ "+")
  | false :: hs, st :: sts, pre => (pre ++ st) :: collapse hs sts ""
  | _, _, _ => []

/-- oracle mode: the observed step of a multi-result firing (`r1+r2+…/sets`) is taken apart again: an unobservable step gets its
reported result and the sets of `mdl` (the model's steps), the last one the remaining result and the observed sets -/
def expand : List Bool → List String → List String → Option (List String) → List String
  | [], _, _, _ => []
  | true :: hs, m :: ms, o :: os, pend =>
    match pend.getD ((resOf o).splitOn "+") with
    | p :: rest => (p ++ "/" ++ setsOf m) :: expand hs ms (o :: os) (some rest)
    | [] => ("?/" ++ setsOf m) :: expand hs ms (o :: os) (some [])
  | false :: hs, _ :: ms, o :: os, pend =>
    match pend with
    | some parts => ("+".intercalate parts ++ "/" ++ setsOf o) :: expand hs ms os none
    | none => o :: expand hs ms os none
  | _, _, _, _ => []

/-- index of an (expanded) step among the observed ones -/
def visIdx (hid : List Bool) (i : Nat) : Nat := i - ((hid.take i).filter id).length

def showRes : Res → String
  | .handle h => s!"h{h}"
  | .unit => "u"
  | .retracted c => s!"ok:{showNats c}"
  | .err => "err"

def parseRes (s : String) : Option Res :=
  if s = "u" then some .unit
  else if s = "err" then some .err
  else if s.startsWith "ok:" then (parseNats? (s.drop 3).toString).map .retracted
  else if s.startsWith "h" then (s.drop 1).toString.toNat?.map .handle
  else none

def showObs (o : Obs) : String :=
  s!"{showRes o.res}/{showNats o.present}/{showNats o.logical}/{showNats o.explicit}/{showNats o.valid}/{showNats o.stats}"

def showTrace (os : List Obs) : String :=
  if os.isEmpty then "-" else ";".intercalate (os.map showObs)

def parseObs (s : String) : Option Obs :=
  match s.splitOn "/" with
  | [r, p, l, e, v, st] => do
    let r ← parseRes r
    let p ← parseNats? p
    let l ← parseNats? l
    let e ← parseNats? e
    let v ← parseNats? v
    let st ← parseNats? st
    pure { res := r, present := p, logical := l, explicit := e, valid := v, stats := st }
  | _ => none

def parseTrace (s : String) : Option (List Obs) :=
  if s = "-" then some [] else (s.splitOn ";").mapM parseObs

def modelLine (line : String) : String :=
  match parseSegs line with
  | some segs =>
    let k := univSegs segs
    let out := (segs.map fun ts => weave ts ((trace k init (stripC ts)).map showObs) emptySets).flatten
    let out := if (tokens line).any (·.startsWith "Q") then
        let rem := (((splitW (tokens line)).filter fun seg => !seg.isEmpty).map removedOfSeg).flatten
        (out.zip rem).map fun (st, r) => lessJusts st r
      else out
    let hid := (((parseSegsH line).getD []).map (·.2)).flatten
    let out := if hid.any id then collapse hid out "" else out
    if out.isEmpty then "-" else ";".intercalate out
  | none => "bad-case"

/-- which clause fails at step `i` (for the signature) -/
def whichClause (k : Nat) (g : Ghost) (op : Op) (o : Obs) : String :=
  match stepGhost g op o with
  | none =>
    match op with
    | .retract _ => "cascade"
    | _ => "frame"
  | some g' =>
    if !(univ k).all (fun f => supportClause g'.js g'.req g'.pres f) then "support"
    else if !(univ k).all (fun f => explicitClause g'.js g'.req g'.pres f) then "explicit"
    else "query"

def ghostAt : Nat → Ghost → List Op → List Obs → Option (Ghost × Op × Obs)
  | 0, g, op :: _, o :: _ => some (g, op, o)
  | i + 1, g, op :: ops, o :: os =>
    match stepGhost g op o with
    | some g' => ghostAt i g' ops os
    | none => none
  | _, _, _, _ => none

/-- sizes beyond the small bound are histogrammed in buckets around the usual thresholds -/
def bucket (name : String) (exact : Nat) (n : Nat) : String :=
  if n ≤ exact then s!"{name}{n}"
  else if n ≤ 32 then s!"{name}{exact + 1}_32"
  else if n ≤ 64 then s!"{name}33_64"
  else if n ≤ 128 then s!"{name}65_128"
  else s!"{name}129plus"

def ascending : List Nat → Bool
  | a :: b :: r => decide (a ≤ b) && ascending (b :: r)
  | _ => true

def tagsOf (ops : List Op) (os : List Obs) : List String :=
  let g := ghostEnd {} ops os
  let casc := os.filterMap fun o => match o.res with | .retracted c => some c.length | _ => none
  let maxc := casc.foldl max 0
  let facts := g.n
  let multi := (univ facts).any fun f => (g.js.filter fun j => j.fact == f).length ≥ 2
  let both := (univ facts).any fun f => hasExplicit g.js f && hasLogical g.js f
  let dup := g.js.any fun j => !j.premises.eraseDups.length == j.premises.length
  let retrDerived := g.req.any fun h => logicalOnly g.js h
  let survivor := -- a logical-only fact still present after one of its justifications lost a premise
    (univ facts).any fun f => logicalOnly g.js f && g.pres.contains f &&
      g.js.any fun j => j.fact == f && !j.premises.all g.pres.contains
  (if g.wf then ["wf"] else ["nonwf"])
  ++ (if casc.length > 0 then ["retract"] else [])
  ++ (if maxc ≥ 1 then ["cascade"] else [])
  ++ (if maxc ≥ 2 then ["cascade2plus"] else [])
  ++ (if multi then ["multi_just"] else [])
  ++ (if both then ["explicit_and_logical"] else [])
  ++ (if dup then ["dup_premise"] else [])
  ++ (if retrDerived then ["retract_derived"] else [])
  ++ (if survivor then ["survivor"] else [])
  ++ (if os.any (fun o => o.res == .err) then ["err"] else [])
  -- the regimes beyond the small bound: deep cascades, long sessions, wide / unsorted premise lists
  ++ (if maxc ≥ 33 then ["cascade33plus"] else [])
  ++ (if maxc ≥ 65 then ["cascade65plus"] else [])
  ++ (if facts - g.pres.length ≥ 65 then ["gone65plus"] else [])
  ++ (if facts - g.pres.length ≥ 129 then ["gone129plus"] else [])
  ++ (if g.js.any (fun j => j.premises.length ≥ 5) then ["wide5plus"] else [])
  ++ (if g.js.any (fun j => j.premises.length ≥ 5 && !ascending j.premises) then ["wide_unsorted"] else [])
  ++ (if g.js.any (fun j => !ascending j.premises) then ["premises_unsorted"] else [])
  ++ [bucket "facts" 8 facts, bucket "ops" 10 ops.length]
  ++ (if g.wf && maxc ≥ 1 then ["nontrivial"] else [])

/-- the harness appends `!query` / `!twin` / `!listing` to a step's result when two public views
of the same state disagree (per-handle queries vs. set getters, the stand-alone TMS vs. the
engine's, `get_all_handles` vs. `get`); strip them for parsing, report them if nothing else fails -/
def stripFlags (o : String) : String × List String :=
  let steps := o.splitOn ";"
  let parts := steps.map fun st =>
    match st.splitOn "/" with
    | r :: rest =>
      match r.splitOn "!" with
      | r0 :: flags => ("/".intercalate (r0 :: rest), flags)
      | [] => (st, [])
    | [] => (st, [])
  (";".intercalate (parts.map (·.1)), (parts.map (·.2)).flatten.eraseDups)

/-- one history (segment) of a case: `.ok tags` or `.error (clause, local step)` -/
def oracleSegX (k : Nat) (ts : List (Option Op)) (steps : List String) : Except (String × Nat) (List String) :=
  let hasC := !ts.all Option.isSome
  -- the steps that must change nothing first: checked here and removed
  match unweave ts steps emptySets 0 with
  | .error i => .error ("maintenance", i)
  | .ok steps' =>
    let ops := stripC ts
    match steps'.mapM parseObs with
    | some os =>
      match firstBad k 0 {} ops os with
      | none => .ok (tagsOf ops os ++ (if hasC then ["maintenance_call"] else []))
      | some i =>
        -- index among the tokens of the segment: skip the `none` steps before the i-th operation
        let rec pos (ts : List (Option Op)) (i : Nat) (acc : Nat) : Nat :=
          match ts, i with
          | [], _ => acc
          | none :: r, i => pos r i (acc + 1)
          | some _ :: _, 0 => acc
          | some _ :: r, i + 1 => pos r i (acc + 1)
        match ghostAt i {} ops os with
        | some (g, op, o) => .error (whichClause k g op o, pos ts i 0)
        | none => .error ("length", pos ts i 0)
    | none => .error ("unparsable-observation", 0)

/-- one history with hidden steps: the observed steps are expanded first (`expand`), failure positions are mapped back -/
def oracleSeg (k : Nat) (ts : List (Option Op)) (hid : List Bool) (steps : List String) : Except (String × Nat) (List String) :=
  if hid.any id then
    let mdl := weave ts ((trace k init (stripC ts)).map showObs) emptySets
    match oracleSegX k ts (expand hid mdl steps none) with
    | .ok t => .ok (t ++ ["multi_result_firing"])
    | .error (cl, i) => .error (cl, visIdx hid i)
  else oracleSegX k ts steps

def visLen (hid : List Bool) : Nat := (hid.filter (!·)).length

def takeSegs : List (List (Option Op) × List Bool) → List String → List ((List (Option Op) × List Bool) × List String)
  | [], _ => []
  | ts :: r, steps => (ts, steps.take (visLen ts.2)) :: takeSegs r (steps.drop (visLen ts.2))

def oracleLine (line : String) : String :=
  match line.splitOn " | " with
  | [c, o] =>
    let (o, flags) := stripFlags o.trimAscii.toString
    match parseSegsH c with
    | some segs =>
      let k := univSegs (segs.map (·.1))
      let steps := if o = "-" then [] else o.splitOn ";"
      if steps.length != (segs.map fun s => visLen s.2).foldl (· + ·) 0 then
        (if steps.any (fun st => (st.splitOn "/").length != 6) then "fail unparsable-observation" else s!"fail length@{steps.length}")
      else
      let rec go (l : List ((List (Option Op) × List Bool) × List String)) (off : Nat) (tags : List String) : String :=
        match l with
        | [] =>
          match flags with
          | [] => joinSp ("ok" :: tags.eraseDups ++ (if segs.length > 1 then ["reset_with_deffacts"] else [])
              ++ (if (c.splitOn "@").length > 1 then ["rule_name_given"] else [])
              ++ (if (tokens c).any (fun t => t.endsWith "@0") then ["rule_name_empty"] else []))
          | f :: _ => s!"fail inconsistent-{f}"
        | ((ts, hid), st) :: r =>
          match oracleSeg k ts hid st with
          | .ok t => go r (off + visLen hid) (tags ++ t)
          | .error (cl, i) => if cl = "unparsable-observation" then "fail unparsable-observation" else s!"fail {cl}@{off + i}"
      go (takeSegs segs steps) 0 []
    | none => "bad-input"
  | _ => "bad-input"

def main (args : List String) : IO Unit :=
  match args with
  | ["model"] => mapLines modelLine
  | ["oracle"] => mapLines oracleLine
  | _ => IO.eprintln "usage: drv_c08 model|oracle"
