import RreModel.Proto
import RreModel.C08.Spec
/-
Driver for C08.
  case := op op …    I | E | L<ps> | J<f>:<ps> | X<f> | R<h>     <ps> := - | p,p,…
  obs  := step;step;…   step := res/present/logical/explicit/valid/stats
          res := h<k> | u | ok:<cascade> | err   (a trailing `!flag` from the harness makes it unparsable)
          `C` = working_memory_mut().clear_modification_tracking(): not an operation of the model — it inserts and
          retracts nothing. Its step has result `c` and must repeat the sets of the step before it (clause
          `maintenance`); the driver checks exactly that, removes the op and its step, and hands the rest to the
          model / Spec.runOk unchanged (so every theorem is about the same `Op` type as before).
          Reach ops (engine paths beyond insert/insert_logical/retract; every one is DESUGARED here into the model's own `Op`s, so
          every theorem is about the same `Op` type as before):
            N | P | D | G      twins of `insert`: unique fact type / insert_with_template / load_deffacts_by_name / load_deffacts  ↦ insert
            U<h> | A | Z       engine.update(h, ..) / add_rule / reset(): insert and retract nothing                         ↦ a `C`-like step
            F<a>               TWO steps: engine.insert(trigger fact) ↦ insert; then reset() + fire_all() with the fired rule's
                               action returning ONE ActionResult a:  r<h> Retract(h) ↦ retract h | t<h> RetractByType(type of h; the
                               type is unique to h only for `N` facts) ↦ retract h / nothing | i InsertFact ↦ insert_explicit |
                               l<ps> InsertLogicalFact ↦ insert_logical ps | u<h> Update(h), n None, g ActivateAgendaGroup,
                               c CallFunction, s ScheduleRule, m (no result; the action MODIFIES fields of the F and D facts, which
                               fire_all writes back with working_memory.update) ↦ a `C`-like step
            Lk<ps>             insert_logical whose premise handles were first looked up with resolve_premise_keys("<type>.id=<p>")
                               (the harness flags `!resolve` unless the lookup finds exactly the live premises)              ↦ insert_logical ps
            K<h>               engine.update(h, kill=true) + reset() + fire_all() with GRL rules `when F.kill == true then retract($F)`
                               (types F and D only)                                                                          ↦ retract h / nothing
            W                  engine.reset_with_deffacts(): working memory AND truth maintenance start again (handles from 1); one
                               deffacts fact is loaded ↦ a NEW history starts (model and oracle run it from `init`) with one insert
          Rule names: a logical token (`L`, `Lk`, `J`, `Fl`) may end in `@<n>` = the source-rule NAME the harness hands to the call
          (entry n of its table: empty, blank, very long, non-ASCII, equal names …). The name is a label — `Model.Op` has no
          rule name and the property does not mention one — so the suffix is removed here (`stripName`) and model, oracle and
          every theorem see the same history as without it.
  drv_c08 model   : case        ↦ obs predicted by the model
  drv_c08 oracle  : case | obs  ↦ `ok <tags>` / `fail <clause>@<step>` (Spec.runOk on the observations)
-/
open Proto C08

def parseOp (t : String) : Option Op :=
  if t = "I" then some .insert
  else if t = "E" then some .insertExplicit
  else if t.startsWith "L" then (parseNats? (t.drop 1).toString).map .insertLogical
  else if t.startsWith "J" then
    match (t.drop 1).toString.splitOn ":" with
    | [f, ps] => do
      let f ← f.toNat?
      let ps ← parseNats? ps
      pure (.addLogical f ps)
    | _ => none
  else if t.startsWith "X" then (t.drop 1).toString.toNat?.map .addExplicit
  else if t.startsWith "R" then (t.drop 1).toString.toNat?.map .retract
  else none

/-- the fact types the harness gives to the handles a token creates, in creation order
(`F`/`D`: the shared types of explicit / logical facts, `N`: a type of its own, `P`: template type, `T`: trigger) -/
def kindsOfTok (t : String) : List Char :=
  if t = "I" || t = "E" then ['F']
  else if t.startsWith "L" then ['D']
  else if t = "N" then ['N']
  else if t = "P" || t = "D" || t = "G" || t = "W" then ['P']
  else if t = "Fi" then ['T', 'F']
  else if t.startsWith "Fl" then ['T', 'D']
  else if t.startsWith "F" then ['T']
  else []

def kindOf (kinds : List Char) (h : Nat) : Char := if h = 0 then '?' else kinds.getD (h - 1) '?'

/-- a token of the case line ↦ the model operations (or `none` = a step that must change nothing) it stands for -/
def parseTok (kinds : List Char) (t : String) : Option (List (Option Op)) :=
  if t = "C" || t = "A" || t = "Z" then some [none]
  else if t = "N" || t = "P" || t = "D" || t = "G" || t = "W" then some [some .insert]
  else if t.startsWith "U" then (t.drop 1).toString.toNat?.map fun _ => [none]
  else if t.startsWith "K" then
    (t.drop 1).toString.toNat?.map fun h =>
      [some (.retract (if kindOf kinds h == 'F' || kindOf kinds h == 'D' then h else 0))]
  else if t = "Fi" then some [some .insert, some .insertExplicit]
  else if t = "Fn" || t = "Fm" || t = "Fg" || t = "Fc" || t = "Fs" then some [some .insert, none]
  else if t.startsWith "Lk" then (parseNats? (t.drop 2).toString).map fun ps => [some (.insertLogical ps)]
  else if t.startsWith "Fr" then (t.drop 2).toString.toNat?.map fun h => [some .insert, some (.retract h)]
  else if t.startsWith "Ft" then
    (t.drop 2).toString.toNat?.map fun h => [some .insert, some (.retract (if kindOf kinds h == 'N' then h else 0))]
  else if t.startsWith "Fu" then (t.drop 2).toString.toNat?.map fun _ => [some .insert, none]
  else if t.startsWith "Fl" then (parseNats? (t.drop 2).toString).map fun ps => [some .insert, some (.insertLogical ps)]
  else if t.startsWith "F" then none
  else (parseOp t).map fun op => [some op]

/-- the histories of a case: `W` (reset_with_deffacts) starts a new one, of which it is the first token -/
def splitW : List String → List (List String)
  | [] => [[]]
  | t :: ts =>
    match splitW ts with
    | seg :: segs => if t = "W" then [] :: (t :: seg) :: segs else (t :: seg) :: segs
    | [] => [[t]]

/-- a token without its rule-name suffix `@<n>` (only logical tokens may carry one; `n` must be a number) -/
def stripName (t : String) : Option String :=
  match t.splitOn "@" with
  | [a] => some a
  | [a, n] =>
    if (a.startsWith "L" || a.startsWith "J" || a.startsWith "Fl") && n.toNat?.isSome then some a else none
  | _ => none

def parseSeg (toks : List String) : Option (List (Option Op)) := do
  let toks ← toks.mapM stripName
  let kinds := (toks.map kindsOfTok).flatten
  (toks.mapM (parseTok kinds)).map List.flatten

/-- the histories of a case line (at least one; the first may be empty) -/
def parseSegs (line : String) : Option (List (List (Option Op))) :=
  ((splitW (tokens line)).filter fun seg => !seg.isEmpty).mapM parseSeg

def univSegs (segs : List (List (Option Op))) : Nat := (segs.map fun ts => universeOf (stripC ts)).foldl max 0

/-- what every step shows before anything happened: no fact, no justification -/
def emptySets : String := "-/-/-/-/0,0,0,0"

/-- the sets of a step (everything after the result) -/
def setsOf (step : String) : String :=
  match step.splitOn "/" with
  | _ :: rest => "/".intercalate rest
  | [] => ""

/-- the two views of a step's text the maintenance clause needs (`C08.StepView`, Spec.lean) -/
def strView : StepView String String := { setsOf := setsOf, cstep := fun prev => s!"c/{prev}" }

/-- model mode: put a step `c/<sets of the step before>` back for every `C` (`C08.weave`, Spec.lean) -/
def weave (ts : List (Option Op)) (steps : List String) (prev : String) : List String := C08.weave strView ts steps prev

/-- oracle mode: check the `C` steps (result `c`, sets unchanged) and remove them (`C08.unweave`, Spec.lean:
theorems `C08.maintenance_noop`, `C08.maintenance_exact`); `.error i` = the maintenance clause fails at (original) step `i` -/
def unweave (ts : List (Option Op)) (steps : List String) (prev : String) (i : Nat) : Except Nat (List String) :=
  C08.unweave strView ts steps prev i

def showRes : Res → String
  | .handle h => s!"h{h}"
  | .unit => "u"
  | .retracted c => s!"ok:{showNats c}"
  | .err => "err"

def parseRes (s : String) : Option Res :=
  if s = "u" then some .unit
  else if s = "err" then some .err
  else if s.startsWith "ok:" then (parseNats? (s.drop 3).toString).map .retracted
  else if s.startsWith "h" then (s.drop 1).toString.toNat?.map .handle
  else none

def showObs (o : Obs) : String :=
  s!"{showRes o.res}/{showNats o.present}/{showNats o.logical}/{showNats o.explicit}/{showNats o.valid}/{showNats o.stats}"

def showTrace (os : List Obs) : String :=
  if os.isEmpty then "-" else ";".intercalate (os.map showObs)

def parseObs (s : String) : Option Obs :=
  match s.splitOn "/" with
  | [r, p, l, e, v, st] => do
    let r ← parseRes r
    let p ← parseNats? p
    let l ← parseNats? l
    let e ← parseNats? e
    let v ← parseNats? v
    let st ← parseNats? st
    pure { res := r, present := p, logical := l, explicit := e, valid := v, stats := st }
  | _ => none

def parseTrace (s : String) : Option (List Obs) :=
  if s = "-" then some [] else (s.splitOn ";").mapM parseObs

def modelLine (line : String) : String :=
  match parseSegs line with
  | some segs =>
    let k := univSegs segs
    let out := (segs.map fun ts => weave ts ((trace k init (stripC ts)).map showObs) emptySets).flatten
    if out.isEmpty then "-" else ";".intercalate out
  | none => "bad-case"

/-- which clause fails at step `i` (for the signature) -/
def whichClause (k : Nat) (g : Ghost) (op : Op) (o : Obs) : String :=
  match stepGhost g op o with
  | none =>
    match op with
    | .retract _ => "cascade"
    | _ => "frame"
  | some g' =>
    if !(univ k).all (fun f => supportClause g'.js g'.req g'.pres f) then "support"
    else if !(univ k).all (fun f => explicitClause g'.js g'.req g'.pres f) then "explicit"
    else "query"

def ghostAt : Nat → Ghost → List Op → List Obs → Option (Ghost × Op × Obs)
  | 0, g, op :: _, o :: _ => some (g, op, o)
  | i + 1, g, op :: ops, o :: os =>
    match stepGhost g op o with
    | some g' => ghostAt i g' ops os
    | none => none
  | _, _, _, _ => none

/-- sizes beyond the small bound are histogrammed in buckets around the usual thresholds -/
def bucket (name : String) (exact : Nat) (n : Nat) : String :=
  if n ≤ exact then s!"{name}{n}"
  else if n ≤ 32 then s!"{name}{exact + 1}_32"
  else if n ≤ 64 then s!"{name}33_64"
  else if n ≤ 128 then s!"{name}65_128"
  else s!"{name}129plus"

def ascending : List Nat → Bool
  | a :: b :: r => decide (a ≤ b) && ascending (b :: r)
  | _ => true

def tagsOf (ops : List Op) (os : List Obs) : List String :=
  let g := ghostEnd {} ops os
  let casc := os.filterMap fun o => match o.res with | .retracted c => some c.length | _ => none
  let maxc := casc.foldl max 0
  let facts := g.n
  let multi := (univ facts).any fun f => (g.js.filter fun j => j.fact == f).length ≥ 2
  let both := (univ facts).any fun f => hasExplicit g.js f && hasLogical g.js f
  let dup := g.js.any fun j => !j.premises.eraseDups.length == j.premises.length
  let retrDerived := g.req.any fun h => logicalOnly g.js h
  let survivor := -- a logical-only fact still present after one of its justifications lost a premise
    (univ facts).any fun f => logicalOnly g.js f && g.pres.contains f &&
      g.js.any fun j => j.fact == f && !j.premises.all g.pres.contains
  (if g.wf then ["wf"] else ["nonwf"])
  ++ (if casc.length > 0 then ["retract"] else [])
  ++ (if maxc ≥ 1 then ["cascade"] else [])
  ++ (if maxc ≥ 2 then ["cascade2plus"] else [])
  ++ (if multi then ["multi_just"] else [])
  ++ (if both then ["explicit_and_logical"] else [])
  ++ (if dup then ["dup_premise"] else [])
  ++ (if retrDerived then ["retract_derived"] else [])
  ++ (if survivor then ["survivor"] else [])
  ++ (if os.any (fun o => o.res == .err) then ["err"] else [])
  -- the regimes beyond the small bound: deep cascades, long sessions, wide / unsorted premise lists
  ++ (if maxc ≥ 33 then ["cascade33plus"] else [])
  ++ (if maxc ≥ 65 then ["cascade65plus"] else [])
  ++ (if facts - g.pres.length ≥ 65 then ["gone65plus"] else [])
  ++ (if facts - g.pres.length ≥ 129 then ["gone129plus"] else [])
  ++ (if g.js.any (fun j => j.premises.length ≥ 5) then ["wide5plus"] else [])
  ++ (if g.js.any (fun j => j.premises.length ≥ 5 && !ascending j.premises) then ["wide_unsorted"] else [])
  ++ (if g.js.any (fun j => !ascending j.premises) then ["premises_unsorted"] else [])
  ++ [bucket "facts" 8 facts, bucket "ops" 10 ops.length]
  ++ (if g.wf && maxc ≥ 1 then ["nontrivial"] else [])

/-- the harness appends `!query` / `!twin` / `!listing` to a step's result when two public views
of the same state disagree (per-handle queries vs. set getters, the stand-alone TMS vs. the
engine's, `get_all_handles` vs. `get`); strip them for parsing, report them if nothing else fails -/
def stripFlags (o : String) : String × List String :=
  let steps := o.splitOn ";"
  let parts := steps.map fun st =>
    match st.splitOn "/" with
    | r :: rest =>
      match r.splitOn "!" with
      | r0 :: flags => ("/".intercalate (r0 :: rest), flags)
      | [] => (st, [])
    | [] => (st, [])
  (";".intercalate (parts.map (·.1)), (parts.map (·.2)).flatten.eraseDups)

/-- one history (segment) of a case: `.ok tags` or `.error (clause, local step)` -/
def oracleSeg (k : Nat) (ts : List (Option Op)) (steps : List String) : Except (String × Nat) (List String) :=
  let hasC := !ts.all Option.isSome
  -- the steps that must change nothing first: checked here and removed
  match unweave ts steps emptySets 0 with
  | .error i => .error ("maintenance", i)
  | .ok steps' =>
    let ops := stripC ts
    match steps'.mapM parseObs with
    | some os =>
      match firstBad k 0 {} ops os with
      | none => .ok (tagsOf ops os ++ (if hasC then ["maintenance_call"] else []))
      | some i =>
        -- index among the tokens of the segment: skip the `none` steps before the i-th operation
        let rec pos (ts : List (Option Op)) (i : Nat) (acc : Nat) : Nat :=
          match ts, i with
          | [], _ => acc
          | none :: r, i => pos r i (acc + 1)
          | some _ :: _, 0 => acc
          | some _ :: r, i + 1 => pos r i (acc + 1)
        match ghostAt i {} ops os with
        | some (g, op, o) => .error (whichClause k g op o, pos ts i 0)
        | none => .error ("length", pos ts i 0)
    | none => .error ("unparsable-observation", 0)

def takeSegs : List (List (Option Op)) → List String → List (List (Option Op) × List String)
  | [], _ => []
  | ts :: r, steps => (ts, steps.take ts.length) :: takeSegs r (steps.drop ts.length)

def oracleLine (line : String) : String :=
  match line.splitOn " | " with
  | [c, o] =>
    let (o, flags) := stripFlags o.trimAscii.toString
    match parseSegs c with
    | some segs =>
      let k := univSegs segs
      let steps := if o = "-" then [] else o.splitOn ";"
      if steps.length != (segs.map List.length).foldl (· + ·) 0 then
        (if steps.any (fun st => (st.splitOn "/").length != 6) then "fail unparsable-observation" else s!"fail length@{steps.length}")
      else
      let rec go (l : List (List (Option Op) × List String)) (off : Nat) (tags : List String) : String :=
        match l with
        | [] =>
          match flags with
          | [] => joinSp ("ok" :: tags.eraseDups ++ (if segs.length > 1 then ["reset_with_deffacts"] else [])
              ++ (if (c.splitOn "@").length > 1 then ["rule_name_given"] else [])
              ++ (if (tokens c).any (fun t => t.endsWith "@0") then ["rule_name_empty"] else []))
          | f :: _ => s!"fail inconsistent-{f}"
        | (ts, st) :: r =>
          match oracleSeg k ts st with
          | .ok t => go r (off + ts.length) (tags ++ t)
          | .error (cl, i) => if cl = "unparsable-observation" then "fail unparsable-observation" else s!"fail {cl}@{off + i}"
      go (takeSegs segs steps) 0 []
    | none => "bad-input"
  | _ => "bad-input"

def main (args : List String) : IO Unit :=
  match args with
  | ["model"] => mapLines modelLine
  | ["oracle"] => mapLines oracleLine
  | _ => IO.eprintln "usage: drv_c08 model|oracle"
