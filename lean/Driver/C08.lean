import RreModel.Proto
import RreModel.C08.Spec
/-
Driver for C08.
  case := op op …    I | E | L<ps> | J<f>:<ps> | X<f> | R<h>     <ps> := - | p,p,…
  obs  := step;step;…   step := res/present/logical/explicit/valid/stats
          res := h<k> | u | ok:<cascade> | err   (a trailing `!flag` from the harness makes it unparsable)
          `C` = working_memory_mut().clear_modification_tracking(): not an operation of the model — it inserts and
          retracts nothing. Its step has result `c` and must repeat the sets of the step before it (clause
          `maintenance`); the driver checks exactly that, removes the op and its step, and hands the rest to the
          model / Spec.runOk unchanged (so every theorem is about the same `Op` type as before).
  drv_c08 model   : case        ↦ obs predicted by the model
  drv_c08 oracle  : case | obs  ↦ `ok <tags>` / `fail <clause>@<step>` (Spec.runOk on the observations)
-/
open Proto C08

def parseOp (t : String) : Option Op :=
  if t = "I" then some .insert
  else if t = "E" then some .insertExplicit
  else if t.startsWith "L" then (parseNats? (t.drop 1).toString).map .insertLogical
  else if t.startsWith "J" then
    match (t.drop 1).toString.splitOn ":" with
    | [f, ps] => do
      let f ← f.toNat?
      let ps ← parseNats? ps
      pure (.addLogical f ps)
    | _ => none
  else if t.startsWith "X" then (t.drop 1).toString.toNat?.map .addExplicit
  else if t.startsWith "R" then (t.drop 1).toString.toNat?.map .retract
  else none

/-- a token of the case line: an operation of the model, or the maintenance call `C` (`none`) -/
def parseTok (t : String) : Option (Option Op) :=
  if t = "C" then some none else (parseOp t).map some

def parseToks (line : String) : Option (List (Option Op)) := (tokens line).mapM parseTok

def parseCase (line : String) : Option (List Op) := (parseToks line).map stripC

/-- what every step shows before anything happened: no fact, no justification -/
def emptySets : String := "-/-/-/-/0,0,0,0"

/-- the sets of a step (everything after the result) -/
def setsOf (step : String) : String :=
  match step.splitOn "/" with
  | _ :: rest => "/".intercalate rest
  | [] => ""

/-- the two views of a step's text the maintenance clause needs (`C08.StepView`, Spec.lean) -/
def strView : StepView String String := { setsOf := setsOf, cstep := fun prev => s!"c/{prev}" }

/-- model mode: put a step `c/<sets of the step before>` back for every `C` (`C08.weave`, Spec.lean) -/
def weave (ts : List (Option Op)) (steps : List String) (prev : String) : List String := C08.weave strView ts steps prev

/-- oracle mode: check the `C` steps (result `c`, sets unchanged) and remove them (`C08.unweave`, Spec.lean:
theorems `C08.maintenance_noop`, `C08.maintenance_exact`); `.error i` = the maintenance clause fails at (original) step `i` -/
def unweave (ts : List (Option Op)) (steps : List String) (prev : String) (i : Nat) : Except Nat (List String) :=
  C08.unweave strView ts steps prev i

def showRes : Res → String
  | .handle h => s!"h{h}"
  | .unit => "u"
  | .retracted c => s!"ok:{showNats c}"
  | .err => "err"

def parseRes (s : String) : Option Res :=
  if s = "u" then some .unit
  else if s = "err" then some .err
  else if s.startsWith "ok:" then (parseNats? (s.drop 3).toString).map .retracted
  else if s.startsWith "h" then (s.drop 1).toString.toNat?.map .handle
  else none

def showObs (o : Obs) : String :=
  s!"{showRes o.res}/{showNats o.present}/{showNats o.logical}/{showNats o.explicit}/{showNats o.valid}/{showNats o.stats}"

def showTrace (os : List Obs) : String :=
  if os.isEmpty then "-" else ";".intercalate (os.map showObs)

def parseObs (s : String) : Option Obs :=
  match s.splitOn "/" with
  | [r, p, l, e, v, st] => do
    let r ← parseRes r
    let p ← parseNats? p
    let l ← parseNats? l
    let e ← parseNats? e
    let v ← parseNats? v
    let st ← parseNats? st
    pure { res := r, present := p, logical := l, explicit := e, valid := v, stats := st }
  | _ => none

def parseTrace (s : String) : Option (List Obs) :=
  if s = "-" then some [] else (s.splitOn ";").mapM parseObs

def modelLine (line : String) : String :=
  match parseToks line with
  | some ts =>
    let ops := stripC ts
    if ts.all Option.isSome then showTrace (trace (universeOf ops) init ops)
    else
      let steps := (trace (universeOf ops) init ops).map showObs
      let out := weave ts steps emptySets
      if out.isEmpty then "-" else ";".intercalate out
  | none => "bad-case"

/-- which clause fails at step `i` (for the signature) -/
def whichClause (k : Nat) (g : Ghost) (op : Op) (o : Obs) : String :=
  match stepGhost g op o with
  | none =>
    match op with
    | .retract _ => "cascade"
    | _ => "frame"
  | some g' =>
    if !(univ k).all (fun f => supportClause g'.js g'.req g'.pres f) then "support"
    else if !(univ k).all (fun f => explicitClause g'.js g'.req g'.pres f) then "explicit"
    else "query"

def ghostAt : Nat → Ghost → List Op → List Obs → Option (Ghost × Op × Obs)
  | 0, g, op :: _, o :: _ => some (g, op, o)
  | i + 1, g, op :: ops, o :: os =>
    match stepGhost g op o with
    | some g' => ghostAt i g' ops os
    | none => none
  | _, _, _, _ => none

/-- sizes beyond the small bound are histogrammed in buckets around the usual thresholds -/
def bucket (name : String) (exact : Nat) (n : Nat) : String :=
  if n ≤ exact then s!"{name}{n}"
  else if n ≤ 32 then s!"{name}{exact + 1}_32"
  else if n ≤ 64 then s!"{name}33_64"
  else if n ≤ 128 then s!"{name}65_128"
  else s!"{name}129plus"

def ascending : List Nat → Bool
  | a :: b :: r => decide (a ≤ b) && ascending (b :: r)
  | _ => true

def tagsOf (ops : List Op) (os : List Obs) : List String :=
  let g := ghostEnd {} ops os
  let casc := os.filterMap fun o => match o.res with | .retracted c => some c.length | _ => none
  let maxc := casc.foldl max 0
  let facts := g.n
  let multi := (univ facts).any fun f => (g.js.filter fun j => j.fact == f).length ≥ 2
  let both := (univ facts).any fun f => hasExplicit g.js f && hasLogical g.js f
  let dup := g.js.any fun j => !j.premises.eraseDups.length == j.premises.length
  let retrDerived := g.req.any fun h => logicalOnly g.js h
  let survivor := -- a logical-only fact still present after one of its justifications lost a premise
    (univ facts).any fun f => logicalOnly g.js f && g.pres.contains f &&
      g.js.any fun j => j.fact == f && !j.premises.all g.pres.contains
  (if g.wf then ["wf"] else ["nonwf"])
  ++ (if casc.length > 0 then ["retract"] else [])
  ++ (if maxc ≥ 1 then ["cascade"] else [])
  ++ (if maxc ≥ 2 then ["cascade2plus"] else [])
  ++ (if multi then ["multi_just"] else [])
  ++ (if both then ["explicit_and_logical"] else [])
  ++ (if dup then ["dup_premise"] else [])
  ++ (if retrDerived then ["retract_derived"] else [])
  ++ (if survivor then ["survivor"] else [])
  ++ (if os.any (fun o => o.res == .err) then ["err"] else [])
  -- the regimes beyond the small bound: deep cascades, long sessions, wide / unsorted premise lists
  ++ (if maxc ≥ 33 then ["cascade33plus"] else [])
  ++ (if maxc ≥ 65 then ["cascade65plus"] else [])
  ++ (if facts - g.pres.length ≥ 65 then ["gone65plus"] else [])
  ++ (if facts - g.pres.length ≥ 129 then ["gone129plus"] else [])
  ++ (if g.js.any (fun j => j.premises.length ≥ 5) then ["wide5plus"] else [])
  ++ (if g.js.any (fun j => j.premises.length ≥ 5 && !ascending j.premises) then ["wide_unsorted"] else [])
  ++ (if g.js.any (fun j => !ascending j.premises) then ["premises_unsorted"] else [])
  ++ [bucket "facts" 8 facts, bucket "ops" 10 ops.length]
  ++ (if g.wf && maxc ≥ 1 then ["nontrivial"] else [])

/-- the harness appends `!query` / `!twin` / `!listing` to a step's result when two public views
of the same state disagree (per-handle queries vs. set getters, the stand-alone TMS vs. the
engine's, `get_all_handles` vs. `get`); strip them for parsing, report them if nothing else fails -/
def stripFlags (o : String) : String × List String :=
  let steps := o.splitOn ";"
  let parts := steps.map fun st =>
    match st.splitOn "/" with
    | r :: rest =>
      match r.splitOn "!" with
      | r0 :: flags => ("/".intercalate (r0 :: rest), flags)
      | [] => (st, [])
    | [] => (st, [])
  (";".intercalate (parts.map (·.1)), (parts.map (·.2)).flatten.eraseDups)

def oracleLine (line : String) : String :=
  match line.splitOn " | " with
  | [c, o] =>
    let (o, flags) := stripFlags o.trimAscii.toString
    -- the maintenance steps first: checked here and removed
    let hasC := (parseToks c).any fun ts => !ts.all Option.isSome
    let chk : Except Nat String :=
      match parseToks c with
      | some ts =>
        if hasC then
          (unweave ts (if o = "-" then [] else o.splitOn ";") emptySets 0).map fun l =>
            if l.isEmpty then "-" else ";".intercalate l
        else .ok o
      | none => .ok o
    match chk with
    | .error i => s!"fail maintenance@{i}"
    | .ok o =>
    match parseCase c, parseTrace o with
    | some ops, some os =>
      let k := universeOf ops
      match firstBad k 0 {} ops os with
      | none =>
        match flags with
        | [] => joinSp ("ok" :: tagsOf ops os ++ (if hasC then ["maintenance_call"] else []))
        | f :: _ => s!"fail inconsistent-{f}"
      | some i =>
        match ghostAt i {} ops os with
        | some (g, op, o) => s!"fail {whichClause k g op o}@{i}"
        | none => s!"fail length@{i}"
    | some _, none => "fail unparsable-observation"
    | _, _ => "bad-input"
  | _ => "bad-input"

def main (args : List String) : IO Unit :=
  match args with
  | ["model"] => mapLines modelLine
  | ["oracle"] => mapLines oracleLine
  | _ => IO.eprintln "usage: drv_c08 model|oracle"
