import RreModel.Proto
import RreModel.C09.Spec
import RreModel.C09.Candidates
import RreModel.C09.Ext
import RreModel.C09.Hist
/-
Driver for C09 / C10-B.  Grammar: see harness/src/bin/c09.rs.
  obs := `<provable 1|0|err> <facts after> <undo depth after> <#solutions>`
  drv_c09 model  : case       ↦ the SET of admissible observations, one per order of the top-level
                                candidate list (it comes out of a HashSet), joined by ` || `
  drv_c09 oracle : case | obs ↦ `ok <tags>` / `fail <clause>`   clauses: goal-false-after (i),
                                not-reachable (ii), not-restored / leaked-frames (iii), incomplete (iv),
                                incomplete-deadend (iv-c: inconsistent only through dead-end rules), incomplete-interference (iv-b)
  query := `!<atom>` is the NEGATED query `NOT <atom>` (model: RreModel/C09/Ext.lean; oracle clauses (ii), (iii) only — (i) and
           (iv) are stated for atomic goals); rule := `*<rule>` is a rule added DISABLED (`enabled = false`): the oracle's
           rule set (forward closure, completeness) is the ENABLED rules, the model treats a disabled candidate as a no-op
  drv_c09 oracle3: the same with clause (iii) evaluated FIRST (C10 part B: a fact left behind by a failed
                                proof is usually not forward-reachable either, and must be reported as (iii))

  Reach-audit extensions (grammar in harness/src/bin/c09.rs): cfg := `<D|B|I|N><depth>s<ms>[m][v<k>]` (`N` = built by
  `BackwardEngine::new`: DFS, depth 10, max_solutions 1, memo on; `v<k>` = field vocabulary k); a 5th token is a HISTORY of
  steps on one engine (model: RreModel/C09/Hist.lean). Observation / prediction of a history: one per query, joined by ` / `.
  Every query of a history is judged by the same oracle clauses against the knowledge base, configuration and facts AS THEY
  ARE at that query; the completeness clauses (iv), (iv-b) only when the index is fresh (no edit since the last
  `new` / `with_config` / `rebuild_index`: "call after modifying knowledge base"). A failure carries `@<k>` = the k-th query.

  Caller-owned undo frame (C10 part B): cfg ending in `^r` / `^k` = the single query runs inside a frame the caller began on the
  facts and rolls back (`^r`) / commits (`^k`) afterwards; obs := `<provable> <facts after the query> <undo depth, caller frame open>
  <#solutions> <facts after the caller closed its frame> <undo depth then>`. Oracle (`oracleWrap`, evaluated before the other clauses):
  caller-frame-depth (depth is 1 after the query: the search neither closed the caller's frame nor left one of its own), caller-frame-
  depth-after-close (0), caller-rollback-not-restored (`^r`: the facts are the initial facts WHATEVER the verdict - the search's frames
  are nested frames of the caller's; model: C10.query_inside_frame_rolls_back), caller-commit-changed-facts (`^k`: the facts are those
  the query handed back); then the clauses of a plain query on `<provable> <facts after the query> 0 <#solutions>`.
  Model prediction: every admissible plain observation with depth 1 + the facts after the close computed the same way.
-/
open Proto C09

def fieldNames : List String := ["A", "B", "C", "D", "E", "G", "X", "Y", "U.P", "U.Q", "E._return"]
def nFields : Nat := 11
/-- the key `<object>._return` that a value-returning `MethodCall` writes: only `E` (field 4) has one in the universe -/
def returnField (f : Nat) : Option Nat := if f = 4 then some 10 else none
def fieldName (i : Nat) : String := (fieldNames[i]?).getD "?"
/-- vocabulary 1: names that start with / contain keywords of the query language -/
def fieldNames1 : List String :=
  ["NOTICE", "ORDER", "ANDROID", "trueCount", "NOTE", "nullable", "X", "inStock", "NOTIFY.Sent", "NOT.Q", "NOTE._return"]
def fieldNameV (voc : Nat) (i : Nat) : String := if voc = 1 then (fieldNames1[i]?).getD "?" else fieldName i

/-- `<word>` of a string literal in the case text: `_` = blank, `%hh` = the ASCII character with that hex code -/
def hexDig (c : Char) : Option Nat :=
  if c.isDigit then some (c.toNat - '0'.toNat) else if 'a' ≤ c ∧ c ≤ 'f' then some (c.toNat - 'a'.toNat + 10) else none
def decWordL : List Char → List Char
  | '%' :: a :: b :: rest =>
    match hexDig a, hexDig b with
    | some x, some y => Char.ofNat (16 * x + y) :: decWordL rest
    | _, _ => '%' :: decWordL (a :: b :: rest)
  | '_' :: rest => ' ' :: decWordL rest
  | c :: rest => c :: decWordL rest
  | [] => []
def unBlank (s : String) : String := String.ofList (decWordL s.toList)
def hexChar (n : Nat) : Char := if n < 10 then Char.ofNat ('0'.toNat + n) else Char.ofNat ('a'.toNat + n - 10)
def reBlank (s : String) : String :=
  String.ofList (s.toList.flatMap fun c =>
    if c.isAlphanum then [c] else if c = ' ' then ['_'] else ['%', hexChar (c.toNat / 16), hexChar (c.toNat % 16)])

def parseElem (s : String) : Option Elem :=
  if s = "t" then some (.bool true) else if s = "f" then some (.bool false)
  else if s.startsWith "n" then (s.drop 1).toString.toInt?.map .num
  else if s.startsWith "i" then (s.drop 1).toString.toInt?.map .int
  else if s.startsWith "s" then some (.str (unBlank (s.drop 1).toString))
  else none

def showElem : Elem → String
  | .bool true => "t" | .bool false => "f"
  | .num n => s!"n{n}" | .int n => s!"i{n}" | .str s => "s" ++ reBlank s

/-- `a` = the empty array, `a<e>^<e>…` = an array of scalars; `o<n>` = `Object {"Speed": Number n}` -/
def parseVal (s : String) : Option Val :=
  if s = "z" then some .null
  else if s = "t" then some (.bool true) else if s = "f" then some (.bool false)
  else if s.startsWith "n" then (s.drop 1).toString.toInt?.map .num
  else if s.startsWith "i" then (s.drop 1).toString.toInt?.map .int
  else if s.startsWith "s" then some (.str (unBlank (s.drop 1).toString))
  else if s = "a" then some (.arr [])
  else if s.startsWith "a" then ((s.drop 1).toString.splitOn "^").mapM parseElem |>.map .arr
  else if s.startsWith "o" then (s.drop 1).toString.toInt?.map .obj
  else none

def showVal : Val → String
  | .bool true => "t" | .bool false => "f"
  | .num n => s!"n{n}" | .int n => s!"i{n}" | .str s => "s" ++ reBlank s
  | .arr l => "a" ++ "^".intercalate (l.map showElem)
  | .obj n => s!"o{n}"
  | .null => "z"

def parseField (s : String) : Option Nat :=
  if s.startsWith "F" then (s.drop 1).toString.toNat?.bind fun i => if i < nFields then some i else none else none

def parseCmp (s : String) : Option Cmp :=
  if s = "eq" then some .eq else if s = "ne" then some .ne else if s = "gt" then some .gt
  else if s = "lt" then some .lt else if s = "ge" then some .ge else if s = "le" then some .le
  else if s = "co" then some .contains else if s = "nc" then some .notContains else if s = "sw" then some .startsWith
  else if s = "ew" then some .endsWith else if s = "ma" then some .matches else if s = "in" then some .isIn else none

def parseAtom (s : String) : Option Atom :=
  match s.splitOn "." with
  | [f, o, v] => do pure ⟨← parseField f, ← parseCmp o, ← parseVal v⟩
  | _ => none

/-- prefix-notation condition parser over the token list (fuel = number of tokens) -/
def parseCondToks : Nat → List String → Option (Cond × List String)
  | 0, _ => none
  | _ + 1, [] => none
  | fuel + 1, t :: rest =>
    if t = "&" || t = "/" then do
      let (l, r1) ← parseCondToks fuel rest
      let (r, r2) ← parseCondToks fuel r1
      pure (if t = "&" then .and l r else .or l r, r2)
    else do
      let a ← parseAtom t
      pure (.atom a, rest)

/-- action := `F<i>:=<val>` Set | `F<i><<<scalar>` Append | `F<i>!` Retract | `F<i>$<int>` MethodCall setSpeed
| `F4$g` MethodCall getSpeed -/
def parseAct (s : String) : Option Act :=
  match s.splitOn ":=" with
  | [f, v] => do pure (.set (← parseField f) (← parseVal v))
  | _ =>
    match s.splitOn "<<" with
    | [f, e] => do pure (.append (← parseField f) (← parseElem e))
    | _ =>
      match s.splitOn "$" with
      | [f, n] =>
        if n = "g" then do
          let o ← parseField f
          pure (.get o (← returnField o))
        else do pure (.call (← parseField f) (← n.toInt?))
      | _ => if s.endsWith "!" then (parseField (s.dropEnd 1).toString).map .retract else none

/-- the leading `Set` actions of an action list, and the rest of it -/
def splitActs : List Act → List (Nat × Val) × List Act
  | .set f v :: rest => let r := splitActs rest; ((f, v) :: r.1, r.2)
  | l => ([], l)

def parseRule (s : String) : Option Rule :=
  match s.splitOn "~" with
  | [c, a] => do
    let toks := c.splitOn ","
    let (cond, rest) ← parseCondToks (toks.length + 1) toks
    if !rest.isEmpty then none
    else
      let all ← (a.splitOn "+").mapM parseAct
      let (acts, more) := splitActs all
      pure ⟨cond, acts, more⟩
  | _ => none

def insertFact (e : Nat × Val) : Facts → Facts
  | [] => [e]
  | x :: xs => if e.1 < x.1 then e :: x :: xs else if e.1 = x.1 then e :: xs else x :: insertFact e xs

def parseFacts (s : String) : Option Facts :=
  if s = "-" then some []
  else do
    let kvs ← (s.splitOn ",").mapM fun kv =>
      match kv.splitOn "=" with
      | [k, v] => do pure ((← parseField k), (← parseVal v))
      | _ => none
    -- later assignments win, as with repeated `facts.set`
    pure (kvs.foldl (fun acc e => insertFact e acc) [])

def showFacts (l : Facts) : String :=
  if l.isEmpty then "-" else ",".intercalate (l.map fun (k, v) => s!"F{k}={showVal v}")

structure Cfg where
  strategy : Strategy
  maxDepth : Nat
  maxSol : Nat
  memo : Bool := false
  viaNew : Bool := false
  voc : Nat := 0

inductive Step where
  | query (facts : Facts) (goal : Atom) (neg : Bool) (explain : Bool) (qtok : String)
  | add (n : Nat) (k : KRule)
  | remove (n : Nat)
  | enable (n : Nat) (b : Bool)
  | clear
  | rebuild
  | setConfig (c : Cfg)

structure Case where
  strategy : Strategy
  maxDepth : Nat
  maxSol : Nat
  facts : Facts
  goal : Atom
  /-- the ENABLED rules (all of them when no rule carries the `*` marker) -/
  kb : List Rule
  /-- the query is `NOT <goal>` -/
  neg : Bool := false
  /-- every rule of `kb.get_rules()`, with its `enabled` flag -/
  krules : List KRule := []
  voc : Nat := 0
  memo : Bool := false
  viaNew : Bool := false
  /-- `none`: one query on a fresh engine -/
  steps : Option (List Step) := none
  /-- completeness clauses apply (history: the index is fresh) -/
  fresh : Bool := true
  /-- caller-owned undo frame around the (single) query: 0 none, 1 rolled back afterwards (`^r`), 2 committed (`^k`) -/
  wrap : Nat := 0

/-- `*<rule>` = the rule is added disabled -/
def parseKRule (s : String) : Option KRule :=
  if s.startsWith "*" then (parseRule (s.drop 1).toString).map (⟨·, false⟩) else (parseRule s).map (⟨·, true⟩)

def parseCfg (s : String) : Option Cfg := do
  let (st, viaNew) ← if s.startsWith "D" then some (Strategy.dfs, false) else if s.startsWith "B" then some (.bfs, false)
           else if s.startsWith "I" then some (.iterative, false) else if s.startsWith "N" then some (.dfs, true) else none
  let rest := (s.drop 1).toString
  let (rest, voc) ← match rest.splitOn "v" with
    | [r] => some (r, 0)
    | [r, v] => v.toNat?.bind fun k => if k < 2 then some (r, k) else none
    | _ => none
  let (rest, memo) := if rest.endsWith "m" then ((rest.dropEnd 1).toString, true) else (rest, false)
  match rest.splitOn "s" with
  | [d, m] =>
    let c : Cfg := ⟨st, ← d.toNat?, ← m.toNat?, memo || viaNew, viaNew, voc⟩
    if viaNew && (c.maxDepth != 10 || c.maxSol != 1) then none else pure c
  | _ => none

def parseQuery (q : String) : Option (Atom × Bool) := do
  let neg := q.startsWith "!"
  let q := if neg then (q.drop 1).toString else q
  -- the query travels as a string (`F == 1`): an Integer literal in the case text means the
  -- Number the query parser produces
  pure (reparse (← parseAtom q), neg)

def parseStep (facts : Facts) (q : String) (s : String) : Option Step :=
  if s = "?" then do
    let (g, neg) ← parseQuery q
    pure (.query facts g neg false q)
  else if s = "w" then do
    let (g, neg) ← parseQuery q
    pure (.query facts g neg true q)
  else if s.startsWith "?" then
    match (s.drop 1).toString.splitOn "?" with
    | [f, q2] => do
      let (g, neg) ← parseQuery q2
      pure (.query (← parseFacts f) g neg false q2)
    | _ => none
  else if s.startsWith "+" then
    let body := (s.drop 1).toString
    match body.splitOn ":" with
    | i :: r :: more => do pure (.add (← i.toNat?) (← parseKRule (":".intercalate (r :: more))))
    | _ => none
  else if s.startsWith "-" then (s.drop 1).toString.toNat?.map .remove
  else if s.startsWith "e" then (s.drop 1).toString.toNat?.map (.enable · true)
  else if s.startsWith "d" then (s.drop 1).toString.toNat?.map (.enable · false)
  else if s = "z" then some .clear
  else if s = "x" then some .rebuild
  else if s.startsWith "c" then do
    let c ← parseCfg (s.drop 1).toString
    if c.viaNew || c.voc != 0 then none else pure (.setConfig c)
  else none

def parseCase (line : String) : Option Case :=
  match tokens line with
  | cfg :: f :: q :: r :: rest => do
    let (cfg, wrap) ← match cfg.splitOn "^" with
      | [c] => some (c, 0)
      | [c, w] => if w = "r" then some (c, 1) else if w = "k" then some (c, 2) else none
      | _ => none
    if wrap != 0 && !rest.isEmpty then none
    let c ← parseCfg cfg
    let ks ← if r = "-" then some [] else (r.splitOn ";").mapM parseKRule
    let (g, neg) ← parseQuery q
    let facts ← parseFacts f
    let steps ← match rest with
      | [] => some none
      | [h] => if h = "-" then some (some []) else ((h.splitOn "@").mapM (parseStep facts q)).map some
      | _ => none
    pure { strategy := c.strategy, maxDepth := c.maxDepth, maxSol := c.maxSol, facts := facts, goal := g, kb := enabledRules ks,
           neg := neg, krules := ks, voc := c.voc, memo := c.memo, viaNew := c.viaNew, steps := steps, wrap := wrap }
  | _ => none

/-! ### candidate lists: computed by the model (`RreModel/C09/Candidates.lean`; `C09.topCandidates_covers`,
`C09.subCandidates_covers` prove that they offer every rule assigning the wanted value) -/

/-- the text of the tie (harness/src/bin/c09.rs): field `i` is `FIELDS[i]`, rule `i` is named `R<i>` -/
def tieNames : Naming := ⟨fieldName, ruleNameR⟩
def tieNamesV (voc : Nat) : Naming := ⟨fieldNameV voc, ruleNameR⟩

/-- `rule_could_prove_pattern` over `kb.get_rules()` (insertion order: equal salience) -/
def subCandsOf (kb : List Rule) (a : Atom) : List Nat := subCandidates tieNames kb a

/-- `find_candidate_rules`: `ConclusionIndex::find_candidates` (as a set; the order is the HashSet's) with its
linear fallback -/
def topCandSet (kb : List Rule) (goal : Atom) : List Nat := topCandidates tieNames kb goal

def perms : List Nat → List (List Nat)
  | [] => [[]]
  | xs => xs.flatMap fun x => (perms (xs.erase x)).map (x :: ·)
termination_by xs => xs.length
decreasing_by
  simp_wf
  rename_i h
  simp [List.length_erase_of_mem h]
  cases xs with
  | nil => simp at h
  | cons _ _ => simp

def storeOf (l : Facts) : Store := ⟨dataOf l, []⟩

def factsOfData (d : Data) : Facts :=
  (List.range nFields).filterMap fun k => (d k).map fun v => (k, v)

def showOut (o : QueryOut) : String :=
  s!"{if o.provable then 1 else 0} {showFacts (factsOfData o.store.data)} {o.store.frames.length} {o.nsol}"

def showOutX (explain : Bool) (o : QueryOut) : String :=
  if explain then s!"{if o.provable then 1 else 0} {showFacts (factsOfData o.store.data)} {o.store.frames.length} -"
  else showOut o

/-- one query on the engine state `e` (RreModel/C09/Hist.lean): the admissible observations with their verdicts, or `none`
when the index proposes more than 4 candidates (too many orders) -/
def queryOuts (nm : Naming) (e : Eng) (cfg : Cfg) (facts : Facts) (goal : Atom) (neg explain : Bool) :
    Option (List (String × Bool)) :=
  let ks := e.krules
  let kb := enabledRules ks
  let live := crulesN nm e.kb.rules
  let pat := (if neg then "NOT " else "") ++ patternOf nm goal
  let top := topCandsHist nm e pat
  let cands := top.1.map (remap ks)
  let sub := fun a => (subCandsPat live (patternOf nm a)).map (remap ks)
  if top.2 && cands.length > 4 then none
  else
    let orders := if top.2 then perms cands else [cands]
    let outs := orders.map fun order =>
      let o := if neg then queryNegFast kb cfg.strategy cfg.maxDepth cfg.maxSol sub goal order (storeOf facts)
               else queryFast kb cfg.strategy cfg.maxDepth cfg.maxSol sub goal order (storeOf facts)
      (showOutX explain o, o.provable)
    some outs.eraseDups

/-- memo cache of the model: key = (query text, facts, max_solutions, kb version) ↦ the verdicts it may hold -/
abbrev Memo := List ((String × String × Nat × Nat) × List Bool)

structure HState where
  eng : Eng
  cfg : Cfg
  memo : Memo := []

def namedRules (ks : List KRule) : List NRule := (List.range ks.length).zip ks |>.map fun p => ⟨p.1, p.2⟩

def hInit (nm : Naming) (c : Case) : HState :=
  ⟨engNew nm (namedRules c.krules), ⟨c.strategy, c.maxDepth, c.maxSol, c.memo, c.viaNew, c.voc⟩, []⟩

/-- a step that is not a query -/
def hEdit (nm : Naming) (h : HState) : Step → HState
  | .add n k => { h with eng := engStep nm h.eng (.kb (.add n k)) }
  | .remove n => { h with eng := engStep nm h.eng (.kb (.remove n)) }
  | .enable n b => { h with eng := engStep nm h.eng (.kb (.enable n b)) }
  | .clear => { h with eng := engStep nm h.eng (.kb .clear) }
  -- fix F-C09g: `rebuild_index` empties the memo cache; `set_config` replaces the GoalManager
  | .rebuild => { h with eng := engStep nm h.eng .rebuild, memo := [] }
  | .setConfig c => { h with eng := engStep nm h.eng .setConfig, cfg := c, memo := [] }
  | .query .. => h

def memoKey (h : HState) (facts : Facts) (qtok : String) : String × String × Nat × Nat :=
  (qtok, showFacts facts, h.cfg.maxSol, h.eng.kb.version)

def modelHistory (nm : Naming) (c : Case) (steps : List Step) : String :=
  let r := steps.foldl (init := (hInit nm c, ([] : List String))) fun (h, outs) st =>
    match st with
    | .query facts goal neg explain qtok =>
      let key := memoKey h facts qtok
      match (if h.cfg.memo then h.memo.lookup key else none) with
      | some vs =>
        -- answered from the cache: the verdict, the facts untouched, no solutions
        let os := vs.map fun v => s!"{if v then 1 else 0} {showFacts facts} 0 {if explain then "-" else "0"}"
        (h, outs ++ [" || ".intercalate os])
      | none =>
        match queryOuts nm h.eng h.cfg facts goal neg explain with
        | none => (h, outs ++ ["many-orders"])   -- (the cache may then hold either verdict: not tracked)
        | some os =>
          let h' := if h.cfg.memo then { h with memo := (key, (os.map (·.2)).eraseDups) :: h.memo } else h
          (h', outs ++ [" || ".intercalate (os.map (·.1))])
    | _ => (hEdit nm h st, outs)
  if r.2.isEmpty then "-" else " / ".intercalate r.2

/-- a plain prediction `p fa 0 ns` seen from inside / after a caller-owned frame: depth 1 while it is open; after the caller's
rollback the initial facts, after its commit the facts the query handed back (C10.query_inside_frame_rolls_back, C10.commit_keeps_data) -/
def wrapAlt (c : Case) (alt : String) : String :=
  match tokens alt with
  | [p, fa, d, ns] => s!"{p} {fa} {(d.toNat?.getD 0) + 1} {ns} {if c.wrap = 1 then showFacts (factsOfData (dataOf c.facts)) else fa} 0"
  | _ => alt

def modelLinePlain (c : Case) : String :=
    if let some steps := c.steps then modelHistory (tieNamesV c.voc) c steps
    else if c.voc != 0 then modelHistory (tieNamesV c.voc) c [.query c.facts c.goal c.neg false ""]
    else if !c.neg && c.krules.all (·.enabled) then
      let cands := topCandSet c.kb c.goal
      if cands.length > 4 then "many-orders"
      else
        let outs := (perms cands).map fun order =>
          showOut (queryFast c.kb c.strategy c.maxDepth c.maxSol (subCandsOf c.kb) c.goal order (storeOf c.facts))
        " || ".intercalate outs.eraseDups
    else
      -- negated query and / or disabled rules (RreModel/C09/Ext.lean): candidates computed on the full rule list and the
      -- whole pattern text, renumbered to the enabled rules the search model runs on
      let crs := crulesK tieNames 0 c.krules
      let pat := (if c.neg then "NOT " else "") ++ patternOf tieNames c.goal
      let top := topCandsPat crs pat
      let cands := top.1.map (remap c.krules)
      let sub := fun a => (subCandsPat crs (patternOf tieNames a)).map (remap c.krules)
      if top.2 && cands.length > 4 then "many-orders"
      else
        let orders := if top.2 then perms cands else [cands]
        let outs := orders.map fun order =>
          showOut (if c.neg then queryNegFast c.kb c.strategy c.maxDepth c.maxSol sub c.goal order (storeOf c.facts)
                   else queryFast c.kb c.strategy c.maxDepth c.maxSol sub c.goal order (storeOf c.facts))
        " || ".intercalate outs.eraseDups

def modelLine (line : String) : String :=
  match parseCase line with
  | some c =>
    if c.wrap = 0 then modelLinePlain c
    else
      let m := modelLinePlain c
      if m = "many-orders" then m else " || ".intercalate ((m.splitOn " || ").map (wrapAlt c))
  | none => "bad-case"

/-! ### oracle -/

def hasIntLiteral (kb : List Rule) : Bool :=
  kb.any fun r => (condAtoms r.cond).any fun a => match a.val with | .int _ => true | _ => false

def actTags (kb : List Rule) : List String :=
  let all := kb.flatMap (·.more)
  (if all.any (fun | .append _ _ => true | _ => false) then ["act_append"] else [])
  ++ (if all.any (fun | .retract _ => true | _ => false) then ["act_retract"] else [])
  ++ (if all.any (fun | .call _ _ => true | .get _ _ => true | _ => false) then ["act_call"] else [])
  ++ (if kb.any (fun r => r.acts.length + r.more.length > 1) then ["multi_action_rule"] else [])

/-- the oracle clauses on ONE query: `c` holds the rules, configuration, facts and goal as they are at that query;
`hit` = the query was asked before on this engine state with memoisation on (answered from the cache) -/
def oracleCore (iiiFirst : Bool) (c : Case) (hit : Bool) (o : String) : String :=
    if o.trimAscii.toString.startsWith "panic" then "fail query-panic" else
    match tokens o with
    | [p, fa, d, ns] =>
      match parseFacts fa, d.toNat?, (if ns = "-" then some 0 else ns.toNat?) with
      | some after, some depth, some _ =>
        if p = "err" then "fail query-error"
        else if p != "1" && p != "0" then "bad-input"
        else
          let provable := p = "1"
          let before := c.facts
          let reach := inReach nFields c.kb before after
          if iiiFirst && depth != 0 then "fail leaked-frames"
          else if iiiFirst && !restored before after depth provable then "fail not-restored"
          else if !c.neg && provable && !goalHolds c.goal after then
            if hit then "fail memo-hit-not-derived"
            else s!"fail goal-false-after ms{if c.maxSol > 1 then "N" else "1"} {if before == after then "rolled-back" else "changed"}"
          else if reach == some false then "fail not-reachable"
          else if depth != 0 then "fail leaked-frames"
          else if !restored before after depth provable then "fail not-restored"
          else if c.fresh && !c.neg && c.strategy == .dfs && !complete c.kb before c.maxDepth c.goal provable then
            s!"fail incomplete ms{if c.maxSol > 1 then "N" else "1"} {if hasIntLiteral c.kb then "int-literal" else if !noIntLit c.kb then "optext-literal" else "plain"}"
          -- (iv-c) before (iv-b): a knowledge base that is inconsistent only through dead-end rules
          else if c.fresh && !c.neg && c.strategy == .dfs && !completeDeadEnds c.kb before c.maxDepth c.goal provable then
            s!"fail incomplete-deadend ms{if c.maxSol > 1 then "N" else "1"}"
          else if c.fresh && !c.neg && c.strategy == .dfs && !completeInconsistent nFields c.kb before c.maxDepth c.goal provable then
            "fail incomplete-interference"
          else
            let d0 := dataOf before
            let horn := completeApplies c.kb before c.goal
            let lvl := if horn then levelOf c.kb d0 c.goal 8 else none
            let rsz := (reachSet nFields c.kb (rowOf nFields d0)).1.length
            let stag := match c.strategy with | .dfs => "dfs" | .bfs => "bfs" | .iterative => "ids"
            let tags := [stag, if provable then "provable" else "notprovable", s!"depth{c.maxDepth}",
                         if c.maxSol > 1 then "msN" else "ms1", s!"rules{c.kb.length}"]
              ++ (if horn then ["horn"] else ["general"])
              ++ (match lvl with | some k => [s!"level{k}"] | none => if horn then ["underivable"] else [])
              ++ (if c.fresh && !c.neg && horn && derivableIn c.kb d0 c.maxDepth c.goal && c.strategy == .dfs then ["complete_clause_applied"] else [])
              ++ (if c.fresh && !c.neg && c.strategy == .dfs && interferenceClause nFields c.kb before c.maxDepth c.goal then ["interference_clause_applied"] else [])
              ++ (if c.fresh && !c.neg && c.strategy == .dfs && deadEndClause c.kb before c.maxDepth c.goal then ["deadend_clause_applied"] else [])
              ++ (if c.neg then ["negated"] else [])
              -- a negated DFS query that is not provable although its positive form is false in the initial facts: a proof of
              -- the positive form was found and discarded
              ++ (if c.neg && !provable && c.strategy == .dfs && !goalHolds c.goal before then ["neg_found_then_discarded"] else [])
              ++ (if c.krules.any (!·.enabled) then ["disabled_rules"] else [])
              ++ (if c.voc != 0 then ["keyword_names"] else [])
              ++ (if c.viaNew then ["engine_new"] else [])
              ++ (if reach == none then ["reach_fuel_out"] else [])
              ++ (if before != after then ["derived_facts"] else [])
              ++ (if rsz > 1 then ["rules_fireable"] else [])
              ++ (if c.kb.any (fun r => !isConj r.cond) then ["or_or_nonEq"] else [])
              ++ actTags c.kb
              ++ (if (provable && before != after) || (!provable && rsz > 1) then ["nontrivial"] else [])
            joinSp ("ok" :: tags)
      | _, _, _ => "bad-input"
    | _ => "bad-input"

/-- a history: every query judged against the engine state at that moment; the first failing clause is reported with
`@<k>`; tags = union over the queries + what the history did -/
def oracleHistory (iiiFirst : Bool) (c : Case) (steps : List Step) (obs : String) : String :=
  let nm := tieNamesV c.voc
  let os := if obs.trimAscii.toString = "-" then [] else obs.splitOn " / "
  let nq := (steps.filter fun | .query .. => true | _ => false).length
  if os.any (fun o => o.trimAscii.toString = "cfg-mismatch") then "fail cfg-mismatch"
  else if os.length != nq then
    (if os.any (fun o => o.trimAscii.toString.startsWith "panic") then "fail query-panic" else "bad-input")
  else
    let init : HState × List String × List String × Option String × Nat × List (String × String × Nat × Nat) :=
      (hInit nm c, os, [], none, 0, [])
    let r := steps.foldl (init := init) fun (h, os, tags, bad, k, seen) st =>
      match st, os with
      | .query facts goal neg _ qtok, o :: rest =>
        let fresh := indexFresh nm h.eng
        let ks := h.eng.krules
        let qc : Case := { strategy := h.cfg.strategy, maxDepth := h.cfg.maxDepth, maxSol := h.cfg.maxSol, facts := facts, goal := goal,
                           kb := enabledRules ks, neg := neg, krules := ks, voc := c.voc, memo := h.cfg.memo,
                           viaNew := h.cfg.viaNew, fresh := fresh }
        let key := memoKey h facts qtok
        let hit := h.cfg.memo && seen.contains key
        let res := oracleCore iiiFirst qc hit o
        let bad' := match bad with
          | some b => some b
          | none => if res.startsWith "ok" then none else some s!"{res} @{k + 1}"
        let tags' := (tags ++ (tokens res).drop 1 ++ (if fresh then [] else ["stale_index_query"]) ++ (if hit then ["memo_hit"] else [])).eraseDups
        (h, rest, tags', bad', k + 1, if h.cfg.memo then key :: seen else seen)
      | .rebuild, _ => (hEdit nm h st, os, (tags ++ ["rebuild_index"]).eraseDups, bad, k, [])
      | .setConfig _, _ => (hEdit nm h st, os, (tags ++ ["set_config"]).eraseDups, bad, k, [])
      | _, _ => (hEdit nm h st, os, (tags ++ ["kb_edit"]).eraseDups, bad, k, seen)
    match r.2.2.2.1 with
    | some b => b
    | none => joinSp ("ok" :: "history" :: r.2.2.1)

/-- the single query of `c` ran inside a caller-owned undo frame (`c.wrap` 1: rolled back afterwards, 2: committed) -/
def oracleWrap (iiiFirst : Bool) (c : Case) (o : String) : String :=
  if o.trimAscii.toString.startsWith "panic" then "fail query-panic" else
  match tokens o with
  | [p, fa, d, ns, fa2, d2] =>
    match parseFacts fa, d.toNat?, parseFacts fa2, d2.toNat? with
    | some after, some depth, some fin, some depth2 =>
      let verdict := if p = "1" then "provable" else "notprovable"
      if depth != 1 then s!"fail caller-frame-depth {verdict}"
      else if depth2 != 0 then "fail caller-frame-depth-after-close"
      else if c.wrap = 1 && fin != c.facts then s!"fail caller-rollback-not-restored {verdict}"
      else if c.wrap = 2 && fin != after then s!"fail caller-commit-changed-facts {verdict}"
      else
        let r := oracleCore iiiFirst c false s!"{p} {fa} 0 {ns}"
        if r.startsWith "ok" then joinSp [r, "caller_frame", if c.wrap = 1 then "caller_rollback" else "caller_commit"] else r
    | _, _, _, _ => "bad-input"
  | _ => "bad-input"

def oracleLine (iiiFirst : Bool) (line : String) : String :=
  match line.splitOn " | " with
  | [cs, o] =>
    match parseCase cs with
    | some c =>
      match c.steps with
      | some steps => oracleHistory iiiFirst c steps o
      | none => if c.wrap = 0 then oracleCore iiiFirst c false o else oracleWrap iiiFirst c o
    | none => "bad-input"
  | _ => "bad-input"

def main (args : List String) : IO Unit :=
  match args with
  | ["model"] => mapLines modelLine
  | ["oracle"] => mapLines (oracleLine false)
  | ["oracle3"] => mapLines (oracleLine true)
  | _ => IO.eprintln "usage: drv_c09 model|oracle|oracle3"
