import RreModel.Proto
import RreModel.C09.Spec
import RreModel.C09.Candidates
import RreModel.C09.Ext
/-
Driver for C09 / C10-B.  Grammar: see harness/src/bin/c09.rs.
  obs := `<provable 1|0|err> <facts after> <undo depth after> <#solutions>`
  drv_c09 model  : case       ↦ the SET of admissible observations, one per order of the top-level
                                candidate list (it comes out of a HashSet), joined by ` || `
  drv_c09 oracle : case | obs ↦ `ok <tags>` / `fail <clause>`   clauses: goal-false-after (i),
                                not-reachable (ii), not-restored / leaked-frames (iii), incomplete (iv),
                                incomplete-interference (iv-b)
  query := `!<atom>` is the NEGATED query `NOT <atom>` (model: RreModel/C09/Ext.lean; oracle clauses (ii), (iii) only — (i) and
           (iv) are stated for atomic goals); rule := `*<rule>` is a rule added DISABLED (`enabled = false`): the oracle's
           rule set (forward closure, completeness) is the ENABLED rules, the model treats a disabled candidate as a no-op
  drv_c09 oracle3: the same with clause (iii) evaluated FIRST (C10 part B: a fact left behind by a failed
                                proof is usually not forward-reachable either, and must be reported as (iii))
-/
open Proto C09

def fieldNames : List String := ["A", "B", "C", "D", "E", "G", "X", "Y", "U.P", "U.Q", "E._return"]
def nFields : Nat := 11
/-- the key `<object>._return` that a value-returning `MethodCall` writes: only `E` (field 4) has one in the universe -/
def returnField (f : Nat) : Option Nat := if f = 4 then some 10 else none
def fieldName (i : Nat) : String := (fieldNames[i]?).getD "?"

/-- `_` in a string word of the case text stands for a blank (`sa_b` = "a b"; `s` = the empty string) -/
def unBlank (s : String) : String := s.map fun c => if c = '_' then ' ' else c
def reBlank (s : String) : String := s.map fun c => if c = ' ' then '_' else c

def parseElem (s : String) : Option Elem :=
  if s = "t" then some (.bool true) else if s = "f" then some (.bool false)
  else if s.startsWith "n" then (s.drop 1).toString.toInt?.map .num
  else if s.startsWith "i" then (s.drop 1).toString.toInt?.map .int
  else if s.startsWith "s" then some (.str (unBlank (s.drop 1).toString))
  else none

def showElem : Elem → String
  | .bool true => "t" | .bool false => "f"
  | .num n => s!"n{n}" | .int n => s!"i{n}" | .str s => "s" ++ reBlank s

/-- `a` = the empty array, `a<e>^<e>…` = an array of scalars; `o<n>` = `Object {"Speed": Number n}` -/
def parseVal (s : String) : Option Val :=
  if s = "t" then some (.bool true) else if s = "f" then some (.bool false)
  else if s.startsWith "n" then (s.drop 1).toString.toInt?.map .num
  else if s.startsWith "i" then (s.drop 1).toString.toInt?.map .int
  else if s.startsWith "s" then some (.str (unBlank (s.drop 1).toString))
  else if s = "a" then some (.arr [])
  else if s.startsWith "a" then ((s.drop 1).toString.splitOn "^").mapM parseElem |>.map .arr
  else if s.startsWith "o" then (s.drop 1).toString.toInt?.map .obj
  else none

def showVal : Val → String
  | .bool true => "t" | .bool false => "f"
  | .num n => s!"n{n}" | .int n => s!"i{n}" | .str s => "s" ++ reBlank s
  | .arr l => "a" ++ "^".intercalate (l.map showElem)
  | .obj n => s!"o{n}"

def parseField (s : String) : Option Nat :=
  if s.startsWith "F" then (s.drop 1).toString.toNat?.bind fun i => if i < nFields then some i else none else none

def parseCmp (s : String) : Option Cmp :=
  if s = "eq" then some .eq else if s = "ne" then some .ne else if s = "gt" then some .gt
  else if s = "lt" then some .lt else if s = "ge" then some .ge else if s = "le" then some .le else none

def parseAtom (s : String) : Option Atom :=
  match s.splitOn "." with
  | [f, o, v] => do pure ⟨← parseField f, ← parseCmp o, ← parseVal v⟩
  | _ => none

/-- prefix-notation condition parser over the token list (fuel = number of tokens) -/
def parseCondToks : Nat → List String → Option (Cond × List String)
  | 0, _ => none
  | _ + 1, [] => none
  | fuel + 1, t :: rest =>
    if t = "&" || t = "/" then do
      let (l, r1) ← parseCondToks fuel rest
      let (r, r2) ← parseCondToks fuel r1
      pure (if t = "&" then .and l r else .or l r, r2)
    else do
      let a ← parseAtom t
      pure (.atom a, rest)

/-- action := `F<i>:=<val>` Set | `F<i><<<scalar>` Append | `F<i>!` Retract | `F<i>$<int>` MethodCall setSpeed
| `F4$g` MethodCall getSpeed -/
def parseAct (s : String) : Option Act :=
  match s.splitOn ":=" with
  | [f, v] => do pure (.set (← parseField f) (← parseVal v))
  | _ =>
    match s.splitOn "<<" with
    | [f, e] => do pure (.append (← parseField f) (← parseElem e))
    | _ =>
      match s.splitOn "$" with
      | [f, n] =>
        if n = "g" then do
          let o ← parseField f
          pure (.get o (← returnField o))
        else do pure (.call (← parseField f) (← n.toInt?))
      | _ => if s.endsWith "!" then (parseField (s.dropEnd 1).toString).map .retract else none

/-- the leading `Set` actions of an action list, and the rest of it -/
def splitActs : List Act → List (Nat × Val) × List Act
  | .set f v :: rest => let r := splitActs rest; ((f, v) :: r.1, r.2)
  | l => ([], l)

def parseRule (s : String) : Option Rule :=
  match s.splitOn "~" with
  | [c, a] => do
    let toks := c.splitOn ","
    let (cond, rest) ← parseCondToks (toks.length + 1) toks
    if !rest.isEmpty then none
    else
      let all ← (a.splitOn "+").mapM parseAct
      let (acts, more) := splitActs all
      pure ⟨cond, acts, more⟩
  | _ => none

def insertFact (e : Nat × Val) : Facts → Facts
  | [] => [e]
  | x :: xs => if e.1 < x.1 then e :: x :: xs else if e.1 = x.1 then e :: xs else x :: insertFact e xs

def parseFacts (s : String) : Option Facts :=
  if s = "-" then some []
  else do
    let kvs ← (s.splitOn ",").mapM fun kv =>
      match kv.splitOn "=" with
      | [k, v] => do pure ((← parseField k), (← parseVal v))
      | _ => none
    -- later assignments win, as with repeated `facts.set`
    pure (kvs.foldl (fun acc e => insertFact e acc) [])

def showFacts (l : Facts) : String :=
  if l.isEmpty then "-" else ",".intercalate (l.map fun (k, v) => s!"F{k}={showVal v}")

structure Case where
  strategy : Strategy
  maxDepth : Nat
  maxSol : Nat
  facts : Facts
  goal : Atom
  /-- the ENABLED rules (all of them when no rule carries the `*` marker) -/
  kb : List Rule
  /-- the query is `NOT <goal>` -/
  neg : Bool := false
  /-- every rule of `kb.get_rules()`, with its `enabled` flag -/
  krules : List KRule := []

/-- `*<rule>` = the rule is added disabled -/
def parseKRule (s : String) : Option KRule :=
  if s.startsWith "*" then (parseRule (s.drop 1).toString).map (⟨·, false⟩) else (parseRule s).map (⟨·, true⟩)

def parseCfg (s : String) : Option (Strategy × Nat × Nat) := do
  let st ← if s.startsWith "D" then some Strategy.dfs else if s.startsWith "B" then some .bfs
           else if s.startsWith "I" then some .iterative else none
  match (s.drop 1).toString.splitOn "s" with
  | [d, m] => pure (st, ← d.toNat?, ← m.toNat?)
  | _ => none

def parseCase (line : String) : Option Case :=
  match tokens line with
  | [cfg, f, q, r] => do
    let (st, d, m) ← parseCfg cfg
    let ks ← if r = "-" then some [] else (r.splitOn ";").mapM parseKRule
    let neg := q.startsWith "!"
    let q := if neg then (q.drop 1).toString else q
    -- the query travels as a string (`F == 1`): an Integer literal in the case text means the
    -- Number the query parser produces
    pure ⟨st, d, m, ← parseFacts f, reparse (← parseAtom q), enabledRules ks, neg, ks⟩
  | _ => none

/-! ### candidate lists: computed by the model (`RreModel/C09/Candidates.lean`; `C09.topCandidates_covers`,
`C09.subCandidates_covers` prove that they offer every rule assigning the wanted value) -/

/-- the text of the tie (harness/src/bin/c09.rs): field `i` is `FIELDS[i]`, rule `i` is named `R<i>` -/
def tieNames : Naming := ⟨fieldName, ruleNameR⟩

/-- `rule_could_prove_pattern` over `kb.get_rules()` (insertion order: equal salience) -/
def subCandsOf (kb : List Rule) (a : Atom) : List Nat := subCandidates tieNames kb a

/-- `find_candidate_rules`: `ConclusionIndex::find_candidates` (as a set; the order is the HashSet's) with its
linear fallback -/
def topCandSet (kb : List Rule) (goal : Atom) : List Nat := topCandidates tieNames kb goal

def perms : List Nat → List (List Nat)
  | [] => [[]]
  | xs => xs.flatMap fun x => (perms (xs.erase x)).map (x :: ·)
termination_by xs => xs.length
decreasing_by
  simp_wf
  rename_i h
  simp [List.length_erase_of_mem h]
  cases xs with
  | nil => simp at h
  | cons _ _ => simp

def storeOf (l : Facts) : Store := ⟨dataOf l, []⟩

def factsOfData (d : Data) : Facts :=
  (List.range nFields).filterMap fun k => (d k).map fun v => (k, v)

def showOut (o : QueryOut) : String :=
  s!"{if o.provable then 1 else 0} {showFacts (factsOfData o.store.data)} {o.store.frames.length} {o.nsol}"

def modelLine (line : String) : String :=
  match parseCase line with
  | some c =>
    if !c.neg && c.krules.all (·.enabled) then
      let cands := topCandSet c.kb c.goal
      if cands.length > 4 then "many-orders"
      else
        let outs := (perms cands).map fun order =>
          showOut (queryFast c.kb c.strategy c.maxDepth c.maxSol (subCandsOf c.kb) c.goal order (storeOf c.facts))
        " || ".intercalate outs.eraseDups
    else
      -- negated query and / or disabled rules (RreModel/C09/Ext.lean): candidates computed on the full rule list and the
      -- whole pattern text, renumbered to the enabled rules the search model runs on
      let crs := crulesK tieNames 0 c.krules
      let pat := (if c.neg then "NOT " else "") ++ patternOf tieNames c.goal
      let top := topCandsPat crs pat
      let cands := top.1.map (remap c.krules)
      let sub := fun a => (subCandsPat crs (patternOf tieNames a)).map (remap c.krules)
      if top.2 && cands.length > 4 then "many-orders"
      else
        let orders := if top.2 then perms cands else [cands]
        let outs := orders.map fun order =>
          showOut (if c.neg then queryNegFast c.kb c.strategy c.maxDepth c.maxSol sub c.goal order (storeOf c.facts)
                   else queryFast c.kb c.strategy c.maxDepth c.maxSol sub c.goal order (storeOf c.facts))
        " || ".intercalate outs.eraseDups
  | none => "bad-case"

/-! ### oracle -/

def hasIntLiteral (kb : List Rule) : Bool :=
  kb.any fun r => (condAtoms r.cond).any fun a => match a.val with | .int _ => true | _ => false

def actTags (kb : List Rule) : List String :=
  let all := kb.flatMap (·.more)
  (if all.any (fun | .append _ _ => true | _ => false) then ["act_append"] else [])
  ++ (if all.any (fun | .retract _ => true | _ => false) then ["act_retract"] else [])
  ++ (if all.any (fun | .call _ _ => true | .get _ _ => true | _ => false) then ["act_call"] else [])
  ++ (if kb.any (fun r => r.acts.length + r.more.length > 1) then ["multi_action_rule"] else [])

def oracleLine (iiiFirst : Bool) (line : String) : String :=
  match line.splitOn " | " with
  | [cs, o] =>
    if o.trimAscii.toString.startsWith "panic" then "fail query-panic" else
    match parseCase cs, tokens o with
    | some c, [p, fa, d, ns] =>
      match parseFacts fa, d.toNat?, ns.toNat? with
      | some after, some depth, some _ =>
        if p = "err" then "fail query-error"
        else
          let provable := p = "1"
          let before := c.facts
          let reach := inReach nFields c.kb before after
          if iiiFirst && depth != 0 then "fail leaked-frames"
          else if iiiFirst && !restored before after depth provable then "fail not-restored"
          else if !c.neg && provable && !goalHolds c.goal after then
            s!"fail goal-false-after ms{if c.maxSol > 1 then "N" else "1"} {if before == after then "rolled-back" else "changed"}"
          else if reach == some false then "fail not-reachable"
          else if depth != 0 then "fail leaked-frames"
          else if !restored before after depth provable then "fail not-restored"
          else if !c.neg && c.strategy == .dfs && !complete c.kb before c.maxDepth c.goal provable then
            s!"fail incomplete ms{if c.maxSol > 1 then "N" else "1"} {if hasIntLiteral c.kb then "int-literal" else "plain"}"
          else if !c.neg && c.strategy == .dfs && !completeInconsistent nFields c.kb before c.maxDepth c.goal provable then
            "fail incomplete-interference"
          else
            let d0 := dataOf before
            let horn := completeApplies c.kb before c.goal
            let lvl := if horn then levelOf c.kb d0 c.goal 8 else none
            let rsz := (reachSet nFields c.kb (rowOf nFields d0)).1.length
            let stag := match c.strategy with | .dfs => "dfs" | .bfs => "bfs" | .iterative => "ids"
            let tags := [stag, if provable then "provable" else "notprovable", s!"depth{c.maxDepth}",
                         if c.maxSol > 1 then "msN" else "ms1", s!"rules{c.kb.length}"]
              ++ (if horn then ["horn"] else ["general"])
              ++ (match lvl with | some k => [s!"level{k}"] | none => if horn then ["underivable"] else [])
              ++ (if !c.neg && horn && derivableIn c.kb d0 c.maxDepth c.goal && c.strategy == .dfs then ["complete_clause_applied"] else [])
              ++ (if !c.neg && c.strategy == .dfs && interferenceClause nFields c.kb before c.maxDepth c.goal then ["interference_clause_applied"] else [])
              ++ (if c.neg then ["negated"] else [])
              -- a negated DFS query that is not provable although its positive form is false in the initial facts: a proof of
              -- the positive form was found and discarded
              ++ (if c.neg && !provable && c.strategy == .dfs && !goalHolds c.goal before then ["neg_found_then_discarded"] else [])
              ++ (if c.krules.any (!·.enabled) then ["disabled_rules"] else [])
              ++ (if reach == none then ["reach_fuel_out"] else [])
              ++ (if before != after then ["derived_facts"] else [])
              ++ (if rsz > 1 then ["rules_fireable"] else [])
              ++ (if c.kb.any (fun r => !isConj r.cond) then ["or_or_nonEq"] else [])
              ++ actTags c.kb
              ++ (if (provable && before != after) || (!provable && rsz > 1) then ["nontrivial"] else [])
            joinSp ("ok" :: tags)
      | _, _, _ => "bad-input"
    | _, _ => "bad-input"
  | _ => "bad-input"

def main (args : List String) : IO Unit :=
  match args with
  | ["model"] => mapLines modelLine
  | ["oracle"] => mapLines (oracleLine false)
  | ["oracle3"] => mapLines (oracleLine true)
  | _ => IO.eprintln "usage: drv_c09 model|oracle|oracle3"
