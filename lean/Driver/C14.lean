import RreModel.Proto
import RreModel.C14.Model
import RreModel.C14.Spec
/-
Driver for C14.
  case := `<mode> <durMs> <cond> <op,op,...>`
     mode  D = calls on `StreamJoinNode` directly, M = calls through `StreamJoinManager`
     durMs = window duration in milliseconds (the node uses `as_secs()` of it)
     cond  0 = always true, 1 = left.v < right.v, 2 = left.v != right.v, 3 = left.ts <= right.ts
     op    `L<id>:<ts>:<key|->:<v>` `R…` `X…` (event on the left / right / an unrelated stream)
           `Wl<int>` `Wr<int>` `Wx<int>` (watermark; the letter is the stream named in manager mode)
  obs  := `nocalls` | call;call;…   call := `-` | `lid:rid,lid:rid,…` (sorted)
  drv_c14 model  : case       ↦ obs predicted by the model
  drv_c14 oracle : case | obs ↦ `ok <tags>` / `fail <clause>@<call>`
-/
open Proto C14

def condOf (c : Nat) : Ev → Ev → Bool :=
  match c with
  | 0 => fun _ _ => true
  | 1 => fun l r => decide (l.v < r.v)
  | 2 => fun l r => decide (l.v ≠ r.v)
  | _ => fun l r => decide (l.ts ≤ r.ts)

def parseEv (s : String) : Option Ev :=
  match s.splitOn ":" with
  | [i, t, k, v] => do
    let i ← i.toNat?
    let t ← t.toNat?
    let k ← if k = "-" then some none else k.toNat?.map some
    let v ← v.toInt?
    pure { id := i, ts := t, key := k, v := v }
  | _ => none

def parseSrc (c : Char) : Option Src :=
  if c = 'l' then some .left else if c = 'r' then some .right else if c = 'x' then some .other else none

def parseMOp (s : String) : Option MOp :=
  if s.startsWith "L" then (parseEv (s.drop 1).toString).map (.ev .left)
  else if s.startsWith "R" then (parseEv (s.drop 1).toString).map (.ev .right)
  else if s.startsWith "X" then (parseEv (s.drop 1).toString).map (.ev .other)
  else if s.startsWith "W" then do
    let src ← parseSrc ((s.drop 1).toString.front)
    let w ← (s.drop 2).toString.toInt?
    pure (.wm src w)
  else none

structure Case where
  mgr : Bool
  P : Params
  cond : Nat
  ops : List MOp

def parseCase (line : String) : Option Case :=
  match tokens line with
  | [m, d, c, ops] => do
    let mgr ← if m = "M" then some true else if m = "D" then some false else none
    let d ← d.toNat?
    let c ← c.toNat?
    let ops ← if ops = "-" then some [] else (ops.splitOn ",").mapM parseMOp
    pure { mgr := mgr, P := { W := windowSecs d, cond := condOf c }, cond := c, ops := ops }
  | _ => none

/-- direct mode: a watermark call reaches the node whatever stream letter it carries -/
def direct : MOp → MOp
  | .wm _ w => .wm .left w
  | m => m

def Case.mops (c : Case) : List MOp := if c.mgr then c.ops else c.ops.map direct

def pairLt (a b : Nat × Nat) : Bool := a.1 < b.1 || (a.1 == b.1 && a.2 < b.2)

def showCall (ps : List (Nat × Nat)) : String :=
  if ps.isEmpty then "-" else
    ",".intercalate ((ps.toArray.qsort pairLt).toList.map fun p => s!"{p.1}:{p.2}")

def showObs (os : List (List (Nat × Nat))) : String :=
  if os.isEmpty then "nocalls" else ";".intercalate (os.map showCall)

def parsePair (s : String) : Option (Nat × Nat) :=
  match s.splitOn ":" with
  | [a, b] => do pure ((← a.toNat?), (← b.toNat?))
  | _ => none

def parseCall (s : String) : Option (List (Nat × Nat)) :=
  if s = "-" then some [] else (s.splitOn ",").mapM parsePair

def parseObs (s : String) : Option (List (List (Nat × Nat))) :=
  if s = "nocalls" then some [] else (s.splitOn ";").mapM parseCall

def modelLine (line : String) : String :=
  match parseCase line with
  | some c => showObs (mgrObsTrace c.P c.mops)
  | none => "bad-case"

/-- which clause fails first, for the replay file -/
def firstBad (P : Params) (ops : List Op) (obs : List (List (Nat × Nat))) : String :=
  if obs.length != ops.length then "calls" else
  match (List.range (ops.length + 1)).find? (fun n => !prefixOk P (ops.take n) (obs.take n)) with
  | some n =>
    let pre := ops.take n
    let o := obs.take n
    if !prefixSubset P pre o then s!"not-in-reference@{n}"
    else if !prefixNodup o then s!"duplicate@{n}"
    else s!"missing@{n}"
  | none => "runOk"

def evOf : MOp → List Ev
  | .ev _ e => [e]
  | _ => []

def tagsOf (c : Case) (ops : List Op) (obs : List (List (Nat × Nat))) : List String :=
  let P := c.P
  let ls := lefts ops
  let rs := rights ops
  let n := obs.flatten.length
  let evs := ls ++ rs
  let keys := (evs.filterMap (·.key)).eraseDups
  let cross := ls.flatMap fun l => rs.map fun r => (l, r)
  (if c.mgr then ["mgr"] else ["direct"])
  ++ [if n = 0 then "pairs0" else if n ≤ 2 then "pairs1-2" else "pairs3+"]
  ++ (if noPartnerEvicted P ops then ["safe"] else ["partner-evicted"])
  ++ (if (wms ops).isEmpty then [] else ["wm"])
  ++ (if evs.any (·.key.isNone) then ["keyless"] else [])
  ++ [s!"keys{keys.length}"]
  ++ [s!"cond{c.cond}"]
  ++ (if cross.any (fun p => sameKey p.1 p.2 && closeEnough P.W p.1 p.2 && !P.cond p.1 p.2) then ["cond-filtered"] else [])
  ++ (if cross.any (fun p => sameKey p.1 p.2 && !closeEnough P.W p.1 p.2) then ["window-filtered"] else [])
  ++ (if cross.any (fun p => !sameKey p.1 p.2) then ["key-filtered"] else [])
  ++ (if c.ops.any (fun m => (route m).isNone) then ["unrouted"] else [])
  ++ (if n > 0 then ["nontrivial"] else [])

def oracleLine (line : String) : String :=
  match line.splitOn " | " with
  | [cs, o] =>
    match parseCase cs, parseObs o.trimAscii.toString with
    | some c, some obs =>
      let ms := c.mops
      let ops := ms.filterMap route
      if !decide (WF ops) then "bad-case-ids"
      else if mgrOk c.P ms obs then joinSp ("ok" :: tagsOf c ops (routedObs ms obs))
      else if !unroutedSilent ms obs then "fail unrouted-call-emitted"
      else s!"fail {firstBad c.P ops (routedObs ms obs)}"
    | _, _ => "bad-input"
  | _ => "bad-input"

def main (args : List String) : IO Unit :=
  match args with
  | ["model"] => mapLines modelLine
  | ["oracle"] => mapLines oracleLine
  | _ => IO.eprintln "usage: drv_c14 model|oracle"
