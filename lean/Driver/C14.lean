import RreModel.Proto
import RreModel.C14.Model
import RreModel.C14.Spec
/-
Driver for C14.
  case := `<mode> <durMs> <cond> <op,op,...>`
     mode  D = calls on `StreamJoinNode` directly, M = calls through `StreamJoinManager`
     durMs = window duration in milliseconds (the node uses `as_secs()` of it)
     cond  0 = always true, 1 = left.v < right.v, 2 = left.v != right.v, 3 = left.ts <= right.ts
     op    `L<id>:<ts>:<key|->:<v>[:<decoy>]` `R…` `X…` (event on the left / right / an unrelated stream; `key` is the
           result of the event's OWN side's key extractor; the optional decoy is a value the harness stores under the field
           only the other side's extractor reads — the model ignores it)
           `Wl<int>` `Wr<int>` `Wx<int>` (watermark; the letter is the stream named in manager mode)
  obs  := `nocalls` | call;call;…   call := `-` | `lid:rid,lid:rid,…` (sorted)
  multi-join manager case := `J <join+join+...> <op,op,...>`
     join  `<l><r>:<durMs>:<cond>`   l, r = stream letters a..e (l ≠ r); registration order = list order
     op    `A<id>:<ts>:<key|->:<v>` .. `E…` (event whose source is stream a..e), `Wa<int>` .. `We<int>`,
           `U<i>` unregister_join(j<i>), `G<i>` register_join(j<i>, fresh node) — alternating per join, starting registered
           `K` clear() — every join is unregistered at once; allowed at any time, any join may be registered again afterwards
     `S` (all modes) statistics probe: get_stats / get_join_stats + get_all_stats are called; adds no call to the observation
     key numbers are opaque here: the harness turns key n into a string (`key<n>`, from 100 a table of unusual but legal
     keys — empty, blank, confusable, numeric-looking, very long …) that is pairwise distinct, so equal numbers = equal keys
  obs  := `nocalls` | call;call;…   call := batch/batch/… (one per registered join, registration order)
  drv_c14 model  : case       ↦ obs predicted by the model
  drv_c14 oracle : case | obs ↦ `ok <tags>` / `fail <clause>@<call>`
-/
open Proto C14

def condOf (c : Nat) : Ev → Ev → Bool :=
  match c with
  | 0 => fun _ _ => true
  | 1 => fun l r => decide (l.v < r.v)
  | 2 => fun l r => decide (l.v ≠ r.v)
  | _ => fun l r => decide (l.ts ≤ r.ts)

def parseEv (s : String) : Option Ev :=
  match s.splitOn ":" with
  | [i, t, k, v] => do
    let i ← i.toNat?
    let t ← t.toNat?
    let k ← if k = "-" then some none else k.toNat?.map some
    let v ← v.toInt?
    pure { id := i, ts := t, key := k, v := v }
  | [i, t, k, v, d] => do
    let i ← i.toNat?
    let t ← t.toNat?
    let k ← if k = "-" then some none else k.toNat?.map some
    let v ← v.toInt?
    let _ ← d.toNat?      -- decoy under the other side's key field: not part of what the join may look at
    pure { id := i, ts := t, key := k, v := v }
  | _ => none

def hasDecoy (s : String) : Bool := (s.splitOn ":").length == 5

def parseSrc (c : Char) : Option Src :=
  if c = 'l' then some .left else if c = 'r' then some .right else if c = 'x' then some .other else none

def parseMOp (s : String) : Option MOp :=
  if s.startsWith "L" then (parseEv (s.drop 1).toString).map (.ev .left)
  else if s.startsWith "R" then (parseEv (s.drop 1).toString).map (.ev .right)
  else if s.startsWith "X" then (parseEv (s.drop 1).toString).map (.ev .other)
  else if s.startsWith "W" then do
    let src ← parseSrc ((s.drop 1).toString.front)
    let w ← (s.drop 2).toString.toInt?
    pure (.wm src w)
  else none

structure Case where
  mgr : Bool
  P : Params
  cond : Nat
  ops : List MOp
  decoys : Nat := 0

def parseCase (line : String) : Option Case :=
  match tokens line with
  | [m, d, c, ops] => do
    let mgr ← if m = "M" then some true else if m = "D" then some false else none
    let d ← d.toNat?
    let c ← c.toNat?
    let toks := ops
    let ops ← if ops = "-" then some [] else (ops.splitOn ",").mapM parseMOp
    pure { mgr := mgr, P := { W := windowSecs d, cond := condOf c }, cond := c, ops := ops,
           decoys := ((toks.splitOn ",").filter hasDecoy).length }
  | _ => none

/-- direct mode: a watermark call reaches the node whatever stream letter it carries -/
def direct : MOp → MOp
  | .wm _ w => .wm .left w
  | m => m

def Case.mops (c : Case) : List MOp := if c.mgr then c.ops else c.ops.map direct

def pairLt (a b : Nat × Nat) : Bool := a.1 < b.1 || (a.1 == b.1 && a.2 < b.2)

def showCall (ps : List (Nat × Nat)) : String :=
  if ps.isEmpty then "-" else
    ",".intercalate ((ps.toArray.qsort pairLt).toList.map fun p => s!"{p.1}:{p.2}")

def showObs (os : List (List (Nat × Nat))) : String :=
  if os.isEmpty then "nocalls" else ";".intercalate (os.map showCall)

def parsePair (s : String) : Option (Nat × Nat) :=
  match s.splitOn ":" with
  | [a, b] => do pure ((← a.toNat?), (← b.toNat?))
  | _ => none

def parseCall (s : String) : Option (List (Nat × Nat)) :=
  if s = "-" then some [] else (s.splitOn ",").mapM parsePair

def parseObs (s : String) : Option (List (List (Nat × Nat))) :=
  if s = "nocalls" then some [] else (s.splitOn ";").mapM parseCall

/-! multi-join manager cases -/

structure JCase where
  js : List JoinDef
  conds : List Nat
  ms : List JOp
  cs : List COp := []       -- the same history with its control calls (`ms` = the routed calls only)
  ctl : Bool := false
  xs : List XOp := []       -- the same history with its `clear()` calls as well
  clr : Bool := false

def streamOf (c : Char) : Option Nat :=
  if 'a' ≤ c ∧ c ≤ 'e' then some (c.toNat - 'a'.toNat)
  else if 'A' ≤ c ∧ c ≤ 'E' then some (c.toNat - 'A'.toNat) else none

def parseJoin (s : String) : Option (JoinDef × Nat) :=
  match s.splitOn ":" with
  | [lr, d, c] =>
    match lr.toList with
    | [a, b] => do
      let l ← if 'a' ≤ a ∧ a ≤ 'e' then streamOf a else none
      let r ← if 'a' ≤ b ∧ b ≤ 'e' then streamOf b else none
      if l = r then none
      let d ← d.toNat?
      let c ← c.toNat?
      pure ({ l := l, r := r, P := { W := windowSecs d, cond := condOf c } }, c)
    | _ => none
  | _ => none

def parseJOp (s : String) : Option JOp :=
  let c := s.front
  if c = 'W' then do
    let st ← (fun ch => if 'a' ≤ ch ∧ ch ≤ 'e' then streamOf ch else none) ((s.drop 1).toString.front)
    let w ← (s.drop 2).toString.toInt?
    pure (.wm st w)
  else if 'A' ≤ c ∧ c ≤ 'E' then do
    let st ← streamOf c
    let e ← parseEv (s.drop 1).toString
    pure (.ev st e)
  else none

def parseCOp (s : String) : Option COp :=
  if s.startsWith "U" then (s.drop 1).toString.toNat?.map .unreg
  else if s.startsWith "G" then (s.drop 1).toString.toNat?.map .reg
  else if hasDecoy s then none
  else (parseJOp s).map .op

def parseXOp (s : String) : Option XOp :=
  if s = "K" then some .clear else (parseCOp s).map .ctl

def copOf : XOp → Option COp
  | .ctl c => some c
  | .clear => none

def jopOf : COp → Option JOp
  | .op m => some m
  | _ => none

def isCtl : COp → Bool
  | .op _ => false
  | _ => true

def parseJCase (line : String) : Option JCase :=
  match tokens line with
  | ["J", joins, ops] => do
    let jc ← (joins.splitOn "+").mapM parseJoin
    let xs ← if ops = "-" then some [] else (ops.splitOn ",").mapM parseXOp
    let cs := xs.filterMap copOf
    let clr := xs.any (· == .clear)
    let n := jc.length
    if !cs.all (fun c => match c with | .op _ => true | .unreg i => decide (i < n) | .reg i => decide (i < n)) then none
    if !(List.range n).all (fun i => ctlValidX i true xs) then none
    pure { js := jc.map (·.1), conds := jc.map (·.2), ms := cs.filterMap jopOf, cs := cs, ctl := cs.any isCtl,
           xs := xs, clr := clr }
  | _ => none

def showRow (row : List (List (Nat × Nat))) : String := "/".intercalate (row.map showCall)

def showJObs (os : List (List (List (Nat × Nat)))) : String :=
  if os.isEmpty then "nocalls" else ";".intercalate (os.map showRow)

def parseJObs (s : String) : Option (List (List (List (Nat × Nat)))) :=
  if s = "nocalls" then some [] else (s.splitOn ";").mapM (fun row => (row.splitOn "/").mapM parseCall)

def isJ (line : String) : Bool := (tokens line).head? == some "J"

/-- `S` tokens are statistics probes (`get_stats` / `get_join_stats` / `get_all_stats`): `&self` observers that add no
call to the observation; the model and the oracle see the history without them -/
def dropProbes (line : String) : String :=
  let ts := tokens line
  match ts.reverse with
  | ops :: rest =>
    let kept := (ops.splitOn ",").filter (· != "S")
    let ops' := if kept.isEmpty then "-" else ",".intercalate kept
    " ".intercalate (rest.reverse ++ [ops'])
  | [] => line

def modelLine (line0 : String) : String :=
  let line := dropProbes line0
  if isJ line then
    match parseJCase line with
    | some c => showJObs (if c.clr then multiObsTraceX c.js c.xs
                          else if c.ctl then multiObsTraceC c.js c.cs else multiObsTrace c.js c.ms)
    | none => "bad-case"
  else
  match parseCase line with
  | some c => showObs (mgrObsTrace c.P c.mops)
  | none => "bad-case"

/-- which clause fails first, for the replay file -/
def firstBad (P : Params) (ops : List Op) (obs : List (List (Nat × Nat))) : String :=
  if obs.length != ops.length then "calls" else
  match (List.range (ops.length + 1)).find? (fun n => !prefixOk P (ops.take n) (obs.take n)) with
  | some n =>
    let pre := ops.take n
    let o := obs.take n
    if !prefixSubset P pre o then s!"not-in-reference@{n}"
    else if !prefixNodup o then s!"duplicate@{n}"
    else s!"missing@{n}"
  | none =>
    -- per-call clause: first call that does not return what it owes
    match (List.range (ops.length + 1)).find? (fun n => !owedFrom P init [] [] (ops.take n) (obs.take n)) with
    | some n => s!"missing@{n}"
    | none => "runOk"

def evOf : MOp → List Ev
  | .ev _ e => [e]
  | _ => []

def tagsOf (c : Case) (ops : List Op) (obs : List (List (Nat × Nat))) : List String :=
  let P := c.P
  let ls := lefts ops
  let rs := rights ops
  let n := obs.flatten.length
  let evs := ls ++ rs
  let keys := (evs.filterMap (·.key)).eraseDups
  let cross := ls.flatMap fun l => rs.map fun r => (l, r)
  (if c.mgr then ["mgr"] else ["direct"])
  ++ [if n = 0 then "pairs0" else if n ≤ 2 then "pairs1-2" else "pairs3+"]
  ++ (if noPartnerEvicted P ops then ["safe"] else ["partner-evicted"])
  ++ (if (wms ops).isEmpty then [] else ["wm"])
  ++ (if evs.any (·.key.isNone) then ["keyless"] else [])
  ++ (if c.decoys > 0 then ["decoy-key-field"] else [])
  ++ [s!"keys{keys.length}"]
  ++ (if keys.any (· == 100) then ["empty-key"] else [])
  ++ (if keys.any (fun k => decide (k ≥ 100 ∧ k < 200)) then ["unusual-key"] else [])
  ++ (if keys.any (fun k => decide (k ≥ 200)) then ["long-key"] else [])
  ++ (if keys.any (fun k => decide (k ≥ 100)) && cross.any (fun p => p.1.key.isSome && p.2.key.isSome && !sameKey p.1 p.2
        && closeEnough P.W p.1 p.2 && P.cond p.1 p.2) then ["confusable-keys-kept-apart"] else [])
  ++ (if keys.any (fun k => decide (k ≥ 100)) && cross.any (fun p => p.1.key.isSome && sameKey p.1 p.2
        && closeEnough P.W p.1 p.2 && P.cond p.1 p.2 && decide (p.1.key.getD 0 ≥ 100)) then ["unusual-key-joined"] else [])
  ++ [s!"cond{c.cond}"]
  ++ (if cross.any (fun p => sameKey p.1 p.2 && closeEnough P.W p.1 p.2 && !P.cond p.1 p.2) then ["cond-filtered"] else [])
  ++ (if cross.any (fun p => sameKey p.1 p.2 && !closeEnough P.W p.1 p.2) then ["window-filtered"] else [])
  ++ (if cross.any (fun p => !sameKey p.1 p.2) then ["key-filtered"] else [])
  ++ (if c.ops.any (fun m => (route m).isNone) then ["unrouted"] else [])
  ++ (if evs.any (fun e => e.ts ≥ 9007199254740992) then ["ts>=2^53"]
      else if evs.any (fun e => e.ts ≥ 16777216) then ["ts>=2^24"] else [])
  ++ (if ls.length ≥ 5 || rs.length ≥ 5 then ["side>=5"] else [])
  ++ (if keys.any (fun k => (ls.filter (·.key == some k)).length ≥ 5 || (rs.filter (·.key == some k)).length ≥ 5)
      then ["same-key>=5"] else [])
  ++ (let fin := final P init ops
      let held := ((fin.lbuf ++ fin.rbuf).map (·.2.length)).sum
      if held < (evs.filter (·.key.isSome)).length then ["evicted"] else [])
  ++ (if n > 0 then ["nontrivial"] else [])

/-- first failing join of a multi-join observation: `(index, clause)` -/
def firstBadJ : Nat → List JoinDef → List JOp → List (List (List (Nat × Nat))) → String
  | i, [], ms, obs =>
    if obs.length != ms.length then "calls" else if obs.all (·.isEmpty) then "multiOk" else s!"extra-batch@0#j{i}"
  | i, j :: js, ms, obs =>
    match heads obs with
    | none => s!"missing-batch@0#j{i}"
    | some col =>
      let rt := routeJ j.l j.r
      if mgrOkG rt j.P ms col then firstBadJ (i + 1) js ms (tails obs)
      else if !unroutedSilentG rt ms col then s!"unrouted-call-emitted@0#j{i}"
      else s!"{firstBad j.P (ms.filterMap rt) (routedObsG rt ms col)}#j{i}"

def colOf (i : Nat) (obs : List (List (List (Nat × Nat)))) : List (List (Nat × Nat)) :=
  obs.map (fun row => (row[i]?).getD [])

def jTags (c : JCase) (obs : List (List (List (Nat × Nat)))) : List String :=
  let n := (obs.map List.flatten).flatten.length
  let idx := List.range c.js.length
  let emitting := (idx.filter (fun i => !(colOf i obs).flatten.isEmpty)).length
  let mixed := c.js.any (fun j => c.js.any (fun k => j.l == k.r))
  let sameRole := c.js.any (fun j => (c.js.filter (fun k => k.l == j.l)).length ≥ 2 ||
                                     (c.js.filter (fun k => k.r == j.r)).length ≥ 2)
  let consumed := c.js.flatMap (fun j => [j.l, j.r])
  let unrouted := c.ms.any (fun m => match m with
    | .ev s _ => !consumed.contains s
    | .wm s _ => !consumed.contains s)
  let evicting := c.js.any (fun j => !noPartnerEvicted j.P (joinOps j c.ms))
  let hasWm := c.ms.any (fun m => match m with | .wm _ _ => true | _ => false)
  ["multi", s!"joins{c.js.length}", s!"emitting-joins{emitting}"]
  ++ [if n = 0 then "pairs0" else if n ≤ 2 then "pairs1-2" else "pairs3+"]
  ++ (if mixed then ["stream-in-both-roles"] else [])
  ++ (if sameRole then ["stream-shared-same-role"] else [])
  ++ (if unrouted then ["unrouted"] else [])
  ++ (if hasWm then ["wm"] else [])
  ++ (if evicting then ["partner-evicted"] else ["safe"])
  ++ (c.conds.eraseDups.map (fun k => s!"cond{k}"))
  ++ (if n > 0 then ["nontrivial"] else [])

/-- why one life of a join is not fine (`none`: it is) -/
def badLife (j : JoinDef) (so : List JOp) (sb : List (List (Nat × Nat))) : Option String :=
  let rt := routeJ j.l j.r
  let ms := so.reverse
  let col := sb.reverse
  if mgrOkG rt j.P ms col then none
  else if !unroutedSilentG rt ms col then some "unrouted-call-emitted@0"
  else some (firstBad j.P (ms.filterMap rt) (routedObsG rt ms col))

/-- `livesOk` with the name of the first failing clause -/
def livesBad (i : Nat) (j : JoinDef) :
    Bool → List JOp → List (List (Nat × Nat)) → List COp → List (List (Nat × Nat)) → Option String
  | reg, so, sb, [], [] => if reg then badLife j so sb else none
  | reg, so, sb, .op m :: cs, o :: os =>
    if reg then livesBad i j true (m :: so) (o :: sb) cs os
    else if !o.isEmpty then some "unregistered-join-emitted@0" else livesBad i j false [] [] cs os
  | reg, so, sb, .unreg k :: cs, o :: os =>
    if !o.isEmpty then some "control-call-emitted@0"
    else if k = i then
      match (if reg then badLife j so sb else none) with
      | some e => some e
      | none => livesBad i j false [] [] cs os
    else livesBad i j reg so sb cs os
  | reg, so, sb, .reg k :: cs, o :: os =>
    if !o.isEmpty then some "control-call-emitted@0"
    else if k = i then livesBad i j true [] [] cs os else livesBad i j reg so sb cs os
  | _, _, _, _, _ => some "calls"

def firstBadC : Nat → List JoinDef → List COp → List (List (List (Nat × Nat))) → String
  | i, [], cs, obs =>
    if obs.length != cs.length then "calls" else if obs.all (·.isEmpty) then "multiOkC" else s!"extra-batch@0#j{i}"
  | i, j :: js, cs, obs =>
    match heads obs with
    | none => s!"missing-batch@0#j{i}"
    | some col =>
      match livesBad i j true [] [] cs col with
      | some e => s!"{e}#j{i}"
      | none => firstBadC (i + 1) js cs (tails obs)

def cTags (c : JCase) (obs : List (List (List (Nat × Nat)))) : List String :=
  let n := (obs.map List.flatten).flatten.length
  let idx := List.range c.js.length
  let nreg := (c.cs.filter (fun x => match x with | .reg _ => true | _ => false)).length
  let atStart := match c.cs with | x :: _ => isCtl x | [] => false
  let mid := ((c.cs.dropWhile isCtl).any isCtl)
  let gone := idx.any (fun i => (c.cs.filter (fun x => x == .unreg i)).length > (c.cs.filter (fun x => x == .reg i)).length)
  let touched := (idx.filter (fun i => c.cs.any (fun x => x == .unreg i))).length
  let hasWm := c.ms.any (fun m => match m with | .wm _ _ => true | _ => false)
  -- pairs delivered to a join after it was registered again
  let after := idx.any (fun i =>
    let k := (c.cs.zip (colOf i obs)).dropWhile (fun x => x.1 != .reg i)
    !(k.map (·.2)).flatten.isEmpty)
  ["multi", "unregister-register", s!"joins{c.js.length}", s!"joins-touched{touched}"]
  ++ [if n = 0 then "pairs0" else if n ≤ 2 then "pairs1-2" else "pairs3+"]
  ++ (if nreg = 0 then [] else if nreg = 1 then ["registered-again1"] else ["registered-again2+"])
  ++ (if atStart then ["ctl-before-first-event"] else [])
  ++ (if mid then ["ctl-mid-run"] else [])
  ++ (if gone then ["gone-for-good"] else [])
  ++ (if after then ["pairs-after-registering-again"] else [])
  ++ (if hasWm then ["wm"] else [])
  ++ (c.conds.eraseDups.map (fun k => s!"cond{k}"))
  ++ (if n > 0 then ["nontrivial"] else [])

def firstBadX : Nat → List JoinDef → List XOp → List (List (List (Nat × Nat))) → String
  | i, [], xs, obs =>
    if obs.length != xs.length then "calls" else if obs.all (·.isEmpty) then "multiOkX" else s!"extra-batch@0#j{i}"
  | i, j :: js, xs, obs =>
    match heads obs with
    | none => s!"missing-batch@0#j{i}"
    | some col =>
      match livesBad i j true [] [] (xs.map (viewX i)) col with
      | some e => s!"{e}#j{i}"
      | none => firstBadX (i + 1) js xs (tails obs)

def jKeyTags (ms : List JOp) : List String :=
  let keys := (ms.filterMap (fun m => match m with | .ev _ e => e.key | _ => none)).eraseDups
  (if keys.any (· == 100) then ["empty-key"] else [])
  ++ (if keys.any (fun k => decide (k ≥ 100 ∧ k < 200)) then ["unusual-key"] else [])
  ++ (if keys.any (fun k => decide (k ≥ 200)) then ["long-key"] else [])

def xTags (c : JCase) (obs : List (List (List (Nat × Nat)))) : List String :=
  let n := (obs.map List.flatten).flatten.length
  let idx := List.range c.js.length
  let nclr := (c.xs.filter (· == .clear)).length
  let atStart : Bool := match c.xs with | x :: _ => x == .clear | [] => false
  let back := (idx.filter (fun i => ((c.xs.dropWhile (· != .clear)).any (· == .ctl (.reg i))))).length
  -- pairs delivered to a join after it was registered again following a clear()
  let after := idx.any (fun i =>
    let k := ((c.xs.zip (colOf i obs)).dropWhile (fun x => x.1 != .clear)).dropWhile (fun x => x.1 != .ctl (.reg i))
    !(k.map (·.2)).flatten.isEmpty)
  let hasWm := c.ms.any (fun m => match m with | .wm _ _ => true | _ => false)
  ["multi", "clear", s!"joins{c.js.length}", s!"clears{nclr}", s!"joins-back-after-clear{back}"]
  ++ [if n = 0 then "pairs0" else if n ≤ 2 then "pairs1-2" else "pairs3+"]
  ++ (if atStart then ["clear-before-first-event"] else ["clear-mid-run"])
  ++ (if c.cs.any (fun x => match x with | .unreg _ => true | _ => false) then ["unregister-and-clear"] else [])
  ++ (if after then ["pairs-after-clear-and-register"] else [])
  ++ (if hasWm then ["wm"] else [])
  ++ (if n > 0 then ["nontrivial"] else [])

def oracleJ (cs o : String) : String :=
  match parseJCase cs, parseJObs o.trimAscii.toString with
  | some c, some obs =>
    if !c.js.all (fun j => decide (WF (joinOps j c.ms))) then "bad-case-ids"
    else if c.clr then
      (if multiOkX 0 c.js c.xs obs then joinSp ("ok" :: xTags c obs ++ jKeyTags c.ms)
       else s!"fail {firstBadX 0 c.js c.xs obs}")
    else if c.ctl then
      (if multiOkC 0 c.js c.cs obs then joinSp ("ok" :: cTags c obs ++ jKeyTags c.ms)
       else s!"fail {firstBadC 0 c.js c.cs obs}")
    else if multiOk c.js c.ms obs then joinSp ("ok" :: jTags c obs ++ jKeyTags c.ms)
    else s!"fail {firstBadJ 0 c.js c.ms obs}"
  | _, _ => "bad-input"

def oracleLine (line : String) : String :=
  match line.splitOn " | " with
  | [cs0, o] =>
    let hadProbe := dropProbes cs0 != (" ".intercalate (tokens cs0))
    let cs := dropProbes cs0
    (fun r => if hadProbe && r.startsWith "ok" then r ++ " stats-probes" else r) <|
    if isJ cs then oracleJ cs o else
    match parseCase cs, parseObs o.trimAscii.toString with
    | some c, some obs =>
      let ms := c.mops
      let ops := ms.filterMap route
      if !decide (WF ops) then "bad-case-ids"
      else if mgrOk c.P ms obs then joinSp ("ok" :: tagsOf c ops (routedObs ms obs))
      else if !unroutedSilent ms obs then "fail unrouted-call-emitted"
      else s!"fail {firstBad c.P ops (routedObs ms obs)}"
    | _, _ => "bad-input"
  | _ => "bad-input"

def main (args : List String) : IO Unit :=
  match args with
  | ["model"] => mapLines modelLine
  | ["oracle"] => mapLines oracleLine
  | _ => IO.eprintln "usage: drv_c14 model|oracle"
