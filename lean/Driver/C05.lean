import RreModel.Proto
import RreModel.C05.Spec
/-
Driver for C05.
  case := `<E> <hex utf-8 input> <cls>`      cls := `-` | `cp:f,cp:f,…`  (hex code point : 1·white+2·alpha+4·numeric)
  obs  := `ok[ detail]` | `err` | `panic:<hex>` | `crash:…` | `hang`
  drv_c05 model  : case        ↦ predicted obs (`-` = entry not modelled, `fine` = ok-or-err)
  drv_c05 oracle : case | obs  ↦ `ok <tags>` / `fail <clause>`       (Spec.holds on the observation)
-/
open Proto C05

def asciiCls : Cls where
  white c := c.toNat == 32 || (9 ≤ c.toNat && c.toNat ≤ 13)
  alpha c := ('a' ≤ c && c ≤ 'z') || ('A' ≤ c && c ≤ 'Z')
  numeric c := '0' ≤ c && c ≤ '9'

def hexNat? (s : String) : Option Nat :=
  s.toList.foldlM (fun a c => (hexDigit? c).map (a * 16 + ·)) 0

def parseCls (s : String) : Option Cls :=
  if s = "-" then some asciiCls else do
    let ents ← (s.splitOn ",").mapM fun e =>
      match e.splitOn ":" with
      | [cp, f] => do pure ((← hexNat? cp), (← f.toNat?))
      | _ => none
    let look (bit : Nat) (c : Char) : Bool :=
      match ents.find? (·.1 == c.toNat) with
      | some (_, f) => (f / bit) % 2 == 1
      | none => false
    pure { white := fun c => if c.toNat < 128 then asciiCls.white c else look 1 c
           alpha := fun c => if c.toNat < 128 then asciiCls.alpha c else look 2 c
           numeric := fun c => if c.toNat < 128 then asciiCls.numeric c else look 4 c }

def hx (s : Str) : String := hexOfString (String.ofList s)
def hxList (xs : List Str) : String := if xs.isEmpty then "-" else ",".intercalate (xs.map hx)

partial def showVal : Val → String
  | .str s => "S" ++ hx s
  | .int i => "I" ++ toString i
  | .num => "N"
  | .bool b => if b then "B1" else "B0"
  | .null => "Null"
  | .expr s => "E" ++ hx s
  | .arr vs => "A[" ++ ";".intercalate (vs.map showVal) ++ "]"

def showLit : Lit → String
  | .bool b => if b then "B1" else "B0"
  | .null => "Null"
  | .str s => "S" ++ hx s
  | .num => "#"

partial def showExpr : Expr → String
  | .field n => s!"F({hx n})"
  | .lit l => s!"L({showLit l})"
  | .cmp op l r => s!"C({op},{showExpr l},{showExpr r})"
  | .and l r => s!"A({showExpr l},{showExpr r})"
  | .or l r => s!"O({showExpr l},{showExpr r})"
  | .not e => s!"N({showExpr e})"
  | .var n => s!"V({hx n})"

def showR {α} (f : α → String) : R α → String
  | .ok a => let d := f a; if d.isEmpty then "ok" else "ok " ++ d
  | .err => "err"
  | .panic => "panic"
  | .oof => "oof"

def showAgg (a : Agg) : String :=
  let f := match a.var with
    | some v => a.func ++ ":" ++ hx v
    | none => a.func
  s!"{f} {hx a.pattern} {match a.filter with | some x => hx x | none => "none"}"

/-- the model's prediction for one entry -/
def predict (k : Cls) (e : String) (s : Str) : String :=
  match e with
  | "X" => showR showExpr (parseExpr k s)
  | "Q" => showR (fun (p : Bool × Expr) => s!"{if p.1 then 1 else 0} {showExpr p.2}") (parseQuery k s)
  | "V" => (match evalExpr k s with
    | .ok => "ok" | .err => "err" | .fine => "fine" | .panic => "panic" | .oof => "oof")
  | "D" => showR (fun (o : Option (List Str)) => match o with | some bs => hxList bs | none => "none") (disjParse k s)
  | "DC" => showR (fun (b : Bool) => if b then "1" else "0") (disjContainsOr k s)
  | "G" => showR hx (grlQueryParse k s)
  | "GQ" => showR hxList (grlParseQueries k s)
  | "A" => showR showAgg (parseAggregate k s)
  | "NH" => showR (fun (b : Bool) => if b then "1" else "0") (hasNested s)
  | "NP" => showR hxList (nestedParse k s)
  | "RV" => if (trim k s).isEmpty then "err" else showR showVal (parseValue k s)
  | "RA" => showR showVal (parseValue k s)
  | _ => "-"

def parseCase (line : String) : Option (String × Str × Cls) :=
  match tokens line with
  | [e, h, c] => do
    let s ← hexString? h
    let k ← parseCls c
    pure (e, s.toList, k)
  | _ => none

def modelLine (line : String) : String :=
  match parseCase line with
  | some (e, s, k) => predict k e s
  | none => "bad-case"

def parseObs (o : String) : Option Obs :=
  if o = "ok" then some (.ok "")
  else if o.startsWith "ok " then some (.ok (o.drop 3).toString)
  else if o = "err" then some .err
  else if o.startsWith "panic" then some (.panic (o.drop 6).toString)
  else if o.startsWith "crash" then some (.crash (o.drop 6).toString)
  else if o = "hang" then some .hang
  else none

def lenBucket (n : Nat) : String :=
  if n = 0 then "len0" else if n < 16 then "len1-15" else if n < 64 then "len16-63"
  else if n < 512 then "len64-511" else "len512+"

def oracleLine (line : String) : String :=
  match line.splitOn " | " with
  | [c, o] =>
    match parseCase c, parseObs o.trimAscii.toString with
    | some (e, s, _), some obs =>
      if Spec.holds obs then
        let tags := ["e_" ++ e, (match obs with | .ok _ => "r_ok" | _ => "r_err"), lenBucket s.length]
          ++ (if s.any (fun c => c.utf8Size > 1) then ["multibyte"] else [])
          ++ (if nontrivial s then ["nontrivial"] else [])
        joinSp ("ok" :: tags)
      else s!"fail {Spec.clause obs}"
    | _, _ => "bad-input"
  | _ => "bad-input"

def main (args : List String) : IO Unit :=
  match args with
  | ["model"] => mapLines modelLine
  | ["oracle"] => mapLines oracleLine
  | _ => IO.eprintln "usage: drv_c05 model|oracle"
