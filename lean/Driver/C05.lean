import RreModel.Proto
import RreModel.C05.Spec
import RreModel.C05.Model2
import RreModel.C05.Model3
/-
Driver for C05.
  case := `<E> <hex utf-8 input> <cls>`      cls := `-` | `cp:f,cp:f,…`  (hex code point : 1·white+2·alpha+4·numeric)
  obs  := `ok[ detail]` | `err` | `panic:<hex>` | `crash:…` | `hang`
  drv_c05 model  : case        ↦ predicted obs (`-` = entry not modelled, `fine` = ok-or-err)
  drv_c05 oracle : case | obs  ↦ `ok <tags>` / `fail <clause>`       (Spec.holds on the observation)
-/
open Proto C05

def asciiCls : Cls where
  white c := c.toNat == 32 || (9 ≤ c.toNat && c.toNat ≤ 13)
  alpha c := ('a' ≤ c && c ≤ 'z') || ('A' ≤ c && c ≤ 'Z')
  numeric c := '0' ≤ c && c ≤ '9'

def hexNat? (s : String) : Option Nat :=
  s.toList.foldlM (fun a c => (hexDigit? c).map (a * 16 + ·)) 0

def parseCls (s : String) : Option Cls :=
  if s = "-" then some asciiCls else do
    let ents ← (s.splitOn ",").mapM fun e =>
      match e.splitOn ":" with
      | [cp, f] => do pure ((← hexNat? cp), (← f.toNat?))
      | _ => none
    let look (bit : Nat) (c : Char) : Bool :=
      match ents.find? (·.1 == c.toNat) with
      | some (_, f) => (f / bit) % 2 == 1
      | none => false
    pure { white := fun c => if c.toNat < 128 then asciiCls.white c else look 1 c
           alpha := fun c => if c.toNat < 128 then asciiCls.alpha c else look 2 c
           numeric := fun c => if c.toNat < 128 then asciiCls.numeric c else look 4 c }

def hx (s : Str) : String := hexOfString (String.ofList s)
def hxList (xs : List Str) : String := if xs.isEmpty then "-" else ",".intercalate (xs.map hx)

partial def showVal : Val → String
  | .str s => "S" ++ hx s
  | .int i => "I" ++ toString i
  | .num => "N"
  | .bool b => if b then "B1" else "B0"
  | .null => "Null"
  | .expr s => "E" ++ hx s
  | .arr vs => "A[" ++ ";".intercalate (vs.map showVal) ++ "]"

def showLit : Lit → String
  | .bool b => if b then "B1" else "B0"
  | .null => "Null"
  | .str s => "S" ++ hx s
  | .num => "#"

partial def showExpr : Expr → String
  | .field n => s!"F({hx n})"
  | .lit l => s!"L({showLit l})"
  | .cmp op l r => s!"C({op},{showExpr l},{showExpr r})"
  | .and l r => s!"A({showExpr l},{showExpr r})"
  | .or l r => s!"O({showExpr l},{showExpr r})"
  | .not e => s!"N({showExpr e})"
  | .var n => s!"V({hx n})"

def showR {α} (f : α → String) : R α → String
  | .ok a => let d := f a; if d.isEmpty then "ok" else "ok " ++ d
  | .err => "err"
  | .panic => "panic"
  | .oof => "oof"

def showAgg (a : Agg) : String :=
  let f := match a.var with
    | some v => a.func ++ ":" ++ hx v
    | none => a.func
  s!"{f} {hx a.pattern} {match a.filter with | some x => hx x | none => "none"}"

/-! ### entries added by the follow-up (Model2): text layer, accumulate, module context, attributes, stream grammar -/

def showPR {α} (f : α → String) : PR α → String
  | .ok a r => s!"ok {blen r} {f a}"
  | .err => "err"
  | .panic => "panic"
  | .oof => "oof"

def showWin (w : Nat × WType) : String := toString w.1 ++ (match w.2 with | .sliding => "s" | .tumbling => "t")
def showWinOpt : Option (Nat × WType) → String
  | some w => showWin w
  | none => "-"
def showSPat (p : SPat) : String :=
  s!"{hx p.var} {match p.etype with | some t => hx t | none => "-"} {hx p.stream} {showWinOpt p.window}"
def showJoinCond : JoinCond → String
  | .eq l r => s!"eq {hx l} {hx r}"
  | .expr e => s!"ex {hx e}"
  | .temporal op l r => s!"{op} {hx l} {hx r}"

/-- `some mid` when `t = pre ++ mid ++ post` -/
def between (pre post t : Str) : Option Str :=
  if pre.isPrefixOf t then
    let r := t.drop pre.length
    if post.length ≤ r.length ∧ r.drop (r.length - post.length) == post then some (r.take (r.length - post.length))
    else none
  else none

def showRS (r : R String) : String :=
  match r with
  | .ok s => s
  | .err => "err"
  | .panic => "panic"
  | .oof => "oof"

/-- PU: `parse_rule(s)` on a text that cannot match the rule regex (no `rule` left after cleaning) -/
def predictPU (k : Cls) (s : Str) : String :=
  showRS <| bindR (notARuleText k prepare s) fun cu =>
    if containsStr cu.1 "rule".toList then .ok "-"
    else .ok ("err " ++ hx ("Invalid GRL rule format. Input: ".toList ++ cu.2))

/-- PN: `rule "<s>" { when X == 1 then Y = 1; }` ↦ the rule name -/
def predictPN (k : Cls) (s : Str) : String :=
  let text := "rule \"".toList ++ s ++ "\" { when X == 1 then Y = 1; }".toList
  showRS <| bindR (prepare text) fun ml =>
    match between "rule \"".toList "\" { when X == 1 then Y = 1; }".toList (cleanText k ml.1) with
    | some mid =>
      if mid.contains '"' || mid.contains '{' || mid.contains '}' || containsStr mid "rule".toList then .ok "-"
      else if mid.isEmpty then .ok "err"
      else bindR (unmask ml.2 mid) fun nm => .ok ("ok " ++ hx nm)
    | none => .ok "-"

/-- AC: `rule "r" { when accumulate(<s>) then Y = 1; }` ↦ the fields of `ConditionGroup::Accumulate` -/
def predictAC (k : Cls) (s : Str) : String :=
  let text := "rule \"r\" { when accumulate(".toList ++ s ++ ") then Y = 1; }".toList
  showRS <| bindR (prepare text) fun ml =>
    if !ml.1.contains '}' then .ok "ok other0"          -- a comment swallowed the end of the rule: no rule found
    else
    match between ("rule \"".toList ++ placeholder 0 ++ "\" { when ".toList) " then Y = 1; }".toList (cleanText k ml.1) with
    | some mid =>
      let clause := trim k mid
      if mid.contains '{' || mid.contains '}' || containsStr mid "then".toList || containsStr mid "rule".toList then .ok "-"
      else if 2 ≤ (splitLogical k '|' clause).length || 2 ≤ (splitLogical k '&' clause).length then .ok "-"
      else if !"accumulate(".toList.isPrefixOf clause then .ok "-"
      else match parseAccCondition k ml.2 clause with
        | .ok a => .ok s!"ok {hx a.source} {hx a.field} {hxList a.conds} {hx a.func} {hx a.arg}"
        | .err => .ok "err"
        | .panic => .panic
        | .oof => .oof
    | none => .ok "-"

/-- MC: `<s>rule "r" { when X == 1 then Y = 1; }` through `parse_with_modules` ↦ the module of rule `r` -/
def predictMC (k : Cls) (s : Str) : String :=
  let text := s ++ "rule \"r\" { when X == 1 then Y = 1; }".toList
  if containsStr s "rule".toList || containsStr s "defmodule".toList || s.contains '"' || s.contains '\''
      || s.contains '/' || s.contains '{' || s.contains '}' then "-"
  -- a multi-byte char glued to `rule`: the regex engine reports an offset inside it (F-C05i, guarded: Err)
  else if (match s.getLast? with | some c => decide (c.utf8Size > 1) | none => false) then "fine"
  else match extractModule k text ['r'] with
    | .ok m => "ok 72=" ++ hx m
    | .err => "err"
    | .panic => "panic"
    | .oof => "oof"

/-- scanner standing for `quoted_regex.replace_all(s, "")` with the regex `"[^"]*"` -/
def removeQuotedGo : Str → Str → Option Str → Str
  | [], out, none => out.reverse
  | [], out, some held => (held ++ out).reverse          -- an unclosed quote is kept
  | c :: cs, out, none => if c == '"' then removeQuotedGo cs out (some [c]) else removeQuotedGo cs (c :: out) none
  | c :: cs, out, some held => if c == '"' then removeQuotedGo cs out none else removeQuotedGo cs out (some (c :: held))
def removeQuotedRef (s : Str) : Str := removeQuotedGo s [] none

def wordChar (c : Char) : Bool := asciiCls.alpha c || asciiCls.numeric c || c == '_'

/-- scanner standing for `\b<word>\b` `.is_match` -/
def hasWordGo (w : Str) : Str → Option Char → Bool
  | [], _ => false
  | c :: cs, prev =>
    (w.isPrefixOf (c :: cs) && (match prev with | some p => !wordChar p | none => true)
      && (match (c :: cs).drop w.length with | d :: _ => !wordChar d | [] => true))
    || hasWordGo w cs (some c)
def hasWord (w : String) (s : Str) : Bool := hasWordGo w.toList s none

/-- AT: `rule "r" <s> { when X == 1 then Y = 1; }` ↦ `no_loop`, `lock_on_active` -/
def predictAT (k : Cls) (s : Str) : String :=
  let text := "rule \"r\" ".toList ++ s ++ " { when X == 1 then Y = 1; }".toList
  showRS <| bindR (prepare text) fun ml =>
    match between ("rule \"".toList ++ placeholder 0 ++ "\"".toList) "{ when X == 1 then Y = 1; }".toList (cleanText k ml.1) with
    | some attrs =>
      if attrs.contains '{' || attrs.contains '}' || containsStr attrs "salience".toList || containsStr attrs "date-".toList
          || attrs.any (fun c => c.toNat ≥ 128) then .ok "-"
      else bindR (attrsSection removeQuotedRef attrs) fun sec =>
        .ok s!"ok {if hasWord "no-loop" sec then 1 else 0}{if hasWord "lock-on-active" sec then 1 else 0}"
    | none => .ok "-"

def unmaskStr (lits : List Str) (s : Str) : Str :=
  match unmask lits s with
  | .ok t => t
  | _ => s

partial def unmaskVal (lits : List Str) : Val → Val
  | .str s => .str (unmaskStr lits s)
  | .expr s => .expr (unmaskStr lits s)
  | .arr vs => .arr (vs.map (unmaskVal lits))
  | v => v

/-- WF / WG: `rule "r" { when X == 1 then <fname>("<s>"); }` ↦ `(key, value)` of `ActionType::SetWorkflowData`; predicted when
`s` is exactly one literal body (no `"`, no line break): the masked text is then the same for every `s` -/
def predictWF (k : Cls) (fname : String) (s : Str) : String :=
  let pre := "rule \"r\" { when X == 1 then " ++ fname ++ "(\""
  let post := "\"); }"
  showRS <| bindR (prepare (pre.toList ++ s ++ post.toList)) fun ml =>
    match between ("rule \"".toList ++ placeholder 0 ++ (pre.toList.drop 7)) post.toList (cleanText k ml.1) with
    | some mid =>
      if mid.isEmpty then .ok "err"                      -- `""`: no `=`
      else if mid == placeholder 1 then
        match wfData k ml.2 ('"' :: mid ++ ['"']) with
        | .ok (key, v) =>
          let v' := match v with
            | .arr vs => Val.arr (vs.map (unmaskVal ml.2))
            | w => w
          .ok s!"ok {hx key} {showVal v'}"
        | .err => .ok "err"
        | .panic => .panic
        | .oof => .oof
      else .ok "-"
    | none => .ok "-"

/-- RV / RA: `parse_value` sees the *masked* payload (classification is done on masked text) and unmasks the
strings it returns -/
def predictValue (k : Cls) (pre post : String) (s : Str) : R Val :=
  match prepare (pre.toList ++ s ++ post.toList) with
  | .ok (m, lits) =>
    let pre' := "rule \"".toList ++ placeholder 0 ++ (pre.toList.drop 7)
    match between pre' post.toList (cleanText k m) with
    | some mid =>
      (match parseValue k mid with
       | .ok v => .ok (unmaskVal lits v)
       | r => r)
    | none => parseValue k s
  | _ => parseValue k s

/-- the facts `evaluate_expression` is driven with (`v_facts()` of the harness) -/
def vFacts (s : Str) : Option AV :=
  match String.ofList s with
  | "Z" => some (.numv (some true))
  | "I" => some (.numv (some false))
  | "M" => some (.numv (some false))
  | "MX" => some (.numv (some false))
  | "N1" => some (.numv (some false))
  | "F" => some (.numv (some false))
  | "FZ" => some (.numv (some true))
  | "S" => some (.str ['x'])
  | "SN" => some (.str "12".toList)
  | "SZ" => some (.str ['0'])
  | "B" => some .other
  | "Order.quantity" => some (.numv (some false))
  | "Order.none" => some (.numv (some true))
  | _ => none

/-! ### third group (Model3): WT, NV, FA, MA, IM -/

/-- chars that make the surrounding regexes / the text layer do something the wrapper's shape does not predict -/
def plainPayload (s : Str) (extra : List Char) : Bool :=
  !(s.any fun c => c == '"' || c == '\'' || c == '{' || c == '}' || c == ';' || c == '\n' || c == '\r'
      || c == MASK_START || c == MASK_END || extra.contains c)
    && !containsStr s "//".toList && !containsStr s "/*".toList

/-- WT: `rule "r" { when <s> then Y = 1; }` ↦ the tree of `parse_when_clause` if every leaf parses (`iferr`: an `Err` of
the regex-driven leaf parser agrees as well) -/
def predictWT (k : Cls) (s : Str) : String :=
  if !plainPayload s ['$', ':', ',', '[', ']'] || (trim k s).isEmpty
      || ["then", "accumulate", "stream", "test", "rule", "when"].any (fun w => containsStr s w.toList) then "-"
  else match whenShape k s with
    | .ok t => "iferr ok " ++ t
    | .err => "err"
    | .panic => "panic"
    | .oof => "oof"

def showVals (vs : List Val) : String :=
  s!"{vs.length} {if vs.isEmpty then "-" else ";".intercalate (vs.map showVal)}"

/-- FA / MA: `… then foo(<s>); }` / `… then $Obj.set(<s>); }` ↦ the positional arguments -/
def predictArgs (k : Cls) (method : Bool) (s : Str) : String :=
  if !plainPayload s ['$', '=', '(', ')'] then "-"
  -- `$Obj.set(<s>)`: METHOD_CALL_REGEX never matches under the regex engine in use (observed on every case), the statement is
  -- parsed by the function-call branch: a custom action `set` with the arguments of `parse_function_args_as_params`.
  -- `methodArgs` (`parse_method_args`) is therefore not reachable through the public API; a build in which the regex
  -- matches shows up here as `ok method …`
  else showR (fun vs => (if method then "custom " else "") ++ showVals vs) (funcArgs k s)

/-- IM: `defmodule A { export: all }⏎defmodule B { import: <s> }` ↦ the imports of `B` -/
def predictIM (k : Cls) (s : Str) : String :=
  if !plainPayload s [] || ["import:", "export:", "defmodule"].any (fun w => containsStr s w.toList) then "-"
  else match extractDirective k (" import: ".toList ++ s ++ " ".toList) "import:".toList with
    | .ok (some spec) =>
      (match importSpec k spec with
       | .ok (src, r, t) =>
         if !(r || t) then "ok -"
         else if src == ['A'] || src == "MAIN".toList then
           "ok " ++ ",".intercalate ((if r then [hx src ++ ":r"] else []) ++ (if t then [hx src ++ ":t"] else []))
         else "err"
       | .err => "err"
       | .panic => "panic"
       | .oof => "oof")
    | .ok none => "-"
    | .err => "err"
    | .panic => "panic"
    | .oof => "oof"

/-- the model's prediction for one entry -/
def predict (k : Cls) (e : String) (s : Str) : String :=
  match e with
  | "WT" => predictWT k s
  | "NV" => showR hxList (queryVars k s)
  | "FA" => predictArgs k false s
  | "MA" => predictArgs k true s
  | "IM" => predictIM k s
  | "S" => showPR showSPat (parseStreamPattern nomRef k s)
  | "SJ" => showPR (fun (p : SPat × SPat) => showSPat p.1 ++ " " ++ showSPat p.2) (parseStreamJoin nomRef k s)
  | "SC" => showPR showJoinCond (parseJoinCondition nomRef k s)
  | "SD" => showPR toString (parseDuration nomRef s)
  | "SW" => showPR showWin (parseWindowSpec nomRef s)
  | "SS" => showPR (fun (p : Str × Option (Nat × WType)) => hx p.1 ++ " " ++ showWinOpt p.2) (parseStreamSource nomRef s)
  | "ST" => showPR (fun (t : WType) => match t with | .sliding => "s" | .tumbling => "t") (parseWindowType nomRef s)
  | "PU" => predictPU k s
  | "PN" => predictPN k s
  | "AC" => predictAC k s
  | "MC" => predictMC k s
  | "AT" => predictAT k s
  | "X" => showR showExpr (parseExpr k s)
  | "Q" => showR (fun (p : Bool × Expr) => s!"{if p.1 then 1 else 0} {showExpr p.2}") (parseQuery k s)
  | "V" => (match evalValue k vFacts s with
    | .ok _ => "ok" | .err => "err" | .fine => "fine" | .panic => "panic" | .oof => "oof")
  | "D" => showR (fun (o : Option (List Str)) => match o with | some bs => hxList bs | none => "none") (disjParse k s)
  | "DC" => showR (fun (b : Bool) => if b then "1" else "0") (disjContainsOr k s)
  | "G" => (match grlQueryParse k s, grlQueryNums k s with
    | .ok g, .ok (d, m) => s!"ok {hx g} {d} {m}"
    | .ok _, r => showR (fun (_ : Nat × Nat) => "") r
    | r, _ => showR hx r)
  | "QV" => showR (fun (_ : Unit) => "") (validateQuery k s)
  | "WF" => predictWF k "SetWorkflowData" s
  | "WG" => predictWF k "set_workflow_data" s
  | "GQ" => showR hxList (grlParseQueries k s)
  | "A" => showR showAgg (parseAggregate k s)
  | "NH" => showR (fun (b : Bool) => if b then "1" else "0") (hasNested s)
  | "NP" => showR hxList (nestedParse k s)
  | "RV" => if (trim k s).isEmpty then "err"
            else showR showVal (predictValue k "rule \"r\" { when X == " " then Y = 1; }" s)
  | "RA" => showR showVal (predictValue k "rule \"r\" { when X == 1 then Y = " "; }" s)
  | _ => "-"

def parseCase (line : String) : Option (String × Str × Cls) :=
  match tokens line with
  | [e, h, c] => do
    let s ← hexString? h
    let k ← parseCls c
    pure (e, s.toList, k)
  | _ => none

def modelLine (line : String) : String :=
  match parseCase line with
  | some (e, s, k) => predict k e s
  | none => "bad-case"

def parseObs (o : String) : Option Obs :=
  if o = "ok" then some (.ok "")
  else if o.startsWith "ok " then some (.ok (o.drop 3).toString)
  else if o = "err" || o.startsWith "err " then some .err
  else if o.startsWith "panic" then some (.panic (o.drop 6).toString)
  else if o.startsWith "crash" then some (.crash (o.drop 6).toString)
  else if o = "hang" then some .hang
  else none

def lenBucket (n : Nat) : String :=
  if n = 0 then "len0" else if n < 16 then "len1-15" else if n < 64 then "len16-63"
  else if n < 512 then "len64-511" else "len512+"

def oracleLine (line : String) : String :=
  match line.splitOn " | " with
  | [c, o] =>
    match parseCase c, parseObs o.trimAscii.toString with
    | some (e, s, _), some obs =>
      if Spec.holds obs then
        let tags := ["e_" ++ e, (match obs with | .ok _ => "r_ok" | _ => "r_err"), lenBucket s.length]
          ++ (if s.any (fun c => c.utf8Size > 1) then ["multibyte"] else [])
          ++ (if nontrivial s then ["nontrivial"] else [])
        joinSp ("ok" :: tags)
      else s!"fail {Spec.clause obs}"
    | _, _ => "bad-input"
  | _ => "bad-input"

def main (args : List String) : IO Unit :=
  match args with
  | ["model"] => mapLines modelLine
  | ["oracle"] => mapLines oracleLine
  | _ => IO.eprintln "usage: drv_c05 model|oracle"
