import RreModel.Proto
import RreModel.C18.Spec
/-
Driver for C18 (format: see harness/src/bin/c18.rs).
  case := [L|G] op op ...     ops: c:M d:M x:M:all|none|s[,K~pat]* r:M:rule t:M:tmpl i:TO:FROM:TY:pat[:re]
  obs  := step;step;...       step := res[/snapshot]
  snapshot := g[!key>t1,t2]* (/name!exists!rules!templates!exports!imports!vis!tvis!listing)*
  drv_c18 model  : case        ↦ obs predicted by the model
  drv_c18 oracle : case | obs  ↦ `ok <tags>` / `fail <clause>@<step>` (Spec.runOk clauses on the observations)
`L` = snapshots only after the last two operations (exhaustive cases; all prefixes are cases too);
`G` = the operations are performed by the GRL `defmodule` front-end, only the final state is shown.
-/
open Proto C18

inductive Mode where
  | full | tail | grl
deriving DecidableEq

def sortStrs (l : List String) : List String := (l.mergeSort (fun a b => decide (a ≤ b))).eraseDups

def listOrDash (l : List String) : String := if l.isEmpty then "-" else ",".intercalate l
def parseList (s : String) : List String := if s = "-" then [] else s.splitOn ","

def parseTy (s : String) : Option ImportType :=
  if s = "AR" then some .allRules else if s = "AT" then some .allTemplates else if s = "R" then some .rules
  else if s = "T" then some .templates else if s = "A" then some .all else none
def showTy : ImportType → String
  | .allRules => "AR" | .allTemplates => "AT" | .rules => "R" | .templates => "T" | .all => "A"

def parseItem (s : String) : Option ExportItem :=
  match s.splitOn "~" with
  | [k, p] =>
    (if k = "R" then some ItemType.rule else if k = "T" then some .template else if k = "F" then some .fact
     else if k = "A" then some .all else none).map (fun t => ⟨t, p⟩)
  | _ => none
def showItem (it : ExportItem) : String :=
  (match it.ty with | .rule => "R" | .template => "T" | .fact => "F" | .all => "A") ++ "~" ++ it.pattern

def parseExports (s : String) : Option ExportList :=
  if s = "all" then some .all else if s = "none" then some .none
  else match s.splitOn "," with
    | "s" :: items => (items.mapM parseItem).map .specific
    | _ => none
def showExports : ExportList → String
  | .all => "all" | .none => "none"
  | .specific items => ",".intercalate ("s" :: items.map showItem)

def parseRe (s : String) : Option (Option ReExport) :=
  if s = "n" then some none
  else match s.toList with
    | '+' :: rest => some (some ⟨if rest.isEmpty then [] else (String.ofList rest).splitOn "^", true⟩)
    | '-' :: rest => some (some ⟨if rest.isEmpty then [] else (String.ofList rest).splitOn "^", false⟩)
    | _ => none
def showRe : Option ReExport → String
  | none => "n"
  | some re => (if re.transitive then "+" else "-") ++ "^".intercalate re.patterns

def parseOp (tok : String) : Option Op :=
  match tok.splitOn ":" with
  | ["c", m] => some (.create m)
  | ["d", m] => some (.delete m)
  | ["x", m, e] => (parseExports e).map (.setExports m)
  | ["r", m, r] => some (.addRule m r)
  | ["t", m, t] => some (.addTemplate m t)
  | ["i", a, b, ty, p] => (parseTy ty).map (fun ty => .importFrom a b ty p none)
  | ["i", a, b, ty, p, re] => do
    let ty ← parseTy ty
    let re ← parseRe re
    if re.isNone then none else pure (.importFrom a b ty p re)
  | _ => none

def parseCase (line : String) : Option (Mode × List Op) :=
  match tokens line with
  | "L" :: rest => (rest.mapM parseOp).map (fun ops => (.tail, ops))
  | "G" :: rest => (rest.mapM parseOp).map (fun ops => (.grl, ops))
  | rest => (rest.mapM parseOp).map (fun ops => (.full, ops))

/-- the names every snapshot asks about (same rule as the harness) -/
def caseNames (ops : List Op) : List String × List String × List String :=
  let ms := ops.flatMap fun
    | .create m | .delete m | .setExports m _ | .addRule m _ | .addTemplate m _ => [m]
    | .importFrom a b _ _ _ => [a, b]
  let rs := ops.flatMap fun | .addRule _ r => [r] | _ => []
  let ts := ops.flatMap fun | .addTemplate _ t => [t] | _ => []
  (sortStrs ("MAIN" :: ms), sortStrs ("zz" :: rs), sortStrs ("zt" :: ts))

def showRes : Res → String
  | .ok => "ok"
  | .err .alreadyExists => "e:exists"
  | .err .notFound => "e:notfound"
  | .err .defaultModule => "e:default"
  | .err .sourceNotFound => "e:source"
  | .err .cycle => "e:cycle"
def parseRes (s : String) : Option Res :=
  if s = "ok" then some .ok else if s = "e:exists" then some (.err .alreadyExists)
  else if s = "e:notfound" then some (.err .notFound) else if s = "e:default" then some (.err .defaultModule)
  else if s = "e:source" then some (.err .sourceNotFound) else if s = "e:cycle" then some (.err .cycle) else none

def triChar : Option Bool → Char
  | some true => 'T' | some false => 'F' | none => 'E'
def charTri (c : Char) : Option (Option Bool) :=
  if c = 'T' then some (some true) else if c = 'F' then some (some false) else if c = 'E' then some none else none

def showImport (d : ImportDecl) : String := s!"{d.src}~{showTy d.ty}~{d.pattern}~{showRe d.reExport}"
def parseImport (s : String) : Option ImportDecl :=
  match s.splitOn "~" with
  | [a, ty, p, re] => do
    let ty ← parseTy ty
    let re ← parseRe re
    pure ⟨a, ty, p, re⟩
  | _ => none

/-- the model's snapshot, printed exactly like the harness prints the implementation's -/
def showSnap (U R T : List String) (s : Mgr) : String :=
  let keys := sortStrs (s.graph.map (·.1))
  let g := "g" ++ String.join (keys.map fun k => s!"!{k}>{",".intercalate (sortStrs (succs s.graph k))}")
  let blocks := U.map fun name =>
    let vis := String.ofList (R.map fun r => triChar (toOpt (isVisible .rule s r name)))
    let tvis := String.ofList (T.map fun t => triChar (toOpt (isVisible .template s t name)))
    let listing := match getVisibleRules s name with
      | .ok l => listOrDash (sortStrs l)
      | .error _ => "E"
    match aget name s.modules with
    | some m =>
      s!"/{name}!1!{listOrDash (sortStrs m.rules)}!{listOrDash (sortStrs m.templates)}!{showExports m.exports}!{listOrDash (m.imports.map showImport)}!{vis}!{tvis}!{listing}"
    | none => s!"/{name}!0!-!-!-!-!{vis}!{tvis}!{listing}"
  g ++ String.join blocks

def modelFull (U R T : List String) (tailOnly : Bool) (ops : List Op) : String :=
  let n := ops.length
  let rec go (i : Nat) (s : Mgr) : List Op → List String
    | [] => []
    | op :: rest =>
      let (s', r) := step s op
      (if tailOnly && i + 2 < n then showRes r else showRes r ++ "/" ++ showSnap U R T s') :: go (i + 1) s' rest
  let steps := go 0 init ops
  if steps.isEmpty then "-" else ";".intercalate steps

/-- the GRL front-end: `create_module` errors are ignored, the first refused import aborts the parse -/
def modelGrl (U R T : List String) (ops : List Op) : String :=
  let rec go (s : Mgr) : List Op → String
    | [] => "ok/" ++ showSnap U R T s
    | op :: rest =>
      let (s', r) := step s op
      match op, r with
      | .importFrom .., .err e => showRes (.err e)
      | _, _ => go s' rest
  go init ops

def modelLine (line : String) : String :=
  match parseCase line with
  | some (mode, ops) =>
    let (U, R, T) := caseNames ops
    match mode with
    | .full => modelFull U R T false ops
    | .tail => modelFull U R T true ops
    | .grl => modelGrl U R T ops
  | none => "bad-case"

/-! oracle side: rebuild an `Obs` from the implementation's snapshot -/

def parseGraph (s : String) : Option Graph :=
  match s.splitOn "!" with
  | "g" :: entries => entries.mapM fun e =>
      match e.splitOn ">" with
      | [k, v] => some (k, if v = "" then [] else v.splitOn ",")
      | _ => none
  | _ => none

structure Block where
  name : String
  mod? : Option Module
  vis : List (Option Bool)
  tvis : List (Option Bool)
  listing : Option (List String)

def parseBlock (s : String) : Option Block :=
  match s.splitOn "!" with
  | [name, ex, rules, tmpls, exports, imports, vis, tvis, listing] => do
    let vis ← vis.toList.mapM charTri
    let tvis ← tvis.toList.mapM charTri
    let listing := if listing = "E" then none else some (parseList listing)
    if ex = "1" then
      let e ← parseExports exports
      let imps ← (parseList imports).mapM parseImport
      pure ⟨name, some { rules := parseList rules, templates := parseList tmpls, exports := e, imports := imps }, vis, tvis, listing⟩
    else if ex = "0" then pure ⟨name, none, vis, tvis, listing⟩
    else none
  | _ => none

def parseSnap (U R T : List String) (s : String) : Option Obs :=
  match s.splitOn "/" with
  | g :: blocks => do
    let g ← parseGraph g
    let bs ← blocks.mapM parseBlock
    if bs.map (·.name) ≠ U then none
    else if bs.any (fun b => b.vis.length ≠ R.length || b.tvis.length ≠ T.length) then none
    else
      let o : Obs :=
        { st := { modules := bs.filterMap (fun b => b.mod?.map (fun m => (b.name, m))), graph := g }
          vis := bs.flatMap (fun b => (R.zip b.vis).map (fun (r, v) => ((r, b.name), v)))
          tvis := bs.flatMap (fun b => (T.zip b.tvis).map (fun (t, v) => ((t, b.name), v)))
          listing := bs.map (fun b => (b.name, b.listing)) }
      some o
  | _ => none

def parseStep (U R T : List String) (s : String) : Option (Res × Option Obs) :=
  match s.splitOn "/" with
  | [r] => (parseRes r).map (fun r => (r, none))
  | r :: rest => do
    let r ← parseRes r
    let o ← parseSnap U R T ("/".intercalate rest)
    pure (r, some o)
  | _ => none

/-- name of the first violated clause of `snapOk` -/
def snapClause (U : List String) (o : Obs) : Option String :=
  if !graphAgreesB o.st U then some "graph_agrees_with_decls"
  else if !noDanglingB o.st U then some "decl_names_missing_module"
  else if !acyclicB o.st U then some "acyclic"
  else if !(o.vis.all fun q => existsB o.st q.1.2 == q.2.isSome) ||
          !(o.tvis.all fun q => existsB o.st q.1.2 == q.2.isSome) ||
          !(o.listing.all fun q => existsB o.st q.1 == q.2.isSome) then some "visibility_total"
  else if !(o.vis.all fun q => q.2 == specVisible .rule o.st q.1.1 q.1.2) then some "rule_visible_iff"
  else if !(o.tvis.all fun q => q.2 == specVisible .template o.st q.1.1 q.1.2) then some "template_visible_iff"
  else if !snapOk U o then some "get_visible_eq_filter"
  else none

def stepClause (o : Obs) (op : Op) (r : Res) (o' : Obs) : Option String :=
  if stepOk o op r o' then none
  else match op with
    | .importFrom to src _ _ _ =>
      if r != expectedImport o.st to src then
        some (if expectedImport o.st to src == .err .cycle then "cycle_import_not_refused" else "import_answer")
      else some "refused_changes_state"
    | _ => some "refused_changes_state"

structure OAcc where
  prev : Option Obs
  tags : List String := []

def addTag (a : OAcc) (t : String) : OAcc := if t ∈ a.tags then a else { a with tags := a.tags ++ [t] }

def importedVisible (o : Obs) : Bool :=
  o.vis.any fun q => q.2 == some true &&
    (match aget q.1.2 o.st.modules with | some m => !(q.1.1 ∈ m.rules) | none => false)

def oracleRun (U : List String) : Nat → OAcc → List Op → List (Res × Option Obs) → String
  | _, a, [], [] => joinSp ("ok" :: a.tags)
  | i, a, op :: ops, (r, o'?) :: rest =>
    let a := match op, r with
      | .importFrom to src .., .err .cycle => addTag (addTag a "refused_cycle") (if to = src then "self_import" else "path_cycle")
      | .importFrom _ _ _ _ re, .ok => addTag (addTag a "import_ok") (if re.isSome then "reexport_decl" else "plain_decl")
      | .importFrom .., .err _ => addTag a "import_missing_module"
      | .delete _, .ok => addTag a "delete_ok"
      | .create _, .ok => if "delete_ok" ∈ a.tags then addTag a "create_after_delete" else a
      | _, _ => a
    match o'? with
    | none => oracleRun U (i + 1) { a with prev := none } ops rest
    | some o' =>
      match snapClause U o' with
      | some c => s!"fail {c}@{i}"
      | none =>
        let bad := match a.prev with
          | some o => stepClause o op r o'
          | none => none
        match bad with
        | some c => s!"fail {c}@{i}"
        | none =>
          let a := if importedVisible o' then addTag a "imported_visible" else a
          let a := match op, r, a.prev with
            | .delete n, .ok, some o => if o.st.modules.any (fun p => p.2.imports.any (fun d => d.src = n)) then addTag a "delete_imported" else a
            | _, _, _ => a
          let a := if o'.st.graph.any (fun p => p.2.length ≥ 1) && ("import_ok" ∈ a.tags) &&
                      (("refused_cycle" ∈ a.tags) || ("delete_imported" ∈ a.tags) || ("imported_visible" ∈ a.tags))
                   then addTag a "nontrivial" else a
          oracleRun U (i + 1) { a with prev := some o' } ops rest
  | i, _, _, _ => s!"fail length@{i}"

def oracleLine (line : String) : String :=
  match line.splitOn " | " with
  | [c, o] =>
    match parseCase c with
    | some (mode, ops) =>
      let (U, R, T) := caseNames ops
      let o := o.trimAscii.toString
      if mode = .grl then
        if o.startsWith "e:" then (if (parseRes o).isSome then s!"ok grl grl_refused" else "fail grl_parse_error@0")
        else match parseStep U R T o with
          | some (.ok, some ob) =>
            -- the front-end must have declared exactly the imports written in the text, in order
            let declsOk := ob.st.modules.all fun p =>
              p.2.imports == ops.filterMap fun
                | .importFrom to src ty pat re => if to = p.1 then some ⟨src, ty, pat, re⟩ else none
                | _ => none
            if !declsOk then "fail grl_declarations@0" else
            (match snapClause U ob with
             | some c => s!"fail {c}@0"
             | none => joinSp (["ok", "grl"] ++ (if ob.st.graph.any (fun p => p.2.length ≥ 1) then ["grl_imports", "nontrivial"] else [])))
          | _ => "bad-input"
      else if o = "-" then (if ops.isEmpty then "ok" else "fail length@0")
      else match (o.splitOn ";").mapM (parseStep U R T) with
        | some steps =>
          -- in full mode the observation before the first operation is that of a fresh manager
          let start : Option Obs := if mode = .full then some (obsOf U R T init) else none
          oracleRun U 0 { prev := start } ops steps
        | none => "bad-input"
    | none => "bad-input"
  | _ => "bad-input"

def main (args : List String) : IO Unit :=
  match args with
  | ["model"] => mapLines modelLine
  | ["oracle"] => mapLines oracleLine
  | _ => IO.eprintln "usage: drv_c18 model|oracle"
