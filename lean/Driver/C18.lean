import RreModel.Proto
import RreModel.C18.Spec
import RreModel.C18.Extra
/-
Driver for C18 (format: see harness/src/bin/c18.rs).
  case := [L|G] op op ...     ops: c:M d:M x:M:all|none|s[,K~pat]* r:M:rule t:M:tmpl i:TO:FROM:TY:pat[:re]
  obs  := step;step;...       step := res[/snapshot]
  snapshot := g[!key>t1,t2]* (/name!exists!rules!templates!exports!imports!vis!tvis!listing)*
  drv_c18 model  : case        ↦ obs predicted by the model
  drv_c18 oracle : case | obs  ↦ `ok <tags>` / `fail <clause>@<step>` (Spec.runOk clauses on the observations)
`L` = snapshots only after the last two operations (exhaustive cases; all prefixes are cases too);
`G` = the operations are performed by the GRL `defmodule` front-end, only the final state is shown.
-/
open Proto C18

inductive Mode where
  | full | tail | grl
deriving DecidableEq

def sortStrs (l : List String) : List String := (l.mergeSort (fun a b => decide (a ≤ b))).eraseDups

def listOrDash (l : List String) : String := if l.isEmpty then "-" else ",".intercalate l
def parseList (s : String) : List String := if s = "-" then [] else s.splitOn ","

def parseTy (s : String) : Option ImportType :=
  if s = "AR" then some .allRules else if s = "AT" then some .allTemplates else if s = "R" then some .rules
  else if s = "T" then some .templates else if s = "A" then some .all else none
def showTy : ImportType → String
  | .allRules => "AR" | .allTemplates => "AT" | .rules => "R" | .templates => "T" | .all => "A"

def parseItem (s : String) : Option ExportItem :=
  match s.splitOn "~" with
  | [k, p] =>
    (if k = "R" then some ItemType.rule else if k = "T" then some .template else if k = "F" then some .fact
     else if k = "A" then some .all else none).map (fun t => ⟨t, p⟩)
  | _ => none
def showItem (it : ExportItem) : String :=
  (match it.ty with | .rule => "R" | .template => "T" | .fact => "F" | .all => "A") ++ "~" ++ it.pattern

def parseExports (s : String) : Option ExportList :=
  if s = "all" then some .all else if s = "none" then some .none
  else match s.splitOn "," with
    | "s" :: items => (items.mapM parseItem).map .specific
    | _ => none
def showExports : ExportList → String
  | .all => "all" | .none => "none"
  | .specific items => ",".intercalate ("s" :: items.map showItem)

def parseRe (s : String) : Option (Option ReExport) :=
  if s = "n" then some none
  else match s.toList with
    | '+' :: rest => some (some ⟨if rest.isEmpty then [] else (String.ofList rest).splitOn "^", true⟩)
    | '-' :: rest => some (some ⟨if rest.isEmpty then [] else (String.ofList rest).splitOn "^", false⟩)
    | _ => none
def showRe : Option ReExport → String
  | none => "n"
  | some re => (if re.transitive then "+" else "-") ++ "^".intercalate re.patterns

def parseOp (tok : String) : Option Op :=
  match tok.splitOn ":" with
  | ["c", m] => some (.create m)
  | ["d", m] => some (.delete m)
  | ["x", m, e] => (parseExports e).map (.setExports m)
  | ["r", m, r] => some (.addRule m r)
  | ["t", m, t] => some (.addTemplate m t)
  | ["i", a, b, ty, p] => (parseTy ty).map (fun ty => .importFrom a b ty p none)
  | ["i", a, b, ty, p, re] => do
    let ty ← parseTy ty
    let re ← parseRe re
    if re.isNone then none else pure (.importFrom a b ty p re)
  | _ => none

def parseCase (line : String) : Option (Mode × List Op) :=
  match tokens line with
  | "L" :: rest => (rest.mapM parseOp).map (fun ops => (.tail, ops))
  | "G" :: rest => (rest.mapM parseOp).map (fun ops => (.grl, ops))
  | rest => (rest.mapM parseOp).map (fun ops => (.full, ops))

/-- the names every snapshot asks about (same rule as the harness) -/
def caseNames (ops : List Op) : List String × List String × List String :=
  let ms := ops.flatMap fun
    | .create m | .delete m | .setExports m _ | .addRule m _ | .addTemplate m _ => [m]
    | .importFrom a b _ _ _ => [a, b]
  let rs := ops.flatMap fun | .addRule _ r => [r] | _ => []
  let ts := ops.flatMap fun | .addTemplate _ t => [t] | _ => []
  (sortStrs ("MAIN" :: ms), sortStrs ("zz" :: rs), sortStrs ("zt" :: ts))

def showRes : Res → String
  | .ok => "ok"
  | .err .alreadyExists => "e:exists"
  | .err .notFound => "e:notfound"
  | .err .defaultModule => "e:default"
  | .err .sourceNotFound => "e:source"
  | .err .cycle => "e:cycle"
def parseRes (s : String) : Option Res :=
  if s = "ok" then some .ok else if s = "e:exists" then some (.err .alreadyExists)
  else if s = "e:notfound" then some (.err .notFound) else if s = "e:default" then some (.err .defaultModule)
  else if s = "e:source" then some (.err .sourceNotFound) else if s = "e:cycle" then some (.err .cycle) else none

def triChar : Option Bool → Char
  | some true => 'T' | some false => 'F' | none => 'E'
def charTri (c : Char) : Option (Option Bool) :=
  if c = 'T' then some (some true) else if c = 'F' then some (some false) else if c = 'E' then some none else none

def showImport (d : ImportDecl) : String := s!"{d.src}~{showTy d.ty}~{d.pattern}~{showRe d.reExport}"
def parseImport (s : String) : Option ImportDecl :=
  match s.splitOn "~" with
  | [a, ty, p, re] => do
    let ty ← parseTy ty
    let re ← parseRe re
    pure ⟨a, ty, p, re⟩
  | _ => none

def showVal : Option Validation → String
  | none => "E"
  | some v =>
    if v.valid && v.errors == 0 && v.unused < 10 && v.reexp < 10 then s!"{v.unused}{v.reexp}{if v.empty then 1 else 0}"
    else s!"{if v.valid then 1 else 0}.{v.errors}.{v.unused}.{v.reexp}.{if v.empty then 1 else 0}"
def parseVal (s : String) : Option (Option Validation) :=
  if s = "E" then some none else
  match s.splitOn "." with
  | [a, b, c, d, e] => do
    pure (some { valid := a = "1", errors := ← b.toNat?, unused := ← c.toNat?, reexp := ← d.toNat?, empty := e = "1" })
  | [t] =>
    match t.toList with
    | [c, d, e] => do
      pure (some { valid := true, errors := 0, unused := ← (String.singleton c).toNat?, reexp := ← (String.singleton d).toNat?, empty := e = '1' })
    | _ => none
  | _ => none

/-- extra := mods!dbg!stats!vall(/name!deps!val)*  — the three flags are `=` iff get_import_graph_debug, get_stats and
validate_all_modules show what get_import_graph / get_module / validate_module show in the SAME snapshot -/
def showExtra (U : List String) (s : Mgr) : String :=
  let e := extraOf U s
  let bits := String.ofList (U.map fun n => if n ∈ e.mods then '1' else '0')
  let other := sortStrs (e.mods.filter fun n => !(n ∈ U))
  bits ++ (if other.isEmpty then "" else s!"!===!{listOrDash other}!{e.mods.length}")
    ++ String.join ((e.deps.zip e.vals).map fun (d, v) =>
    let ds := match d.2 with | some l => listOrDash (sortStrs l) | none => "E"
    if ds = "-" && v.2.isNone then "/" else s!"/{ds}!{showVal v.2}")

/-- `none` = unparsable; the flags are returned separately -/
def parseExtra (U : List String) (s : String) : Option (Extra × List String) :=
  match s.splitOn "/" with
  | hd :: blocks =>
    let hdr := hd.splitOn "!"
    match hdr with
    | bits :: fm => do
      let (flags, more) := match fm with | f :: m => (f, m) | [] => ("===", [])
      let bs ← blocks.mapM fun b =>
        match b.splitOn "!" with
        | [d, v] => do pure ((if d = "E" then none else some (parseList d)), ← parseVal v)
        | [""] => some (some [], none)
        | _ => none
      if bs.length ≠ U.length || bits.length ≠ U.length then none else
      let (f1, f2, f3) ← match flags.toList with | [a, b, c] => some (a, b, c) | _ => none
      -- names listed by list_modules outside the case's names / a listing longer than its set of names
      let (other, total) ← match more with
        | [] => some ([], none)
        | [o, n] => n.toNat?.map fun n => (parseList o, some n)
        | _ => none
      let mods := ((U.zip bits.toList).filterMap fun (n, c) => if c = '1' then some n else none) ++ other
      let mods := match total with | some n => mods ++ List.replicate (n - mods.length) "?" | none => mods
      pure ({ mods := mods, deps := (U.zip bs).map (fun (n, b) => (n, b.1)), vals := (U.zip bs).map (fun (n, b) => (n, b.2)) },
            (if f1 = '=' then [] else ["import_graph_debug_twin"]) ++ (if f2 = '=' then [] else ["get_stats_twin"])
              ++ (if f3 = '=' then [] else ["validate_all_twin"]))
    | _ => none
  | _ => none

/-- the model's snapshot, printed exactly like the harness prints the implementation's -/
def showSnap (U R T : List String) (s : Mgr) (withExtra : Bool := true) : String :=
  let keys := sortStrs (s.graph.map (·.1))
  let g := "g" ++ String.join (keys.map fun k => s!"!{k}>{",".intercalate (sortStrs (succs s.graph k))}")
  let blocks := U.map fun name =>
    let vis := String.ofList (R.map fun r => triChar (toOpt (isVisible .rule s r name)))
    let tvis := String.ofList (T.map fun t => triChar (toOpt (isVisible .template s t name)))
    let listing := match getVisibleRules s name with
      | .ok l => listOrDash (sortStrs l)
      | .error _ => "E"
    match aget name s.modules with
    | some m =>
      s!"/{name}!1!{listOrDash (sortStrs m.rules)}!{listOrDash (sortStrs m.templates)}!{showExports m.exports}!{listOrDash (m.imports.map showImport)}!{vis}!{tvis}!{listing}"
    | none => s!"/{name}!0!-!-!-!-!{vis}!{tvis}!{listing}"
  g ++ String.join blocks ++ (if withExtra then "#" ++ showExtra U s else "")

def modelFull (U R T : List String) (tailOnly : Bool) (ops : List Op) : String :=
  let n := ops.length
  let rec go (i : Nat) (s : Mgr) : List Op → List String
    | [] => []
    | op :: rest =>
      let (s', r) := step s op
      (if tailOnly && i + 2 < n then showRes r else showRes r ++ "/" ++ showSnap U R T s' (!tailOnly || i + 1 == n)) :: go (i + 1) s' rest
  let steps := go 0 init ops
  if steps.isEmpty then "-" else ";".intercalate steps

/-- the GRL front-end: `create_module` errors are ignored, the first refused import aborts the parse -/
def modelGrl (U R T : List String) (ops : List Op) : String :=
  let rec go (s : Mgr) : List Op → String
    | [] => "ok/" ++ showSnap U R T s
    | op :: rest =>
      let (s', r) := step s op
      match op, r with
      | .importFrom .., .err e => showRes (.err e)
      | _, _ => go s' rest
  go init ops

def modelLine (line : String) : String :=
  match parseCase line with
  | some (mode, ops) =>
    let (U, R, T) := caseNames ops
    match mode with
    | .full => modelFull U R T false ops
    | .tail => modelFull U R T true ops
    | .grl => modelGrl U R T ops
  | none => "bad-case"

/-! oracle side: rebuild an `Obs` from the implementation's snapshot -/

def parseGraph (s : String) : Option Graph :=
  match s.splitOn "!" with
  | "g" :: entries => entries.mapM fun e =>
      match e.splitOn ">" with
      | [k, v] => some (k, if v = "" then [] else v.splitOn ",")
      | _ => none
  | _ => none

structure Block where
  name : String
  mod? : Option Module
  vis : List (Option Bool)
  tvis : List (Option Bool)
  listing : Option (List String)

def parseBlock (s : String) : Option Block :=
  match s.splitOn "!" with
  | [name, ex, rules, tmpls, exports, imports, vis, tvis, listing] => do
    let vis ← vis.toList.mapM charTri
    let tvis ← tvis.toList.mapM charTri
    let listing := if listing = "E" then none else some (parseList listing)
    if ex = "1" then
      let e ← parseExports exports
      let imps ← (parseList imports).mapM parseImport
      pure ⟨name, some { rules := parseList rules, templates := parseList tmpls, exports := e, imports := imps }, vis, tvis, listing⟩
    else if ex = "0" then pure ⟨name, none, vis, tvis, listing⟩
    else none
  | _ => none

def parseSnap (U R T : List String) (s : String) : Option Obs :=
  match s.splitOn "/" with
  | g :: blocks => do
    let g ← parseGraph g
    let bs ← blocks.mapM parseBlock
    if bs.map (·.name) ≠ U then none
    else if bs.any (fun b => b.vis.length ≠ R.length || b.tvis.length ≠ T.length) then none
    else
      let o : Obs :=
        { st := { modules := bs.filterMap (fun b => b.mod?.map (fun m => (b.name, m))), graph := g }
          vis := bs.flatMap (fun b => (R.zip b.vis).map (fun (r, v) => ((r, b.name), v)))
          tvis := bs.flatMap (fun b => (T.zip b.tvis).map (fun (t, v) => ((t, b.name), v)))
          listing := bs.map (fun b => (b.name, b.listing)) }
      some o
  | _ => none

def parseStep (U R T : List String) (s : String) : Option (Res × Option (Obs × Option (Extra × List String))) :=
  match s.splitOn "#" with
  | [s] =>
    match s.splitOn "/" with
    | [r] => (parseRes r).map (fun r => (r, none))
    | r :: rest => do
      let r ← parseRes r
      let o ← parseSnap U R T ("/".intercalate rest)
      pure (r, some (o, none))
    | _ => none
  | [s, x] =>
    match s.splitOn "/" with
    | r :: rest => do
      let r ← parseRes r
      let o ← parseSnap U R T ("/".intercalate rest)
      let ef ← parseExtra U x
      pure (r, some (o, some ef))
    | _ => none
  | _ => none

/-- name of the first violated clause of `snapOk` -/
def snapClause (U : List String) (o : Obs) : Option String :=
  if !graphAgreesB o.st U then some "graph_agrees_with_decls"
  else if !noDanglingB o.st U then some "decl_names_missing_module"
  else if !acyclicB o.st U then some "acyclic"
  else if !(o.vis.all fun q => existsB o.st q.1.2 == q.2.isSome) ||
          !(o.tvis.all fun q => existsB o.st q.1.2 == q.2.isSome) ||
          !(o.listing.all fun q => existsB o.st q.1 == q.2.isSome) then some "visibility_total"
  else if !(o.vis.all fun q => q.2 == specVisible .rule o.st q.1.1 q.1.2) then some "rule_visible_iff"
  else if !(o.tvis.all fun q => q.2 == specVisible .template o.st q.1.1 q.1.2) then some "template_visible_iff"
  else if !snapOk U o then some "get_visible_eq_filter"
  else none

def stepClause (o : Obs) (op : Op) (r : Res) (o' : Obs) : Option String :=
  if stepOk o op r o' then none
  else match op with
    | .importFrom to src _ _ _ =>
      if r != expectedImport o.st to src then
        some (if expectedImport o.st to src == .err .cycle then "cycle_import_not_refused" else "import_answer")
      else some "refused_changes_state"
    | _ => some "refused_changes_state"

structure OAcc where
  prev : Option Obs
  prevX : Option Extra := none
  tags : List String := []

def addTag (a : OAcc) (t : String) : OAcc := if t ∈ a.tags then a else { a with tags := a.tags ++ [t] }

def importedVisible (o : Obs) : Bool :=
  o.vis.any fun q => q.2 == some true &&
    (match aget q.1.2 o.st.modules with | some m => !(q.1.1 ∈ m.rules) | none => false)

/-- clauses over the extra observations: twins, `extraOk`, and a refused operation changes none of them -/
def extraFail (U : List String) (a : OAcc) (r : Res) (o' : Obs) (e : Extra) (flags : List String) : Option String :=
  match flags with
  | f :: _ => some f
  | [] =>
    match (if extraOk U o'.st e then none else (extraClause U o'.st e).orElse (fun _ => some "extra")) with
    | some c => some c
    | none =>
      match a.prevX with
      | some x => if r != .ok && x != e then some "refused_changes_queries" else none
      | none => none

def oracleRun (U : List String) : Nat → OAcc → List Op → List (Res × Option (Obs × Option (Extra × List String))) → String
  | _, a, [], [] => joinSp ("ok" :: a.tags)
  | i, a, op :: ops, (r, o'?) :: rest =>
    let a := match op, r with
      | .importFrom to src .., .err .cycle => addTag (addTag a "refused_cycle") (if to = src then "self_import" else "path_cycle")
      | .importFrom _ _ _ _ re, .ok => addTag (addTag a "import_ok") (if re.isSome then "reexport_decl" else "plain_decl")
      | .importFrom .., .err _ => addTag a "import_missing_module"
      | .delete _, .ok => addTag a "delete_ok"
      | .create _, .ok => if "delete_ok" ∈ a.tags then addTag a "create_after_delete" else a
      | _, _ => a
    match o'? with
    | none => oracleRun U (i + 1) { a with prev := none, prevX := none } ops rest
    | some (o', exf) =>
      let ex : Extra := match exf with | some (e, _) => e | none => { mods := [], deps := [], vals := [] }
      match (snapClause U o').orElse (fun _ => match exf with | some (e, flags) => extraFail U a r o' e flags | none => none) with
      | some c => s!"fail {c}@{i}"
      | none =>
        let bad := match a.prev with
          | some o => stepClause o op r o'
          | none => none
        match bad with
        | some c => s!"fail {c}@{i}"
        | none =>
          let a := if importedVisible o' then addTag a "imported_visible" else a
          let a := match op, r, a.prev with
            | .delete n, .ok, some o => if o.st.modules.any (fun p => p.2.imports.any (fun d => d.src = n)) then addTag a "delete_imported" else a
            | _, _, _ => a
          let a := if o'.st.graph.any (fun p => p.2.length ≥ 1) && ("import_ok" ∈ a.tags) &&
                      (("refused_cycle" ∈ a.tags) || ("delete_imported" ∈ a.tags) || ("imported_visible" ∈ a.tags))
                   then addTag a "nontrivial" else a
          let a := if ex.deps.any (fun q => match q.2 with | some l => l.length ≥ 2 | none => false) then addTag a "deps_transitive" else a
          let a := if ex.vals.any (fun q => match q.2 with | some v => v.unused + v.reexp ≥ 1 | none => false) then addTag a "validate_warns" else a
          oracleRun U (i + 1) { a with prev := some o', prevX := exf.map (·.1) } ops rest
  | i, _, _, _ => s!"fail length@{i}"

def oracleLine (line : String) : String :=
  match line.splitOn " | " with
  | [c, o] =>
    match parseCase c with
    | some (mode, ops) =>
      let (U, R, T) := caseNames ops
      let o := o.trimAscii.toString
      if mode = .grl then
        if o.startsWith "e:" then (if (parseRes o).isSome then s!"ok grl grl_refused" else "fail grl_parse_error@0")
        else match parseStep U R T o with
          | some (.ok, some (ob, some (ex, flags))) =>
            -- the front-end must have declared exactly the imports written in the text, in order
            let declsOk := ob.st.modules.all fun p =>
              p.2.imports == ops.filterMap fun
                | .importFrom to src ty pat re => if to = p.1 then some ⟨src, ty, pat, re⟩ else none
                | _ => none
            -- ... and assigned every rule of the text to the module named by its `;; MODULE:` comment (if it exists)
            let rulesOk := ob.st.modules.all fun p =>
              sameSet p.2.rules (ops.filterMap fun
                | .addRule m r => if m = p.1 then some r else none
                | _ => none)
            if !declsOk then "fail grl_declarations@0"
            else if !rulesOk then "fail grl_rule_assignment@0" else
            (match (snapClause U ob).orElse (fun _ => extraFail U { prev := none } .ok ob ex flags) with
             | some c => s!"fail {c}@0"
             | none => joinSp (["ok", "grl"] ++ (if ob.st.graph.any (fun p => p.2.length ≥ 1) then ["grl_imports", "nontrivial"] else [])))
          | _ => "bad-input"
      else if o = "-" then (if ops.isEmpty then "ok" else "fail length@0")
      else match (o.splitOn ";").mapM (parseStep U R T) with
        | some steps =>
          -- in full mode the observation before the first operation is that of a fresh manager
          let start : Option Obs := if mode = .full then some (obsOf U R T init) else none
          oracleRun U 0 { prev := start, prevX := if mode = .full then some (extraOf U init) else none } ops steps
        | none => "bad-input"
    | none => "bad-input"
  | _ => "bad-input"

def main (args : List String) : IO Unit :=
  match args with
  | ["model"] => mapLines modelLine
  | ["oracle"] => mapLines oracleLine
  | _ => IO.eprintln "usage: drv_c18 model|oracle"
