import RreModel.Proto
import RreModel.C06.Spec
import RreModel.C06.Ext
/-
Driver for C06 (formats: see harness/src/bin/c06.rs).
  drv_c06 model   : case        ↦ observation predicted by the model
  drv_c06 oracle  : case | obs  ↦ `ok <tags>` / `fail <clause>@<step>`  (C06.orun, then the clause `action_write_lost`
                    = C06.writeBackBad, then C06.orunG on the loader engine)
-/
open Proto C06

def parseVal (s : String) : Option Val :=
  if s.startsWith "i" then (s.drop 1).toString.toInt?.map .int
  else if s.startsWith "b" then some (.bool ((s.drop 1).toString == "1"))
  else if s.startsWith "s" then (s.drop 1).toString.toNat?.map .str
  else if s.startsWith "h" then (s.drop 1).toString.toInt?.map .flt     -- h<2·x>: the float x (an exact half-integer)
  else if s = "n" then some .null
  else if s.startsWith "q" then (s.drop 1).toString.toNat?.map (fun k => Val.str (5000 + k))   -- q<k>: C06.oddStrings[k]
  else if s.startsWith "w" then                                           -- w<letters a..c>: the string <letters>
    ((s.drop 1).toString.toList.foldlM (fun (n : Nat) c =>
      if c = 'a' then some (4 * n + 1) else if c = 'b' then some (4 * n + 2) else if c = 'c' then some (4 * n + 3) else none) 0).map
      (fun n => Val.str (10000 + n))
  else none

def showVal : Val → String
  | .int i => s!"i{i}"
  | .bool b => if b then "b1" else "b0"
  | .str s => if s ≥ 10000 then "w" ++ String.ofList (strChars s) else if s ≥ 5000 then s!"q{s - 5000}" else s!"s{s}"
  | .flt t => s!"h{t}"
  | .null => "n"

def parseCmp (s : String) : Option Cmp :=
  match s with
  | "eq" => some .eq | "ne" => some .ne | "lt" => some .lt | "le" => some .le | "gt" => some .gt | "ge" => some .ge
  | "ct" => some .contains | "sw" => some .startsWith | "ew" => some .endsWith | "in" => some .isIn
  | _ => none

/-! arithmetic: atom := `n<twice>` | `f<ty>_<field>` | `w<letters a..c>`; expr := atom (<p|m|t|d|r> atom)*  (plus, minus, times,
divide, remainder) -/
def parseAtomChars (cs : List Char) : Option (Atom × List Char) :=
  match cs with
  | 'n' :: r =>
    let ds := r.takeWhile Char.isDigit
    (String.ofList ds).toNat?.map (fun n => (Atom.num n, r.dropWhile Char.isDigit))
  | 'f' :: r =>
    let ds := r.takeWhile Char.isDigit
    match r.dropWhile Char.isDigit with
    | '_' :: r2 =>
      let es := r2.takeWhile Char.isDigit
      do pure (Atom.fld (← (String.ofList ds).toNat?) (← (String.ofList es).toNat?), r2.dropWhile Char.isDigit)
    | _ => none
  | 'w' :: r =>
    let isL := fun (c : Char) => c == 'a' || c == 'b' || c == 'c'
    let ls := r.takeWhile isL
    if ls.isEmpty then none else
      some (Atom.word (10000 + ls.foldl (fun n c => 4 * n + (c.toNat - 96)) 0), r.dropWhile isL)
  | _ => none

def parseAOp (c : Char) : Option AOp :=
  if c == 'p' then some .add else if c == 'm' then some .sub else if c == 't' then some .mul
  else if c == 'd' then some .div else if c == 'r' then some .mod else none

def parseTail : Nat → List Char → Option (List (AOp × Atom))
  | _, [] => some []
  | 0, _ => none
  | n + 1, c :: r => do
    let o ← parseAOp c
    let (a, r2) ← parseAtomChars r
    pure ((o, a) :: (← parseTail n r2))

def parseExpr (s : String) : Option Expr := do
  let (a, r) ← parseAtomChars s.toList
  pure { head := a, tail := (← parseTail s.length r) }

def parseAtom (s : String) : Option Atom :=
  match parseAtomChars s.toList with
  | some (a, []) => some a
  | _ => none

def parseAlpha (s : String) : Option Node :=
  match s.splitOn "." with
  | ["X", e, op, rhs] => do pure (.test (← parseExpr e) (← parseCmp op) (← parseAtom rhs))
  | ["A", ty, f, op, rhs] => do
    let ty ← ty.toNat?
    let f ← f.toNat?
    let op ← parseCmp op
    let rhs ← (if rhs.startsWith "v" then
        match (rhs.drop 1).toString.splitOn "_" with
        | [t, g] => do pure (Rhs.var (← t.toNat?) (← g.toNat?))
        | _ => none
      else if rhs.startsWith "[" then                                     -- [v|v|…]: array literal
        let inner := ((rhs.drop 1).toString.dropEnd 1).toString
        if inner = "" then some (Rhs.arr []) else ((inner.splitOn "|").mapM parseVal).map Rhs.arr
      else (parseVal rhs).map (fun v => Rhs.lit (classifyLit v)))        -- the node carries TEXT: `parse_value_string` decides the type
    pure (.alpha ty f op rhs)
  | _ => none

/-- recursive descent with fuel (the input length) -/
def parseNodeAux : Nat → List Char → Option (Node × List Char)
  | 0, _ => none
  | n + 1, cs =>
    match cs with
    | '&' :: '(' :: r => do
      let (l, r) ← parseNodeAux n r
      match r with
      | ',' :: r => do
        let (x, r) ← parseNodeAux n r
        match r with
        | ')' :: r => pure (.and l x, r)
        | _ => none
      | _ => none
    | '+' :: '(' :: r => do
      let (l, r) ← parseNodeAux n r
      match r with
      | ',' :: r => do
        let (x, r) ← parseNodeAux n r
        match r with
        | ')' :: r => pure (.or l x, r)
        | _ => none
      | _ => none
    | '!' :: '(' :: r => do
      let (x, r) ← parseNodeAux n r
      match r with
      | ')' :: r => pure (.not x, r)
      | _ => none
    | _ =>
      let tok := cs.takeWhile (fun c => c != ',' && c != ')')
      let rest := cs.dropWhile (fun c => c != ',' && c != ')')
      (parseAlpha (String.ofList tok)).map (·, rest)

def parseNode (s : String) : Option Node :=
  match parseNodeAux (s.length + 1) s.toList with
  | some (n, []) => some n
  | _ => none

def parseAction (s : String) : Option Action :=
  if s = "-" then some {} else
    (s.splitOn ";").foldlM (fun (a : Action) t =>
      if t = "R" then some { a with retract := true }
      else if t.contains '@' then
        match t.splitOn "@" with
        | [f, e] => do pure { a with xsets := a.xsets ++ [((← f.toNat?), (← parseExpr e), 0)] }
        | _ => none
      else match t.splitOn "=" with
        | [f, v] => do if a.xsets.isEmpty then pure { a with sets := a.sets ++ [((← f.toNat?), (← parseVal v))] } else none
        | _ => none) {}

/-- the string identifier of an expression's text: 900 + its position among the distinct expressions of the case (the harness
prints the text `evaluate_expression_for_rete` falls back to under the same number) -/
def assignSids (rules : List Rule) : List Rule :=
  let all := rules.flatMap (fun r => r.action.xsets.map (·.2.1))
  let distinct := all.foldl (fun acc e => if acc.contains e then acc else acc ++ [e]) []
  rules.map (fun r => { r with action := { r.action with
    xsets := r.action.xsets.map (fun (f, e, _) => (f, e,
      -- the text of a bare field reference `T<t>.f<k>` is the string a dangling variable reference degrades to (`danglingVar`)
      match e.head, e.tail with
      | .fld t k, [] => 1000 + 100 * t + k
      | _, _ => 900 + (distinct.idxOf e))) } })

def parseRule (i : Nat) (s : String) : Option Rule :=
  match s.splitOn ":" with
  | [ty, prio, nl, node, act] => do
    -- no-loop flag `1v` / `0v`: the harness builds the alpha nodes of this rule with `AlphaNode::with_typed_value` (the literal
    -- goes through `FactValue::as_string`: an integral float prints without fraction and comes back as an integer — `typedNode`)
    let node ← parseNode node
    pure { name := i, ty := (← ty.toNat?), node := (if nl.endsWith "v" then typedNode node else node), prio := (← prio.toInt?),
           noLoop := nl.startsWith "1", action := (← parseAction act) }
  | _ => none

def parseRules : Nat → List String → Option (List Rule)
  | _, [] => some []
  | i, s :: ss => do pure ((← parseRule i s) :: (← parseRules (i + 1) ss))

def parseData (s : String) : Option Data :=
  if s = "-" then some [] else
    (s.splitOn ",").foldlM (fun (d : Data) kv => match kv.splitOn "=" with
      | [f, v] => do pure (Data.set d (← f.toNat?) (← parseVal v))
      | _ => none) []

def parseOp (s : String) : Option Op :=
  if s = "F" then some .fire
  else if s = "Z" then some .reset
  else if s.startsWith "X" then (s.drop 1).toString.toNat?.map .retract
  else if s.startsWith "I" then
    match (s.drop 1).toString.splitOn ":" with
    | [ty, d] => do pure (.insert (← ty.toNat?) (← parseData d))
    | _ => none
  else if s.startsWith "U" then
    match (s.drop 1).toString.splitOn ":" with
    | [h, d] => do pure (.update (← h.toNat?) (← parseData d))
    | _ => none
  else none

def parseXOp (s : String) : Option XOp :=
  if s = "D" then some .loadDeffacts
  else if s = "W" then some .resetDeffacts
  else if s.startsWith "N" then (s.drop 1).toString.toNat?.map .loadByName
  else if s.startsWith "S" then (s.drop 1).toString.toNat?.map .strategy
  else if s.startsWith "E" then
    match (s.drop 1).toString.splitOn ":" with
    | [ty, d] => do pure (.insertExplicit (← ty.toNat?) (← parseData d))
    | _ => none
  else if s.startsWith "T" then
    match (s.drop 1).toString.splitOn ":" with
    | [ty, d] => do pure (.insertTemplate (← ty.toNat?) (← parseData d))
    | _ => none
  else (parseOp s).map .base

def parseCase (line : String) : Option (List Rule × List XOp) :=
  match tokens line with
  | rs :: ops => do pure (assignSids (← parseRules 0 (rs.splitOn "/")), (← ops.mapM parseXOp))
  | [] => none

def showData (d : Data) : String :=
  if d.isEmpty then "-" else ",".intercalate (d.map fun (f, v) => s!"{f}={showVal v}")

def showFiring (f : Firing) : String := s!"{f.rule}@{f.handle}@{showData f.data}"

def showRes : ORes → String
  | .handle h => s!"i{h}"
  | .ok b => if b then "1" else "0"
  | .fired names log => "F" ++ showNats names ++ String.join (log.map (fun f => "~" ++ showFiring f))
  | .unit => "z"

def showObs (op : XOp) (o : XObs) : String :=
  let res := match op, o.res with
    | .base (.update _ _), .res (.ok b) => if b then "u1" else "u0"
    | .base (.retract _), .res (.ok b) => if b then "x1" else "x0"
    | _, .res r => showRes r
    | _, .rejected => "t0"
    | _, .strat k => s!"s{k}"
    | _, .loaded ok hs => (if ok then "d1" else "d0") ++ showNats hs
  let v := o.view
  let contents := if v.contents.isEmpty then "-" else "+".intercalate (v.contents.map fun (h, ty, d) => s!"{h}:{ty}:{showData d}")
  "/".intercalate ([res, showNats v.get] ++ v.byType.map showNats ++ [showNats v.allFacts, showNats v.allHandles, contents,
    ".".intercalate (o.stats.map toString)])

/-- at most one live fact per type after every call -/
def singleLive (os : List XObs) : Bool := os.all (fun o => o.view.byType.all (fun l => l.length ≤ 1))

/-- an observation as an engine without recorder shows it -/
def stripLog (o : XObs) : XObs :=
  match o.res with
  | .res (.fired names _) => { o with res := .res (.fired names []) }
  | _ => o

/-- the loader part of the observation line: `G=` when the GRL-loaded engine shows, token for token, what the directly built
engine shows without its recorder log -/
def showLoader (ops : List XOp) (os1 os2 : List XObs) : List String :=
  let t1 := (ops.zip (os1.map stripLog)).map fun (op, o) => showObs op o
  let t2 := (ops.zip (os2.map stripLog)).map fun (op, o) => showObs op o
  if t1 == t2 then ["G="] else "G" :: (if t2.isEmpty then ["-"] else t2)

def modelLine (line : String) : String :=
  match parseCase line with
  | some (rules, ops) =>
    let os := xtrace { rules := rules } ops
    let d1 := singleLive os
    -- complete observations are compared on D1 histories only (props/c06.py `agree`): on the others the loader engine is not
    -- predicted (`G~`; saves the second run of the model on the long multi-fact histories) — the oracle is evaluated on it always
    let g := if !d1 then ["G~"]
      else showLoader ops os (if rules.map loaderRule == rules then os else xtrace { rules := rules.map loaderRule } ops)
    joinSp ((if d1 then "D1" else "D0") :: (if os.isEmpty then ["-"] else (ops.zip os).map fun (op, o) => showObs op o) ++ g)
  | none => "bad-case"

def parseFiring (s : String) : Option Firing :=
  match s.splitOn "@" with
  | [r, h, d] => do pure { rule := (← r.toNat?), handle := (← h.toNat?), data := (← parseData d) }
  | _ => none

def parseContents (s : String) : Option (List (Nat × Nat × Data)) :=
  if s = "-" then some [] else
    (s.splitOn "+").mapM (fun t => match t.splitOn ":" with
      | [h, ty, d] => do pure ((← h.toNat?), (← ty.toNat?), (← parseData d))
      | _ => none)

def parseObs (s : String) : Option XObs :=
  match s.splitOn "/" with
  | [res, g, t0, t1, t2, a, h, c, st] => do
    let view : View := { get := (← parseNats? g), byType := [(← parseNats? t0), (← parseNats? t1), (← parseNats? t2)],
                         allFacts := (← parseNats? a), allHandles := (← parseNats? h), contents := (← parseContents c) }
    let r ← (if res = "z" then some (XORes.res .unit)
      else if res = "u1" || res = "x1" then some (.res (.ok true))
      else if res = "u0" || res = "x0" then some (.res (.ok false))
      else if res = "t0" then some .rejected
      else if res.startsWith "s" then (res.drop 1).toString.toNat?.map .strat
      else if res.startsWith "d1" then (parseNats? (res.drop 2).toString).map (.loaded true)
      else if res.startsWith "d0" then (parseNats? (res.drop 2).toString).map (.loaded false)
      else if res.startsWith "i" then (res.drop 1).toString.toNat?.map (fun h => .res (.handle h))
      else if res.startsWith "F" then
        match (res.drop 1).toString.splitOn "~" with
        | names :: log => do pure (.res (.fired (← parseNats? names) (← log.mapM parseFiring)))
        | [] => none
      else none)
    pure { res := r, view := view, stats := (← (st.splitOn ".").mapM (·.toNat?)) }
  | _ => none

def clauseOf (rules : List Rule) (r : Ref) (op : Op) (o : Obs) : String :=
  match op, o.res with
  | .insert ty d, .handle h =>
    let live := r.live ++ [(h, ty, canonData d)]
    if h != r.nextId then "handles_fresh" else if !viewsOk live o.view then "wm_views_agree" else "contents"
  | .update h d, .ok b =>
    let live := if b then setData h (canonData d) r.live else r.live
    if b != r.has h then "update_result" else if !viewsOk live o.view then "wm_views_agree" else "contents"
  | .retract h, .ok b =>
    let live := if b then r.live.filter (·.1 != h) else r.live
    if b != r.has h then "retract_result" else if !viewsOk live o.view then "wm_views_agree" else "contents"
  | .reset, .unit => if !viewsOk r.live o.view then "wm_views_agree" else "contents"
  | .fire, .fired names log =>
    if names != log.map (·.rule) then "fire_all_return_vs_log" else
    match firingsOk rules r.live r.firedSince log with
    | none => firingsBad rules r.live r.firedSince log
    | some (L, _) =>
      if !viewsOk L o.view then "wm_views_agree"
      else if !exactOk rules r names then "quiescent_fire_all_exact"
      else if !exactAfterOk rules r names then "quiescent_fire_all_exact_after_firing"
      else if !exactTypeOk rules r names then "quiescent_fire_all_exact_by_type"
      else "contents_after_fire"
  | _, _ => "shape"

/-- which clause of an extended step fails (`base` names the clause of a base step) -/
def xclauseOf (base : List Rule → Ref → Op → Obs → String) (rules : List Rule) (r : Ref) (x : XOp) (o : XObs) : String :=
  match x, o.res with
  | .base op, .res r0 => base rules r op { res := r0, view := o.view }
  | .insertExplicit ty d, .res r0 => "insert_explicit:" ++ base rules r (.insert ty d) { res := r0, view := o.view }
  | .insertTemplate ty d, .res r0 =>
    if templateOk ty d then "insert_with_template:" ++ base rules r (.insert ty d) { res := r0, view := o.view } else "template_not_checked"
  | .insertTemplate ty d, .rejected => if templateOk ty d then "template_rejects_valid_fact" else "rejected_insert_changes_wm"
  | .strategy k, .strat k' => if k != k' then "strategy_not_set" else "strategy_changes_wm"
  | .loadDeffacts, .loaded true hs =>
    match refInserts r loadAllOps hs with | none => "load_deffacts:handles" | some _ => "load_deffacts:wm_views_agree"
  | .loadByName k, .loaded ok hs =>
    if ok != (k == 0 && (loadNamedPrefix deffacts).2) then "load_deffacts_by_name:result" else
    match refInserts r (if k == 0 then (loadNamedPrefix deffacts).1 else []) hs with
    | none => "load_deffacts_by_name:handles" | some _ => "load_deffacts_by_name:wm_views_agree"
  | .resetDeffacts, .loaded true hs =>
    match refInserts {} loadAllOps hs with | none => "reset_with_deffacts:handles" | some _ => "reset_with_deffacts:wm_views_agree"
  | _, _ => "shape"

def firstBad (rules : List Rule) : Nat → Ref → List XOp → List XObs → String
  | _, _, [], [] => "orun"
  | i, r, op :: ops, o :: os =>
    match oxstep ostep rules r op o with
    | some r' => if !statsOk rules r' o.stats then s!"stats_agree@{i}" else firstBad rules (i + 1) r' ops os
    | none => s!"{xclauseOf clauseOf rules r op o}@{i}"
  | i, _, _, _ => s!"length@{i}"

/-! ### action write-back: clause `action_write_lost`, evaluated after `orun` passed — `C06.applySets`, `C06.writesOk`,
`C06.writeBackBad` live in Spec.lean (theorems `C06.action_writes_kept`, `C06.action_writes_kept_history`) -/

def clauseOfG (rules : List Rule) (r : Ref) (op : Op) (o : Obs) : String :=
  match op, o.res with
  | .fire, .fired names [] =>
    match namesOk rules r.firedSince names with
    | none => if names.all (fun n => rules.any (·.name == n)) then "no_loop_twice" else "unknown_rule"
    | some _ =>
      let live' := o.view.contents
      if !viewsOk live' o.view then "wm_views_agree"
      else if !(live'.all (fun f => r.live.any (fun g => g.1 == f.1 && g.2.1 == f.2.1))) then "retracted_or_unknown_fact_live"
      else if !(rules.any (·.action.retract) || live'.map (·.1) == r.live.map (·.1)) then "fact_lost"
      else if !(!(rules.all (fun rule => !hasAssigns rule)) || live'.all (fun f => r.live.any (fun g => g == f))) then "contents_after_fire"
      else if !(!inertRules rules || firedSatisfied rules r.live names) then "fires_only_if_true_now"
      else if !exactOk rules r names then "quiescent_fire_all_exact"
      else if !exactAfterOk rules r names then "quiescent_fire_all_exact_after_firing"
      else if !exactTypeOk rules r names then "quiescent_fire_all_exact_by_type"
      else "?"
  | .fire, _ => "shape"
  | _, _ => clauseOf rules r op o

def firstBadG (rules : List Rule) : Nat → Ref → List XOp → List XObs → String
  | _, _, [], [] => "orunG"
  | i, r, op :: ops, o :: os =>
    match oxstep ostepG rules r op o with
    | some r' => if !statsOk rules r' o.stats then s!"loader:stats_agree@{i}" else firstBadG rules (i + 1) r' ops os
    | none => s!"loader:{xclauseOf clauseOfG rules r op o}@{i}"
  | i, _, _, _ => s!"loader:length@{i}"

/-- split the observation tokens at the loader marker: (first engine's tokens, marker, second engine's tokens) -/
def splitLoader : List String → List String × Option (String × List String)
  | [] => ([], none)
  | t :: ts =>
    if t == "G" || t == "G=" || t.startsWith "G!" then ([], some (t, ts))
    else let r := splitLoader ts; (t :: r.1, r.2)

def nodeOps : Node → List Cmp
  | .alpha _ _ op _ => [op]
  | .and l r => nodeOps l ++ nodeOps r
  | .or l r => nodeOps l ++ nodeOps r
  | .not n => nodeOps n
  | .test _ op _ => [op]

def hasTest : Node → Bool
  | .alpha _ _ _ _ => false
  | .and l r => hasTest l || hasTest r
  | .or l r => hasTest l || hasTest r
  | .not n => hasTest n
  | .test _ _ _ => true

/-- a firing of a rule with expression assignments, the matched fact the only live one of its type: are all expressions defined? -/
def exprTags (rules : List Rule) (os : List Obs) : List String :=
  let logs := os.flatMap (fun o => match o.res with | .fired _ log => log | _ => [])
  let xs := logs.filterMap (fun x => (rules.find? (·.name == x.rule)).bind (fun r => if r.action.xsets.isEmpty then none else some (r, x)))
  (if xs.isEmpty then [] else ["expr_fired"]) ++
  (if xs.any (fun (r, x) => definedOn r x.data) then ["expr_defined"] else []) ++
  (if xs.any (fun (r, x) => !definedOn r x.data) then ["expr_undefined"] else []) ++
  (if xs.any (fun (r, x) => r.action.xsets.any (fun (f, e, _) => e.head == .fld r.ty f || e.tail.any (fun p => p.2 == .fld r.ty f)) &&
      (logs.filter (fun y => y.rule == x.rule && y.handle == x.handle)).length ≥ 2) then ["self_update_refired"] else []) ++
  (if xs.any (fun (r, x) => (assignsOn r x.data).any (fun kv => match kv.2, x.data.get kv.1 with
      | .flt _, some (.int _) => true | .int _, some (.flt _) => true | _, _ => false)) then ["expr_changes_type"] else []) ++
  (if xs.any (fun (r, x) => (assignsOn r x.data).any (fun kv => match kv.2 with
      | .int i => i ≥ 2 ^ 62 || i ≤ -(2 ^ 62) | _ => false)) then ["expr_near_i64_bounds"] else [])

def tagsOf (rules : List Rule) (xops : List XOp) (xos : List XObs) (d1 : Bool) : List String :=
  let ops := xops.filterMap (fun x => match x with | .base o => some o | _ => none)
  let os := xos.filterMap XObs.toObs?
  let fired := os.foldl (fun n o => match o.res with | .fired names _ => n + names.length | _ => n) 0
  let fires := os.filter (fun o => match o.res with | .fired (_ :: _) _ => true | _ => false)
  let maxLive := xos.foldl (fun n o => max n o.view.allHandles.length) 0
  let cmps := rules.flatMap (fun r => nodeOps r.node)
  (if d1 then ["single_live"] else ["multi_live"]) ++ (if quietRules rules then ["quiet_rules"] else ["acting_rules"])
    ++ (if fired > 0 then ["fired"] else ["nothing_fired"]) ++ (if fires.length ≥ 2 then ["fired_in_2_runs"] else [])
    ++ (if ops.any (fun o => match o with | .update _ _ => true | _ => false) then ["update"] else [])
    ++ (if ops.any (fun o => match o with | .retract _ => true | _ => false) then ["retract"] else [])
    ++ (if os.any (fun o => o.res == .ok false) then ["err_result"] else [])
    ++ (if xops.any (fun x => match x with | .insertExplicit _ _ => true | _ => false) then ["insert_explicit"] else [])
    ++ (if xos.any (fun o => o.res == .rejected) then ["template_rejected"] else [])
    ++ (if (xops.zip xos).any (fun (x, o) => match x, o.res with | .insertTemplate _ _, .res _ => true | _, _ => false) then ["template_accepted"] else [])
    ++ (if xops.any (fun x => match x with | .strategy _ => true | _ => false) then ["strategy_set"] else [])
    ++ (if xops.any (fun x => match x with | .loadDeffacts => true | .loadByName _ => true | _ => false) then ["deffacts_loaded"] else [])
    ++ (if xops.any (fun x => x == .resetDeffacts) then ["reset_with_deffacts"] else [])
    ++ (if cmps.any (fun c => c == .contains || c == .startsWith || c == .endsWith) then ["string_operator"] else [])
    ++ (if cmps.any (fun c => c == .isIn) then ["in_operator"] else [])
    ++ (if rules.any (fun r => hasTest r.node) then ["test_condition"] else [])
    ++ (if rules.any (fun r => !r.action.xsets.isEmpty) then ["expr_action"] else [])
    ++ exprTags rules os
    ++ [s!"live_max_{maxLive}"]
    ++ (if fired > 0 && ops.any (fun o => match o with | .update _ _ => true | .retract _ => true | _ => false) then ["nontrivial"] else [])

def oracleLine (line : String) : String :=
  match line.splitOn " | " with
  | [c, o] =>
    match parseCase c with
    | some (rules, ops) =>
      match tokens o with
      | dTok :: obsToks =>
        -- DX: a value outside the modelled domain showed up in the run (a float that is not a multiple of 1/2, NaN, a string that
        -- is neither `s<k>`, a word over {a,b,c} nor the text of one of the case's expressions): nothing is claimed
        if dTok == "DX" then "ok out_of_domain" else
        if dTok != "D0" && dTok != "D1" then (if dTok.startsWith "panic" then "fail panic" else "fail unparsable-observation") else
        let (obsToks, loader) := splitLoader obsToks
        let obsToks := if obsToks == ["-"] then [] else obsToks
        match obsToks.mapM parseObs with
        | some os =>
          if !oxrun ostep rules {} ops os then s!"fail {firstBad rules 0 {} ops os}" else
          if let some c := xwriteBackBad rules 0 {} ops os then s!"fail {c}" else
          -- the loader path: the same rules through GRL text and the real GrlReteLoader, in a second engine
          match loader with
          | none => "fail loader:missing"
          | some (mark, toks2) =>
            if mark.startsWith "G!" then "fail loader:load_error" else
            let toks2 := if toks2 == ["-"] then [] else toks2
            match (if mark == "G=" then some (os.map stripLog) else toks2.mapM parseObs) with
            | none => "fail unparsable-observation"
            | some os2 =>
              let rules2 := rules.map loaderRule
              if !oxrun ostepG rules2 {} ops os2 then s!"fail {firstBadG rules2 0 {} ops os2}"
              else if quietRules rules && rules2 == rules && os.length == os2.length &&
                  !sameFired (os.filterMap XObs.toObs?) (os2.filterMap XObs.toObs?) then "fail loader:fired_sets_differ"
              else joinSp ("ok" :: tagsOf rules ops os (dTok == "D1")
                ++ (if rules2 == rules then [] else ["loader_integral_float"])
                ++ (if mark == "G=" then ["loader_same_obs"] else ["loader_other_obs"]))
        | none => "fail unparsable-observation"
      | [] => "bad-input"
    | none => "bad-input"
  | _ => "bad-input"

def main (args : List String) : IO Unit :=
  match args with
  | ["model"] => mapLines modelLine
  | ["oracle"] => mapLines oracleLine
  | _ => IO.eprintln "usage: drv_c06 model|oracle"
