import RreModel.Proto
import RreModel.C20.Spec
/-
Driver for C20.
  case := `<B> <maxCk> <ttl> <op,op,...>`   B ∈ F|M ; ttl ∈ N|<ms> ;
          op ∈ P<k>.<v> | T<k>.<v>.<ttl> | U<k>.<v> | D<k> | X | G | C | R<i> | A<ms> | K (crash analysis, last)
          value indices 20 … 29 (`Model.lossyVal`): values whose JSON text does not read back (NaN, ±inf, too deep)
          B = Q (real kill): exactly one kill op  Y<p> (checkpoint killed at its numbered crash point p)
          | V<i>.<p> (restore of id #i killed at point p); the ops before it run in a child process that is really
          killed there, the ops after it on a NEW store opened on the directory the dead child left (`Model.reopen`)
          | W<p>.<sel>.<a> (checkpoint whose `write_all` is SPLIT by the hook at a byte offset k chosen by selector
          sel/a from the real bytes, killed at point p of the extended list `Model.checkpointStepsK`; p = 4 is the point
          INSIDE the write; selectors: 0 = min(a, len-1) · 1 = len - min(a, len) · 2 = len*min(a,32)/32 · 3 / 4 / 5 = the
          a-th offset inside a multi-byte character / a number / an escape sequence (always a strict prefix))
  obs  := step;step;…   step := res/gets/keys/len/metas/files[/crash]      (see harness/src/bin/c20.rs)
          kill step := dead@<label>|exit / files / id>ok=<view>|id><kind>=u|c,…   predicted from `Model.checkpointSteps`,
          `restoreSteps`, `diesAt`, `pointLabel`, `crashAt`/`crashDir` — the definitions Theorems2.lean is about
  drv_c20 model   : case        ↦ observation line predicted by the model (codec = `natCodec`)
  drv_c20 oracle  : case | obs  ↦ `ok <tags>` / `fail <clause>@<step>` (Spec.runOk on the observations)
-/
open Proto C20

inductive COp where
  | put (k v : Nat) | putTtl (k v t : Nat) | update (k v : Nat) | delete (k : Nat) | clear | cleanup
  | checkpoint | crash | restore (i : Nat) | advance (d : Nat)
  | failCk                 -- `Z`: checkpoint whose `File::create` fails (real I/O error injected by the harness)
  | event (k v : Nat)      -- `E<k>.<v>`: `StatefulOperator::process` with a process function that puts v under k
  | kill (p : Nat)         -- `Y<p>` (kind Q): `checkpoint` in a child process that is KILLED at its crash point p
  | killRestore (i p : Nat) -- `V<i>.<p>` (kind Q): `restore` of the i-th id in a child process killed at its crash point p
  | killW (p sel a : Nat)  -- `W<p>.<sel>.<a>` (kind Q): `checkpoint` with the split write (`arm_split`), killed at point p
deriving Repr

structure Case where
  oper : Bool := false     -- `O`: the file backend driven through `StatefulOperator` (a delegating wrapper: same model)
  real : Bool := false     -- `Q`: file backend; the ops up to the single `Y`/`V` run in a child process that is really
                           --      killed there, the ops after it on a NEW store opened on the directory it left
  file : Bool
  maxCk : Nat
  ttl : Option Nat
  ops : List COp

def parseOp (s : String) : Option COp :=
  let h := s.take 1
  let rest := (s.drop 1).toString
  let nums : Option (List Nat) := if rest.isEmpty then some [] else (rest.splitOn ".").mapM natOf?
  match h.toString, nums with
  | "P", some [k, v] => some (.put k v)
  | "T", some [k, v, t] => some (.putTtl k v t)
  | "U", some [k, v] => some (.update k v)
  | "D", some [k] => some (.delete k)
  | "X", some [] => some .clear
  | "G", some [] => some .cleanup
  | "C", some [] => some .checkpoint
  | "K", some [] => some .crash
  | "Z", some [] => some .failCk
  | "E", some [k, v] => some (.event k v)
  | "R", some [i] => some (.restore i)
  | "Y", some [p] => some (.kill p)
  | "V", some [i, p] => some (.killRestore i p)
  | "W", some [p, sel, a] => if sel ≤ 5 then some (.killW p sel a) else none
  | "A", some [d] => some (.advance d)
  | _, _ => none

def parseCase (line : String) : Option Case :=
  match tokens line with
  | [b, m, t, ops] => do
    let file ← (if b = "F" || b = "O" || b = "Q" then some true else if b = "M" then some false else none)
    let maxCk ← m.toNat?
    let ttl ← (if t = "N" then some none else t.toNat?.map some)
    let ops ← (if ops = "-" then some [] else (ops.splitOn ",").mapM parseOp)
    -- nothing is executed after the crash analysis
    let rec cut : List COp → List COp
      | [] => []
      | .crash :: _ => [.crash]
      | o :: r => o :: cut r
    if !file && ops.any (fun o => match o with | .failCk => true | _ => false) then none else
    let isKill := fun (o : COp) => match o with | .kill _ | .killRestore .. | .killW .. => true | _ => false
    let special := fun (o : COp) => match o with | .crash | .failCk | .event .. => true | _ => false
    -- kind Q: exactly one kill op, no analysis / injection ops; the other kinds: no kill op
    if b = "Q" && ((ops.filter isKill).length != 1 || ops.any special) then none else
    if b != "Q" && ops.any isKill then none else
    pure { oper := b = "O", real := b = "Q", file := file, maxCk := maxCk, ttl := ttl, ops := cut ops }
  | _ => none

/-! rendering -/

def showId (i : Id) : String := s!"{i.ms}.{i.seq}"

def showView (m : List (Nat × Nat)) : String :=
  if m.isEmpty then "E" else "+".intercalate (m.map fun (k, v) => s!"{k}:{v}")

def showFile : FileObs → String
  | .noFile => "D"
  | .bad => "X"
  | .content m => showView m

def showRes : Res → String
  | .ok => "ok"
  | .ckpt i => s!"ok:{i}"
  | .err k => s!"err:{k}"

def showCrash (c : CrashObs) : String :=
  (match c.restored with
   | some v => s!"ok={showView v}"
   | none => "E") ++ (if c.earlierIntact then "~I" else "~B")

def listOr (xs : List String) : String := if xs.isEmpty then "-" else ",".intercalate xs

/-! the model's observations -/

def insertSorted {α : Type} (lt : α → α → Bool) (x : α) : List α → List α
  | [] => [x]
  | y :: r => if lt x y then x :: y :: r else y :: insertSorted lt x r

def sortBy {α : Type} (lt : α → α → Bool) (xs : List α) : List α := xs.foldr (insertSorted lt) []

def idLt (a b : Id) : Bool := a.ms < b.ms || (a.ms == b.ms && a.seq < b.seq)

def outRes : Out → Res
  | .ok => .ok
  | .ckpt i => .ckpt (showId i)
  | .errMissing => .err "missing"
  | .errExpired => .err "expired"
  | .errNotFound => .err "notfound"
  | .errParse => .err "parse"
  | .errMemory => .err "memory"

def sortedView (m : List (Nat × Nat)) : List (Nat × Nat) := sortBy (fun a b => a.1 < b.1) m

def fileObs : Option (List Nat) → FileObs
  | none => .noFile
  | some bytes => match natCodec.parse bytes with
    | none => .bad
    | some m => .content (sortedView m)

def worldObs (cfg : Cfg) (W : World) (out : Out) : Obs :=
  let lv := sortedView (live W.store W.clock)
  { res := outRes out,
    gets := [0, 1, 2].map (sget W.store W.clock),
    keys := lv.map (·.1),
    len := (live W.store W.clock).length,
    metas := W.metas.map fun m => (showId m.id, m.count),
    files := if cfg.file then (sortBy (fun a b => idLt a.1 b.1) W.fs).map fun (i, c) => (showId i, fileObs c) else [] }

/-- the kind of failure is printed with the crash entry; kept beside the `CrashObs` -/
structure CrashLine where
  obs : CrashObs
  kind : String

/-- crash analysis of the checkpoint about to be taken in `W` (see `crashFs`): a fresh store holding
the sentinel entries {0 ↦ 1, 2 ↦ 3} restores the interrupted id in every intermediate state -/
def crashLines (cfg : Cfg) (W : World) : List CrashLine :=
  let i := newId cfg W
  let steps := ckSteps natCodec cfg W
  let victim := victimOf cfg.maxCk W.metas i
  (List.range (steps.length + 1)).map fun n =>
    let F := crashFs natCodec cfg W n
    let sentinel : List (Nat × Entry) := [(0, ⟨1, W.clock, none⟩), (2, ⟨3, W.clock, none⟩)]
    let S : World := { store := sentinel, clock := W.clock, fs := F }
    let r := restore natCodec cfg S i
    let intact := W.fs.all fun (e, c) =>
      if e = i then fget F e == some c
      else fget F e == some c || (victim == some e && (fget F e == some none || fget F e == none))
    match r.2 with
    | .ok => { obs := { restored := some (sortedView (live r.1.store r.1.clock)), unchanged := false, earlierIntact := intact }, kind := "ok" }
    | o => { obs := { restored := none, unchanged := r.1.store == sentinel, earlierIntact := intact },
             kind := match outRes o with | .err k => k | _ => "?" }

def showCrashLine (c : CrashLine) : String :=
  (match c.obs.restored with
   | some v => s!"ok={showView v}"
   | none => s!"{c.kind}={if c.obs.unchanged then "u" else "c"}") ++ (if c.obs.earlierIntact then "~I" else "~B")

def dedupAdj : List String → List String
  | a :: b :: r => if a = b then dedupAdj (b :: r) else a :: dedupAdj (b :: r)
  | l => l

def showObs (o : Obs) (crash : Option String) : String :=
  let gets := ",".intercalate (o.gets.map fun g => match g with | some v => toString v | none => "_")
  let metas := listOr (o.metas.map fun (i, n) => s!"{i}:{n}")
  let files := listOr (o.files.map fun (i, f) => s!"{i}={showFile f}")
  s!"{showRes o.res}/{gets}/{showNats o.keys}/{o.len}/{metas}/{files}" ++
    (match crash with | some c => "/" ++ c | none => "")

def bogusId : Id := ⟨1000000007, 1000000007⟩

def toOp (ids : List Id) : COp → Op
  | .put k v => .put k v
  | .putTtl k v t => .putTtl k v t
  | .update k v => .update k v
  | .delete k => .delete k
  | .clear => .clear
  | .cleanup => .cleanup
  | .checkpoint => .checkpoint
  | .crash => .checkpoint
  | .restore i => .restore ((ids[i]?).getD bogusId)
  | .advance d => .advance d
  | .event k v => .put k v
  | .failCk => .advance 0      -- not used: `modelSteps` handles `failCk` itself
  | .kill _ => .advance 0      -- not used: `modelSteps` handles the kill ops itself
  | .killRestore .. => .advance 0
  | .killW .. => .advance 0

def showDir (F : List (Id × Option (List Nat))) : String :=
  listOr ((sortBy (fun a b => idLt a.1 b.1) F).map fun (i, c) => s!"{showId i}={showFile (fileObs c)}")

/-- after the restart: a NEW store holding the sentinel entries {0 ↦ 1, 2 ↦ 3} restores id `i` from directory `F` -/
def probeLine (cfg : Cfg) (F : List (Id × Option (List Nat))) (clock : Nat) (i : Id) : String :=
  let sentinel : List (Nat × Entry) := [(0, ⟨1, clock, none⟩), (2, ⟨3, clock, none⟩)]
  let r := restore natCodec cfg { reopen F clock with store := sentinel } i
  showId i ++ ">" ++ match r.2 with
    | .ok => s!"ok={showView (sortedView (live r.1.store r.1.clock))}"
    | o => s!"{match outRes o with | .err k => k | _ => "?"}={if r.1.store == sentinel then "u" else "c"}"

/-- what the parent finds after the child was armed to die at crash point `p` of a procedure with these steps -/
def killLine (cfg : Cfg) (steps : List PStep) (F : List (Id × Option (List Nat))) (clock p : Nat) (ids : List Id) : String :=
  (if diesAt steps p then s!"dead@{pointLabel steps p}" else "exit") ++ "/" ++ showDir F ++ "/"
    ++ listOr (ids.map (probeLine cfg F clock))

/-- the split offset in the MODEL's bytes that stands for the selector's offset in the real bytes: same position class
(0 / strict prefix / everything), which is all a codec-independent observation can depend on -/
def modelOffset (sel a len : Nat) : Nat :=
  match sel with
  | 0 => min a (len - 1)
  | 1 => len - min a len
  | 2 => len * min a 32 / 32
  | _ => len / 2

def modelSteps (cfg : Cfg) : World → List Id → List COp → List String
  | _, _, [] => []
  | W, ids, .killW p sel a :: ops =>
    -- `Model.checkpointStepsK`: the call with the crash point inside `write_all`; `Model.crashAtK` the directory left
    let k := modelOffset sel a (natCodec.ser (live W.store W.clock)).length
    let steps := checkpointStepsK natCodec cfg W k
    let F := crashAtK natCodec cfg W k p
    let ids' := ids ++ [newId cfg W]
    -- 4th field: killed INSIDE the write - the file is the exact prefix, and the rebuilt truncation restores alike
    let recon := if p == 4 && diesAt steps p then
        "P:" ++ ((probeLine cfg F W.clock (newId cfg W)).splitOn ">").getLast! else "-"
    (killLine cfg steps F W.clock p ids' ++ "/" ++ recon) :: modelSteps cfg (reopen F W.clock) ids' ops
  | W, ids, .kill p :: ops =>
    -- `Model.checkpointSteps` numbers the crash points; `Model.crashAt` is the directory the dead child leaves;
    -- the ops that follow run on `Model.reopen` of that directory (same clock reading: the parent's injected clock)
    let F := crashAt natCodec cfg W p
    let ids' := ids ++ [newId cfg W]
    killLine cfg (checkpointSteps natCodec cfg W) F W.clock p ids' :: modelSteps cfg (reopen F W.clock) ids' ops
  | W, ids, .killRestore n p :: ops =>
    let steps := restoreSteps natCodec cfg W ((ids[n]?).getD bogusId)
    let F := crashDir steps W.fs p
    killLine cfg steps F W.clock p ids :: modelSteps cfg (reopen F W.clock) ids ops
  | W, ids, .failCk :: ops =>
    -- `checkpoint` returns Err("Failed to create checkpoint file …") after consuming the id and creating its directory
    let W' := checkpointFailsAtCreate cfg W
    showObs { worldObs cfg W' .ok with res := .err "ckfile" } none :: modelSteps cfg W' ids ops
  | W, ids, op :: ops =>
    let r := step natCodec cfg W (toOp ids op)
    let ids' := match r.2 with | .ckpt i => ids ++ [i] | _ => ids
    let crash : Option String := match op with
      | .crash => some (if cfg.file then listOr (dedupAdj ((crashLines cfg W).map showCrashLine)) else "-")
      | _ => none
    showObs (worldObs cfg r.1 r.2) crash :: modelSteps cfg r.1 ids' ops

def cfgOf (c : Case) : Cfg := { file := c.file, maxCk := c.maxCk, defaultTtl := c.ttl, legacy := false }

def modelLine (line : String) : String :=
  match parseCase line with
  | some c =>
    let ss := modelSteps (cfgOf c) init [] c.ops
    if ss.isEmpty then "-" else ";".intercalate ss
  | none => "bad-case"

/-! parsing the implementation's observations -/

def parseView (s : String) : Option (List (Nat × Nat)) :=
  if s = "E" then some [] else
    (s.splitOn "+").mapM fun kv => match kv.splitOn ":" with
      | [k, v] => do pure ((← k.toNat?), (← v.toNat?))
      | _ => none

def parseFile (s : String) : Option FileObs :=
  if s = "D" then some .noFile else if s = "X" then some .bad else (parseView s).map .content

def parseRes (s : String) : Option Res :=
  if s = "ok" then some .ok
  else if s.startsWith "ok:" then some (.ckpt (s.drop 3).toString)
  else if s.startsWith "err:" then some (.err (s.drop 4).toString)
  else none

def parseList {α : Type} (s : String) (f : String → Option α) : Option (List α) :=
  if s = "-" then some [] else (s.splitOn ",").mapM f

def parseCrashEntry (s : String) : Option CrashObs :=
  match s.splitOn "~" with
  | [r, e] =>
    let intact := e = "I"
    match r.splitOn "=" with
    | ["ok", v] => (parseView v).map fun v => { restored := some v, unchanged := false, earlierIntact := intact }
    | [_, u] => some { restored := none, unchanged := u = "u", earlierIntact := intact }
    | _ => none
  | _ => none

def parseProbe (s : String) : Option ProbeObs :=
  match s.splitOn ">" with
  | [i, r] =>
    match r.splitOn "=" with
    | ["ok", v] => (parseView v).map fun v => { id := i, restored := some v, unchanged := false }
    | [_, u] => some { id := i, restored := none, unchanged := u = "u" }
    | _ => none
  | _ => none

def parseFiles (files : String) : Option (List (String × FileObs)) :=
  parseList files fun f => match f.splitOn "=" with
    | [i, c] => (parseFile c).map fun c => (i, c)
    | _ => none

/-- `P|N:ok=<view>` | `P|N:<kind>=u|c` | `-` -/
def parseRecon (s : String) : Option (Option ReconObs) :=
  if s = "-" then some none else
  match s.splitOn ":" with
  | flag :: rest =>
    let r := ":".intercalate rest
    if flag != "P" && flag != "N" then none else
    match r.splitOn "=" with
    | ["ok", v] => (parseView v).map fun v => some { prefixExact := flag = "P", restored := some v, unchanged := false }
    | [_, u] => some (some { prefixExact := flag = "P", restored := none, unchanged := u = "u" })
    | _ => none
  | _ => none

/-- `dead@<label>/<files>/<probes>[/<recon>]` | `exit/<files>/<probes>[/<recon>]` -/
def parseKill (s : String) : Option (KillObs × String) :=
  match s.splitOn "/" with
  | h :: files :: probes :: more => do
    let files ← parseFiles files
    let probes ← parseList probes parseProbe
    let recon ← match more with
      | [] => some none
      | [r] => parseRecon r
      | _ => none
    if h = "exit" then pure ({ dead := false, files := files, probes := probes, recon := recon }, "exit")
    else if h.startsWith "dead@" then
      pure ({ dead := true, files := files, probes := probes, recon := recon }, (h.drop 5).toString)
    else none
  | _ => none

def parseObs (s : String) : Option Obs :=
  let fs := s.splitOn "/"
  match fs with
  | res :: gets :: keys :: len :: metas :: files :: rest => do
    let res ← parseRes res
    let gets ← (gets.splitOn ",").mapM fun g => if g = "_" then some none else g.toNat?.map some
    let keys ← parseNats? keys
    let len ← len.toNat?
    let metas ← parseList metas fun m => match m.splitOn ":" with
      | [i, n] => n.toNat?.map fun n => (i, n)
      | _ => none
    let files ← parseList files fun f => match f.splitOn "=" with
      | [i, c] => (parseFile c).map fun c => (i, c)
      | _ => none
    let crash ← match rest with
      | [] => some []
      | [c] =>
        if c = "-" then some []
        -- the completed checkpoint has no state.json at all (e.g. retention removed its own directory)
        else if c = "nofile" then some [{ restored := none, unchanged := true, earlierIntact := true }]
        else (c.splitOn ",").mapM parseCrashEntry
      | _ => none
    pure { res := res, gets := gets, keys := keys, len := len, metas := metas, files := files, crash := crash }
  | _ => none

/-- oracle-level ops: `R<i>` resolved against the ids the *implementation* returned -/
def toOOps : List String → List COp → List Obs → List OOp
  | ids, op :: ops, o :: os =>
    let ids' := match o.res with | .ckpt i => ids ++ [i] | _ => ids
    (match op with
     | .checkpoint => .checkpoint
     | .crash => .crashProbe
     | .restore i => .restore ((ids[i]?).getD "nonexistent")
     | _ => .other) :: toOOps ids' ops os
  | _, ops, _ => ops.map fun _ => .other

def countP {α : Type} (p : α → Bool) (xs : List α) : Nat := (xs.filter p).length

def isKillOp : COp → Bool
  | .kill _ | .killRestore .. | .killW .. => true
  | _ => false

/-- kind Q: the child's calls (Spec.runOk), the verdict on what the dead child left (Spec.killOk), the reopened store's
calls (Spec.runOk2) -/
def oracleReal (cs : Case) (o : String) : String :=
  let parts := o.splitOn ";"
  let ops1 := cs.ops.takeWhile (fun op => !isKillOp op)
  let rest := cs.ops.dropWhile (fun op => !isKillOp op)
  match rest, (parts.take ops1.length).mapM parseObs, (parts.drop ops1.length) with
  | kop :: ops2, some os1, ks :: ps2 =>
    match parseKill ks, ps2.mapM parseObs with
    | some (k, label), some os2 =>
      let oops1 := toOOps [] ops1 os1
      match runOk true cs.maxCk 0 {} oops1 os1 with
      | .error (n, e) => s!"fail {e}@{n}"
      | .ok r =>
        let isCk := match kop with | .kill _ | .killW .. => true | _ => false
        let isW := match kop with | .killW .. => true | _ => false
        -- a child killed at the point inside the write must come with the comparison against the reconstruction
        if isW && label = "partial" && k.recon.isNone then s!"fail real_partial_write_not_compared@{ops1.length}" else
        match killOk cs.maxCk r isCk k with
        | .error e => s!"fail {e}@{ops1.length}"
        | .ok old =>
          -- `R<i>` after the restart: ids of the earlier life first (the interrupted one included), then the new ones
          let oops2 := toOOps old.ids ops2 os2
          match runOk2 cs.maxCk old (ops1.length + 1) {} oops2 os2 with
          | .error (n, e) => s!"fail {e}@{n}"
          | .ok r2 =>
            let extra := k.probes.filter fun p => !(r.taken.any (·.1 == p.id))
            let selTag := match kop with
              | .killW _ sel a => [s!"split_sel_{sel}"]
                  ++ (if sel == 1 && a == 0 then ["split_at_len"] else [])
                  ++ (if (sel == 0 || sel == 2) && a == 0 then ["split_at_0"] else [])
              | _ => []
            let tags := ["file", "real_kill", if isCk then "kill_in_checkpoint" else "kill_in_restore",
                "kill_at_" ++ label]
              ++ (if isW then ["split_write"] ++ selTag else [])
              ++ (match k.recon with
                  | some rc => ["real_partial_write", if rc.restored.isSome then "partial_write_restores_complete" else "partial_write_restore_is_error"]
                  | none => [])
              ++ (if isCk && extra.any (fun p => p.restored.isSome) then ["interrupted_complete"] else [])
              ++ (if isCk && k.dead && extra.any (fun p => p.restored.isNone) then ["interrupted_error"] else [])
              ++ (if isCk && !snapOk r.prev.view then ["interrupted_holds_unreadable_value"] else [])
              ++ (if !r.taken.isEmpty then ["earlier_checkpoints_probed"] else [])
              ++ (if r.taken.any (fun t => (findProbe k.probes t.1).any (·.restored.isNone) && r.prev.metas.any (·.1 == t.1))
                  then ["retention_victim_gone"] else [])
              ++ (if !r2.taken.isEmpty then ["reopened_checkpoints"] else [])
              ++ (if (oops2.zip os2).any (fun (p : OOp × Obs) => match p.1, p.2.res with
                    | .restore i, .ok => old.ids.contains i | _, _ => false) then ["reopened_restores_earlier_life"] else [])
              ++ ["nontrivial"]
            joinSp ("ok" :: tags)
    | _, _ => "fail unparsable_observation"
  | _, _, _ => "fail unparsable_observation"

def oracleLine (line : String) : String :=
  match line.splitOn " | " with
  | [c, o] =>
    match parseCase c with
    | none => "bad-input"
    | some cs =>
      let o := o.trimAscii.toString
      if cs.real then oracleReal cs o else
      let obs : Option (List Obs) := if o = "-" then some [] else (o.splitOn ";").mapM parseObs
      match obs with
      | none => "fail unparsable_observation"
      | some os =>
        let oops := toOOps [] cs.ops os
        match runOk cs.file cs.maxCk 0 {} oops os with
        | .error (n, e) => s!"fail {e}@{n}"
        | .ok r =>
          let nCk := r.taken.length
          let restoresOk := countP (fun (p : OOp × Obs) => match p.1, p.2.res with | .restore _, .ok => true | _, _ => false) (oops.zip os)
          let restoresErr := countP (fun (p : OOp × Obs) => match p.1, p.2.res with | .restore _, .err _ => true | _, _ => false) (oops.zip os)
          -- a restore that brought back a state different from the one just before it
          let changed := (oops.zip (os.zip (emptyObs :: os))).any fun (p : OOp × Obs × Obs) =>
            match p.1, p.2.1.res with
            | .restore _, .ok => p.2.1.view != p.2.2.view
            | _, _ => false
          let sameMs := let ids := r.taken.map (fun t => (t.1.splitOn ".").headD "")
                        ids.length != ids.eraseDups.length
          let retired := r.taken.any fun t => !(r.prev.metas.any (·.1 == t.1))
          let crash := os.any fun o => !o.crash.isEmpty
          let expired := cs.ops.any (fun op => match op with | .putTtl .. => true | _ => false) || cs.ttl.isSome
          let isFail := fun (op : COp) => match op with | .failCk => true | _ => false
          let failed := cs.ops.any isFail
          -- a failed checkpoint while the history already held max_checkpoints entries
          let failedFull := (cs.ops.zip (emptyObs :: os)).any fun (p : COp × Obs) =>
            isFail p.1 && cs.maxCk ≥ 1 && p.2.metas.length ≥ cs.maxCk
          -- through the operator: a successful restore of the LATEST listed checkpoint that changed the view, with no
          -- `process` call since that checkpoint (edits went through state_mut / the clock)
          let operStale := cs.oper && (oops.zip (os.zip (emptyObs :: os))).any fun (p : OOp × Obs × Obs) =>
            match p.1, p.2.1.res with
            | .restore i, .ok => p.2.1.view != p.2.2.view && (p.2.2.metas.getLast?.map (·.1)) == some i
            | _, _ => false
          -- values at the edges of what JSON carries (table indices ≥ 10), and the ones whose JSON text does not read back
          let opVal := fun (op : COp) => match op with
            | .put _ v | .putTtl _ v _ | .update _ v | .event _ v => some v
            | _ => none
          let edgeVal := cs.ops.any fun op => match opVal op with | some v => v ≥ 10 && !lossyVal v | none => false
          let lossyCk := r.taken.any fun t => !snapOk t.2
          -- a still-listed checkpoint that captured such a value next to OTHER keys was restored: an error, nothing loaded
          let lossyRestoreErr := (oops.zip (os.zip (emptyObs :: os))).any fun (p : OOp × Obs × Obs) =>
            match p.1, p.2.1.res with
            | .restore i, .err _ => p.2.2.metas.any (·.1 == i) &&
                (match lookupS r.taken i with | some v => !snapOk v && v.length ≥ 2 | none => false)
            | _, _ => false
          let tags := (if cs.file then ["file"] else ["memory"])
            ++ (if edgeVal then ["edge_values"] else [])
            ++ (if lossyCk then ["unreadable_value_checkpointed"] else [])
            ++ (if lossyRestoreErr then ["unreadable_checkpoint_restore_is_error"] else [])
            ++ (if nCk ≥ 2 then ["ckpts_ge2"] else if nCk = 1 then ["ckpts_1"] else ["ckpts_0"])
            ++ (if restoresOk > 0 then ["restore_ok"] else [])
            ++ (if restoresErr > 0 then ["restore_err"] else [])
            ++ (if changed then ["restore_changed_view"] else [])
            ++ (if sameMs then ["same_ms_ckpts"] else [])
            ++ (if retired then ["retention_retired"] else [])
            ++ (if crash then ["crash_probe"] else [])
            ++ (if expired then ["ttl"] else [])
            ++ (if cs.oper then ["stateful_operator"] else [])
            ++ (if operStale then ["operator_restore_latest_after_unseen_edit"] else [])
            ++ (if failed then ["checkpoint_io_error"] else [])
            ++ (if failedFull then ["checkpoint_io_error_with_full_history"] else [])
            ++ (if changed || crash || sameMs then ["nontrivial"] else [])
          joinSp ("ok" :: tags)
  | _ => "bad-input"

def main (args : List String) : IO Unit :=
  match args with
  | ["model"] => mapLines modelLine
  | ["oracle"] => mapLines oracleLine
  | _ => IO.eprintln "usage: drv_c20 model|oracle"
