import RreModel.Proto
import RreModel.C17.Spec
/-
Driver for C17.
  case := `<U> <K> <op;op;…>`   U, K = comma lists (handles / keys to observe)
          op := `i<h>:<k>:<p,p,…|->[:<q,q,…|->]` (insert_proof h under key k with premises; optional fourth
                field = premise_keys, drawn independently of the premises by the generator, ignored here)
              | `x<h>` (invalidate_handle h)
  obs  := step;step;…  (one per op)   step := V/P/L
          V = per handle of U: n (no node) | 1 (valid) | 0 (not valid)
          P = per key of K: 1|0 (is_proven)
          L = per key of K a bit string over U (node of h returned by lookup_by_key), joined by ','
  drv_c17 model  : case        ↦ obs predicted by the model (HashSet order := insertion order)
  drv_c17 oracle : case | obs  ↦ `ok <tags>` / `fail <component>@<step>` (Spec.specTrace on the observations)
-/
open Proto C17

def parseOp (s : String) : Option Op :=
  if s.startsWith "x" then (s.drop 1).toNat?.map Op.inv
  else if s.startsWith "i" then
    match (s.drop 1).toString.splitOn ":" with
    | [h, k, ps] => do
      let h ← h.toNat?
      let k ← k.toNat?
      let ps ← parseNats? ps
      pure (Op.ins h k ps)
    -- fourth field = the `premise_keys` argument (human-readable tracing only): syntax-checked and
    -- ignored — neither the model nor the specification may depend on it
    | [h, k, ps, qs] => do
      let h ← h.toNat?
      let k ← k.toNat?
      let ps ← parseNats? ps
      let _ ← parseNats? qs
      pure (Op.ins h k ps)
    | _ => none
  else none

/-- (U, K, ops in chronological order) -/
def parseCase (line : String) : Option (List Nat × List Nat × List Op) :=
  match tokens line with
  | [u, k, ops] => do
    let u ← parseNats? u
    let k ← parseNats? k
    let ops ← (ops.splitOn ";").mapM parseOp
    pure (u, k, ops)
  | [u, k] => do
    let u ← parseNats? u
    let k ← parseNats? k
    pure (u, k, [])
  | _ => none

def bit (b : Bool) : Char := if b then '1' else '0'

def showV (v : List (Option Bool)) : String :=
  String.ofList (v.map fun | none => 'n' | some b => bit b)

def dash (s : String) : String := if s.isEmpty then "-" else s

def showObs (o : Obs) : String :=
  dash (showV o.valid) ++ "/" ++ dash (String.ofList (o.proven.map bit)) ++ "/" ++
    dash (",".intercalate (o.look.map fun r => dash (String.ofList (r.map bit))))

def showTrace (os : List Obs) : String :=
  if os.isEmpty then "-" else ";".intercalate (os.map showObs)

def modelLine (line : String) : String :=
  match parseCase line with
  | some (u, k, ops) => showTrace (modelTrace id u k ops.reverse).reverse
  | none => "bad-case"

/-- index and component of the first step whose observation differs from the prescription -/
def firstBad : Nat → List String → List Obs → Option String
  | _, [], [] => none
  | i, o :: os, e :: es =>
    if o = showObs e then firstBad (i + 1) os es
    else
      match o.splitOn "/" with
      | [v, p, l] =>
        if v ≠ dash (showV e.valid) then some s!"valid@{i}"
        else if p ≠ dash (String.ofList (e.proven.map bit)) then some s!"is_proven@{i}"
        else if l ≠ dash (",".intercalate (e.look.map fun r => dash (String.ofList (r.map bit)))) then some s!"lookup@{i}"
        else some s!"format@{i}"
      | _ => some s!"format@{i}"
  | i, _, _ => some s!"length@{i}"

/-- suffixes of a newest-first history, paired as (op, earlier history) -/
def steps : List Op → List (Op × List Op)
  | [] => []
  | op :: H => (op, H) :: steps H

def tagsOf (H : List Op) : List String :=
  let st := steps H
  let hs := (allJusts H).map (·.1)
  -- a proof lost its validity although it was not the handle invalidated: the cascade did it
  let cascade := st.any fun (op, H') =>
    match op with
    | .inv p => hs.any fun h => h != p && provenB H' h && !provenB (op :: H') h
    | _ => false
  let cascade2 := st.any fun (op, H') =>
    match op with
    | .inv p => (hs.filter fun h => h != p && provenB H' h && !provenB (op :: H') h).eraseDups.length ≥ 2
    | _ => false
  let revived := st.any fun (op, H') =>
    match op with
    | .ins h _ _ => !(justsFor H' h).isEmpty && !provenB H' h
    | _ => false
  let multi := hs.any fun h => (justsFor H h).length ≥ 2
  -- a premise that was not a node when its dependent was inserted and became one later
  let early := st.any fun (op, H') =>
    match op with
    | .ins h _ _ => (justsFor H' h).isEmpty && (allJusts H').any fun j => j.2.contains h
    | _ => false
  let survived := st.any fun (op, H') =>
    match op with
    | .inv p => hs.any fun h => h != p && provenB (op :: H') h && (justsFor H' h).any (·.contains p)
    | _ => false
  (if cascade then ["cascade", "nontrivial"] else []) ++ (if cascade2 then ["cascade2"] else [])
    ++ (if revived then ["revived"] else []) ++ (if multi then ["multi_just"] else [])
    ++ (if early then ["dependent_before_premise"] else [])
    ++ (if survived then ["survived_by_other_just"] else [])
    ++ [s!"len{H.length}"]

def oracleLine (line : String) : String :=
  match line.splitOn " | " with
  | [c, o] =>
    match parseCase c with
    | some (u, k, ops) =>
      let H := ops.reverse
      if !wfB H then "ok illformed"
      else
        let o := o.trimAscii.toString
        let obs := if o = "-" then [] else o.splitOn ";"
        match firstBad 0 obs (specTrace u k H).reverse with
        | none => joinSp ("ok" :: tagsOf H)
        | some w => "fail " ++ w
    | none => "bad-input"
  | _ => "bad-input"

def main (args : List String) : IO Unit :=
  match args with
  | ["model"] => mapLines modelLine
  | ["oracle"] => mapLines oracleLine
  | _ => IO.eprintln "usage: drv_c17 model|oracle"
