import RreModel.Proto
import RreModel.C01.Spec
/-
Driver for C01 (case / observation grammar: see harness/src/bin/c01.rs).
  drv_c01 model   : case        ↦ observation predicted by the model (`C01.cycles` on the compiled rules, one
                                   run per execute call, each from the facts the caller hands in)
  drv_c01 oracle  : case | obs  ↦ `ok <tags>` / `fail <clause>` — `Spec.holds` on every reported pre-state
                                   vs. the reported firing (every cycle of every call), read-back of assignments,
                                   twin entry points
Floats: `F := Float`, exchanged as bit patterns; `fmod` is bound to libm.
-/
open Proto C01

@[extern "fmod"] opaque fmod64 : Float → Float → Float

namespace Drv

/-! ### `f64` operations -/

def pow10 (n : Nat) : Nat := 10 ^ n

/-- `str::parse::<f64>` for the decimal grammar (sign, digits, fraction, exponent, inf/nan) -/
def parseF64 (s : Str) : Option Float :=
  let (neg, r) := match s with
    | '-' :: r => (true, r)
    | '+' :: r => (false, r)
    | r => (false, r)
  let lower := String.ofList (r.map Char.toLower)
  let fin (x : Float) : Option Float := some (if neg then -x else x)
  if lower = "inf" || lower = "infinity" then fin (1.0 / 0.0)
  else if lower = "nan" then some (0.0 / 0.0)
  else
    let ip := r.takeWhile isDigit
    let r1 := r.dropWhile isDigit
    let (fp, r2, hadDot) := match r1 with
      | '.' :: t => (t.takeWhile isDigit, t.dropWhile isDigit, true)
      | t => ([], t, false)
    let _ := hadDot
    if ip.isEmpty && fp.isEmpty then none
    else
      let expo : Option Int := match r2 with
        | [] => some 0
        | c :: t =>
          if c = 'e' || c = 'E' then
            let (eneg, d) := match t with
              | '-' :: d => (true, d)
              | '+' :: d => (false, d)
              | d => (false, d)
            match digitsVal d with
            | some n => some (if eneg then -(n : Int) else (n : Int))
            | none => none
          else none
      match expo with
      | none => none
      | some e =>
        let m := (ip ++ fp).foldl (fun n c => 10 * n + (c.toNat - '0'.toNat)) 0
        let e10 : Int := e - fp.length
        if e10 ≥ 0 then fin (Float.ofScientific m false e10.toNat)
        else fin (Float.ofScientific m true (-e10).toNat)

def trunc (x : Float) : Float := if x < 0 then x.ceil else x.floor

def fops : FloatOps Float where
  ofInt := Float.ofInt
  parse := parseF64
  lt a b := a < b
  le a b := a ≤ b
  beq a b := a == b
  add a b := a + b
  sub a b := a - b
  mul a b := a * b
  div a b := a / b
  fmod := fmod64
  isWhole x := (x - trunc x) == 0.0
  toInt x := x.toInt64.toInt

/-! ### parsing the case line -/

abbrev PM := StateT (List String) Option

def tok : PM String := do
  match ← get with
  | [] => failure
  | t :: ts => set ts; pure t

def strOfHex (h : String) : PM Str := do
  match hexString? h with
  | some s => pure s.toList
  | none => failure

def natOf (s : String) : PM Nat := match s.toNat? with | some n => pure n | none => failure

def hexNat (s : String) : Option Nat :=
  s.toList.foldlM (fun n c => (hexDigit? c).map (fun d => 16 * n + d)) 0

def rep {α} (n : Nat) (p : PM α) : PM (List α) := (List.range n).mapM (fun _ => p)

partial def pValue : PM (Val Float) := do
  let t ← tok
  let r := t.drop 1 |>.toString
  match t.front with
  | 'S' => return .str (← strOfHex r)
  | 'I' => match r.toInt? with | some i => return .int i | none => failure
  | 'N' => match hexNat r with | some n => return .num (Float.ofBits n.toUInt64) | none => failure
  | 'B' => return .bool (r = "1")
  | 'Z' => return .null
  | 'X' => return .expr (← strOfHex r)
  | 'A' => do let n ← natOf r; return .arr (← rep n pValue)
  | 'O' => do
    let n ← natOf r
    return .obj (← rep n (do let k ← strOfHex (← tok); let v ← pValue; pure (k, v)))
  | _ => failure

def pAtom : PM Atom := do
  let t ← tok
  let r := t.drop 1 |>.toString
  match t.front with
  | 'k' => return .tok (← strOfHex r)
  | 'q' => return .strLit (← strOfHex r)
  | _ => failure

def pOp : PM (Char × Nat × Nat) := do
  let t ← tok
  match (t.drop 1).toString.splitOn "," with
  | [a, b] => return (t.front, ← natOf a, ← natOf b)
  | _ => failure

def mulOf (c : Char) : MulOp := if c = 't' then .mul else if c = 'd' then .div else .mod
def addOf (c : Char) : AddOp := if c = 'p' then .add else .sub

def pCount (pre : Char) : PM Nat := do
  let t ← tok
  if t.front = pre then natOf (t.drop 1).toString else failure

def pTerm : PM TermE := do
  let n ← pCount 't'
  let a ← pAtom
  let rest ← rep n (do let o ← pOp; let b ← pAtom; pure (o, b))
  return rest.foldl (fun acc ((c, pl, pr), b) => TermE.bin acc pl (mulOf c) pr b) (.atom a)

def pSum : PM SumE := do
  let n ← pCount 'e'
  let a ← pTerm
  let rest ← rep n (do let o ← pOp; let b ← pTerm; pure (o, b))
  return rest.foldl (fun acc ((c, pl, pr), b) => SumE.bin acc pl (addOf c) pr b) (.term a)

def pSRhs : PM (SRhs Float) := do
  match ← tok with
  | "L" => return .lit (← pValue)
  | "E" => return .expr (← pSum)
  | _ => failure

def opOf (s : String) : Operator :=
  match s with
  | "ge" => .ge | "le" => .le | "eq" => .eq | "ne" => .ne | "gt" => .gt | "lt" => .lt
  | "co" => .contains | "nc" => .notContains | "sw" => .startsWith | "ew" => .endsWith
  | "ma" => .matches | _ => .isIn

def cmpOf (s : String) : CmpOp :=
  match s with
  | "ge" => .ge | "le" => .le | "eq" => .eq | "ne" => .ne | "gt" => .gt | _ => .lt

partial def pCond : PM (SCond Float) := do
  match ← tok with
  | "and" => do let a ← pCond; let b ← pCond; return .and a b
  | "or" => do let a ← pCond; let b ← pCond; return .or a b
  | "not" => return .not (← pCond)
  | "f" => do
    let n ← strOfHex (← tok)
    let op ← tok
    return .leaf (.fieldCmp n (opOf op) (← pSRhs))
  | "a" => do
    let l ← pSum
    let op ← tok
    let t ← tok
    let r ← if t = "E" then (do pure (ARhs.expr (← pSum))) else (do pure (ARhs.num (← strOfHex (t.drop 1).toString)))
    return .leaf (.arithCmp l (cmpOf op) r)
  | _ => failure

def pAction : PM (SAction Float) := do
  let k ← tok
  let f ← strOfHex (← tok)
  let r ← pSRhs
  return if k = "=" then .set f r else .append f r

/-- one more `execute` call on the same engine after the caller edited the store (`fresh`: the content
was first moved into a new `Facts` object — by `add_value`, `merge`, `snapshot`/`restore` or
`to_context`/`from_context`: the same thing to model and oracle) -/
structure Phase where
  fresh : Bool
  ops : List (CallerOp Float)

structure Case where
  grl : Bool
  facts : Facts Float
  rules : List (SRule Float)
  maxCycles : Nat := 1
  /-- bit 0: engine built by `RustRuleEngine::new` (default configuration); the other bits select twin
  ways of building the same engine / rules / facts and do not concern the model -/
  variant : Nat := 0
  phases : List Phase := []

/-- the cycle bound the engine runs with -/
def Case.cyclesBound (c : Case) : Nat := if c.variant % 2 == 1 then defaultMaxCycles else c.maxCycles

def pCallerOp : PM (CallerOp Float) := do
  let t ← tok
  match t.front with
  | '-' => return .remove (← strOfHex (t.drop 1).toString)
  | '!' => return .clear
  | '@' => do let p ← strOfHex (t.drop 1).toString; return .setNested p (← pValue)
  | '=' => do let k ← strOfHex (t.drop 1).toString; return .set k (← pValue)
  | _ => do let k ← strOfHex t; return .add k (← pValue)

def pCase : PM Case := do
  let g ← tok
  let n ← pCount 'F'
  let facts ← rep n (do let k ← strOfHex (← tok); let v ← pValue; pure (k, v))
  let m ← pCount 'U'
  let rules ← (List.range m).mapM (fun i => do
    let k ← pCount 'R'
    let c ← pCond
    let acts ← rep k pAction
    pure ({ name := i, cond := c, actions := acts } : SRule Float))
  let peek : PM (Option Char) := do
    match ← get with
    | t :: _ => pure (some t.front)
    | [] => pure none
  let maxCycles ← (do if (← peek) == some 'M' then pCount 'M' else pure 1)
  let variant ← (do if (← peek) == some 'V' then pCount 'V' else pure 0)
  let phases ← (do
    if (← peek) == some 'P' then
      let k ← pCount 'P'
      rep k (do
        let t ← tok
        let n ← natOf (t.drop 1).toString
        if !("pwmsx".toList.contains t.front) then failure
        let ops ← rep n pCallerOp
        pure ({ fresh := t.front != 'p', ops := ops } : Phase))
    else pure [])
  return { grl := g = "G1", facts := facts, rules := rules, maxCycles := maxCycles, variant := variant, phases := phases }

def runP {α} (p : PM α) (ts : List String) : Option α :=
  match p.run ts with
  | some (a, []) => some a
  | _ => none

def parseCase (line : String) : Option Case := runP pCase (tokens line)

/-! ### printing / parsing facts (canonical: keys sorted by code point) -/

def strLt : Str → Str → Bool
  | [], [] => false
  | [], _ :: _ => true
  | _ :: _, [] => false
  | a :: as, b :: bs => if a.toNat < b.toNat then true else if a.toNat > b.toNat then false else strLt as bs

def hex16 (n : Nat) : String :=
  let ds := (List.range 16).map (fun i => (n / 16 ^ (15 - i)) % 16)
  String.ofList (ds.map (fun d => if d < 10 then Char.ofNat (d + 48) else Char.ofNat (d - 10 + 97)))

def floatBits (x : Float) : Nat := if x.isNaN then 0x7ff8000000000000 else x.toBits.toNat

partial def showVal : Val Float → List String
  | .str s => ["S" ++ hexOfString (String.ofList s)]
  | .int i => ["I" ++ toString i]
  | .num x => ["N" ++ hex16 (floatBits x)]
  | .bool b => [if b then "B1" else "B0"]
  | .null => ["Z"]
  | .expr e => ["X" ++ hexOfString (String.ofList e)]
  | .arr xs => ("A" ++ toString xs.length) :: (xs.map showVal).flatten
  | .obj kvs =>
    let sorted := (kvs.toArray.qsort (fun a b => strLt a.1 b.1)).toList
    ("O" ++ toString kvs.length) :: (sorted.map (fun (k, v) => hexOfString (String.ofList k) :: showVal v)).flatten

def showFacts (f : Facts Float) : String := ",".intercalate (showVal (.obj f))

def parseFacts (s : String) : Option (Facts Float) :=
  match runP pValue (s.splitOn ",") with
  | some (.obj kvs) => some kvs
  | _ => none

/-- identity of values up to object key order, floats by bit pattern (NaN canonical) -/
partial def same : Val Float → Val Float → Bool
  | a, b => showVal a == showVal b

/-! ### model mode -/

def statusOf (e : Option Err) : String :=
  match e with
  | none => "ok"
  | some .panic => "panic"
  | some _ => "err"

def showRun (r : PassResult Float) (withFirings : Bool) : String :=
  let ok := r.error.isNone
  let head := s!"{statusOf r.error} {if ok then r.evaluated else 0} {if ok then r.fired else 0}"
  let fs := if withFirings then r.firings else []
  let body := fs.map (fun x => s!" {x.rule} {showFacts x.post}")
  s!"{head} {fs.length}{String.join body} {showFacts r.final}"

/-- the calls of a case: the first on the initial facts, each later one on the facts the previous call
left, with the caller's replacements applied; the engine carries nothing else from call to call -/
def modelRuns (c : Case) : List (PassResult Float) :=
  calls fops c.cyclesBound (c.rules.map compileRule) c.facts (c.phases.map (·.ops))

def modelLine (line : String) : String :=
  match parseCase line with
  | none => "bad-case"
  | some c =>
    let rs := modelRuns c
    let stream (tag : String) (withFirings : Bool) : List String := rs.map (fun r => s!"{tag} {showRun r withFirings}")
    joinSp (stream "C" true ++ stream "X" false ++ (if c.grl then stream "G" true else []))

/-! ### oracle mode -/

structure Run where
  status : String
  evaluated : Nat
  fired : Nat
  firings : List (Nat × Facts Float)
  final : Facts Float

def pRun : PM Run := do
  let st ← tok
  let ev ← natOf (← tok)
  let fi ← natOf (← tok)
  let k ← natOf (← tok)
  let fs ← rep k (do
    let r ← natOf (← tok)
    match parseFacts (← tok) with
    | some f => pure (r, f)
    | none => failure)
  match parseFacts (← tok) with
  | some f => return { status := st, evaluated := ev, fired := fi, firings := fs, final := f }
  | none => failure

/-- the runs of each stream, one per execute call -/
structure Obs where
  c : List Run
  x : List Run
  g : List Run

partial def pTagged : PM (List (String × Run)) := do
  match ← get with
  | [] => return []
  | _ => do
    let t ← tok
    let r ← pRun
    return (t, r) :: (← pTagged)

def pObs : PM Obs := do
  let all ← pTagged
  let sel (tag : String) : List Run := (all.filter (·.1 == tag)).map (·.2)
  if all.any (fun (t, _) => t != "C" && t != "X" && t != "G") then failure
  return { c := sel "C", x := sel "X", g := sel "G" }

def leaves : SCond Float → List (SLeaf Float)
  | .leaf l => [l]
  | .and a b => leaves a ++ leaves b
  | .or a b => leaves a ++ leaves b
  | .not a => leaves a

def depth : SCond Float → Nat
  | .leaf _ => 0
  | .and a b => 1 + max (depth a) (depth b)
  | .or a b => 1 + max (depth a) (depth b)
  | .not a => 1 + depth a

def rootOf (s : Str) : Str := match splitDot s with | r :: _ => r | [] => []

def actField : SAction Float → Str
  | .set f _ => f
  | .append f _ => f

/-- read-back of the assignments of one fired rule (see RULE in props/c01.py for which are judged) -/
def checkActions (pre post : Facts Float) (acts : List (SAction Float)) : Bool × Nat :=
  let rec go (i : Nat) (rest : List (SAction Float)) (okSoFar : Bool) (n : Nat) : Bool × Nat :=
    match rest with
    | [] => (okSoFar, n)
    | a :: later =>
      let clobbered := later.any (fun b => rootOf (actField b) == rootOf (actField a) || actField b == actField a)
      match a with
      | .set fld rhs =>
        let stateFree := match rhs with | .lit _ => true | .expr _ => i == 0
        if !clobbered && stateFree && Spec.wfRhs fops pre rhs then
          go (i + 1) later (okSoFar && Spec.readsBack fops same pre post fld rhs) (n + 1)
        else go (i + 1) later okSoFar n
      | .append _ _ => go (i + 1) later okSoFar n
  go 0 acts true 0

/-- every assignment of the rule has a defined value whatever the earlier ones did: the first one's right-hand side is in
the domain on the pre-state, the later ones store literals -/
def actsDefined (pre : Facts Float) : List (SAction Float) → Bool
  | [] => true
  | a :: later =>
    let rhsOf : SAction Float → SRhs Float := fun b => match b with | .set _ r => r | .append _ r => r
    Spec.wfRhs fops pre (rhsOf a) &&
      later.all (fun b => match rhsOf b with | .lit (.expr _) => false | .lit _ => true | .expr _ => false)

structure Acc where
  fail : Option String := none
  tags : List String := []

def leafTags (f : Facts Float) (c : SCond Float) : List String :=
  (leaves c).map (fun l => if Spec.leaf fops f l then "leafT" else "leafF")

/-- walk the rules against one observed run (one `execute` call that started on `start`): cycle after
cycle, every consideration of a rule is judged on the facts reported for that moment; a cycle without
a firing ends the call -/
def judgeRun (name : String) (c : Case) (start : Facts Float) (r : Run) : Acc := Id.run do
  let mut acc : Acc := {}
  let mut cur := start
  let mut firings := r.firings
  let okRun := r.status == "ok"
  let mut considered := 0
  let mut stop := false
  for cycle in [0:c.cyclesBound] do
    if stop || acc.fail.isSome then break
    let mut firedInCycle := false
    for rule in c.rules do
      if acc.fail.isSome then break
      -- the call ended in an error / panic and no further firing was reported: a rule in the domain whose condition does
      -- not hold is passed over; the first one whose condition holds must have run its assignments — when every one of
      -- them is defined on the facts of that moment (`actsDefined`), "stores nothing and returns Err" violates the
      -- read-back clause; anything else beyond the last reported firing is not judged
      if !okRun && firings.isEmpty then
        if Spec.wf fops cur rule.cond then
          if Spec.holds fops cur rule.cond then
            if actsDefined cur rule.actions then
              acc := { acc with fail := some s!"{name}:reads_back@{rule.name}:error_instead_of_store" }
            stop := true
            break
          else
            continue
        else
          stop := true
          break
      considered := considered + 1
      let firedNow := match firings with | (i, _) :: _ => i == rule.name | [] => false
      if Spec.wf fops cur rule.cond then
        let expect := Spec.holds fops cur rule.cond
        acc := { acc with tags := acc.tags ++ ["judged", if expect then "holds" else "holdsnot", s!"depth{depth rule.cond}"]
                                    ++ leafTags cur rule.cond ++ (if cycle > 0 then ["judged_later_cycle"] else []) }
        if expect != firedNow then
          acc := { acc with fail := some s!"{name}:fires_iff@{rule.name}:expected_{expect}" }
      else
        acc := { acc with tags := acc.tags ++ ["outside_domain"] }
      if firedNow then
        match firings with
        | (_, post) :: rest =>
          let (ok, n) := checkActions cur post rule.actions
          if !ok && acc.fail.isNone then acc := { acc with fail := some s!"{name}:reads_back@{rule.name}" }
          if n > 0 then acc := { acc with tags := acc.tags ++ ["readback"] }
          cur := post
          firings := rest
          firedInCycle := true
        | [] => pure ()
    if !firedInCycle then stop := true
  if acc.fail.isNone && okRun then
    if !firings.isEmpty then acc := { acc with fail := some s!"{name}:unexpected_firing" }
    else if r.evaluated != considered then acc := { acc with fail := some s!"{name}:rules_evaluated" }
    else if r.fired != r.firings.length then acc := { acc with fail := some s!"{name}:rules_fired" }
    else if !(same (.obj cur) (.obj r.final)) then acc := { acc with fail := some s!"{name}:final_facts" }
  return acc

/-- all calls of one stream: call `i` starts on the facts the implementation reported at the end of
call `i-1`, with the caller's replacements applied (the oracle never runs the model) -/
def judgeStream (name : String) (c : Case) (runs : List Run) : Acc := Id.run do
  let mut acc : Acc := {}
  let mut start := c.facts
  let mut phases := c.phases
  let mut i := 0
  for r in runs do
    if acc.fail.isSome then break
    let nm := if i == 0 then name else s!"{name}:call{i}"
    let a := judgeRun nm c start r
    acc := { fail := a.fail, tags := acc.tags ++ a.tags ++ (if i > 0 && a.tags.contains "judged" then ["judged_later_call"] else []) }
    match phases with
    | ph :: rest =>
      start := applyCallerOps r.final ph.ops
      phases := rest
    | [] => pure ()
    i := i + 1
  return acc

def twinDiffers (x c : Run) : Bool :=
  x.status != c.status || x.evaluated != c.evaluated || x.fired != c.fired || !(same (.obj x.final) (.obj c.final))

def oracleLine (line : String) : String :=
  match line.splitOn " | " with
  | [cs, os] =>
    match parseCase cs, runP pObs (tokens os) with
    | some c, some o =>
      let ncalls := c.phases.length + 1
      let panicked := o.c.any (·.status == "panic") || o.x.any (·.status == "panic") || o.g.any (·.status == "panic")
      -- one RUN per execute call in every stream (a panic ends a stream early)
      if o.c.isEmpty || (!panicked && (o.c.length != ncalls || o.x.length != ncalls || (c.grl && o.g.length != ncalls))) then "bad-input"
      else
      let a := judgeStream "callback" c o.c
      match a.fail with
      | some f => s!"fail {f}"
      | none =>
        -- twin entry point: execute / execute_at_time must end in the same state with the same counters, call by call
        if o.x.length != o.c.length || (o.x.zip o.c).any (fun (x, cr) => twinDiffers x cr) then
          "fail execute_at_time:differs_from_callback_run"
        else
          let g := if o.g.isEmpty then none else (judgeStream "grl" c o.g).fail
          match g with
          | some f => s!"fail {f}"
          | none =>
            let judged := a.tags.filter (· == "judged") |>.length
            let st := match o.c with | r :: _ => r.status | [] => "none"
            let tags := a.tags
              ++ [s!"status_{st}", s!"rules{c.rules.length}"]
              ++ (if !o.g.isEmpty then ["grl"] else [])
              ++ (if o.c.any (·.firings.length > 0) then ["fired"] else [])
              ++ (if c.cyclesBound > 1 then [s!"cycles{c.cyclesBound}"] else [])
              ++ (if c.variant > 0 then ["variant"] ++ ((List.range 9).filter (fun b => (c.variant / 2 ^ b) % 2 == 1)).map (fun b => s!"variant_bit{b}") else [])
              ++ (if c.phases.any (fun ph => ph.ops.any (fun o => match o with | .add _ _ => false | _ => true)) then ["caller_ops"] else [])
              ++ (if c.phases.length > 0 then [s!"calls{ncalls}"] else [])
              ++ (if judged > 0 && (a.tags.contains "readback" || (a.tags.filter (fun t => t == "leafT" || t == "leafF")).length ≥ 2)
                  then ["nontrivial"] else [])
            joinSp ("ok" :: tags)
    | _, _ => "bad-input"
  | _ => "bad-input"

end Drv

def main (args : List String) : IO Unit :=
  match args with
  | ["model"] => mapLines Drv.modelLine
  | ["oracle"] => mapLines Drv.oracleLine
  | _ => IO.eprintln "usage: drv_c01 model|oracle"
