import RreModel.Proto
import RreModel.C15.Spec
import RreModel.C15.Clone
/-
Driver for C15.
  sequential case  := `S <K> <ops>` (snapshot after the last call) | `T <K> <ops>` (snapshot after every call)
     ops           := comma list of  a<n>.<sal>[.<q>] | A<n>.<sal>[.<q>] (added disabled; q = attribute row, ignored) | r<n> | e<n> | d<n> | c      (`-` = none)
     the rule added by the op at position i carries tag i
     obs           := step;step;…   step := <out>:<version>[/<snap>]
                      | y  (`spare = kb; kb = kb.clone()`; `XOp.clone`, model `cloneKB`, specification `Spec.clone`)
                      | z  (exchange `kb` and `spare`; the spare is a fresh knowledge base before the first clone)
     snap          := rules|names|count|bysal|byidx|version|stats|lookups|twin|export
                      twin / export = `=` iff get_rules_snapshot / export_to_grl show the get_rules listing (and the export
                      header name(), version(), rule_count()) — the harness compares them with the observers of the SAME
                      snapshot, which `snapOk` compares with the specification (`twinsOk`, theorem twins_show_listing)
  concurrent case  := `C <pre> <t0> <t1> <t2>`  (ops as above plus observers g<n> l n k s i<idx> v t; tag = 100*(thread+1)+pos, pre: pos;
                      w = get_rules_snapshot and y = clone().get_rules() are calls with the data behaviour of get_rules
                      (theorem clone_same_listing_lookups), x = export_to_grl shown as the statistics of what it lists = get_statistics)
     obs           := event;event;…  event := <thread>.<pos>:<inv>:<resp>:<out>   (pre-ops are run before the threads start, not recorded)
  drv_c15 model   : case ↦ predicted obs (`-` for concurrent cases: the schedule is not predictable)
  drv_c15 oracle  : `case | obs` ↦ `ok <tags>` / `fail <clause>`  (Spec.runOk, resp. Spec.linearizable)
-/
open Proto C15

def dropS (s : String) (n : Nat) : String := String.ofList (s.toList.drop n)
def splitList (s : String) (sep : String) : List String := if s = "-" then [] else s.splitOn sep

def parseNameSal (s : String) : Option (Nat × Int) :=
  match s.splitOn "." with
  | [n, v] => do pure (← n.toNat?, ← v.toInt?)
  -- optional third field = row of the harness' attribute table (agenda group, activation group, no-loop, dates, …):
  -- the knowledge base must ignore it, so the model does not read it
  | [n, v, q] => do let _ ← q.toNat?; pure (← n.toNat?, ← v.toInt?)
  | _ => none

def parseOp (tag : Nat) (s : String) : Option Op :=
  match s.toList with
  | 'a' :: _ => (parseNameSal (dropS s 1)).map fun (n, v) => .add ⟨n, v, true, tag⟩
  | 'A' :: _ => (parseNameSal (dropS s 1)).map fun (n, v) => .add ⟨n, v, false, tag⟩
  | 'r' :: _ => (dropS s 1).toNat?.map .remove
  | 'e' :: _ => (dropS s 1).toNat?.map (.setEnabled · true)
  | 'd' :: _ => (dropS s 1).toNat?.map (.setEnabled · false)
  | ['c'] => some .clear
  | 'g' :: _ => (dropS s 1).toNat?.map .getRule
  | ['l'] => some .getRules
  | ['n'] => some .getRuleNames
  | ['k'] => some .ruleCount
  | ['s'] => some .bySalience
  | 'i' :: _ => (dropS s 1).toNat?.map .byIndex
  | ['v'] => some .version
  | ['t'] => some .stats
  | ['w'] => some .getRules
  | ['x'] => some .stats
  | _ => none

def parseOps (base : Nat) (s : String) : Option (List Op) :=
  let ts := splitList s ","
  ((List.range ts.length).zip ts).mapM fun (i, t) => parseOp (base + i) t

/-- sequential histories: `y` = continue on the clone -/
def parseXOps (base : Nat) (s : String) : Option (List XOp) :=
  let ts := splitList s ","
  ((List.range ts.length).zip ts).mapM fun (i, t) =>
    if t = "y" then some .clone else if t = "z" then some .swap else (parseOp (base + i) t).map .call

/-- threads of concurrent histories: `y` = observe the listing of a clone -/
def parseCOps (base : Nat) (s : String) : Option (List Op) :=
  let ts := splitList s ","
  ((List.range ts.length).zip ts).mapM fun (i, t) => if t = "y" then some .getRules else parseOp (base + i) t

/-! rendering -/
def showB (b : Bool) : String := if b then "1" else "0"
def showRule (r : Rule) : String := s!"{r.name}.{r.salience}.{showB r.enabled}.{r.tag}"
def showORule : Option Rule → String
  | some r => showRule r
  | none => "x"
def showList (xs : List String) : String := if xs.isEmpty then "-" else ",".intercalate xs
def showStats (s : Stats) : String :=
  let d := if s.dist.isEmpty then "-" else "+".intercalate (s.dist.map fun (k, c) => s!"{k}={c}")
  s!"{s.version},{s.total},{s.enabled},{s.disabled},{d}"

/-- ascending insertion sort for the canonical form of `get_rule_names` -/
def sortNat (l : List Nat) : List Nat :=
  (sortDesc (fun (n : Nat) => -(n : Int)) l)

def showOut : Out → String
  | .unit => "u"
  | .added => "ok"
  | .errDup => "dup"
  | .bool b => if b then "t" else "f"
  | .rule r => showORule r
  | .rules rs => showList (rs.map showRule)
  | .names ns => showNats (sortNat ns)
  | .nat n => toString n
  | .idxs is => showNats is
  | .stats s => showStats s

def showSnap (s : Snap) : String :=
  "|".intercalate [showList (s.rules.map showRule), showNats (sortNat s.names), toString s.count, showNats s.bysal,
    showList (s.byidx.map fun | some t => toString t | none => "x"), toString s.version, showStats s.stats,
    showList (s.lookups.map showORule), "=", "="]

def showStep (o : StepObs) : String :=
  s!"{showOut o.out}:{o.version}" ++ (match o.snap with | some s => "/" ++ showSnap s | none => "")

/-! parsing observations -/
def parseB (s : String) : Option Bool := if s = "1" then some true else if s = "0" then some false else none
def parseRule (s : String) : Option Rule :=
  match s.splitOn "." with
  | [n, v, e, t] => do pure ⟨← n.toNat?, ← v.toInt?, ← parseB e, ← t.toNat?⟩
  | _ => none
def parseORule (s : String) : Option (Option Rule) := if s = "x" then some none else (parseRule s).map some
def parseStats (s : String) : Option Stats :=
  match s.splitOn "," with
  | [v, t, e, d, dist] => do
    let ds ← (splitList dist "+").mapM fun p =>
      match p.splitOn "=" with
      | [k, c] => do pure ((← k.toInt?), (← c.toNat?))
      | _ => none
    pure { version := ← v.toNat?, total := ← t.toNat?, enabled := ← e.toNat?, disabled := ← d.toNat?, dist := ds }
  | _ => none

def parseOut (op : Op) (s : String) : Option Out :=
  match op with
  | .add _ => if s = "ok" then some .added else if s = "dup" then some .errDup else none
  | .remove _ | .setEnabled _ _ => if s = "t" then some (.bool true) else if s = "f" then some (.bool false) else none
  | .clear => if s = "u" then some .unit else none
  | .getRule _ | .byIndex _ => (parseORule s).map .rule
  | .getRules => ((splitList s ",").mapM parseRule).map .rules
  | .getRuleNames => (parseNats? s).map .names
  | .ruleCount | .version => s.toNat?.map .nat
  | .bySalience => (parseNats? s).map .idxs
  | .stats => (parseStats s).map .stats

/-- `none` = unparsable; the twin flag (`get_rules_snapshot` = `get_rules`) is returned separately -/
def parseSnap (s : String) : Option (Snap × Bool × Bool) :=
  match s.splitOn "|" with
  | [rules, names, count, bysal, byidx, version, stats, lookups, twin, expo] => do
    let bi ← (splitList byidx ",").mapM fun t => if t = "x" then some none else t.toNat?.map some
    pure ({ rules := ← (splitList rules ",").mapM parseRule, names := ← parseNats? names, count := ← count.toNat?,
            bysal := ← parseNats? bysal, byidx := bi, version := ← version.toNat?, stats := ← parseStats stats,
            lookups := ← (splitList lookups ",").mapM parseORule }, (twin = "=", expo = "="))
  | _ => none

def parseStep (op : XOp) (s : String) : Option (StepObs × Bool × Bool) :=
  let (hd, snap) := match s.splitOn "/" with
    | [a] => (a, none)
    | [a, b] => (a, some b)
    | _ => ("", none)
  match hd.splitOn ":" with
  | [o, v] => do
    let out ← match op with
      | .call op => parseOut op o
      | .clone | .swap => if o = "u" then some .unit else none
    let v ← v.toNat?
    match snap with
    | none => pure ({ out := out, version := v, snap := none }, true, true)
    | some t => do
      let (sn, twin) ← parseSnap t
      pure ({ out := out, version := v, snap := some sn }, twin)
  | _ => none

structure SeqCase where
  full : Bool
  K : Nat
  ops : List XOp

def parseSeq (ts : List String) : Option SeqCase :=
  match ts with
  | [k, kk, ops] => do
    let full ← if k = "T" then some true else if k = "S" then some false else none
    pure { full := full, K := ← kk.toNat?, ops := ← parseXOps 0 ops }
  | _ => none

structure ConcCase where
  pre : List Op
  threads : List (List Op)
  /-- the case's own token of every call (`w`, `x`, `y` are observers that share a model call with `l` / `t`) -/
  toks : List (List String) := []

def parseConc (ts : List String) : Option ConcCase :=
  match ts with
  | "C" :: pre :: ths0 => do
    let pre ← parseOps 0 pre
    let ths ← ((List.range ths0.length).zip ths0).mapM fun (i, t) => parseCOps (100 * (i + 1)) t
    pure { pre := pre, threads := ths, toks := ths0.map (splitList · ",") }
  | _ => none

/-- bulk case `B <K> <pre> <adds>`: the pre ops, then all the adds through ONE `add_rules_from_grl` call, which is
`add_rule` on each rule of the text in source order, stopping at the first error. Expected observation =
`g<count>` (all added) or `gerr` (a duplicate name met), the version and the snapshot after the adds that succeeded. -/
def bulkLine (ts : List String) : Option String :=
  match ts with
  | ["B", kk, pre, bulk] => do
    let K ← kk.toNat?
    let pre ← parseXOps 0 pre
    let bulk ← parseOps pre.length bulk
    if bulk.any (fun op => match op with | .add r => !r.enabled | _ => true) then none else
    let kb1 := (xrun {} pre).cur
    let (applied, failed) := bulkApplied kb1 bulk
    let tr := trace K true kb1 (applied ++ [.version])
    match tr.getLast? with
    | some o =>
      let res := if failed then "gerr" else s!"g{bulk.length}"
      pure (s!"{res}:{o.version}" ++ (match o.snap with | some sn => "/" ++ showSnap sn | none => ""))
    | none => none
  | _ => none

def modelLine (line : String) : String :=
  let ts := tokens line
  match ts with
  | "C" :: _ => "-"
  | "B" :: _ => (bulkLine ts).getD "bad-case"
  | _ =>
    match parseSeq ts with
    | some c =>
      let tr := xtrace c.K c.full {} c.ops
      if tr.isEmpty then "-" else ";".intercalate (tr.map showStep)
    | none => "bad-case"

def firstBad (K : Nat) : Nat → STwo → Nat → List XOp → List StepObs → Option Nat
  | _, _, _, [], [] => none
  | i, a, v, op :: ops, o :: os =>
    if xstepOk K a v op o then firstBad K (i + 1) (xspecStep a op).1 o.version ops os else some i
  | i, _, _, _, _ => some i

/-- which clause of `stepOk` failed (for the failure signature) -/
def clauseOf (K : Nat) (a : STwo) (v : Nat) (op : XOp) (o : StepObs) : String :=
  let ex := xspecStep a op
  if !Out.agrees o.out ex.2 then "result"
  else if !(match op with
      | .call op => if Out.changed op ex.2 then v < o.version else o.version == v
      | .clone => o.version == a.cur.rules.length
      | .swap => o.version == a.spare.version) then (match op with | .clone => "clone-version" | .swap => "original-version-after-clone" | _ => "version")
  else match o.snap with
    | none => "?"
    | some s =>
      let a' := ex.1.cur
      if !(s.rules == a'.listing) then "listing"
      else if !(s.names.isPerm (a'.rules.map (·.name))) then "names"
      else if !(s.count == a'.rules.length) then "count"
      else if !(s.bysal == List.range a'.rules.length) then "by-salience"
      else if !(s.byidx == a'.listing.map (fun r => some r.tag) ++ [none]) then "by-index"
      else if !(s.version == o.version) then "snapshot-version"
      else if !(s.stats == { a'.stats with version := o.version }) then "statistics"
      else if !(s.lookups == (List.range K).map a'.lookup) then "lookup"
      else "?"

def clauseAt (K : Nat) : Nat → STwo → Nat → List XOp → List StepObs → String
  | 0, a, v, op :: _, o :: _ => clauseOf K a v op o
  | i + 1, a, _, op :: ops, o :: os => clauseAt K i (xspecStep a op).1 o.version ops os
  | _, _, _, _, _ => "length"

def seqTags (c : SeqCase) (os : List StepObs) : List String :=
  let outs := os.map (·.out)
  let a := (xspecRun {} c.ops).cur
  let t (b : Bool) (s : String) := if b then [s] else []
  let dup := outs.contains .errDup
  let removed := (c.ops.zip outs).any fun (op, o) => match op, o with | .call (.remove _), .bool true => true | _, _ => false
  let toggled := (c.ops.zip outs).any fun (op, o) => match op, o with | .call (.setEnabled _ _), .bool true => true | _, _ => false
  let missed := outs.contains (.bool false)
  let cleared := c.ops.contains (.call .clear)
  let cloned := c.ops.contains .clone
  let swapped := c.ops.contains .swap && cloned
  let reorder := a.listing != a.rules
  t dup "dup" ++ t removed "removed" ++ t toggled "toggled" ++ t missed "absent-name" ++ t cleared "cleared"
    ++ t cloned "cloned" ++ t swapped "clone-and-original" ++ t reorder "reordered" ++ [s!"len{c.ops.length}", s!"stored{a.rules.length}"]
    ++ t (dup || removed || reorder || a.rules.length ≥ 2) "nontrivial"

def oracleSeq (c : SeqCase) (obs : String) : String :=
  let parts := splitList obs ";"
  if obs.startsWith "panic:" then "fail panic"
  else if parts.length != c.ops.length then "fail length" else
  match (c.ops.zip parts).mapM fun (op, s) => parseStep op s with
  | none => "fail unparsable-observation"
  | some xs =>
    let os := xs.map (·.1)
    if xs.any (fun x => !x.2.1) then "fail snapshot-twin"
    else if xs.any (fun x => !x.2.2) then "fail snapshot-export"
    else if xrunOk c.K {} 0 c.ops os then joinSp ("ok" :: seqTags c os)
    else match firstBad c.K 0 {} 0 c.ops os with
      | some i => s!"fail {clauseAt c.K i {} 0 c.ops os}@{i}"
      | none => "fail runOk"

/-- the event and the public read method it is a call of (`-` for a mutator): the first letter of the case's token -/
def parseEvent (c : ConcCase) (idx : Nat) (s : String) : Option (Event × String) :=
  match s.splitOn ":" with
  | [who, inv, resp, out] =>
    match who.splitOn "." with
    | [t, p] => do
      let t ← t.toNat?
      let p ← p.toNat?
      let ops ← c.threads[t]?
      let op ← ops[p]?
      let tok := ((c.toks[t]?.getD [])[p]?).getD "-"
      let letter := String.ofList (tok.toList.take 1)
      let rd := if ["g", "l", "n", "k", "s", "i", "v", "t", "w", "x", "y"].contains letter then letter else "-"
      pure ({ id := idx, inv := ← inv.toNat?, resp := ← resp.toNat?, op := op, out := ← parseOut op out }, rd)
    | _ => none
  | _ => none

def oracleConc (c : ConcCase) (obs : String) : String :=
  let parts := splitList obs ";"
  let total := (c.threads.map List.length).sum
  if obs.startsWith "panic" then "fail panic"
  else if parts.length != total then "fail length" else
  match ((List.range parts.length).zip parts).mapM fun (i, s) => parseEvent c i s with
  | none => "fail unparsable-observation"
  | some evls =>
    let evs := evls.map (·.1)
    let kb0 := c.pre.foldl (fun kb op => (step kb op).1) KB.init
    if linSearch evs.length evs kb0 then
      let overlap := evs.any fun e => evs.any fun f => e.id != f.id && e.inv < f.resp && f.inv < e.resp
      let changed := evs.any fun e => Out.changed e.op e.out
      let t (b : Bool) (s : String) := if b then [s] else []
      -- `rd_<m>`: a call of the public read method <m> ran while a call of another thread that changed the knowledge
      -- base was in flight (g get_rule, l get_rules, n get_rule_names, k rule_count, s get_rules_by_salience,
      -- i get_rule_by_index, v version, t get_statistics, w get_rules_snapshot, x export_to_grl, y clone)
      let contended := (evls.filter fun (e, rd) => rd != "-" &&
        evs.any fun f => e.id != f.id && e.inv < f.resp && f.inv < e.resp && Out.changed f.op f.out).map (·.2)
      let rds := ["g", "l", "n", "k", "s", "i", "v", "t", "w", "x", "y"].filter contended.contains
      joinSp ("ok" :: "conc" :: t overlap "overlap" ++ t changed "changed" ++ rds.map ("rd_" ++ ·)
        ++ t (overlap && changed) "nontrivial")
    else "fail not-linearizable"

def oracleLine (line : String) : String :=
  match line.splitOn " | " with
  | [c, o] =>
    let ts := tokens c
    let o := o.trimAscii.toString
    match ts with
    | "C" :: _ =>
      match parseConc ts with
      | some cc => oracleConc cc o
      | none => "bad-input"
    | "B" :: _ =>
      -- the expected observation is computed from the sequential model (proved equal to the spec: kb_refines_spec)
      match bulkLine ts with
      | some ex =>
        if o.startsWith "panic" then "fail panic"
        else if o == ex then (if ex.startsWith "gerr" then "ok bulk bulk_dup nontrivial" else "ok bulk nontrivial")
        else if (o.splitOn ":").head? != (ex.splitOn ":").head? then "fail bulk-result"
        else "fail bulk-state"
      | none => "bad-input"
    | _ =>
      match parseSeq ts with
      | some sc => oracleSeq sc o
      | none => "bad-input"
  | _ => "bad-input"

def main (args : List String) : IO Unit :=
  match args with
  | ["model"] => mapLines modelLine
  | ["oracle"] => mapLines oracleLine
  | _ => IO.eprintln "usage: drv_c15 model|oracle"
