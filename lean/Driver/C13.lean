import RreModel.Proto
import RreModel.C13.Spec
/-
Driver for C13.  case  := `<W> <L> <ev,ev,...>`   W ∈ B<dur> | M | C | P<interval> ;  L ∈ D | A<dur> | S | R
                 dur   := <ms> | <secs>s<nanos> | MAX   (Duration::from_millis / Duration::new(secs, nanos), nanos < 10^9 /
                          Duration::MAX); the model strategy carries the effective delay `C13.durMillisU64 secs nanos`
                          (= `d.as_millis() as u64`)
                 ev    := <ts> | <ts>@<now>   (now = reading of the generator's processing-time clock when the event
                          is offered, default 0; the generator is created at reading 0)
                          each ev may end in `#<src>.<typ>.<pay>.<ids>.<seq>.<tag>` (harness tables): the DECORATION of the offered
                          StreamEvent — source, event type, payload, id text, sequence number, tags. The model is a function of
                          (position, ts, now) only: the driver DROPS the decoration (`stripDeco`); the oracle is the same `runOk`.
                 obs   := step;step;...   step := wm/hist/events/side/late,dropped,allowed,sidecount
  drv_c13 model   : case            ↦ obs predicted by the model
  drv_c13 oracle  : case | obs      ↦ `ok <tags>` / `fail <clause>` (Spec.runOk on the observations)
-/
open Proto C13

/-- a configured `Duration` as (secs, nanos): `<ms>` (u64, `Duration::from_millis`), `<secs>s<nanos>` (`Duration::new`, secs a u64,
nanos < 10^9), `MAX` (`Duration::MAX` = u64::MAX s + 999_999_999 ns) -/
def parseDur (s : String) : Option (Nat × Nat) :=
  if s = "MAX" then some (18446744073709551615, 999999999)
  else match s.splitOn "s" with
    | [ms] => do
      let ms ← ms.toNat?
      if ms < 18446744073709551616 then pure (ms / 1000, (ms % 1000) * 1000000) else none
    | [a, b] => do
      let a ← a.toNat?
      let b ← b.toNat?
      if a < 18446744073709551616 && b < 1000000000 then pure (a, b) else none
    | _ => none

/-- the delay the code computes from the configured duration: `d.as_millis() as u64` -/
def parseDelay (s : String) : Option Nat :=
  (parseDur s).map fun (a, b) => durMillisU64 a b

def parseW (s : String) : Option WmStrategy :=
  if s = "M" then some .monotonic
  else if s = "C" then some .custom
  else if s.startsWith "B" then (parseDelay (s.drop 1).toString).map .bounded
  else if s.startsWith "P" then (s.drop 1).toNat?.map .periodic
  else none

/-- the event token without its decoration -/
def stripDeco (s : String) : String := (s.splitOn "#").head!

/-- the source index of the decoration (0 when there is none) -/
def srcOf (s : String) : Nat :=
  match s.splitOn "#" with
  | [_, d] => ((d.splitOn ".").head!.toNat?).getD 0
  | _ => 0

/-- `<ts>` or `<ts>@<now>`, an optional `#decoration` ignored -/
def parseEvTok (s : String) : Option (Nat × Nat) :=
  match (stripDeco s).splitOn "@" with
  | [t] => t.toNat?.map (·, 0)
  | [t, n] => do pure (← t.toNat?, ← n.toNat?)
  | _ => none

def parseEvs (s : String) : Option (List (Nat × Nat)) :=
  if s = "-" then some [] else (s.splitOn ",").mapM parseEvTok

def parseL (s : String) : Option LateStrategy :=
  if s = "D" then some .drop
  else if s = "S" then some .sideOutput
  else if s = "R" then some .recompute
  else if s.startsWith "A" then (parseDelay (s.drop 1).toString).map .allowed
  else none

def parseCase (line : String) : Option (WmStrategy × LateStrategy × List Ev) :=
  match tokens line with
  | [w, l, ts] => do
    let w ← parseW w
    let l ← parseL l
    let ts ← parseEvs ts
    pure (w, l, (List.range ts.length).zip ts |>.map fun (i, (t, n)) => ⟨i, t, n⟩)
  | _ => none

def showObs (o : Obs) : String :=
  s!"{o.wm}/{showNats o.history}/{showNats o.events}/{showNats o.side}/{o.late},{o.dropped},{o.allowed},{o.sideCount}"

def showTrace (os : List Obs) : String :=
  if os.isEmpty then "-" else ";".intercalate (os.map showObs)

def parseObs (s : String) : Option Obs :=
  match s.splitOn "/" with
  | [wm, h, ev, sd, st] => do
    let wm ← wm.toNat?
    let h ← parseNats? h
    let ev ← parseNats? ev
    let sd ← parseNats? sd
    match ← parseNats? st with
    | [a, b, c, d] => pure { wm := wm, history := h, events := ev, side := sd, late := a, dropped := b, allowed := c, sideCount := d }
    | _ => none
  | _ => none

def parseTrace (s : String) : Option (List Obs) :=
  if s = "-" then some [] else (s.splitOn ";").mapM parseObs

def modelLine (line : String) : String :=
  match parseCase line with
  | some (w, l, es) => showTrace (trace w l init es)
  | none => "bad-case"

/-- first failing step index, for the replay file -/
def firstBad (w : WmStrategy) (l : LateStrategy) : Nat → List Nat → Obs → List Ev → List Obs → Option Nat
  | _, _, _, [], [] => none
  | i, seen, o, e :: es, o' :: os =>
    if stepOk w l (seen ++ [e.ts]) o e o' then firstBad w l (i+1) (seen ++ [e.ts]) o' es os else some i
  | i, _, _, _, _ => some i

def oracleLine (line : String) : String :=
  match line.splitOn " | " with
  | [c, o] =>
    match parseCase c, parseTrace o.trimAscii.toString with
    | some (w, l, es), some os =>
      if runOk w l [] initObs es os then
        let last := os.getLast?.getD initObs
        let tags := (if last.late > 0 then ["late"] else []) ++ (if last.dropped > 0 then ["dropped"] else [])
          ++ (if last.allowed > 0 then ["allowed"] else []) ++ (if last.sideCount > 0 then ["side"] else [])
          ++ (if last.history.length ≥ 2 then ["wm_advanced_twice"] else [])
          ++ (match w with | .periodic _ => ["periodic"] | .bounded _ => ["bounded"] | .monotonic => ["monotonic"] | .custom => ["custom"])
          ++ (if (c.splitOn "s").length > 1 || (c.splitOn "MAX").length > 1 then ["dur_secs_nanos"] else [])
          ++ (if (c.splitOn "#").length > 1 then ["decorated"] else [])
          ++ (match tokens c with
              | [_, _, evs] => if ((evs.splitOn ",").map srcOf).eraseDups.length ≥ 2 then ["multi_source"] else []
              | _ => [])
          ++ (if last.late > 0 then ["nontrivial"] else [])
        joinSp ("ok" :: tags)
      else
        match firstBad w l 0 [] initObs es os with
        | some i => s!"fail stepOk@{i}"
        | none => "fail runOk"
    | _, _ => "bad-input"
  | _ => "bad-input"

def main (args : List String) : IO Unit :=
  match args with
  | ["model"] => mapLines modelLine
  | ["oracle"] => mapLines oracleLine
  | _ => IO.eprintln "usage: drv_c13 model|oracle"
