import RreModel.Proto
import RreModel.C16.Spec
/-
Driver for C16 (line protocol documented in harness/src/bin/c16.rs).
  drv_c16 model   : case        ↦ the observation the model predicts
  drv_c16 oracle  : case | obs  ↦ `ok <tags>` / `fail <clause>`  (Spec predicates on the implementation's observations)
Floats: bit pattern + the `Debug` text Rust printed for it (used only to render beta keys); `==`, NaN
test and zero test are done on the IEEE double with that bit pattern.
-/
open Proto C16

structure DFloat where
  bits : UInt64
  text : String
deriving DecidableEq, Repr

def dops : FloatOps DFloat where
  feq a b := Float.ofBits a.bits == Float.ofBits b.bits
  isNan a := (Float.ofBits a.bits).isNaN
  canon a := if Float.ofBits a.bits == 0.0 then { bits := 0, text := "0.0" } else a

abbrev V := Val DFloat
abbrev Fs := Facts DFloat

def hexNat? (s : String) : Option Nat :=
  s.toList.foldlM (fun acc c => (hexDigit? c).map (fun d => acc * 16 + d)) 0

/-- one value from a prefix token stream -/
partial def decVal : List String → Option (V × List String)
  | [] => none
  | t :: rest =>
    let body := (t.drop 1).toString
    if t.startsWith "i" then body.toInt?.map (fun i => (.int i, rest))
    else if t.startsWith "f" then
      match body.splitOn "_" with
      | [b, tx] => do
        let n ← hexNat? b
        let tx ← hexString? tx
        pure (.flt { bits := UInt64.ofNat n, text := tx }, rest)
      | _ => none
    else if t.startsWith "s" then (hexString? body).map (fun s => (.str s, rest))
    else if t = "bt" then some (.bool true, rest)
    else if t = "bf" then some (.bool false, rest)
    else if t = "n" then some (.null, rest)
    else if t.startsWith "a" then do
      let k ← body.toNat?
      let rec go : Nat → List String → List V → Option (List V × List String)
        | 0, ts, acc => some (acc.reverse, ts)
        | n + 1, ts, acc => do
          let (v, ts') ← decVal ts
          go n ts' (v :: acc)
      let (xs, rest') ← go k rest []
      pure (.arr xs, rest')
    else none

def parseVal (s : String) : Option V :=
  match decVal (s.splitOn ",") with
  | some (v, []) => some v
  | _ => none

def parseFacts (s : String) : Option Fs :=
  if s = "-" then some []
  else (s.splitOn "/").mapM fun kv =>
    match kv.splitOn "=" with
    | [k, v] => (parseVal v).map (fun v => (k, v))
    | _ => none

/-- split `a:b:rest…` into at most `n` parts (the last keeps its colons) -/
def splitN (s : String) (n : Nat) : List String :=
  let ps := s.splitOn ":"
  if ps.length ≤ n then ps else ps.take (n - 1) ++ [":".intercalate (ps.drop (n - 1))]

def showLists (rs : List (List Nat × List Nat)) : List String :=
  rs.map fun (a, b) => s!"{showNats a}/{showNats b}"

def sortStrs (xs : List String) : List String := xs.mergeSort (fun a b => !(decide (b < a)))
def showNames (xs : List String) : String :=
  if xs.isEmpty then "-" else ",".intercalate (sortStrs xs)
def parseNames (s : String) : List String := if s = "-" then [] else s.splitOn ","

def parsePair (s : String) : Option (List Nat × List Nat) :=
  match s.splitOn "/" with
  | [a, b] => do pure (← parseNats? a, ← parseNats? b)
  | _ => none

/-! ### `Debug` text of a `FactValue` (the beta key) -/
def dbgStr (s : String) : String :=
  "\"" ++ String.join (s.toList.map fun c => if c = '"' then "\\\"" else if c = '\\' then "\\\\" else String.singleton c) ++ "\""

partial def render : V → String
  | .str s => "String(" ++ dbgStr s ++ ")"
  | .int i => s!"Integer({i})"
  | .flt f => "Float(" ++ f.text ++ ")"
  | .bool b => if b then "Boolean(true)" else "Boolean(false)"
  | .arr xs => "Array([" ++ ", ".intercalate (xs.map render) ++ "])"
  | .null => "Null"

/-! ### A: alpha -/

/-- ops (T<n> expanded to n tracked calls) and, per observed answer, how many model answers it stands for -/
def parseAlpha (toks : List String) : Option (List (AOp DFloat) × List Nat) :=
  toks.foldlM (init := ([], [])) fun (ops, reps) t =>
    match splitN t 3 with
    | ["I", f] => (parseFacts f).map fun f => (ops ++ [.insert f], reps)
    | ["C", φ] => some (ops ++ [.create φ], reps)
    | ["D", φ] => some (ops ++ [.drop φ], reps)
    | ["U"] => some (ops ++ [.autoTune], reps)
    | ["X"] => some (ops ++ [.clear], reps)
    | ["F", φ, v] => (parseVal v).map fun v => (ops ++ [.filter φ v], reps ++ [1])
    | [tn, φ, v] =>
      if tn.startsWith "T" then do
        let n ← (tn.drop 1).toString.toNat?
        let n := max n 1
        let v ← parseVal v
        pure (ops ++ List.replicate n (.tracked φ v), reps ++ [n])
      else none
    | _ => none

/-- keep the last of each group of `reps` answers; `none` if a group is not constant -/
def collapse : List Nat → List (List Nat) → Option (List (List Nat))
  | [], [] => some []
  | n :: ns, xs =>
    match xs.take n with
    | [] => none
    | g :: gs => if gs.all (· == g) && (g :: gs).length == n then (collapse ns (xs.drop n)).map (g :: ·) else none
  | _, _ => none

def expand (reps : List Nat) (xs : List (List Nat)) : List (List Nat) :=
  (reps.zip xs).flatMap fun (n, x) => List.replicate n x

def alphaTail (s : AState DFloat (List (Tok DFloat))) : List String :=
  [s!"n={s.facts.length}", "ix=" ++ showNames s.indexes.keys]

def modelAlpha (toks : List String) : String :=
  match parseAlpha toks with
  | none => "bad-case"
  | some (ops, reps) =>
    let key := canonKey dops
    match collapse reps (aTrace dops key {} ops), collapse reps (aExpected dops [] ops) with
    | some got, some lin => joinSp (showLists (got.zip lin) ++ alphaTail (aRun key ops))
    | _, _ => "model-unstable"

/-- tags: was some filter answered through an index, and non-empty -/
def alphaTags (ops : List (AOp DFloat)) : List String :=
  let key := canonKey dops
  let (_, viaIx, hit, special) := ops.foldl (init := (({} : AState DFloat (List (Tok DFloat))), false, false, false))
    fun (s, a, b, c) op =>
      let (a', b', c') := match op with
        | .filter φ v | .tracked φ v =>
          let ixd := s.indexes.contains φ
          let r := aFilter dops key s φ v
          (a || ixd, b || (ixd && !r.isEmpty), c || (ixd && (canonKey dops v != rawKey v)))
        | _ => (a, b, c)
      (aStep key s op, a', b', c')
  ["alpha"] ++ (if viaIx then ["a_indexed"] else ["a_linear_only"]) ++ (if hit then ["a_index_hit", "nontrivial"] else [])
    ++ (if special then ["a_special_float_key"] else [])
    ++ [s!"a_ops{ops.length.min 12}"]

def oracleAlpha (toks : List String) (obs : List String) : String :=
  match parseAlpha toks with
  | none => "bad-input"
  | some (ops, reps) =>
    let n := reps.length
    if obs.length != n + 2 then "fail alpha-shape" else
    match (obs.take n).mapM parsePair with
    | none => "fail alpha-parse"
    | some prs =>
      let got := expand reps (prs.map (·.1))
      let lin := expand reps (prs.map (·.2))
      if got != lin then "fail alpha-index-vs-linear"
      else if alphaOk dops ops got lin then joinSp ("ok" :: alphaTags ops)
      else "fail alpha-vs-plain"

/-! ### B: beta -/

def parseBeta (toks : List String) : Option (String × List (BOp DFloat)) :=
  match toks with
  | [] => none
  | jk :: rest => do
    let ops ← rest.mapM fun t =>
      match splitN t 3 with
      | ["A", i, f] => do pure (BOp.add (← parseFacts f) (← i.toNat?))
      | ["R", i, f] => do pure (BOp.remove (← parseFacts f) (← i.toNat?))
      | ["L", "v", v] => (parseVal v).map fun v => BOp.lookup (render v)
      | ["L", "t", h] => (hexString? h).map BOp.lookup
      | _ => none
    pure (jk, ops)

def modelBeta (toks : List String) : String :=
  match parseBeta toks with
  | none => "bad-case"
  | some (jk, ops) =>
    let got := bTrace render jk {} ops
    let ref := bExpected render jk [] ops
    joinSp (showLists (got.zip ref) ++ [s!"size={bSize (bRun render jk {} ops)}"])

def oracleBeta (toks : List String) (obs : List String) : String :=
  match parseBeta toks with
  | none => "bad-input"
  | some (jk, ops) =>
    let n := (ops.filter fun | .lookup _ => true | _ => false).length
    if obs.length != n + 1 then "fail beta-shape" else
    match (obs.take n).mapM parsePair with
    | none => "fail beta-parse"
    | some prs =>
      let got := prs.map (·.1)
      let ref := prs.map (·.2)
      if got != ref then "fail beta-lookup-vs-live"
      else if betaOk render jk ops got ref then
        let removes := (ops.filter fun | .remove _ _ => true | _ => false).length
        joinSp (["ok", "beta"] ++ (if got.any (!·.isEmpty) then ["b_hit", "nontrivial"] else [])
          ++ (if removes > 0 then ["b_remove"] else []) ++ (if got.any (·.length ≥ 2) then ["b_multi"] else [])
          ++ (if got.any (·.length > 32) then ["b_hot_gt32"] else []))
      else "fail beta-vs-plain"

/-! ### M: memo -/

partial def decNode : List String → Option (Node DFloat × List String)
  | "and" :: r => do let (a, r) ← decNode r; let (b, r) ← decNode r; pure (.and a b, r)
  | "or" :: r => do let (a, r) ← decNode r; let (b, r) ← decNode r; pure (.or a b, r)
  | "not" :: r => do let (a, r) ← decNode r; pure (.not a, r)
  | "al" :: φ :: op :: lit :: r => do
    let ne ← if op = "eq" then some false else if op = "ne" then some true else none
    let lit ← hexString? lit
    let (v, r) ← decVal r
    pure (.alpha φ ne lit v, r)
  | "co" :: φ :: lit :: r => do
    let lit ← hexString? lit
    let (v, r) ← decVal r
    pure (.contains φ lit v, r)
  | "cnt" :: φ :: op :: k :: r => do
    let k ← k.toInt?
    if op = "any" then pure (.count φ none, r) else
    let op ← (match op with
      | "gt" => some CmpOp.gt | "lt" => some .lt | "ge" => some .ge | "le" => some .le
      | "eq" => some .eq | "ne" => some .ne | "xx" => some .other | _ => none)
    pure (.count φ (some (op, k)), r)
  | "mf" :: φ :: op :: r => do
    let op ← (match op with
      | "empty" => some MultiOp.empty | "nonempty" => some .notEmpty | "first" => some .first
      | "last" => some .last | "collect" => some .collect | _ => none)
    pure (.multi φ op, r)
  | _ => none

abbrev MN := String × Node DFloat

structure MemoCase where
  ops : List (MOp MN DFloat)

def parseMemo (toks : List String) : Option (List (MOp MN DFloat)) := do
  let (_, _, ops) ← toks.foldlM (init := (([] : List MN), ([] : List Fs), ([] : List (MOp MN DFloat))))
    fun (nodes, sets, ops) t =>
      if t.startsWith "N:" then
        let body := (t.drop 2).toString
        match decNode (body.splitOn ",") with
        | some (n, []) => some (nodes ++ [(body, n)], sets, ops)
        | _ => none
      else if t.startsWith "S:" then (parseFacts (t.drop 2).toString).map fun f => (nodes, sets ++ [f], ops)
      else if t.startsWith "E:" then
        match (t.drop 2).toString.splitOn ":" with
        | [a, b] => do
          let n ← nodes[(← a.toNat?)]?
          let f ← sets[(← b.toNat?)]?
          pure (nodes, sets, ops ++ [.eval n f])
        | _ => none
      else if t = "K" then some (nodes, sets, ops ++ [.clear])
      else none
  pure ops

def showBits (bs : List Bool) : String :=
  if bs.isEmpty then "-" else String.ofList (bs.map fun b => if b then '1' else '0')
def parseBits (s : String) : List Bool := if s = "-" then [] else s.toList.map (· == '1')

def mKey : MN → Fs → String × List (Tok DFloat) := memoKey (·.1)
def mEv : MN → Fs → Bool := fun n f => evalNode dops n.2 f

def modelMemo (toks : List String) : String :=
  match parseMemo toks with
  | none => "bad-case"
  | some ops =>
    let s := mRun mKey mEv ops
    s!"d={showBits (directTrace mEv ops)} m={showBits (mTrace mKey mEv {} ops)} h={showNats (mHits mKey mEv {} ops)} miss={s.misses} size={s.cache.length}"

def field (obs : List String) (name : String) : Option String :=
  (obs.find? (·.startsWith (name ++ "="))).map fun t => (t.drop (name.length + 1)).toString

def oracleMemo (toks : List String) (obs : List String) : String :=
  match parseMemo toks, field obs "d", field obs "m", field obs "h" with
  | some ops, some d, some m, some h =>
    let d := parseBits d
    let m := parseBits m
    let evals := (ops.filter fun | .eval _ _ => true | _ => false).length
    if d.length != evals || m.length != evals then "fail memo-shape"
    else if memoOk d m then
      let hits := (parseNats? h).getD []
      let anyHit := hits.any (· > 0)
      let nested := ops.any fun
        | .eval _ f => f.any (fun kv => match kv.2 with | .arr xs => xs.any (fun x => match x with | .arr _ => true | _ => false) | _ => false)
        | .clear => false
      let multi := ops.any fun
        | .eval n _ => (n.1.splitOn ",").any (fun t => t = "cnt" || t = "mf" || t = "co")
        | .clear => false
      joinSp (["ok", "memo"] ++ (if anyHit then ["m_hit", "nontrivial"] else []) ++ (if d.any id then ["m_true"] else [])
        ++ (if d.any (!·) then ["m_false"] else []) ++ (if nested then ["m_nested_array"] else [])
        ++ (if multi then ["m_multifield_or_contains"] else []))
    else "fail memo-vs-direct"
  | _, _, _, _ => "bad-input"

/-! ### C / E: conclusion index -/

def parseAct (s : String) : Option Act :=
  match s.splitOn "~" with
  | ["S", f] => some (.set f)
  | ["M", o, m] => some (.method o m)
  | ["R", o] => some (.retract o)
  | ["W", k] => some (.workflow k)
  | ["L"] => some .other
  | _ => none

def parseRule (s : String) : Option CRule :=
  match splitN s 3 with
  | [name, en, acts] => do
    let acts ← if acts = "-" then some [] else (acts.splitOn ";").mapM parseAct
    pure { name := name, enabled := en = "e", actions := acts }
  | _ => none

def parseConcl (toks : List String) : Option (List COp) :=
  toks.mapM fun t =>
    if t.startsWith "+" then (parseRule (t.drop 1).toString).map COp.add
    else if t.startsWith "-" then some (.remove (t.drop 1).toString)
    else if t.startsWith "?" then (hexString? (t.drop 1).toString).map COp.find
    else if t = "X" then some .clear
    else none

def modelConcl (toks : List String) : String :=
  match parseConcl toks with
  | none => "bad-case"
  | some ops =>
    let tr := cTrace {} [] ops
    let s := cRun ops
    joinSp (tr.map (fun (g, sc) => s!"{showNames g}/{showNames sc}")
      ++ [s!"rules={s.count}", s!"fields={s.f2r.length}", s!"empty={if s.count == 0 then 1 else 0}"])

def oracleConcl (toks : List String) (obs : List String) : String :=
  match parseConcl toks with
  | none => "bad-input"
  | some ops =>
    let n := (ops.filter fun | .find _ => true | _ => false).length
    if obs.length != n + 3 then "fail concl-shape" else
    let prs := (obs.take n).map fun t =>
      match t.splitOn "/" with
      | [a, b] => (parseNames a, parseNames b)
      | _ => ([], ["?"])
    let got := prs.map (·.1)
    let scan := prs.map (·.2)
    if !cComplete (got.zip scan) then "fail concl-incomplete"
    else if conclOk ops sortStrs got scan then
      let readd := (ops.filter fun | .add _ => true | _ => false).length
      joinSp (["ok", "concl"] ++ (if scan.any (!·.isEmpty) then ["c_scan_nonempty", "nontrivial"] else [])
        ++ (if got.zip scan |>.any (fun (g, s) => g.length > s.length) then ["c_overapprox"] else [])
        ++ (if ops.any (fun | .remove _ => true | _ => false) then ["c_remove"] else []) ++ (if readd ≥ 2 then ["c_multi_add"] else []))
    else "fail concl-scan-vs-plain"

def parseEngine (toks : List String) : Option (List CRule × List EOp) := do
  let initToks := toks.takeWhile (·.startsWith "+")
  let restToks := toks.drop initToks.length
  let init ← initToks.mapM fun t => parseRule (t.drop 1).toString
  let ops ← restToks.mapM fun t =>
    if t.startsWith "+" then (parseRule (t.drop 1).toString).map EOp.add
    else if t.startsWith "-" then some (.remove (t.drop 1).toString)
    else if t.startsWith "e:" then
      match (t.drop 2).toString.splitOn ":" with
      | [n, b] => some (.enable n (b = "1"))
      | _ => none
    else if t = "B" || t = "W" then some .rebuild
    else none
  pure (init, ops)

def showStats (p : Nat × Nat) : String := s!"{p.1},{p.2}"

def modelEngine (toks : List String) : String :=
  match parseEngine toks with
  | none => "bad-case"
  | some (init, ops) =>
    let s0 := eNew init
    let (_, outs) := ops.foldl (init := (s0, [showStats (eStats s0)])) fun (s, o) op =>
      let s' := eStep s op
      (s', o ++ [showStats (eStats s')])
    joinSp outs

/-- the statistics the engine must show: those of an index built from the knowledge base as it was
at the last (re)build — in particular equal to `from_rules` of the *current* rules right after a rebuild -/
def engineExpected (init : List CRule) (ops : List EOp) : List String :=
  let s0 := eNew init
  (ops.foldl (init := (s0, [showStats (eStats s0)])) fun (s, o) op =>
    let s' := eStep s op
    (s', o ++ [showStats (eStats s')])).2

def oracleEngine (toks : List String) (obs : List String) : String :=
  match parseEngine toks with
  | none => "bad-input"
  | some (init, ops) =>
    if obs.length != ops.length + 1 then "fail engine-shape"
    else if obs != engineExpected init ops then "fail engine-index-out-of-sync"
    else
      let distinct := obs.eraseDups.length
      joinSp (["ok", "engine"] ++ (if distinct ≥ 2 then ["e_stats_change", "nontrivial"] else []))

def modelLine (line : String) : String :=
  match tokens line with
  | "A" :: r => modelAlpha r
  | "B" :: r => modelBeta r
  | "M" :: r => modelMemo r
  | "C" :: r => modelConcl r
  | "E" :: r => modelEngine r
  | _ => "bad-case"

def oracleLine (line : String) : String :=
  match line.splitOn " | " with
  | [c, o] =>
    let obs := tokens o
    match tokens c with
    | "A" :: r => oracleAlpha r obs
    | "B" :: r => oracleBeta r obs
    | "M" :: r => oracleMemo r obs
    | "C" :: r => oracleConcl r obs
    | "E" :: r => oracleEngine r obs
    | _ => "bad-input"
  | _ => "bad-input"

def main (args : List String) : IO Unit :=
  match args with
  | ["model"] => mapLines modelLine
  | ["oracle"] => mapLines oracleLine
  | _ => IO.eprintln "usage: drv_c16 model|oracle"
