import RreModel.Proto
import RreModel.C16.Spec2
/-
Driver for C16 (line protocol documented in harness/src/bin/c16.rs).
  drv_c16 model   : case        ↦ the observation the model predicts
  drv_c16 oracle  : case | obs  ↦ `ok <tags>` / `fail <clause>`  (Spec predicates on the implementation's observations)
Floats: bit pattern + the `Debug` text Rust printed for it when the case was generated (`Fmt.fmtFloat`; the contract
`FmtLaws` is checked on the floats of every case: oracle clause `float-contract`); `==`, NaN test and zero test are done
on the IEEE double with that bit pattern. Key texts are rendered by the MODEL (`C16.debugKey`, `C16.alphaKey`,
`C16.nodeKeyText`) and compared with what the implementation printed (`kt=`, `ik=`, `nk=`).
-/
open Proto C16

structure DFloat where
  bits : UInt64
  text : String
deriving DecidableEq, Repr

def dops : FloatOps DFloat where
  feq a b := Float.ofBits a.bits == Float.ofBits b.bits
  isNan a := (Float.ofBits a.bits).isNaN
  canon a := if Float.ofBits a.bits == 0.0 then { bits := 0, text := "0.0" } else a

abbrev V := Val DFloat
abbrev Fs := Facts DFloat

def hexNat? (s : String) : Option Nat :=
  s.toList.foldlM (fun acc c => (hexDigit? c).map (fun d => acc * 16 + d)) 0

/-- one value from a prefix token stream -/
partial def decVal : List String → Option (V × List String)
  | [] => none
  | t :: rest =>
    let body := (t.drop 1).toString
    if t.startsWith "i" then body.toInt?.map (fun i => (.int i, rest))
    else if t.startsWith "f" then
      match body.splitOn "_" with
      | [b, tx] => do
        let n ← hexNat? b
        let tx ← hexString? tx
        pure (.flt { bits := UInt64.ofNat n, text := tx }, rest)
      | _ => none
    else if t.startsWith "s" then (hexString? body).map (fun s => (.str s, rest))
    else if t = "bt" then some (.bool true, rest)
    else if t = "bf" then some (.bool false, rest)
    else if t = "n" then some (.null, rest)
    else if t.startsWith "a" then do
      let k ← body.toNat?
      let rec go : Nat → List String → List V → Option (List V × List String)
        | 0, ts, acc => some (acc.reverse, ts)
        | n + 1, ts, acc => do
          let (v, ts') ← decVal ts
          go n ts' (v :: acc)
      let (xs, rest') ← go k rest []
      pure (.arr xs, rest')
    else none

def parseVal (s : String) : Option V :=
  match decVal (s.splitOn ",") with
  | some (v, []) => some v
  | _ => none

def parseFacts (s : String) : Option Fs :=
  if s = "-" then some []
  else (s.splitOn "/").mapM fun kv =>
    match kv.splitOn "=" with
    | [k, v] => (parseVal v).map (fun v => (k, v))
    | _ => none

/-- split `a:b:rest…` into at most `n` parts (the last keeps its colons) -/
def splitN (s : String) (n : Nat) : List String :=
  let ps := s.splitOn ":"
  if ps.length ≤ n then ps else ps.take (n - 1) ++ [":".intercalate (ps.drop (n - 1))]

def showLists (rs : List (List Nat × List Nat)) : List String :=
  rs.map fun (a, b) => s!"{showNats a}/{showNats b}"

def sortStrs (xs : List String) : List String := xs.mergeSort (fun a b => !(decide (b < a)))
def showNames (xs : List String) : String :=
  if xs.isEmpty then "-" else ",".intercalate (sortStrs xs)
def parseNames (s : String) : List String := if s = "-" then [] else s.splitOn ","

def parsePair (s : String) : Option (List Nat × List Nat) :=
  match s.splitOn "/" with
  | [a, b] => do pure (← parseNats? a, ← parseNats? b)
  | _ => none

def field (obs : List String) (name : String) : Option String :=
  (obs.find? (·.startsWith (name ++ "="))).map fun t => (t.drop (name.length + 1)).toString

/-! ### `Debug` text of a `FactValue`: the model's renderer, instantiated -/

/-- `is_printable(c) && !is_grapheme_extended(c)`: exact for ASCII; for the rest of Unicode the table holds the
printable code points the generator draws from (every other non-ASCII character it draws is escaped by Rust) -/
def printableD (c : Char) : Bool :=
  let n := c.toNat
  if n < 128 then decide (32 ≤ n ∧ n ≤ 126)
  else [0xe9, 0xdf, 0xfc, 0x3a9, 0x416, 0x4e2d, 0x3042, 0xac00, 0x2200, 0x1f600, 0x1d11e].contains n

def Rd : Fmt DFloat := { printable := printableD, fmtFloat := fun f => f.text.toList }

def render (v : V) : String := debugKey Rd v
def aKey : V → Option String := alphaKey dops Rd

mutual
partial def floatsOf : V → List DFloat
  | .flt f => [f]
  | .arr xs => xs.flatMap floatsOf
  | _ => []
end

def hexList (xs : List String) : String := if xs.isEmpty then "-" else ",".intercalate (xs.map hexOfString)
def ktField (vs : List V) : String := "kt=" ++ hexList (vs.map render)
def factsVals (f : Fs) : List V := f.map (·.2)

/-- the implementation's `kt=` trailer against the model's text, and the float contract on the case's floats -/
def ktCheck (vs : List V) (obs : List String) : Option String :=
  let fl := (vs.flatMap floatsOf).eraseDups
  if !fmtContractOk dops Rd fl then some "fail float-contract"
  else match obs.find? (·.startsWith "kt=") with
    | none => some "fail key-text-missing"
    | some t =>
      let impl := if t = "kt=-" then [] else ((t.drop 3).toString.splitOn ",").map (fun h => (hexString? h).getD "?")
      if impl.length != vs.length then some "fail key-text-shape"
      else if (vs.zip impl).all (fun (v, t) => keyTextOk Rd v t) then none else some "fail key-text-vs-model"

/-! ### A: alpha -/

/-- ops (T<n> expanded to n tracked calls) and, per observed answer, how many model answers it stands for -/
def parseAlpha (toks : List String) : Option (List (AOp DFloat) × List Nat × List V) :=
  toks.foldlM (init := ([], [], [])) fun (ops, reps, vals) t =>
    match splitN t 3 with
    | ["I", f] => (parseFacts f).map fun f => (ops ++ [.insert f], reps, vals ++ factsVals f)
    | ["C", φ] => some (ops ++ [.create φ], reps, vals)
    | ["D", φ] => some (ops ++ [.drop φ], reps, vals)
    | ["U"] => some (ops ++ [.autoTune], reps, vals)
    | ["X"] => some (ops ++ [.clear], reps, vals)
    | ["F", φ, v] => (parseVal v).map fun v => (ops ++ [.filter φ v], reps ++ [1], vals ++ [v])
    | [tn, φ, v] =>
      if tn.startsWith "T" then do
        let n ← (tn.drop 1).toString.toNat?
        let n := max n 1
        let v ← parseVal v
        pure (ops ++ List.replicate n (.tracked φ v), reps ++ [n], vals ++ [v])
      else none
    | _ => none

/-- keep the last of each group of `reps` answers; `none` if a group is not constant -/
def collapse : List Nat → List (List Nat) → Option (List (List Nat))
  | [], [] => some []
  | n :: ns, xs =>
    match xs.take n with
    | [] => none
    | g :: gs => if gs.all (· == g) && (g :: gs).length == n then (collapse ns (xs.drop n)).map (g :: ·) else none
  | _, _ => none

def expand (reps : List Nat) (xs : List (List Nat)) : List (List Nat) :=
  (reps.zip xs).flatMap fun (n, x) => List.replicate n x

def alphaTail (s : AState DFloat String) : List String :=
  [s!"n={s.facts.length}", "ix=" ++ showNames s.indexes.keys]

def modelAlpha (toks : List String) : String :=
  match parseAlpha toks with
  | none => "bad-case"
  | some (ops, reps, vals) =>
    let key := aKey
    let st := aStats key {} {} ops
    match collapse reps (aTrace dops key {} ops), collapse reps (aExpected dops [] ops) with
    | some got, some lin =>
      joinSp (showLists (got.zip lin) ++ alphaTail (aRun key ops) ++ [s!"st={st.total},{st.indexed},{st.linear}", ktField vals])
    | _, _ => "model-unstable"

/-- tags: was some filter answered through an index, and non-empty -/
def alphaTags (ops : List (AOp DFloat)) : List String :=
  let key := aKey
  let (_, viaIx, hit, special) := ops.foldl (init := (({} : AState DFloat String), false, false, false))
    fun (s, a, b, c) op =>
      let (a', b', c') := match op with
        | .filter φ v | .tracked φ v =>
          let ixd := s.indexes.contains φ
          let r := aFilter dops key s φ v
          (a || ixd, b || (ixd && !r.isEmpty), c || (ixd && (aKey v != some (render v))))
        | _ => (a, b, c)
      (aStep key s op, a', b', c')
  ["alpha"] ++ (if viaIx then ["a_indexed"] else ["a_linear_only"]) ++ (if hit then ["a_index_hit", "nontrivial"] else [])
    ++ (if special then ["a_special_float_key"] else [])
    ++ [s!"a_ops{ops.length.min 12}"]

def oracleAlpha (toks : List String) (obs : List String) : String :=
  match parseAlpha toks with
  | none => "bad-input"
  | some (ops, reps, vals) =>
    let n := reps.length
    if obs.length != n + 4 then "fail alpha-shape" else
    match (obs.take n).mapM parsePair with
    | none => "fail alpha-parse"
    | some prs =>
      let got := expand reps (prs.map (·.1))
      let lin := expand reps (prs.map (·.2))
      if got != lin then "fail alpha-index-vs-linear"
      else if !alphaOk dops ops got lin then "fail alpha-vs-plain"
      else match ktCheck vals obs with
      | some e => e
      | none =>
        -- the counters: every filter_tracked since the last clear counted once, as indexed or as linear
        match (field obs "st").bind parseNats? with
        | some [t, i, l] =>
          if statsOk { total := t, indexed := i, linear := l } (trackedSinceClear 0 ops) then
            joinSp ("ok" :: alphaTags ops ++ (if t > 0 then ["a_stats"] else []))
          else "fail alpha-stats"
        | _ => "fail alpha-stats-shape"

/-! ### B: beta -/

/-- join field, ops, the values of the case in order, and per lookup the value it was made with (`L:v`) -/
def parseBeta (toks : List String) : Option (String × List (BOp DFloat) × List V × List (Option V)) :=
  match toks with
  | [] => none
  | jk :: rest => do
    let (ops, vals, looks) ← rest.foldlM (init := (([] : List (BOp DFloat)), ([] : List V), ([] : List (Option V))))
      fun (ops, vals, looks) t =>
        match splitN t 3 with
        | ["A", i, f] => do
          let f ← parseFacts f
          pure (ops ++ [BOp.add f (← i.toNat?)], vals ++ factsVals f, looks)
        | ["R", i, f] => do
          let f ← parseFacts f
          pure (ops ++ [BOp.remove f (← i.toNat?)], vals ++ factsVals f, looks)
        | ["L", "v", v] => (parseVal v).map fun v => (ops ++ [BOp.lookup (render v)], vals ++ [v], looks ++ [some v])
        | ["L", "t", h] => (hexString? h).map fun k => (ops ++ [BOp.lookup k], vals, looks ++ [none])
        | _ => none
    pure (jk, ops, vals, looks)

/-- the plain computation ON VALUES for the lookups made with a value (`bLiveV`: no key text involved) -/
def betaExpectedV (jk : String) : List (BOp DFloat) → List (BOp DFloat) → List (Option V) → List (List Nat)
  | _, [], _ => []
  | past, .lookup k :: ops, lv :: lvs =>
    (match lv with
     | some v => bLiveV Rd jk v past
     | none => bLive render jk k past) :: betaExpectedV jk (past ++ [.lookup k]) ops lvs
  | past, .lookup k :: ops, [] => bLive render jk k past :: betaExpectedV jk (past ++ [.lookup k]) ops []
  | past, op :: ops, lvs => betaExpectedV jk (past ++ [op]) ops lvs

def modelBeta (toks : List String) : String :=
  match parseBeta toks with
  | none => "bad-case"
  | some (jk, ops, vals, _) =>
    let got := bTrace render jk {} ops
    let ref := bExpected render jk [] ops
    joinSp (showLists (got.zip ref) ++ [s!"size={bSize (bRun render jk {} ops)}", ktField vals])

def oracleBeta (toks : List String) (obs : List String) : String :=
  match parseBeta toks with
  | none => "bad-input"
  | some (jk, ops, vals, looks) =>
    let n := (ops.filter fun | .lookup _ => true | _ => false).length
    if obs.length != n + 2 then "fail beta-shape" else
    match (obs.take n).mapM parsePair with
    | none => "fail beta-parse"
    | some prs =>
      let got := prs.map (·.1)
      let ref := prs.map (·.2)
      if got != ref then "fail beta-lookup-vs-live"
      else if !betaOk render jk ops got ref then "fail beta-vs-plain"
      else if got != betaExpectedV jk [] ops looks then "fail beta-vs-plain-by-value"
      else match ktCheck vals obs with
      | some e => e
      | none =>
        let removes := (ops.filter fun | .remove _ _ => true | _ => false).length
        joinSp (["ok", "beta"] ++ (if got.any (!·.isEmpty) then ["b_hit", "nontrivial"] else [])
          ++ (if removes > 0 then ["b_remove"] else []) ++ (if got.any (·.length ≥ 2) then ["b_multi"] else [])
          ++ (if got.any (·.length > 32) then ["b_hot_gt32"] else [])
          ++ (if vals.any (fun v => (render v).any (fun c => c.toNat ≥ 128 || c = '\\')) then ["b_escaped_or_nonascii_key"] else []))

/-! ### M: memo -/

partial def decNode : List String → Option (Node DFloat × List String)
  | "and" :: r => do let (a, r) ← decNode r; let (b, r) ← decNode r; pure (.and a b, r)
  | "or" :: r => do let (a, r) ← decNode r; let (b, r) ← decNode r; pure (.or a b, r)
  | "not" :: r => do let (a, r) ← decNode r; pure (.not a, r)
  | "al" :: φ :: op :: lit :: r => do
    let ne ← if op = "eq" then some false else if op = "ne" then some true else none
    let lit ← hexString? lit
    let (v, r) ← decVal r
    pure (.alpha φ ne lit v, r)
  | "co" :: φ :: lit :: r => do
    let lit ← hexString? lit
    let (v, r) ← decVal r
    pure (.contains φ lit v, r)
  | "cnt" :: φ :: op :: k :: r => do
    let k ← k.toInt?
    if op = "any" then pure (.count φ none, r) else
    let op ← (match op with
      | "gt" => some CmpOp.gt | "lt" => some .lt | "ge" => some .ge | "le" => some .le
      | "eq" => some .eq | "ne" => some .ne | "xx" => some .other | _ => none)
    pure (.count φ (some (op, k)), r)
  | "mf" :: φ :: op :: r => do
    let op ← (match op with
      | "empty" => some MultiOp.empty | "nonempty" => some .notEmpty | "first" => some .first
      | "last" => some .last | "collect" => some .collect | _ => none)
    pure (.multi φ op, r)
  | _ => none

abbrev MN := String × Node DFloat

/-- the key text of a node: the model's rendering of the real node the case describes -/
def nodeText (n : MN) : String := nodeKeyText printableD n.2.toRaw

structure MemoCase where
  ops : List (MOp MN DFloat)

def parseMemo (toks : List String) : Option (List (MOp MN DFloat) × List MN × List Fs) := do
  let (nodes, sets, ops) ← toks.foldlM (init := (([] : List MN), ([] : List Fs), ([] : List (MOp MN DFloat))))
    fun (nodes, sets, ops) t =>
      if t.startsWith "N:" then
        let body := (t.drop 2).toString
        match decNode (body.splitOn ",") with
        | some (n, []) => some (nodes ++ [(body, n)], sets, ops)
        | _ => none
      else if t.startsWith "S:" then (parseFacts (t.drop 2).toString).map fun f => (nodes, sets ++ [f], ops)
      else if t.startsWith "E:" then
        match (t.drop 2).toString.splitOn ":" with
        | [a, b] => do
          let n ← nodes[(← a.toNat?)]?
          let f ← sets[(← b.toNat?)]?
          pure (nodes, sets, ops ++ [.eval n f])
        | _ => none
      else if t = "K" then some (nodes, sets, ops ++ [.clear])
      else none
  pure (ops, nodes, sets)

def showBits (bs : List Bool) : String :=
  if bs.isEmpty then "-" else String.ofList (bs.map fun b => if b then '1' else '0')
def parseBits (s : String) : List Bool := if s = "-" then [] else s.toList.map (· == '1')

/-- the memo key of the code: (Debug text of the node, typed pre-image of the facts) -/
def mKey : MN → Fs → String × List (Tok DFloat) := memoKey nodeText
def mEv : MN → Fs → Bool := fun n f => evalNode dops n.2 f

def modelMemo (toks : List String) : String :=
  match parseMemo toks with
  | none => "bad-case"
  | some (ops, nodes, sets) =>
    let s := mRun mKey mEv ops
    s!"d={showBits (directTrace mEv ops)} m={showBits (mTrace mKey mEv {} ops)} h={showNats (mHits mKey mEv {} ops)} miss={s.misses} size={s.cache.length} nk={hexList (nodes.map nodeText)} {ktField (sets.flatMap factsVals)}"

def oracleMemo (toks : List String) (obs : List String) : String :=
  match parseMemo toks, field obs "d", field obs "m", field obs "h" with
  | some (ops, nodes, sets), some d, some m, some h =>
    let d := parseBits d
    let m := parseBits m
    let evals := (ops.filter fun | .eval _ _ => true | _ => false).length
    if d.length != evals || m.length != evals then "fail memo-shape"
    else if field obs "nk" != some (hexList (nodes.map nodeText)) then "fail node-key-text-vs-model"
    else if let some e := ktCheck (sets.flatMap factsVals) obs then e
    else if memoOk d m then
      let hits := (parseNats? h).getD []
      let anyHit := hits.any (· > 0)
      let nested := ops.any fun
        | .eval _ f => f.any (fun kv => match kv.2 with | .arr xs => xs.any (fun x => match x with | .arr _ => true | _ => false) | _ => false)
        | .clear => false
      let multi := ops.any fun
        | .eval n _ => (n.1.splitOn ",").any (fun t => t = "cnt" || t = "mf" || t = "co")
        | .clear => false
      joinSp (["ok", "memo"] ++ (if anyHit then ["m_hit", "nontrivial"] else []) ++ (if d.any id then ["m_true"] else [])
        ++ (if d.any (!·) then ["m_false"] else []) ++ (if nested then ["m_nested_array"] else [])
        ++ (if multi then ["m_multifield_or_contains"] else []))
    else "fail memo-vs-direct"
  | _, _, _, _ => "bad-input"

/-! ### V: the key texts themselves; K: CompactAlphaMemory -/

def ikField (vs : List V) : String :=
  "ik=" ++ (if vs.isEmpty then "-" else ",".intercalate (vs.map fun v => match aKey v with | some k => hexOfString k | none => "~"))

def modelValues (toks : List String) : String :=
  match toks.mapM parseVal with
  | none => "bad-case"
  | some vs => joinSp [ikField vs, ktField vs]

def allPairs {α : Type} (xs : List α) : List (α × α) := xs.flatMap fun a => xs.map fun b => (a, b)

def oracleValues (toks : List String) (obs : List String) : String :=
  match toks.mapM parseVal, field obs "ik", field obs "kt" with
  | some vs, some ik, some kt =>
    match ktCheck vs obs with
    | some e => e
    | none =>
      let texts := if kt = "-" then [] else (kt.splitOn ",").map (fun h => (hexString? h).getD "?")
      let keys : List (Option String) := if ik = "-" then [] else (ik.splitOn ",").map (fun h => if h = "~" then none else hexString? h)
      if keys.length != vs.length || (ik.splitOn ",").any (·.startsWith "!") then "fail index-key-shape"
      -- the property's letter on the REAL texts: two values print alike iff they are the same value (floats: same text)
      else if !(allPairs (vs.zip texts)).all (fun ((v, t), (w, u)) => (t == u) == Val.sameText Rd v w) then "fail key-text-not-injective"
      -- … and on the REAL index keys: no key iff not == to itself; same key iff ==
      else if !(vs.zip keys).all (fun (v, k) => k.isNone == !(Val.beq dops v v)) then "fail index-key-none-vs-eq"
      else if !(allPairs (vs.zip keys)).all (fun ((v, k), (w, l)) => k.isNone || l.isNone || ((k == l) == Val.beq dops v w)) then "fail index-key-vs-eq"
      else if keys != vs.map aKey then "fail index-key-vs-model"
      else
        let esc := texts.any (fun t => t.any (fun c => c = '\\' || c.toNat ≥ 128))
        let nested := vs.any fun | .arr xs => xs.any (fun | .arr _ => true | _ => false) | _ => false
        let canonDiff := (vs.zip keys).any (fun (v, k) => k != some (render v))
        joinSp (["ok", "values", "nontrivial"] ++ (if esc then ["v_escape_or_nonascii"] else []) ++ (if nested then ["v_nested"] else [])
          ++ (if canonDiff then ["v_canonicalised_key"] else []) ++ [s!"v_n{vs.length.min 6}"])
  | _, _, _ => "bad-input"

def parseCompact (toks : List String) : Option (List (KOp DFloat) × List V) :=
  toks.foldlM (init := ([], [])) fun (ops, vals) t =>
    match splitN t 2 with
    | ["A", f] => (parseFacts f).map fun f => (ops ++ [KOp.add f], vals ++ factsVals f)
    | ["R", f] => (parseFacts f).map fun f => (ops ++ [KOp.remove f], vals ++ factsVals f)
    | ["C", f] => (parseFacts f).map fun f => (ops ++ [KOp.contains f], vals ++ factsVals f)
    | _ => none

def modelCompact (toks : List String) : String :=
  match parseCompact toks with
  | none => "bad-case"
  | some (ops, vals) =>
    let s := kRun Rd {} ops
    joinSp [s!"r={showBits (kTrace Rd {} ops)}", s!"len={kLen s}", s!"refs={kTotal s}", ktField vals]

/-- the distinct fact sets of a history (up to `Facts.sameText`) -/
def distinctFacts (ops : List (KOp DFloat)) : List Fs :=
  (ops.map fun | .add f => f | .remove f => f | .contains f => f).foldl
    (fun acc f => if acc.any (fun g => Facts.sameText Rd g f) then acc else acc ++ [f]) []

def oracleCompact (toks : List String) (obs : List String) : String :=
  match parseCompact toks, field obs "r", (field obs "len").bind (·.toNat?), (field obs "refs").bind (·.toNat?) with
  | some (ops, vals), some r, some len, some refs =>
    let counts := (distinctFacts ops).map fun f => kCount Rd f 0 ops
    if parseBits r != kExpected Rd [] ops then "fail compact-vs-counting"
    else if len != (counts.filter (· > 0)).length || refs != counts.foldl (· + ·) 0 then "fail compact-len-refs"
    else match ktCheck vals obs with
    | some e => e
    | none =>
      joinSp (["ok", "compact"] ++ (if (parseBits r).any id then ["k_true", "nontrivial"] else [])
        ++ (if counts.any (· ≥ 2) then ["k_shared"] else []) ++ (if (distinctFacts ops).length ≥ 3 then ["k_3sets"] else []))
  | _, _, _, _ => "bad-input"

/-! ### N: NodeSharingRegistry -/

def parsePat (t : String) : Option Pat :=
  match t.splitOn "," with
  | [a, b, c] => do pure (← hexString? a, ← hexString? b, ← hexString? c)
  | _ => none

def parseRegistry (toks : List String) : Option (List NOp) :=
  toks.mapM fun t =>
    match splitN t 3 with
    | ["G", r, p] => do pure (NOp.register (← parsePat p) (← r.toNat?))
    | ["U", r] => r.toNat?.map NOp.unregister
    | ["Q", p] => (parsePat p).map NOp.get
    | _ => none

def showNode : Option (List Nat) → String
  | none => "none"
  | some rs => ".".intercalate (rs.map toString) ++ s!"/{rs.length}"

def modelRegistry (toks : List String) : String :=
  match parseRegistry toks with
  | none => "bad-case"
  | some ops =>
    let s := nRun {} ops
    joinSp ((nTrace {} ops).map showNode ++ [s!"stats={s.total},{s.nodes.length},{s.shared}"])

/-- the statistics read off the history: registrations, patterns with a live rule, registrations that met a live node -/
def registryStats (ops : List NOp) : Nat × Nat × Nat :=
  let regs := ops.filterMap fun | .register p _ => some p | _ => none
  let pats := regs.eraseDups
  let unique := (pats.filter fun p => !(nLive p [] ops).isEmpty).length
  let (_, shared) := ops.foldl (init := (([] : List NOp), 0)) fun (past, n) op =>
    (past ++ [op], match op with
      | .register p _ => if (nLive p [] past).isEmpty then n else n + 1
      | _ => n)
  (regs.length, unique, shared)

def oracleRegistry (toks : List String) (obs : List String) : String :=
  match parseRegistry toks with
  | none => "bad-input"
  | some ops =>
    let n := (ops.filter fun | .unregister _ => false | _ => true).length
    if obs.length != n + 1 then "fail registry-shape"
    -- the shared node of a pattern lists exactly the live rules of the pattern, ref_count is their number
    else if obs.take n != (nExpected [] ops).map showNode then "fail registry-vs-live"
    else
      let (t, u, sh) := registryStats ops
      if field obs "stats" != some s!"{t},{u},{sh}" then "fail registry-stats"
      else
        let ex := nExpected [] ops
        joinSp (["ok", "registry"] ++ (if ex.any (fun | some rs => rs.length ≥ 2 | none => false) then ["n_shared", "nontrivial"] else [])
          ++ (if ops.any (fun | .unregister _ => true | _ => false) then ["n_unregister"] else [])
          ++ (if ex.any (·.isNone) then ["n_none"] else []))

/-! ### C / E: conclusion index -/

def parseAct (s : String) : Option Act :=
  match s.splitOn "~" with
  | ["S", f] => some (.set f)
  | ["M", o, m] => some (.method o m)
  | ["R", o] => some (.retract o)
  | ["W", k] => some (.workflow k)
  | ["L"] => some .other
  | _ => none

/-- a rule attribute of the case grammar (`F f Z P p n l g G a D S<i32>`): dates, salience, no_loop, lock_on_active, agenda /
activation group, description. `ConclusionIndex::add_rule` reads `enabled`, the name and the actions only, so `CRule` carries none
of them: the attribute list is checked for well-formedness and dropped (model and oracle see the rule without it). -/
def attrOk (a : String) : Bool :=
  a ∈ ["F", "f", "Z", "P", "p", "n", "l", "g", "G", "a", "D"] || (a.startsWith "S" && (a.drop 1).toString.toInt?.isSome)

def parseRule (s : String) : Option CRule :=
  match splitN s 3 with
  | [name, en, acts] => do
    let acts ← if acts = "-" then some [] else (acts.splitOn ";").mapM parseAct
    let flag ← match en.splitOn "!" with
      | [f] => some f
      | [f, attrs] => if (attrs.splitOn ".").all attrOk then some f else none
      | _ => none
    if flag != "e" && flag != "d" then none
    pure { name := name, enabled := flag = "e", actions := acts }
  | _ => none

/-- input-distribution tags: a rule with attributes; an ENABLED rule outside its date window when it is indexed -/
def attrTags (toks : List String) : List String :=
  let attrsOf (t : String) : List String :=
    match splitN t 3 with
    | [_, en, _] => (match en.splitOn "!" with | [_, a] => a.splitOn "." | _ => [])
    | _ => []
  (if toks.any (fun t => !(attrsOf t).isEmpty) then ["rule_attrs"] else [])
  ++ (if toks.any (fun t => t.startsWith "+" && ((splitN t 3).getD 1 "").startsWith "e!") &&
        toks.any (fun t => (attrsOf t).any fun a => a = "F" || a = "P" || a = "Z") then ["enabled_outside_date_window"] else [])

def parseConcl (toks : List String) : Option (List COp) :=
  toks.mapM fun t =>
    if t.startsWith "+" then (parseRule (t.drop 1).toString).map COp.add
    else if t.startsWith "-" then some (.remove (t.drop 1).toString)
    else if t.startsWith "?" then (hexString? (t.drop 1).toString).map COp.find
    else if t = "X" then some .clear
    else none

def modelConcl (toks : List String) : String :=
  match parseConcl toks with
  | none => "bad-case"
  | some ops =>
    let tr := cTrace {} [] ops
    let s := cRun ops
    joinSp (tr.map (fun (g, sc) => s!"{showNames g}/{showNames sc}")
      ++ [s!"rules={s.count}", s!"fields={s.f2r.length}", s!"empty={if s.count == 0 then 1 else 0}"])

def oracleConcl (toks : List String) (obs : List String) : String :=
  match parseConcl toks with
  | none => "bad-input"
  | some ops =>
    let n := (ops.filter fun | .find _ => true | _ => false).length
    if obs.length != n + 3 then "fail concl-shape" else
    let prs := (obs.take n).map fun t =>
      match t.splitOn "/" with
      | [a, b] => (parseNames a, parseNames b)
      | _ => ([], ["?"])
    let got := prs.map (·.1)
    let scan := prs.map (·.2)
    if !cComplete (got.zip scan) then "fail concl-incomplete"
    else if conclOk ops sortStrs got scan then
      let readd := (ops.filter fun | .add _ => true | _ => false).length
      joinSp (["ok", "concl"] ++ (if scan.any (!·.isEmpty) then ["c_scan_nonempty", "nontrivial"] else [])
        ++ (if got.zip scan |>.any (fun (g, s) => g.length > s.length) then ["c_overapprox"] else [])
        ++ (if ops.any (fun | .remove _ => true | _ => false) then ["c_remove"] else []) ++ (if readd ≥ 2 then ["c_multi_add"] else [])
        ++ attrTags toks)
    else "fail concl-scan-vs-plain"

def parseEngine (toks : List String) : Option (List CRule × List EOp) := do
  let initToks := toks.takeWhile (·.startsWith "+")
  let restToks := toks.drop initToks.length
  let init ← initToks.mapM fun t => parseRule (t.drop 1).toString
  let ops ← restToks.mapM fun t =>
    if t.startsWith "+" then (parseRule (t.drop 1).toString).map EOp.add
    else if t.startsWith "-" then some (.remove (t.drop 1).toString)
    else if t.startsWith "e:" then
      match (t.drop 2).toString.splitOn ":" with
      | [n, b] => some (.enable n (b = "1"))
      | _ => none
    else if t = "B" || t = "W" then some .rebuild
    else none
  pure (init, ops)

def showStats (p : Nat × Nat) : String := s!"{p.1},{p.2}"

def modelEngine (toks : List String) : String :=
  match parseEngine toks with
  | none => "bad-case"
  | some (init, ops) =>
    let s0 := eNew init
    let (_, outs) := ops.foldl (init := (s0, [showStats (eStats s0)])) fun (s, o) op =>
      let s' := eStep s op
      (s', o ++ [showStats (eStats s')])
    joinSp outs

/-- the statistics the engine must show: those of an index built from the knowledge base as it was
at the last (re)build — in particular equal to `from_rules` of the *current* rules right after a rebuild -/
def engineExpected (init : List CRule) (ops : List EOp) : List String :=
  let s0 := eNew init
  (ops.foldl (init := (s0, [showStats (eStats s0)])) fun (s, o) op =>
    let s' := eStep s op
    (s', o ++ [showStats (eStats s')])).2

def oracleEngine (toks : List String) (obs : List String) : String :=
  match parseEngine toks with
  | none => "bad-input"
  | some (init, ops) =>
    if obs.length != ops.length + 1 then "fail engine-shape"
    else if obs != engineExpected init ops then "fail engine-index-out-of-sync"
    else
      let distinct := obs.eraseDups.length
      joinSp (["ok", "engine"] ++ (if distinct ≥ 2 then ["e_stats_change", "nontrivial"] else []) ++ attrTags toks)

def modelLine (line : String) : String :=
  match tokens line with
  | "A" :: r => modelAlpha r
  | "B" :: r => modelBeta r
  | "M" :: r => modelMemo r
  | "K" :: r => modelCompact r
  | "N" :: r => modelRegistry r
  | "V" :: r => modelValues r
  | "C" :: r => modelConcl r
  | "E" :: r => modelEngine r
  | _ => "bad-case"

def oracleLine (line : String) : String :=
  match line.splitOn " | " with
  | [c, o] =>
    let obs := tokens o
    match tokens c with
    | "A" :: r => oracleAlpha r obs
    | "B" :: r => oracleBeta r obs
    | "M" :: r => oracleMemo r obs
    | "K" :: r => oracleCompact r obs
    | "N" :: r => oracleRegistry r obs
    | "V" :: r => oracleValues r obs
    | "C" :: r => oracleConcl r obs
    | "E" :: r => oracleEngine r obs
    | _ => "bad-input"
  | _ => "bad-input"

def main (args : List String) : IO Unit :=
  match args with
  | ["model"] => mapLines modelLine
  | ["oracle"] => mapLines oracleLine
  | _ => IO.eprintln "usage: drv_c16 model|oracle"
