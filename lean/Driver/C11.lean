import RreModel.Proto
import RreModel.C11.Spec
/-
Driver for C11.  obs := item;item;…  item := `<q|a|k>/<key>/<answer>/<fresh>/<hit>[/<flags>]` (see harness/src/bin/c11.rs;
  the key is opaque here — hex of the text, or a digest of it for large stores; flags classify the input situation:
  `N` negated goal, `n` negation partner asked earlier on identical facts, `p` same query earlier on permuted facts, `L` engine key
  text > 1024 bytes, `c` same query earlier on facts that differ only behind byte 1024 of the engine key text, `E` an aggregate
  call that returns Err, `e` asked after an aggregate call failed on this engine, `w` an earlier call's engine key text differs
  from this one's only in whitespace, `z` same query earlier on facts that differ only in entries holding Null)
  drv_c11 model  : case       ↦ `-` (the search is an abstract parameter of the model; the cache model is run in
                                 oracle mode on the observed keys with the observed fresh verdicts as `answer`)
  drv_c11 oracle : case | obs ↦ `ok <tags>` / `fail stale@<k>` (answer ≠ fresh engine's) / `fail cache-model@…`
-/
open Proto C11

structure Item where
  aggregate : Bool      -- not a plain query: an aggregate (`a`) or a query after a set_config (`k`)
  isAgg : Bool
  key : String
  answer : String
  fresh : String
  hit : Bool
  flags : String := ""

def parseItem (s : String) : Option Item :=
  match s.splitOn "/" with
  | [k, key, a, f, h] => some ⟨k != "q", k = "a", key, a, f, h = "1", ""⟩
  | [k, key, a, f, h, fl] => some ⟨k != "q", k = "a", key, a, f, h = "1", fl⟩
  | _ => none

def memoOf (cfg : String) : Bool := cfg.endsWith "m1"

def firstIdx {α} (p : α → Bool) : Nat → List α → Option Nat
  | _, [] => none
  | i, x :: xs => if p x then some i else firstIdx p (i + 1) xs

def oracleLine (line : String) : String :=
  match line.splitOn " | " with
  | [c, o] =>
    let o := o.trimAscii.toString
    match tokens c with
    | cfg :: _ =>
      if o = "-" then "ok noquery" else
      match (o.splitOn ";").mapM parseItem with
      | some items =>
        match firstIdx (fun it => it.answer != it.fresh) 0 items with
        | some k => s!"fail stale@{k}"
        | none =>
          -- cache model on the plain queries (aggregate queries never report a hit themselves but do fill the cache)
          let os : List Obs := items.map fun it => ⟨it.key, it.answer == "1", it.fresh == "1", it.hit⟩
          let plain := items.all fun it => !it.aggregate && it.answer != "e"
          if plain && !modelPredicts (memoOf cfg) os then "fail cache-model"
          else
            let hits := (items.filter (·.hit)).length
            let distinctAns := (items.map (·.answer)).eraseDups.length
            joinSp (["ok", s!"queries{items.length}", if memoOf cfg then "memo" else "nomemo"]
              ++ (if hits > 0 then ["cache_hit"] else [])
              ++ (if items.any (·.isAgg) then ["aggregate"] else [])
              ++ (if items.any (fun it => it.aggregate && !it.isAgg) then ["reconfigured"] else [])
              ++ (if items.any (fun it => it.flags.contains 'N') then ["negated_goal"] else [])
              ++ (if items.any (·.flags.contains 'n') then ["negation_pair_same_facts"] else [])
              ++ (if items.any (·.flags.contains 'p') then ["requery_on_permuted_facts"] else [])
              ++ (if items.any (·.flags.contains 'L') then ["key_over_1024"] else [])
              ++ (if items.any (·.flags.contains 'c') then ["late_change_behind_1024"] else [])
              ++ (if items.any (·.flags.contains 'E') then ["failed_aggregate"] else [])
              ++ (if items.any (fun it => it.flags.contains 'e' && it.flags.contains 'N') then ["negated_goal_after_failed_aggregate"] else [])
              ++ (if items.any (·.flags.contains 'w') then ["whitespace_lookalike_key"] else [])
              ++ (if items.any (·.flags.contains 'z') then ["requery_absent_vs_null"] else [])
              ++ (if distinctAns > 1 then ["answer_changes", "nontrivial"] else []))
      | none => "bad-input"
    | _ => "bad-input"
  | _ => "bad-input"

def main (args : List String) : IO Unit :=
  match args with
  | ["model"] => mapLines (fun _ => "-")
  | ["oracle"] => mapLines oracleLine
  | _ => IO.eprintln "usage: drv_c11 model|oracle"
