import RreModel.Proto
import RreModel.C11.Spec
import RreModel.C11.Engine
/-
Driver for C11.  obs := item;item;…  item := `<q|a|k>/<key>/<answer>/<fresh>/<hit>[/<flags>]` (see harness/src/bin/c11.rs;
  the key is opaque here — hex of the text, or a digest of it for large stores; flags classify the input situation:
  `N` negated goal, `n` negation partner asked earlier on identical facts, `p` same query earlier on permuted facts, `L` engine key
  text > 1024 bytes, `c` same query earlier on facts that differ only behind byte 1024 of the engine key text, `E` an aggregate
  call that returns Err, `e` asked after an aggregate call failed on this engine, `w` an earlier call's engine key text differs
  from this one's only in whitespace, `z` same query earlier on facts that differ only in entries holding Null, `R` a RETE engine is
  attached to the call, `T` facts were retracted in the attached engine earlier, `V` the live engine's knowledge base was edited
  earlier, `s` … and the index has not been rebuilt since)
  item (since the engine model): a 7th field `<facts after the call>` (c09's rendering; `?` when a fact outside its universe is present)
  drv_c11 model  : case       ↦ the engine model (`RreModel/C11/Engine.lean`: memo cache + `C09.queryFast` + the code's candidate
                                 computation) run over the whole history: the SET of admissible histories of
                                 `<answer>:<hit>:<facts after>` items (`;`-separated, one per Q/A/E op), one per choice of the
                                 enumeration orders of the top-level candidate HashSets, joined by ` || `; `many-orders` when a
                                 candidate set has > 4 rules or > 64 histories are admissible; the prediction STOPS (last item `*`)
                                 at the first op outside the modelled class (extra facts `P` `X`)
                                 and is `-` when the rules are outside the C09 grammar (exists(..)): there the fresh-engine
                                 comparison and the cache model (oracle mode) stay alone.  Since U09 the model covers negated
                                 goals `N` (C09.queryNeg), knowledge-base edits `+i=j` `-i` `e<i>` `d<i>` `z` and `rebuild_index`
                                 `x` (C09.kbStep / C09.engStep; the memo key carries the kb version, `x` empties the cache), and
                                 drops the mutator suffix `@<m>` of `S` / `D` / `X` ops and the ops `W` / `Wy` (a new Facts object):
                                 the model's facts are contents
  drv_c11 oracle : case | obs ↦ `ok <tags>` / `fail stale@<k>` (answer ≠ fresh engine's) / `fail cache-model@…`
-/
open Proto C11

structure Item where
  aggregate : Bool      -- not a plain query: an aggregate (`a`) or a query after a set_config (`k`)
  isAgg : Bool
  key : String
  answer : String
  fresh : String
  hit : Bool
  flags : String := ""

def parseItem (s : String) : Option Item :=
  match s.splitOn "/" with
  | [k, key, a, f, h] => some ⟨k != "q", k = "a", key, a, f, h = "1", ""⟩
  | [k, key, a, f, h, fl] => some ⟨k != "q", k = "a", key, a, f, h = "1", fl⟩
  | [k, key, a, f, h, fl, _after] => some ⟨k != "q", k = "a", key, a, f, h = "1", fl⟩
  | _ => none

def memoOf (cfg : String) : Bool := cfg.endsWith "m1"

def firstIdx {α} (p : α → Bool) : Nat → List α → Option Nat
  | _, [] => none
  | i, x :: xs => if p x then some i else firstIdx p (i + 1) xs

def oracleLine (line : String) : String :=
  match line.splitOn " | " with
  | [c, o] =>
    let o := o.trimAscii.toString
    match tokens c with
    | cfg :: _ =>
      if o = "-" then "ok noquery" else
      match (o.splitOn ";").mapM parseItem with
      | some items =>
        match firstIdx (fun it => it.answer != it.fresh) 0 items with
        | some k => s!"fail stale@{k}"
        | none =>
          -- cache model on the plain queries (aggregate queries never report a hit themselves but do fill the cache)
          let os : List Obs := items.map fun it => ⟨it.key, it.answer == "1", it.fresh == "1", it.hit⟩
          let plain := items.all fun it => !it.aggregate && it.answer != "e"
          if plain && !modelPredicts (memoOf cfg) os then "fail cache-model"
          else
            let hits := (items.filter (·.hit)).length
            let distinctAns := (items.map (·.answer)).eraseDups.length
            joinSp (["ok", s!"queries{items.length}", if memoOf cfg then "memo" else "nomemo"]
              ++ (if hits > 0 then ["cache_hit"] else [])
              ++ (if items.any (·.isAgg) then ["aggregate"] else [])
              ++ (if items.any (fun it => it.aggregate && !it.isAgg) then ["reconfigured"] else [])
              ++ (if items.any (fun it => it.flags.contains 'N') then ["negated_goal"] else [])
              ++ (if items.any (·.flags.contains 'n') then ["negation_pair_same_facts"] else [])
              ++ (if items.any (·.flags.contains 'p') then ["requery_on_permuted_facts"] else [])
              ++ (if items.any (·.flags.contains 'L') then ["key_over_1024"] else [])
              ++ (if items.any (·.flags.contains 'c') then ["late_change_behind_1024"] else [])
              ++ (if items.any (·.flags.contains 'E') then ["failed_aggregate"] else [])
              ++ (if items.any (fun it => it.flags.contains 'e' && it.flags.contains 'N') then ["negated_goal_after_failed_aggregate"] else [])
              ++ (if items.any (·.flags.contains 'w') then ["whitespace_lookalike_key"] else [])
              ++ (if items.any (·.flags.contains 'z') then ["requery_absent_vs_null"] else [])
              ++ (if items.any (·.flags.contains 'V') then ["asked_after_kb_edit"] else [])
              ++ (if items.any (·.flags.contains 's') then ["asked_with_stale_index"] else [])
              ++ (if items.any (·.flags.contains 'R') then ["rete_attached"] else [])
              ++ (if items.any (·.flags.contains 'T') then ["asked_after_rete_retraction"] else [])
              ++ (if distinctAns > 1 then ["answer_changes", "nontrivial"] else []))
      | none => "bad-input"
    | _ => "bad-input"
  | _ => "bad-input"


/-! ### model mode: the engine model over the whole history (case grammar of harness/src/bin/c09.rs for configuration, facts,
atoms and rules — the parsing glue below repeats Driver/C09.lean's, which is an executable root and cannot be imported) -/
namespace Hist
open C09

def fieldNames : List String := ["A", "B", "C", "D", "E", "G", "X", "Y", "U.P", "U.Q", "E._return"]
def nFields : Nat := 11
def returnField (f : Nat) : Option Nat := if f = 4 then some 10 else none
def fieldName (i : Nat) : String := (fieldNames[i]?).getD "?"
def hexDig (c : Char) : Option Nat :=
  if c.isDigit then some (c.toNat - '0'.toNat) else if 'a' ≤ c ∧ c ≤ 'f' then some (c.toNat - 'a'.toNat + 10) else none
def decWordL : List Char → List Char
  | '%' :: a :: b :: rest =>
    match hexDig a, hexDig b with
    | some x, some y => Char.ofNat (16 * x + y) :: decWordL rest
    | _, _ => '%' :: decWordL (a :: b :: rest)
  | '_' :: rest => ' ' :: decWordL rest
  | c :: rest => c :: decWordL rest
  | [] => []
def unBlank (s : String) : String := String.ofList (decWordL s.toList)
def hexChar (n : Nat) : Char := if n < 10 then Char.ofNat ('0'.toNat + n) else Char.ofNat ('a'.toNat + n - 10)
def reBlank (s : String) : String :=
  String.ofList (s.toList.flatMap fun c =>
    if c.isAlphanum then [c] else if c = ' ' then ['_'] else ['%', hexChar (c.toNat / 16), hexChar (c.toNat % 16)])

def parseElem (s : String) : Option Elem :=
  if s = "t" then some (.bool true) else if s = "f" then some (.bool false)
  else if s.startsWith "n" then (s.drop 1).toString.toInt?.map .num
  else if s.startsWith "i" then (s.drop 1).toString.toInt?.map .int
  else if s.startsWith "s" then some (.str (unBlank (s.drop 1).toString))
  else none

def showElem : Elem → String
  | .bool true => "t" | .bool false => "f"
  | .num n => s!"n{n}" | .int n => s!"i{n}" | .str s => "s" ++ reBlank s

def parseVal (s : String) : Option Val :=
  if s = "z" then some .null
  else if s = "t" then some (.bool true) else if s = "f" then some (.bool false)
  else if s.startsWith "n" then (s.drop 1).toString.toInt?.map .num
  else if s.startsWith "i" then (s.drop 1).toString.toInt?.map .int
  else if s.startsWith "s" then some (.str (unBlank (s.drop 1).toString))
  else if s = "a" then some (.arr [])
  else if s.startsWith "a" then ((s.drop 1).toString.splitOn "^").mapM parseElem |>.map .arr
  else if s.startsWith "o" then (s.drop 1).toString.toInt?.map .obj
  else none

def showVal : Val → String
  | .bool true => "t" | .bool false => "f"
  | .num n => s!"n{n}" | .int n => s!"i{n}" | .str s => "s" ++ reBlank s
  | .arr l => "a" ++ "^".intercalate (l.map showElem)
  | .obj n => s!"o{n}"
  | .null => "z"

def parseField (s : String) : Option Nat :=
  if s.startsWith "F" then (s.drop 1).toString.toNat?.bind fun i => if i < nFields then some i else none else none

def parseCmp (s : String) : Option Cmp :=
  if s = "eq" then some .eq else if s = "ne" then some .ne else if s = "gt" then some .gt
  else if s = "lt" then some .lt else if s = "ge" then some .ge else if s = "le" then some .le
  else if s = "co" then some .contains else if s = "nc" then some .notContains else if s = "sw" then some .startsWith
  else if s = "ew" then some .endsWith else if s = "ma" then some .matches else if s = "in" then some .isIn else none

def parseAtom (s : String) : Option Atom :=
  match s.splitOn "." with
  | [f, o, v] => do pure { field := ← parseField f, op := ← parseCmp o, val := ← parseVal v }
  | _ => none

def parseCondToks : Nat → List String → Option (Cond × List String)
  | 0, _ => none
  | _ + 1, [] => none
  | fuel + 1, t :: rest =>
    if t = "&" || t = "/" then do
      let (l, r1) ← parseCondToks fuel rest
      let (r, r2) ← parseCondToks fuel r1
      pure (if t = "&" then .and l r else .or l r, r2)
    else do
      let a ← parseAtom t
      pure (.atom a, rest)

def parseAct (s : String) : Option Act :=
  match s.splitOn ":=" with
  | [f, v] => do pure (.set (← parseField f) (← parseVal v))
  | _ =>
    match s.splitOn "<<" with
    | [f, e] => do pure (.append (← parseField f) (← parseElem e))
    | _ =>
      match s.splitOn "$" with
      | [f, n] =>
        if n = "g" then do
          let o ← parseField f
          pure (.get o (← returnField o))
        else do pure (.call (← parseField f) (← n.toInt?))
      | _ => if s.endsWith "!" then (parseField (s.dropEnd 1).toString).map .retract else none

def splitActs : List Act → List (Nat × Val) × List Act
  | .set f v :: rest => let r := splitActs rest; ((f, v) :: r.1, r.2)
  | l => ([], l)

def parseRule (s : String) : Option Rule :=
  match s.splitOn "~" with
  | [c, a] => do
    let toks := c.splitOn ","
    let (cond, rest) ← parseCondToks (toks.length + 1) toks
    if !rest.isEmpty then none
    else
      let all ← (a.splitOn "+").mapM parseAct
      let (acts, more) := splitActs all
      pure { cond := cond, acts := acts, more := more }
  | _ => none

def insertFact (e : Nat × Val) : Facts → Facts
  | [] => [e]
  | x :: xs => if e.1 < x.1 then e :: x :: xs else if e.1 = x.1 then e :: xs else x :: insertFact e xs

def parseFactList (s : String) : Option (List (Nat × Val)) :=
  if s = "-" then some []
  else (s.splitOn ",").mapM fun kv =>
    match kv.splitOn "=" with
    | [k, v] => do pure ((← parseField k), (← parseVal v))
    | _ => none

def showFacts (l : Facts) : String :=
  if l.isEmpty then "-" else ",".intercalate (l.map fun (k, v) => s!"F{k}={showVal v}")

def parseStrategy (s : String) : Option Strategy :=
  if s.startsWith "D" then some .dfs else if s.startsWith "B" then some .bfs
  else if s.startsWith "I" then some .iterative else none

/-- `<D|B|I><depth>s<max_solutions>m<0|1>` -/
def parseCfg (s : String) : Option C11.Config := do
  let st ← parseStrategy s
  match (s.drop 1).toString.splitOn "s" with
  | [d, mm] =>
    match mm.splitOn "m" with
    | [m, memo] => pure ⟨st, ← d.toNat?, ← m.toNat?, memo = "1"⟩
    | _ => none
  | _ => none

def tieNames : Naming := ⟨fieldName, ruleNameR⟩

def perms : List Nat → List (List Nat)
  | [] => [[]]
  | xs => xs.flatMap fun x => (perms (xs.erase x)).map (x :: ·)
termination_by xs => xs.length
decreasing_by
  simp_wf
  rename_i h
  simp [List.length_erase_of_mem h]
  cases xs with
  | nil => simp at h
  | cons _ _ => simp

/-- `*<rule>` = the rule is added disabled (c09.rs) -/
def parseKRule (s : String) : Option KRule :=
  if s.startsWith "*" then (parseRule (s.drop 1).toString).map (⟨·, false⟩) else (parseRule s).map (⟨·, true⟩)

/-- one op of the history as steps of the engine model; `none` = outside the modelled class.
The query travels as text: an Integer literal means the Number the query parser produces (`reparse`). -/
def parseOp (written : List KRule) (cfg : C11.Config) (facts : Facts) (op0 : String) :
    Option (List (C11.Step C11.GQ) ⊕ C11.GQ × Bool) :=
  -- `<op>@<m>`: WHICH public mutator of `Facts` the caller uses (set / set_nested / add_value / add / merge / restore / clear +
  -- re-add / a new Facts object): the contents afterwards are the same, and contents are all the model has
  let op := (op0.splitOn "@").headD op0
  let rest := (op.drop 1).toString
  if op.startsWith "Q" then (parseAtom rest).map fun a => .inr (⟨reparse a, false⟩, false)
  -- the negated goal `NOT <atom>` (RreModel/C09/Ext.lean inside RreModel/C11/Engine.lean)
  -- (outside the modelled class: `NOT F <op> null` — for a NEGATED goal `check_goal_in_facts` evaluates the parsed expression,
  -- where an absent field IS Null (`Null == null`), while `C09.evalAtom` reads an absent field as "only != holds"; the two
  -- differ exactly for the literal `null`, which C09's negated-query cases do not contain)
  else if op.startsWith "N" then (parseAtom rest).bind fun a =>
    if a.val == Val.null then none else some (.inr (⟨reparse a, true⟩, false))
  else if op.startsWith "A" then (parseAtom rest).map fun a => .inr (⟨reparse a, false⟩, true)
  else if op.startsWith "S" then
    (parseFactList rest).map fun kvs => .inl [.setFacts (kvs.foldl (fun acc e => insertFact e acc) facts)]
  else if op.startsWith "D" then
    (parseField rest).map fun k => .inl [.setFacts (facts.filter fun e => e.1 != k)]
  else if op.startsWith "K" then do
    let st ← parseStrategy rest
    let d ← (rest.drop 1).toString.toNat?
    pure (.inl [.setConfig { cfg with strategy := st, maxDepth := d }])
  else if op.startsWith "E" then (rest.toNat?).bind fun k => if k < 8 then some (.inl [.badAggregate]) else none
  -- `R` attach a RETE engine / `T` retract there: nothing of the engine model's state is touched, and the search with the
  -- attachment hands back what it hands back without (the proof graph is built per search; see RreModel/C11/Engine.lean)
  else if op = "R" || op = "T" then some (.inl [])
  -- `W` / `Wy`: the next query is handed a NEW Facts object with equal contents — the same facts for the model
  else if op = "W" || op = "Wy" then some (.inl [])
  -- edits through `engine.knowledge_base()` and `rebuild_index` (`C09.kbStep` / `C09.engStep` inside the engine model)
  else if op.startsWith "+" then
    match rest.splitOn "=" with
    | [i, j] => do
      let k ← written[(← j.toNat?)]?
      pure (.inl [.kb (.add (← i.toNat?) ⟨k.rule, true⟩)])
    | _ => none
  else if op.startsWith "-" then rest.toNat?.map fun i => .inl [.kb (.remove i)]
  else if op.startsWith "e" then rest.toNat?.map fun i => .inl [.kb (.enable i true)]
  else if op.startsWith "d" then rest.toNat?.map fun i => .inl [.kb (.enable i false)]
  else if op = "z" then some (.inl [.kb .clear])
  else if op = "x" then some (.inl [.rebuild])
  else none

abbrev Key := Nat × C11.GQ × Nat × Facts

/-- a state of the exploration: engine, caller's facts, items handed back so far (reversed) -/
abbrev XState := C11.Eng Key × Facts × List String

def sameX (a b : XState) : Bool :=
  a.1.cfg == b.1.cfg && a.1.cache == b.1.cache && a.2.1 == b.2.1 && a.2.2 == b.2.2

def dedupX (l : List XState) : List XState :=
  l.foldl (fun acc x => if acc.any (sameX x) then acc else acc ++ [x]) []

def showItem (agg : Bool) (o : C11.Out) : String :=
  (if agg then s!"i{o.count}" else if o.verdict then "1" else "0") ++ ":" ++ (if o.hit then "1" else "0") ++ ":" ++ showFacts o.after

def modelLine (line : String) : String :=
  match tokens line with
  | [cfgS, initS, rulesS, opsS] =>
    match parseCfg cfgS, parseFactList initS, (if rulesS = "-" then some [] else (rulesS.splitOn ";").mapM parseKRule) with
    | some cfg, some init, some ks =>
      let nm := tieNames
      let stepF := C11.engineStep (C11.fastSearch nm) nm nFields C11.keyCode
      let f0 : Facts := init.foldl (fun acc e => insertFact e acc) []
      -- fold over the ops, carrying the set of admissible states (`none` = too many) and whether an op outside the
      -- modelled class was met: the prediction stops there (`*`), the calls before it are predicted
      let go : Option (List XState) × Bool → String → Option (List XState) × Bool := fun acc op =>
        match acc with
        | (_, true) => acc
        | (none, false) => if (parseOp ks cfg [] op).isSome then acc else (none, true)
        | (some states, false) =>
          -- every state carries its own configuration and facts (the rule state is the same in all of them)
          let next := states.mapM fun (x : XState) =>
            match parseOp ks x.1.cfg x.2.1 op with
            | none => none
            | some (.inl steps) =>
              let s' := steps.foldl (fun (s : C11.HState _) st => (stepF s st).1) (x.1, x.2.1)
              let item := if op.startsWith "E" then ["e:0:" ++ showFacts x.2.1] else []
              some (some [((s'.1, s'.2, item ++ x.2.2) : XState)])
            | some (.inr (g, agg)) =>
              -- the top-level candidates: out of the index (a HashSet: every order) or the linear fallback (one order)
              let top := C11.topOf nm x.1.rules g
              if top.2 && top.1.length > 4 then some none
              else some (some ((if top.2 then perms top.1 else [top.1]).map fun order =>
                let r := stepF (x.1, x.2.1) (if agg then .aggregate g (fun _ => order) else .query g (fun _ => order))
                match r.2 with
                | some o => ((r.1.1, r.1.2, showItem agg o :: x.2.2) : XState)
                | none => ((r.1.1, r.1.2, x.2.2) : XState)))
          match next with
          | none => (some states, true)
          | some rs =>
            if rs.any Option.isNone then (none, false)
            else
              let all := dedupX (rs.flatMap fun r => r.getD [])
              if all.length > 64 then (none, false) else (some all, false)
      let e0 : C11.Eng Key := C11.Eng.new (engNew nm (C11.namedRules ks)) cfg
      match (opsS.splitOn ",").foldl go (some [((e0, f0, []) : XState)], false) with
      | (none, _) => "many-orders"
      | (some states, stopped) =>
        let outs := (states.map fun x =>
          let items := x.2.2.reverse ++ (if stopped then ["*"] else [])
          if items.isEmpty then "-" else ";".intercalate items).eraseDups
        " || ".intercalate outs
    | _, _, _ => "-"
  | _ => "bad-case"

end Hist

def main (args : List String) : IO Unit :=
  match args with
  | ["model"] => mapLines Hist.modelLine
  | ["oracle"] => mapLines oracleLine
  | _ => IO.eprintln "usage: drv_c11 model|oracle"
