import RreModel.Proto
import RreModel.C04.Spec
import RreModel.C04.File
/-
Driver for C04.
  case := `<stream> <hexseg,hexseg,…> <abstract rule list in prefix notation | ?>`   (see harness/src/bin/c04.rs)
  obs  := `<PR> ;; <PM|=> ;; <P1|=>`  canonical S-expressions
  drv_c04 model  : case       ↦ the observation predicted by the model (`parseRules`, `parseWithModules`, `parseSingleRule`)
  drv_c04 oracle : case | obs ↦ `ok <tags>` iff obs = print (expected rules) for all three entry points, else `fail <what>`
  family `RF:<layout word>`: the oracle also re-renders the case with `C04.renderCase` (File.lean — the renderer of the
  whole-file theorems) from the layout word and the abstract rules and requires the text carried by the case to be exactly
  that rendering (`render-agrees`, else `fail render-differs`); `rf_thm_hyp` = within the observable hypotheses of parseRules_render_full / _layout_comments (Theorems6: any layout, comments in any slot; `rf_thm_oneline` = the former tag:) every rule on one line and comment-free, anything
  between the rules (the layout hypotheses of `parseRules_render` / `parseRules_render_comments`)
-/
open Proto C04

/-! ### external functions: f64 and dates -/

def lowerS (s : Str) : Str := s.map Char.toLower

/-- decimal grammar of `str::parse::<f64>` → bit pattern -/
def parseF64 (s : Str) : Option Nat :=
  let (neg, r) := match s with
    | '-' :: r => (true, r)
    | '+' :: r => (false, r)
    | r => (false, r)
  let sign (f : Float) : Nat := (if neg then -f else f).toBits.toNat
  let lr := lowerS r
  if lr == "inf".toList || lr == "infinity".toList then some (sign (1.0 / 0.0))
  else if lr == "nan".toList then some (0x7ff8000000000000 + (if neg then 0x8000000000000000 else 0))
  else
    let ip := r.takeWhile isDigit
    let r1 := r.dropWhile isDigit
    let (fp, r2) := match r1 with
      | '.' :: r' => (r'.takeWhile isDigit, r'.dropWhile isDigit)
      | _ => ([], r1)
    if ip.isEmpty && fp.isEmpty then none else
    let expo : Option Int := match r2 with
      | [] => some 0
      | e :: r3 =>
        if e == 'e' || e == 'E' then
          let (eneg, ds) := match r3 with
            | '-' :: d => (true, d)
            | '+' :: d => (false, d)
            | d => (false, d)
          if ds.isEmpty || !ds.all isDigit then none
          else some (if eneg then -(digitsVal ds : Int) else (digitsVal ds : Int))
        else none
    match expo with
    | none => none
    | some e =>
      let m := digitsVal (ip ++ fp)
      let e10 : Int := e - fp.length
      let f := if e10 ≥ 0 then Float.ofScientific (m * 10 ^ e10.toNat) false 0 else Float.ofScientific m true (-e10).toNat
      some (sign f)

def daysFromCivil (y m d : Int) : Int :=
  let y := if m ≤ 2 then y - 1 else y
  let era := (if y ≥ 0 then y else y - 399) / 400
  let yoe := y - era * 400
  let mp := (m + 9) % 12
  let doy := (153 * mp + 2) / 5 + d - 1
  let doe := yoe * 365 + yoe / 4 - yoe / 100 + doy
  era * 146097 + doe - 719468

def num2 (s : Str) : Option Nat := if s.length ≥ 1 && s.all isDigit then some (digitsVal s) else none

def validDate (y m d : Nat) : Bool :=
  let leap := (y % 4 == 0 && y % 100 != 0) || y % 400 == 0
  let dim := if m == 2 then (if leap then 29 else 28) else if m == 4 || m == 6 || m == 9 || m == 11 then 30 else 31
  1 ≤ m && m ≤ 12 && 1 ≤ d && d ≤ dim

/-- the formats of `parse_date_string` the generator uses: RFC 3339, `%Y-%m-%d`, `%Y-%m-%dT%H:%M:%S`, `%d-%m-%Y` -/
def parseDate (s : Str) : Option Int :=
  let str := String.ofList s
  match str.splitOn "T" with
  | [d] =>
    match d.splitOn "-" with
    | [sa, b, c] => do
      let a ← num2 sa.toList; let b ← num2 b.toList; let c ← num2 c.toList
      if sa.length == 4 then
        if validDate a b c then some (daysFromCivil a b c * 86400) else none
      else if validDate c b a then some (daysFromCivil c b a * 86400) else none
    | _ => none
  | [d, t] =>
    match d.splitOn "-" with
    | [y, m, dd] => do
      let y ← num2 y.toList; let m ← num2 m.toList; let dd ← num2 dd.toList
      if !validDate y m dd then none else
      let tl := t.toList
      let hms := tl.take 8
      let zone := tl.drop 8
      match (String.ofList hms).splitOn ":" with
      | [h, mi, se] => do
        let h ← num2 h.toList; let mi ← num2 mi.toList; let se ← num2 se.toList
        if h > 23 || mi > 59 || se > 59 then none else
        let base : Int := daysFromCivil y m dd * 86400 + h * 3600 + mi * 60 + se
        match zone with
        | [] => some base
        | ['Z'] => some base
        | sg :: z =>
          match (String.ofList z).splitOn ":" with
          | [zh, zm] => do
            let zh ← num2 zh.toList; let zm ← num2 zm.toList
            let off : Int := zh * 3600 + zm * 60
            if sg == '+' then some (base - off) else if sg == '-' then some (base + off) else none
          | _ => none
      | _ => none
    | _ => none
  | _ => none

def ext : Ext :=
  { parseF64 := parseF64
    f64ToU64 := fun b => (Float.ofBits b.toUInt64).toUInt64.toNat
    f64Show := fun b => (toString (Float.ofBits b.toUInt64)).toList
    parseDate := parseDate }

/-! ### case parsing -/

def unhexStr (s : String) : Option Str := (hexString? s).map String.toList

def parseOp : String → Option Op
  | "eq" => some .eq | "ne" => some .ne | "gt" => some .gt | "ge" => some .ge | "lt" => some .lt | "le" => some .le
  | "contains" => some .contains | "startswith" => some .startsWith | "endswith" => some .endsWith
  | "matches" => some .matches_ | "in" => some .in_ | _ => none

abbrev P (α : Type) := List String → Option (α × List String)

def pHex : P Str
  | t :: r => (unhexStr t).map (·, r)
  | [] => none

def pOptHex : P (Option Str)
  | "~" :: r => some (none, r)
  | t :: r => (unhexStr t).map (fun s => (some s, r))
  | [] => none

partial def pMany (p : P α) : Nat → P (List α)
  | 0, ts => some ([], ts)
  | n + 1, ts => do
    let (x, r) ← p ts
    let (xs, r') ← pMany p n r
    pure (x :: xs, r')

def pCount (p : P α) : P (List α)
  | n :: r => do pMany p (← n.toNat?) r
  | [] => none

partial def pLit : P ALit
  | "i" :: n :: r => n.toInt?.map (fun i => (.int i, r))
  | "f" :: t :: b :: r => do
    let t ← unhexStr t
    let bs ← (b.toList.mapM hexDigit?)
    pure (.float t (bs.foldl (fun a d => 16 * a + d) 0), r)
  | "s" :: q :: h :: r => do pure (.str (if q == "d" then '"' else '\'') (← unhexStr h), r)
  | "b" :: v :: r => some (.bool (v == "1"), r)
  | "nil" :: r => some (.null, r)
  | "a" :: n :: r => do
    let (xs, r') ← pMany pLit (← n.toNat?) r
    pure (.arr xs, r')
  | "id" :: h :: r => do pure (.ident (← unhexStr h), r)
  | "path" :: h :: r => do pure (.path (← unhexStr h), r)
  | "expr" :: h :: r => do pure (.arith (← unhexStr h), r)
  | _ => none

def pOpTok : P Op
  | t :: r => (parseOp t).map (·, r)
  | [] => none

partial def pCondA : P (Cond AAtom)
  | "A" :: r => do let (a, r) ← pCondA r; let (b, r) ← pCondA r; pure (.and a b, r)
  | "O" :: r => do let (a, r) ← pCondA r; let (b, r) ← pCondA r; pure (.or a b, r)
  | "!" :: r => do let (a, r) ← pCondA r; pure (.not a, r)
  | "E" :: r => do let (a, r) ← pCondA r; pure (.ex a, r)
  | "F" :: r => do let (a, r) ← pCondA r; pure (.fa a, r)
  | "cmp" :: r => do
    let (f, r) ← pHex r; let (o, r) ← pOpTok r; let (v, r) ← pLit r
    pure (.single (.cmp f o v), r)
  | "ar" :: r => do
    let (l, r) ← pHex r; let (o, r) ← pHex r; let (v, r) ← pHex r
    pure (.single (.arith l o v), r)
  | "call" :: r => do
    let (f, r) ← pHex r; let (as, r) ← pCount pHex r; let (o, r) ← pOpTok r; let (v, r) ← pLit r
    pure (.single (.call f as o v), r)
  | "test" :: r => do
    let (f, r) ← pHex r; let (as, r) ← pCount pHex r
    pure (.single (.test f as), r)
  | "mcount" :: r => do
    let (f, r) ← pHex r; let (o, r) ← pOpTok r; let (v, r) ← pLit r
    pure (.single (.mcount f o v), r)
  | "mfirst" :: r => do let (f, r) ← pHex r; let (v, r) ← pOptHex r; pure (.single (.mfirst f v), r)
  | "mlast" :: r => do let (f, r) ← pHex r; let (v, r) ← pOptHex r; pure (.single (.mlast f v), r)
  | "mempty" :: r => do let (f, r) ← pHex r; pure (.single (.mempty f), r)
  | "mnotempty" :: r => do let (f, r) ← pHex r; pure (.single (.mnotempty f), r)
  | "mcollect" :: r => do let (f, r) ← pHex r; let (v, r) ← pHex r; pure (.single (.mcollect f v), r)
  | _ => none

def pStmt : P AStmt
  | "set" :: r => do let (f, r) ← pHex r; let (v, r) ← pLit r; pure (.set f v, r)
  | "app" :: r => do let (f, r) ← pHex r; let (v, r) ← pLit r; pure (.append f v, r)
  | "fn" :: r => do let (f, r) ← pHex r; let (as, r) ← pCount pLit r; pure (.call f as, r)
  | "ret" :: r => do let (o, r) ← pHex r; pure (.retract o, r)
  | "log" :: r => do let (v, r) ← pLit r; pure (.log v, r)
  | "act" :: r => do let (g, r) ← pHex r; pure (.activate g, r)
  | "sch" :: n :: r => do let (nm, r) ← pHex r; pure (.schedule (← n.toNat?) nm, r)
  | "done" :: r => do let (w, r) ← pHex r; pure (.complete w, r)
  | "wf" :: r => do let (k, r) ← pHex r; let (v, r) ← pLit r; pure (.wfdata k v, r)
  | "meth" :: r => do
    let (o, r) ← pHex r; let (m, r) ← pHex r; let (as, r) ← pCount pLit r
    pure (.method o m as, r)
  | _ => none

def pRuleA : P ARule
  | "R" :: r => do
    let (name, r) ← pHex r
    match r with
    | sal :: nl :: lk :: r =>
      let sal ← sal.toInt?
      let (ag, r) ← pOptHex r; let (actg, r) ← pOptHex r; let (de, r) ← pOptHex r; let (dx, r) ← pOptHex r
      let (c, r) ← pCondA r
      let (ss, r) ← pCount pStmt r
      pure ({ name := name, salience := sal, noLoop := nl == "1", lockOnActive := lk == "1", agendaGroup := ag,
              activationGroup := actg, dateEffective := de, dateExpires := dx, cond := c, stmts := ss }, r)
    | _ => none
  | _ => none

structure Case where
  stream : String
  segs : List Str
  rules : Option (List ARule)

def parseCase (line : String) : Option Case :=
  match tokens line with
  | stream :: segs :: abs => do
    let segs ← (segs.splitOn ",").mapM unhexStr
    if abs == ["?"] then pure ⟨stream, segs, none⟩ else
    match pCount pRuleA abs with
    | some (rs, []) => pure ⟨stream, segs, some rs⟩
    | _ => none
  | _ => none

def oddSegs : List Str → List Str
  | _ :: b :: r => b :: oddSegs r
  | _ => []

def modelLine (line : String) : String :=
  match parseCase line with
  | none => "bad-case"
  | some c =>
    let full := c.segs.flatten
    observe (parseRules ext full) (parseWithModules ext full) ((oddSegs c.segs).map (parseSingleRule ext))

/-! ### tags (input distribution) -/

def condSize : Cond α → Nat
  | .single _ => 1
  | .and l r | .or l r => condSize l + condSize r + 1
  | .not c | .ex c | .fa c => condSize c + 1

def condDepth : Cond α → Nat
  | .single _ => 1
  | .and l r | .or l r => max (condDepth l) (condDepth r) + 1
  | .not c | .ex c | .fa c => condDepth c + 1

def hasAndOr : Cond α → Bool × Bool
  | .single _ => (false, false)
  | .and l r => let (_, o1) := hasAndOr l; let (_, o2) := hasAndOr r; (true, o1 || o2)
  | .or l r => let (a1, _) := hasAndOr l; let (a2, _) := hasAndOr r; (a1 || a2, true)
  | .not c | .ex c | .fa c => hasAndOr c

/-- a string literal body with a character / word the structural scanning looks for -/
def strHasMeta (s : Str) : Bool :=
  s.any (fun c => ['{', '}', '&', '|', '(', ')', ';', '=', ',', '+', '!'].contains c) || containsSub s " then ".toList

partial def litMeta : ALit → Bool
  | .str _ s => strHasMeta s
  | .arr xs => xs.any litMeta
  | _ => false

/-- a string concatenation: an expression text with a string literal in it; `ends` = it starts and ends with a literal of the
same quote kind (only the inner quote character tells it from ONE literal) -/
def concatText (ends : Bool) (s : Str) : Bool :=
  (s.contains '"' || s.contains '\'') &&
    (!ends || (s.head? == s.getLast? && s.length ≥ 2 && (s.head? == some '"' || s.head? == some '\'')))

partial def litConcat (ends : Bool) : ALit → Bool
  | .arith s => concatText ends s
  | .arr xs => xs.any (litConcat ends)
  | _ => false

def condAny (p : α → Bool) : Cond α → Bool
  | .single a => p a
  | .and l r | .or l r => condAny p l || condAny p r
  | .not c | .ex c | .fa c => condAny p c

def atomMeta : AAtom → Bool
  | .cmp _ _ v | .call _ _ _ v | .mcount _ _ v => litMeta v
  | .arith _ _ v => v.head? == some '"' && strHasMeta v
  | _ => false

def stmtMeta : AStmt → Bool
  | .set _ v | .append _ v | .log v | .wfdata _ v => litMeta v
  | .call _ as | .method _ _ as => as.any litMeta
  | .activate g | .complete g | .schedule _ g => strHasMeta g
  | _ => false

def atomConcat (ends : Bool) : AAtom → Bool
  | .cmp _ _ v | .call _ _ _ v | .mcount _ _ v => litConcat ends v
  | .arith _ _ v => concatText ends v
  | _ => false

def stmtConcat (ends : Bool) : AStmt → Bool
  | .set _ v | .append _ v | .log v | .wfdata _ v => litConcat ends v
  | .call _ as | .method _ _ as => as.any (litConcat ends)
  | _ => false

def ruleConcat (ends : Bool) (r : ARule) : Bool :=
  condAny (atomConcat ends) r.cond || r.stmts.any (stmtConcat ends)

/-- a function-call / `test(...)` leaf with a string-literal ARGUMENT (`comma`: whose text contains a comma) -/
def argIsLit (comma : Bool) (a : Str) : Bool :=
  (a.head? == some '"' || a.head? == some '\'') && (!comma || a.contains ',')

def atomArgLit (comma : Bool) : AAtom → Bool
  | .call _ as _ _ | .test _ as => as.any (argIsLit comma)
  | _ => false

/-- the argument vectors of the function-call / `test(...)` leaves of a printed AST, left to right: the text between
`(call ` / `(test ` and the `))` that closes the vector (hex tokens contain no parenthesis) -/
def argVectors (obs : String) : List String :=
  let cut (kw : String) := ((obs.splitOn kw).drop 1).map fun p => kw ++ ((p.splitOn "))").headD "")
  cut "(call " ++ cut "(test "

/-- an action with an argument list (custom call, method call, Log, the workflow forms) that has a string-literal argument
(`comma`: whose body contains a comma) -/
def litIsStr (comma : Bool) : ALit → Bool
  | .str _ s => !comma || s.contains ','
  | _ => false

def stmtArgLit (comma : Bool) : AStmt → Bool
  | .call _ as | .method _ _ as => as.any (litIsStr comma)
  | .log v => litIsStr comma v
  | .activate g | .complete g | .schedule _ g => !comma || g.contains ','
  | _ => false

/-- the rule list as the code is KNOWN to return it under the open findings F-C04i (`$Obj.method(args)` becomes the custom action
`method(args)`: the object is lost) and F-C04j (`first $v` / `last $v` lose the variable): everything else — in particular the
argument vector — must still be what was written -/
def underFindings (r : ARule) : ARule :=
  { r with
    cond := r.cond.map fun
      | .mfirst f _ => .mfirst f none
      | .mlast f _ => .mlast f none
      | a => a
    stmts := r.stmts.map fun
      | .method _ m as => .call m as
      | s => s }

def ruleMeta (r : ARule) : Bool :=
  condAny atomMeta r.cond || r.stmts.any stmtMeta

def headerMeta (r : ARule) : Bool :=
  strHasMeta r.name || (r.agendaGroup.map strHasMeta).getD false || (r.activationGroup.map strHasMeta).getD false

def tagsOf (c : Case) (rs : List ARule) : List String :=
  let n := rs.length
  let maxd := rs.foldl (fun m r => max m (condDepth r.cond)) 0
  let sz := rs.foldl (fun m r => m + condSize r.cond) 0
  let mixed := rs.any fun r => let (a, o) := hasAndOr r.cond; a && o
  [s!"stream_{c.stream.takeWhile (· != ':')}", s!"rules_{n}", s!"depth_{maxd}"]
  ++ (if rs.any (·.salience < 0) then ["neg_salience"] else [])
  ++ (if rs.any (fun r => r.noLoop || r.lockOnActive || r.agendaGroup.isSome || r.activationGroup.isSome) then ["attrs"] else [])
  ++ (if rs.any (fun r => r.dateEffective.isSome || r.dateExpires.isSome) then ["dates"] else [])
  ++ (if mixed then ["and_or_mixed"] else [])
  ++ (if n ≥ 2 then ["multi_rule"] else [])
  ++ (if rs.any ruleMeta then ["strlit_meta"] else [])
  ++ (if rs.any headerMeta then ["header_meta"] else [])
  ++ (if rs.any (fun r => condAny (atomArgLit false) r.cond) then ["callarg_strlit"] else [])
  ++ (if rs.any (fun r => condAny (atomArgLit true) r.cond) then ["callarg_strlit_comma"] else [])
  ++ (if rs.any (fun r => r.stmts.any (stmtArgLit false)) then ["actionarg_strlit"] else [])
  ++ (if rs.any (fun r => r.stmts.any (stmtArgLit true)) then ["actionarg_strlit_comma"] else [])
  ++ (if rs.any (ruleConcat false) then ["str_concat"] else [])
  ++ (if rs.any (ruleConcat true) then ["str_concat_lit_ends"] else [])
  ++ (if n ≥ 1 && sz ≥ 3 then ["nontrivial"] else [])

def firstDiff (a b : String) : Nat := Id.run do
  let xs := a.toList; let ys := b.toList
  let mut i := 0
  for (x, y) in xs.zip ys do
    if x != y then return i
    i := i + 1
  return i

def ltSlots : LT → List Str
  | .leaf _ => []
  | .paren wl wr t | .ex wl wr t | .fa wl wr t => wl :: wr :: ltSlots t
  | .not w t => w :: ltSlots t
  | .or l wl wr r | .and l wl wr r => wl :: wr :: (ltSlots l ++ ltSlots r)

def srcSlots (r : RuleSrc) : List Str :=
  [r.w0, r.w1, r.w2, r.w3, r.w4, r.w5, r.w6] ++ r.attrs.flatMap (fun a => [a.w1, a.w2]) ++ ltSlots r.cond
    ++ r.stmts.flatMap (fun x => [x.1, x.2.2])

/-- the hypotheses of `parseRules_render_full` / `parseRules_render_layout_comments` that can be observed on the text:
`strip_comments` of the text IS `renderFile` of the same rules with every slot stripped (`RuleSrc.mapW stripSlot`), that file
is comment-free, all its slots are white space, no leaf / statement text contains a line break or starts with `/`, and the
first statement directly follows the slot after `then` -/
def withinFull (text g0 : Str) (srcs : List (RuleSrc × Str)) : Bool :=
  let srcsS := srcs.map fun x => (x.1.mapW stripSlot, stripSlot x.2)
  let stripped := stripComments text none
  stripped == renderFile (stripSlot g0) srcsS
    && stripComments stripped none == stripped
    && (stripSlot g0).all isWs
    && srcsS.all (fun x => x.2.all isWs && (srcSlots x.1).all (fun w => w.all isWs)
        && (x.1.cond.leaves ++ x.1.stmts.map (·.2.1)).all (fun t => !t.contains '\n' && t.head? != some '/')
        && (match x.1.stmts with | (a, _, _) :: _ => a.isEmpty | [] => false))

/-- the `RF` family: the case text must be `renderFile` of (layout word, abstract rules) -/
def rfTags (c : Case) (rs : List ARule) : Except String (List String) :=
  if !c.stream.startsWith "RF:" then .ok [] else
  let word : List Nat := (c.stream.toList.drop 3).map fun ch => ch.toNat - '0'.toNat
  match renderCase rs word with
  | none => .error "render-unsupported"
  | some (text, srcs) =>
    if text != c.segs.flatten then .error "render-differs"
    else if srcs.map (fun x => x.1.render) != oddSegs c.segs then .error "render-differs-rule"
    else
      let noComments := stripComments text none == text
      let oneLine := (oddSegs c.segs).all fun s => !s.contains '\n'
      -- comments BETWEEN rules are covered by `parseRules_render_comments`: only the rule texts must be comment-free
      let rulesClean := (oddSegs c.segs).all fun s => stripComments s none == s
      let full := withinFull text (popO word).1 srcs
      .ok (["render-agrees"] ++ (if (rulesClean && oneLine) || full then ["rf_thm_hyp"] else [])
            ++ (if rulesClean && oneLine then ["rf_thm_oneline"] else [])
            ++ (if !noComments then ["rf_comments"] else []) ++ (if !oneLine then ["rf_multiline"] else []))

def oracleLine (line : String) : String :=
  match line.splitOn " | " with
  | [cs, o] =>
    match parseCase cs with
    | none => "bad-input"
    | some c =>
      match c.rules with
      | none => "ok probe"
      | some rs =>
        let obs := o.trimAscii.toString
        match expectedObs ext rs with
        | none => "bad-input date"
        | some e =>
          if e == obs then
            match rfTags c rs with
            | .ok ts => joinSp ("ok" :: tagsOf c rs ++ ts)
            | .error w => s!"fail {w}"
          else
            let parts := obs.splitOn " ;; "
            let eparts := e.splitOn " ;; "
            let which := if parts.head? != eparts.head? then "parse_rules" else if parts.getD 1 "" != "=" then "parse_with_modules" else "parse_rule"
            -- the argument vector observed == the argument vector written (function-call and test(...) leaves)
            let k := if which == "parse_rules" then 0 else if which == "parse_with_modules" then 1 else 2
            let seen := let p := parts.getD k ""; if p == "=" then parts.getD 0 "" else p
            if !containsSub seen.toList "(err)".toList && argVectors seen != argVectors (eparts.getD 0 "") then s!"fail call_args@{which}" else
            -- streams of the open findings: the observation must be the one the finding explains, nothing more
            if (c.stream == "M:method" || c.stream == "M:firstvar") && expectedObs ext (rs.map underFindings) != some obs then
              s!"fail beyond_finding@{which}" else
            s!"fail {which}"
  | _ => "bad-input"

def main (args : List String) : IO Unit :=
  match args with
  | ["model"] => mapLines modelLine
  | ["oracle"] => mapLines oracleLine
  | _ => IO.eprintln "usage: drv_c04 model|oracle"
