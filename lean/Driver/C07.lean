import RreModel.Proto
import RreModel.C07.Spec
/-
Driver for C07 (formats: see harness/src/bin/c07.rs).
  drv_c07 model   : case        ↦ observation predicted by the model
  drv_c07 oracle  : case | obs  ↦ `ok <tags>` / `fail <clause>@<step>`
-/
open Proto C07

def optNat? (s : String) : Option (Option Nat) := if s = "-" then some none else s.toNat?.map some

def parseOp (idx : Nat) (s : String) : Option Op :=
  match s.splitOn ":" with
  | ["a", rule, sal, ag, actg, rfg, fl, created] => do
    let rule ← rule.toNat?
    let sal ← sal.toInt?
    let ag ← ag.toNat?
    let actg ← optNat? actg
    let rfg ← optNat? rfg
    let created ← created.toNat?
    match fl.toList with
    | [n, l, f] =>
      pure (.add { rule := rule, sal := sal, ag := ag, actg := actg, rfg := rfg, noLoop := n == '1', lock := l == '1',
                   autoFocus := f == '1', created := created, tag := idx })
    | _ => none
  | ["p"] => some .pop
  | ["q"] => some .popMark
  | ["m", rule, ag, actg, lock] => do
    let rule ← rule.toNat?
    let ag ← ag.toNat?
    let actg ← optNat? actg
    pure (.mark { rule := rule, sal := 0, ag := ag, actg := actg, lock := lock == "1" })
  | ["f", g] => g.toNat?.map .focus
  | ["r"] => some .reset
  | ["c"] => some .clear
  | ["R+", g] => g.toNat?.map .rfOn
  | ["R-", g] => g.toNat?.map .rfOff
  | ["s", _] => some .strategy
  | _ => none

def parseOps : Nat → List String → Option (List Op)
  | _, [] => some []
  | i, t :: ts => do
    let o ← parseOp i t
    let r ← parseOps (i + 1) ts
    pure (o :: r)

def parseCRule (s : String) : Option CRule :=
  match s.splitOn ":" with
  | [p, nl, ck, lim, ak, inc] => do
    let p ← p.toInt?
    let lim ← lim.toInt?
    let inc ← inc.toInt?
    pure { prio := p, noLoop := nl == "1", ck := ck == "1", limit := lim, ak := ak == "1", inc := inc }
  | _ => none

def parseList {α} (f : String → Option α) (s : String) : Option (List α) :=
  if s = "-" then some [] else (s.splitOn ",").mapM f

def parseFact (s : String) : Option (Int × Int) :=
  match s.splitOn ":" with
  | [a, b] => do pure ((← a.toInt?), (← b.toInt?))
  | _ => none

def showRes : Option (Option Act) → String
  | none => "."
  | some none => "-"
  | some (some a) => toString a.tag

def showObs (o : Obs) : String := s!"{showRes o.res}/{o.focus}/{o.total}/{o.nfired}/{o.nfiredAG}"

def rle : List Nat → List (Nat × Nat) → List (Nat × Nat)
  | [], acc => acc.reverse
  | x :: xs, (y, c) :: acc => if x = y then rle xs ((y, c + 1) :: acc) else rle xs ((x, 1) :: (y, c) :: acc)
  | x :: xs, [] => rle xs [(x, 1)]

def showFired (l : List Nat) : String :=
  if l.isEmpty then "-" else ",".intercalate ((rle l []).map fun (n, c) => s!"R{n}*{c}")

def runEngine (kind : String) (rules : List CRule) (facts : List (Int × Int)) : Option String :=
  let (a, b) := facts.head?.getD (0, 0)
  if kind = "T" then
    let r := typedFireAll rules { a := a, b := b }
    some s!"ok {showFired r.2} {r.1.a} {r.1.b}"
  else if kind = "U" then
    let r := ulFireAll rules { a := a, b := b }
    some s!"ok {showFired r.2} {r.1.a} {r.1.b}"
  else if kind = "I" then
    let e : Inc := { rules := rules }
    let e := facts.foldl (fun e f => e.insert f.1 f.2) e
    some s!"ok {showFired e.fireAll.2} - -"
  else none

/-! engine histories: `H <rules> <op> …`, op = `i<a>:<b>` | `u<h>:<a>:<b>` | `x<h>` | `F` | `Z` -/
def parseHOp (s : String) : Option HOp :=
  if s = "F" then some .fire
  else if s = "Z" then some .reset
  else if s.startsWith "x" then (s.drop 1).toString.toNat?.map .retract
  else if s.startsWith "i" then
    match (s.drop 1).toString.splitOn ":" with
    | [a, b] => do pure (.insert (← a.toInt?) (← b.toInt?))
    | _ => none
  else if s.startsWith "u" then
    match (s.drop 1).toString.splitOn ":" with
    | [h, a, b] => do pure (.update (← h.toNat?) (← a.toInt?) (← b.toInt?))
    | _ => none
  else none

/-! caller-queued activations: `G <rules> <op> …`, op = an `H` op | `a<rule>:<sal>:<actg|->:<nl>:<h|->` -/
inductive GOp where
  | h (o : HOp)
  | add (rule : Nat) (sal : Int) (actg : Option Nat) (nl : Bool) (h : Option Nat)

def optNat (s : String) : Option (Option Nat) := if s = "-" then some none else s.toNat?.map some

def parseGOp (s : String) : Option GOp :=
  if s.startsWith "a" then
    match (s.drop 1).toString.splitOn ":" with
    | [r, sal, g, nl, h] => do pure (.add (← r.toNat?) (← sal.toInt?) (← optNat g) (nl == "1") (← optNat h))
    | _ => none
  else (parseHOp s).map .h

def showHRes (op : HOp) : HRes → String
  | .handle h => s!"i{h}"
  | .ok b => (match op with | .retract _ => "x" | _ => "u") ++ (if b then "1" else "0")
  | .fired names => "F" ++ showFired names
  | .unit => "z"

def gstep (e : Inc) : GOp → Inc × String
  | .add r s g nl h => (e.addAct r s g nl h, "a")
  | .h .fire => let r := e.fireAllM; (r.1, "F" ++ showFired r.2)
  | .h o => let r := e.hstep o; (r.1, showHRes o r.2)

def gtrace (e : Inc) : List GOp → List String
  | [] => []
  | o :: os => (gstep e o).2 :: gtrace (gstep e o).1 os

def parseFiredNames (s : String) : Option (List Nat) :=
  if s = "-" then some [] else
    (s.splitOn ",").foldlM (fun acc t => match t.splitOn "*" with
      | [n, c] => do
        let n ← (n.drop 1).toString.toNat?
        let c ← c.toNat?
        pure (acc ++ List.replicate c n)
      | _ => none) []

def parseHRes (s : String) : Option HRes :=
  if s = "z" then some .unit
  else if s = "u1" || s = "x1" then some (.ok true)
  else if s = "u0" || s = "x0" then some (.ok false)
  else if s.startsWith "i" then (s.drop 1).toString.toNat?.map .handle
  else if s.startsWith "F" then (parseFiredNames (s.drop 1).toString).map .fired
  else none

/-! named rule sets: `M <T|U> <rules> <a>:<b> <op> …`, op = `F` | `Z` | `s<a>:<b>` | `k<n>` -/
def parseNRule (s : String) : Option NRule :=
  match s.splitOn ":" with
  | [n, p, nl, ck, lim, ak, inc, mk] => do
    let n ← n.toNat?
    let p ← p.toInt?
    let lim ← lim.toInt?
    let inc ← inc.toInt?
    let (mk, mv) ← (match mk.splitOn "=" with
      | [k] => (optNat? k).map (fun k => (k, 0))
      | [k, v] => do pure (some (← k.toNat?), ← v.toNat?)
      | _ => none)
    pure { name := n, prio := p, noLoop := nl == "1", ck := ck == "1", limit := lim, ak := ak == "1", inc := inc, marks := mk, mval := mv }
  | _ => none

def parseMOp (s : String) : Option MOp :=
  if s = "F" then some .fire
  else if s = "Z" then some .reset
  else if s.startsWith "k" then
    match (s.drop 1).toString.splitOn "=" with
    | [n] => n.toNat?.map (fun n => .marker n 0)
    | [n, v] => do pure (.marker (← n.toNat?) (← v.toNat?))
    | _ => none
  else if s.startsWith "s" then
    match (s.drop 1).toString.splitOn ":" with
    | [a, b] => do pure (.set (← a.toInt?) (← b.toInt?))
    | _ => none
  else none

def showFiredN (l : List Nat) : String :=
  if l.isEmpty then "-" else ",".intercalate ((rle l []).map fun (n, c) => s!"N{n}*{c}")

def showHResN (op : HOp) : HRes → String
  | .fired names => "F" ++ showFiredN names
  | r => showHRes op r

def showMRes (op : MOp) : MRes → String
  | .fired names a b => s!"F{showFiredN names}/{a}/{b}"
  | .unit => match op with | .reset => "z" | .set _ _ => "s" | _ => "k"

def parseMRes (s : String) : Option MRes :=
  if s = "z" || s = "s" || s = "k" then some .unit
  else if s.startsWith "F" then
    match (s.drop 1).toString.splitOn "/" with
    | [f, a, b] => do pure (.fired (← parseFiredNames f) (← a.toInt?) (← b.toInt?))
    | _ => none
  else none

/-! rules with actions: `K <rules> <op> …`, rule = `name:prio:noloop:ck:limit:acts`, acts = `-` | `+`-joined `o` | `t` | `h<n>` -/
def parseRAct (s : String) : Option RAct :=
  if s = "o" then some .own
  else if s = "t" then some .byType
  else if s.startsWith "h" then (s.drop 1).toString.toNat?.map .handle
  else none

def parseKRule (s : String) : Option (Nat × CRule × List RAct) :=
  match s.splitOn ":" with
  | [n, p, nl, ck, lim, acts] => do
    let n ← n.toNat?
    let p ← p.toInt?
    let lim ← lim.toInt?
    let acts ← (if acts = "-" then some [] else (acts.splitOn "+").mapM parseRAct)
    pure (n, { prio := p, noLoop := nl == "1", ck := ck == "1", limit := lim, ak := false, inc := 0 }, acts)
  | _ => none

def insertEverywhere {α} (x : α) : List α → List (List α)
  | [] => [[x]]
  | y :: ys => (x :: y :: ys) :: (insertEverywhere x ys).map (y :: ·)

def permutations {α} : List α → List (List α)
  | [] => [[]]
  | x :: xs => (permutations xs).flatMap (insertEverywhere x)

/-- every admissible observation of a `K` case: one per iteration order of the type index (at most 3 inserted facts: every
permutation of their handles; more: insertion order only) -/
def kPredictions (rs : List (Nat × CRule × List RAct)) (hops : List HOp) : List String :=
  let n := (hops.filter (fun o => match o with | .insert _ _ => true | _ => false)).length
  let perms := if n ≤ 3 then permutations ((List.range n).map (· + 1)) else [[]]
  (perms.map (fun p =>
    let e : IncA := { rules := rs, perm := p }
    joinSp ("ok" :: (hops.zip (e.htrace hops)).map (fun (o, r) => showHResN o r)))).eraseDups

def modelLine (line : String) : String :=
  match tokens line with
  | "K" :: rules :: ops =>
    match parseList parseKRule rules, ops.mapM parseHOp with
    | some rs, some hops => " || ".intercalate (kPredictions rs hops)
    | _, _ => "bad-case"
  | "M" :: "I" :: rules :: _ :: ops =>
    match parseList parseNRule rules, ops.mapM parseHOp with
    | some rs, some hops =>
      let e : IncN := { rules := rs.map (fun r => (r.name, r.toCRule)) }
      joinSp ("ok" :: (hops.zip (e.htrace hops)).map (fun (o, r) => showHResN o r))
    | _, _ => "bad-case"
  | "M" :: kind :: rules :: facts :: ops =>
    match parseList parseNRule rules, parseList parseFact facts, ops.mapM parseMOp with
    | some rs, some [(a, b)], some mops =>
      if kind = "T" || kind = "U" then
        joinSp ("ok" :: (mops.zip (mtrace (kind == "T") rs { a := a, b := b } mops)).map (fun (o, r) => showMRes o r))
      else "bad-case"
    | _, _, _ => "bad-case"
  | "H" :: rules :: ops =>
    match parseList parseCRule rules, ops.mapM parseHOp with
    | some rs, some hops =>
      let e : Inc := { rules := rs }
      joinSp ("ok" :: (hops.zip (e.htrace hops)).map (fun (o, r) => showHRes o r))
    | _, _ => "bad-case"
  | "G" :: rules :: ops =>
    match parseList parseCRule rules, ops.mapM parseGOp with
    | some rs, some gops => joinSp ("ok" :: gtrace { rules := rs } gops)
    | _, _ => "bad-case"
  | "A" :: ts =>
    match parseOps 0 ts with
    | some ops =>
      let os := trace Agenda.new ops
      let tie := if keysDistinct ops [] then "T0" else "T1"
      joinSp (tie :: (if os.isEmpty then ["-"] else os.map showObs))
    | none => "bad-case"
  | ["E", kind, rules, facts] =>
    match parseList parseCRule rules, parseList parseFact facts with
    | some rs, some fs => (runEngine kind rs fs).getD "bad-case"
    | _, _ => "bad-case"
  | _ => "bad-case"

/-- the add with tag `t` (tag = op index), id erased — what the harness saw come back -/
def actOfTag (ops : List Op) (t : Nat) : Option Act :=
  match ops[t]? with
  | some (.add a) => some (noId a)
  | _ => none

def parseObsTok (ops : List Op) (s : String) : Option Obs :=
  match s.splitOn "/" with
  | [r, f, t, nf, ng] => do
    let f ← f.toNat?
    let t ← t.toNat?
    let nf ← nf.toNat?
    let ng ← ng.toNat?
    let res ← (if r = "." then some none
               else if r = "-" then some (some none)
               else do let k ← r.toNat?; let a ← actOfTag ops k; pure (some (some a)))
    pure { res := res, focus := f, total := t, nfired := nf, nfiredAG := ng }
  | _ => none

def firstBadClause (g : Agenda) (op : Op) (o : Obs) : String :=
  match o.res with
  | some r =>
    if !isPop op then "shape"
    else if !okFocus g r o.focus then "focus_falls_back"
    else match r with
      | none => if statsOk (step g op).1 o then "?" else "stats"
      | some a =>
        if !okMember g a o.focus then "pop_member"
        else if !okNoLoop g a then "no_loop_once"
        else if !okActGroup g a then "activation_group_once"
        else if !okLock g a then "lock_on_active"
        else if !okMax g a o.focus then "pop_is_max"
        else if statsOk (step g op).1 o then "?" else "stats"
  | none => if isPop op then "shape" else if statsOk (step g op).1 o then "?" else "stats"

def firstBad : Nat → Agenda → List Op → List Obs → String
  | _, _, [], [] => "runOk"
  | i, g, op :: ops, o :: os =>
    if stepOk g op o then firstBad (i + 1) (step g op).1 ops os else s!"{firstBadClause g op o}@{i}"
  | i, _, _, _ => s!"length@{i}"

def firstBadWeak : Nat → Agenda → List Op → List Obs → String
  | _, _, [], [] => "runOkWeak"
  | i, w, op :: ops, o :: os =>
    match wstep w op o with
    | some w' => firstBadWeak (i + 1) w' ops os
    | none =>
      match o.res with
      | some (some r) =>
        if !(w.acts.any (fun a => noId a == r) && inGroup o.focus r) then s!"weak_member@{i}"
        else if !okNoLoop w r then s!"no_loop_once@{i}"
        else if !okActGroup w r then s!"activation_group_once@{i}"
        else s!"lock_on_active@{i}"
      | _ => s!"shape@{i}"
  | i, _, _, _ => s!"length@{i}"

def agendaTags (ops : List Op) (os : List Obs) (tie : Bool) : List String :=
  let popped := os.filter (fun o => match o.res with | some (some _) => true | _ => false)
  let nonePops := os.filter (fun o => o.res == some none)
  let fallback := (ops.zip (os.zip ({ res := none, focus := 0, total := 0, nfired := 0, nfiredAG := 0 } :: os))).any
    (fun (op, o, prev) => isPop op && o.focus != prev.focus)
  let shrank := (ops.zip (os.zip ({ res := none, focus := 0, total := 0, nfired := 0, nfiredAG := 0 } :: os))).any
    (fun (op, o, prev) => isPop op && o.total + 1 < prev.total)
  ["agenda"] ++ (if tie then ["tie"] else []) ++ (if popped.length ≥ 1 then ["popped"] else [])
    ++ (if nonePops.length ≥ 1 then ["pop_none"] else []) ++ (if fallback then ["focus_fallback"] else [])
    ++ (if shrank then ["skipped_discarded"] else [])
    ++ (if os.any (fun o => o.nfiredAG > 0) then ["actgroup_fired"] else [])
    ++ (if ops.any (fun o => o == .reset) then ["reset"] else [])
    ++ (if popped.length ≥ 2 then ["nontrivial"] else [])

def parseFiredCount (s : String) : Option Nat :=
  if s = "-" then some 0 else
    (s.splitOn ",").foldlM (fun acc t => match t.splitOn "*" with
      | [_, c] => c.toNat?.map (acc + ·)
      | _ => none) 0

/-- evidence tag: some `fire_all` is called while an activation created earlier has gone stale (its fact was retracted, or
updated so that the rule's condition no longer holds) — `dirty` = such a call happened since the last `fire_all` -/
def staleBeforeFire (rules : List CRule) : List (Nat × Int × Int) → Bool → List HOp → List HRes → Bool
  | facts, dirty, .fire :: ops, _ :: rs => dirty || staleBeforeFire rules facts false ops rs
  | facts, dirty, op :: ops, r :: rs =>
    let facts' := obsFacts facts op r
    let lost := facts.any (fun f => rules.any (fun q => cMatches q f &&
      !(facts'.any (fun g => g.1 == f.1 && cMatches q g))))
    staleBeforeFire rules facts' (dirty || lost) ops rs
  | _, _, _, _ => false

/-! ### oracle of the `G` cases: "at most one rule of an activation group fires" between resets, on the fired names of `fire_all`.
Engine-made activations carry no group.  A rule that no inserted / updated fact of the case satisfies gets activations from the caller
only; a no-loop rule gets at most ONE firing per reset period out of the engine's own activations (clause no_loop_once).  So for a
rule `r` whose caller-queued grouped activations all carry the one group `x`, at least
`firings(r) − ungrouped activations queued for r so far − (1 if some fact satisfies r)` firings of the period came from group `x`
(rules that are satisfiable and not no-loop are left out); the sum over the rules of `x` must not exceed 1.  Also: `fire_all` stops at
its bound. -/
def gSatisfiable (r : CRule) (gops : List GOp) : Bool :=
  gops.any (fun o => match o with
    | .h (.insert a b) => cMatches r (0, a, b)
    | .h (.update _ a b) => cMatches r (0, a, b)
    | _ => false)

def gGroupsOf (i : Nat) (gops : List GOp) : List Nat :=
  (gops.filterMap (fun o => match o with | .add r _ (some x) _ _ => if r == i then some x else none | _ => none)).eraseDups

def groupedLower (rs : List CRule) (gops : List GOp) (ung fired : List Nat) (x : Nat) : Nat :=
  ((enumFrom 0 rs).map (fun (i, r) =>
    if gGroupsOf i gops != [x] then 0
    else if gSatisfiable r gops && !r.noLoop then 0
    else fired.count i - (ung.count i + (if gSatisfiable r gops then 1 else 0)))).foldl (· + ·) 0

/-- walks the history: `ung` = rules of the ungrouped activations queued so far, `fired` = names fired since the last reset -/
def groupBad (rs : List CRule) (gops : List GOp) : Nat → List Nat → List Nat → List (GOp × String) → Option String
  | _, _, _, [] => none
  | k, ung, fired, (op, tok) :: rest =>
    match op with
    | .add r _ none _ _ => groupBad rs gops (k + 1) (r :: ung) fired rest
    | .add _ _ (some _) _ _ => groupBad rs gops (k + 1) ung fired rest
    | .h .reset => groupBad rs gops (k + 1) ung [] rest
    | .h .fire =>
      match parseFiredNames (tok.drop 1).toString with
      | none => some "unparsable-observation"
      | some ns =>
        let fired' := fired ++ ns
        if ns.length > incBound then some s!"fire_all_bounded@{k}"
        else if (gops.filterMap (fun o => match o with | .add _ _ (some x) _ _ => some x | _ => none)).eraseDups.any (fun x => groupedLower rs gops ung fired' x > 1) then some s!"activation_group_twice@{k}"
        else groupBad rs gops (k + 1) ung fired' rest
    | _ => groupBad rs gops (k + 1) ung fired rest

def oracleLine (line : String) : String :=
  match line.splitOn " | " with
  | [c, o] =>
    match tokens c with
    | "A" :: ts =>
      match parseOps 0 ts with
      | some ops =>
        match tokens o with
        | tieTok :: obsToks =>
          let obsToks := if obsToks == ["-"] then [] else obsToks
          match obsToks.mapM (parseObsTok ops) with
          | some os =>
            let tie := tieTok == "T1" || !keysDistinct ops []
            if !runOkWeak Agenda.new ops os then s!"fail {firstBadWeak 0 Agenda.new ops os}"
            else if tie then joinSp ("ok" :: agendaTags ops os true)
            else if runOk Agenda.new ops os then joinSp ("ok" :: agendaTags ops os false)
            else s!"fail {firstBad 0 Agenda.new ops os}"
          | none => "fail unparsable-observation"
        | [] => "bad-input"
      | none => "bad-input"
    | "H" :: rules :: ops =>
      match parseList parseCRule rules, ops.mapM parseHOp with
      | some rs, some hops =>
        match tokens o with
        | ["hang"] => "fail fire_all_bounded:hang:H"
        | "ok" :: toks =>
          match toks.mapM parseHRes with
          | some res =>
            let isNoLoop := isNoLoopOf rs
            if !histOk isNoLoop incBound [] 1 hops res then s!"fail {histBad isNoLoop incBound 0 [] 1 hops res}"
            else if !liveOk rs incBound .empty [] [] hops res then s!"fail {liveBad rs incBound 0 .empty [] [] hops res}"
            else
              let fires := res.filterMap (fun r => match r with | .fired ns => some ns | _ => none)
              let all := fires.foldl (· ++ ·) []
              joinSp (["ok", "engine_H", s!"fire_calls_{fires.length}"]
                ++ (if fires.any (fun ns => ns.length ≥ incBound) then ["bound_hit"] else ["quiescent"])
                ++ (if fires.dropLast.any (fun ns => ns.length ≥ incBound) then ["fire_after_bound_hit"] else [])
                ++ (if all.any isNoLoop then ["no_loop_fired"] else [])
                ++ (if hops.any (· == .reset) then ["reset"] else [])
                ++ (if staleBeforeFire rs [] false hops res then ["stale_pending_at_fire"] else [])
                ++ (if all.length > 0 then ["nontrivial"] else []))
          | none => "fail unparsable-observation"
        | _ => if o.trimAscii.toString.startsWith "panic" then "fail fire_all_returns:panic:H" else "fail unparsable-observation"
      | _, _ => "bad-input"
    | "G" :: rules :: ops =>
      match parseList parseCRule rules, ops.mapM parseGOp with
      | some rs, some gops =>
        match tokens o with
        | ["hang"] => "fail fire_all_bounded:hang:G"
        | "ok" :: toks =>
          if toks.length != gops.length then "fail unparsable-observation" else
          match groupBad rs gops 0 [] [] (gops.zip toks) with
          | some msg => s!"fail {msg}"
          | none =>
            let fires := toks.filter (·.startsWith "F")
            joinSp (["ok", "engine_G", s!"fire_calls_{fires.length}"]
              ++ (if gops.any (fun o => match o with | .add _ _ (some _) _ _ => true | _ => false) then ["grouped_activation"] else [])
              ++ (if gops.any (fun o => match o with | .h .reset => true | _ => false) then ["reset"] else [])
              ++ (if fires.any (· != "F-") then ["nontrivial"] else []))
        | _ => if o.trimAscii.toString.startsWith "panic" then "fail fire_all_returns:panic:G" else "fail unparsable-observation"
      | _, _ => "bad-input"
    | "K" :: rules :: ops =>
      match parseList parseKRule rules, ops.mapM parseHOp with
      | some rs, some hops =>
        match tokens o with
        | ["hang"] => "fail fire_all_bounded:hang:K"
        | "ok" :: toks =>
          match toks.mapM parseHRes with
          | some res =>
            let isNoLoop := nameNoLoopA rs
            if !histOk isNoLoop incBound [] 1 hops res then
              let b := histBad isNoLoop incBound 0 [] 1 hops res
              (match b.splitOn "@" with
               | [c, i] => s!"fail {c}:K@{i}"
               | _ => s!"fail {b}:K")
            else
              let fires := res.filterMap (fun r => match r with | .fired ns => some ns | _ => none)
              let all := fires.foldl (· ++ ·) []
              let acts := rs.flatMap (fun r => r.2.2)
              -- evidence from the model run (insertion order): some queued retraction failed / removed a fact
              let nIns := (hops.filter (fun o => match o with | .insert _ _ => true | _ => false)).length
              let failing := rs.any (fun r => r.2.2.any (fun a => match a with | .handle h => h == 0 || h > nIns | _ => false))
              joinSp (["ok", "engine_K", s!"fire_calls_{fires.length}"]
                ++ (if acts.any (· == .own) then ["act_retract_own"] else [])
                ++ (if acts.any (fun a => match a with | .handle _ => true | _ => false) then ["act_retract_handle"] else [])
                ++ (if failing then ["act_retract_never_existing"] else [])
                ++ (if acts.any (· == .byType) then ["act_retract_by_type"] else [])
                ++ (if (kPredictions rs hops).length > 1 then ["order_dependent"] else [])
                ++ (if fires.any (fun ns => ns.length ≥ incBound) then ["bound_hit"] else ["quiescent"])
                ++ (if all.any isNoLoop then ["no_loop_fired"] else [])
                ++ (if hops.any (· == .reset) then ["reset"] else [])
                ++ (if all.length > 0 then ["nontrivial"] else []))
          | none => "fail unparsable-observation"
        | _ => if o.trimAscii.toString.startsWith "panic" then "fail fire_all_returns:panic:K" else "fail unparsable-observation"
      | _, _ => "bad-input"
    | "M" :: "I" :: rules :: _ :: ops =>
      match parseList parseNRule rules, ops.mapM parseHOp with
      | some rs, some hops =>
        match tokens o with
        | ["hang"] => "fail fire_all_bounded:hang:MI"
        | "ok" :: toks =>
          match toks.mapM parseHRes with
          | some res =>
            let isNoLoop := nameNoLoop rs
            if !histOk isNoLoop incBound [] 1 hops res then
              -- same clause names as the `H` cases, tagged with the engine
              let b := histBad isNoLoop incBound 0 [] 1 hops res
              (match b.splitOn "@" with
               | [c, i] => s!"fail {c}:MI@{i}"
               | _ => s!"fail {b}:MI")
            else
              let fires := res.filterMap (fun r => match r with | .fired ns => some ns | _ => none)
              let all := fires.foldl (· ++ ·) []
              let dupNoLoop := rs.any (fun r => r.noLoop && (rs.filter (fun q => q.name == r.name)).length ≥ 2)
              joinSp (["ok", "engine_MI", s!"fire_calls_{fires.length}"]
                ++ (if dupNoLoop then ["dup_no_loop_name"] else [])
                ++ (if fires.any (fun ns => ns.length ≥ incBound) then ["bound_hit"] else ["quiescent"])
                ++ (if all.any isNoLoop then ["no_loop_fired"] else [])
                ++ (if hops.any (· == .reset) then ["reset"] else [])
                ++ (if all.length > 0 then ["nontrivial"] else []))
          | none => "fail unparsable-observation"
        | _ => if o.trimAscii.toString.startsWith "panic" then "fail fire_all_returns:panic:MI" else "fail unparsable-observation"
      | _, _ => "bad-input"
    | "M" :: kind :: rules :: _ :: ops =>
      match parseList parseNRule rules, ops.mapM parseMOp with
      | some rs, some mops =>
        match tokens o with
        | ["hang"] => s!"fail fire_all_bounded:hang:M{kind}"
        | "ok" :: toks =>
          match toks.mapM parseMRes with
          | some res =>
            let isNoLoop := nameNoLoop rs
            let bound := if kind = "U" then ulBound else typedBound
            let fv := markerFired (kind == "T")
            let clr := clearedBy fv rs
            let mvals := (mops.filterMap (fun o => match o with | .marker _ v => some v | _ => none))
              ++ (rs.filterMap (fun r => r.marks.map (fun _ => r.mval)))
            if mhistOk isNoLoop clr fv (bound * rs.length) [] mops res then
              let fires := res.filterMap (fun r => match r with | .fired ns _ _ => some ns | _ => none)
              let all := fires.foldl (· ++ ·) []
              let dupNoLoop := rs.any (fun r => r.noLoop && (rs.filter (fun q => q.name == r.name)).length ≥ 2)
              joinSp (["ok", "engine_M" ++ kind, s!"fire_calls_{fires.length}"]
                ++ (if dupNoLoop then ["dup_no_loop_name"] else [])
                ++ (if rs.any (fun r => r.marks.isSome) then ["marker_in_cycle"] else [])
                ++ (if mvals.any (fun v => v != 0 && fv v) then ["marker_value_read_fired"] else [])
                ++ (if mvals.any (fun v => !fv v) then ["marker_value_not_fired"] else [])
                ++ (if all.any isNoLoop then ["no_loop_fired"] else [])
                ++ (if mops.any (· == .reset) then ["reset"] else [])
                ++ (if all.length > 0 then ["nontrivial"] else []))
            else s!"fail {mhistBad ("M" ++ kind) isNoLoop clr fv (bound * rs.length) 0 [] mops res}"
          | none => "fail unparsable-observation"
        | _ => if o.trimAscii.toString.startsWith "panic" then s!"fail fire_all_returns:panic:M{kind}" else "fail unparsable-observation"
      | _, _ => "bad-input"
    | ["E", kind, rules, _] =>
      match parseList parseCRule rules with
      | some rs =>
        match tokens o with
        | ["hang"] => s!"fail fire_all_bounded:hang:{kind}"
        | ["ok", fired, _, _] =>
          match parseFiredCount fired with
          | some n =>
            let (bound, perPass) := if kind = "I" then (incBound, false) else if kind = "U" then (ulBound, true) else (typedBound, true)
            if fireAllOk bound rs.length perPass n then
              joinSp (["ok", "engine_" ++ kind] ++ (if n ≥ bound then ["bound_hit"] else ["quiescent"])
                ++ (if n > 0 then ["nontrivial"] else []))
            else s!"fail fire_all_bounded:count:{kind}"
          | none => "fail unparsable-observation"
        | _ => if o.trimAscii.toString.startsWith "panic" then s!"fail fire_all_returns:panic:{kind}" else "fail unparsable-observation"
      | none => "bad-input"
    | _ => "bad-input"
  | _ => "bad-input"

def main (args : List String) : IO Unit :=
  match args with
  | ["model"] => mapLines modelLine
  | ["oracle"] => mapLines oracleLine
  | _ => IO.eprintln "usage: drv_c07 model|oracle"
