import RreModel.Proto
import RreModel.C02.Wire
import RreModel.C02.Oracle
/-
Driver for C03 (same line protocol and model as C02: harness/src/bin/c02.rs, RreModel/C02/Model.lean).
  drv_c03 model   : case        ↦ observation line predicted by the model
  drv_c03 oracle  : case | obs  ↦ `ok <tags>` / `fail <clause>@<op>`: C03.countersOk on
                    GruleExecutionResult + callback count, C03.fixpointOk on the final facts (every rule
                    re-evaluated by the reference evaluator) whenever cycle_count < max_cycles, "the pass before an early
                    return fired nothing" (the firings are at most cycle_count - 1 position-increasing runs), and the C02 clauses.
A case is non-trivial for C03 when some execute made at least 3 passes or ended at the bound.
-/
open Proto C02 C02.Wire

def modelLine (line : String) : String :=
  match parseCase? line with
  | some c =>
    match c.start? with
    | some st => modelObs c st
    | none => "bad-case-dup"
  | none => "bad-case"

def nontrivial (tags : List String) : Bool :=
  tags.contains "cycles_ge_3" || (tags.contains "at_bound" && tags.contains "fired")

def main (args : List String) : IO Unit :=
  match args with
  | ["model"] => mapLines modelLine
  | ["oracle"] => mapLines (C02.Oracle.oracleLine nontrivial)
  | _ => IO.eprintln "usage: drv_c03 model|oracle"
