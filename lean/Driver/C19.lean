import RreModel.Proto
import RreModel.C19.Model
import RreModel.C19.Spec
/-
Driver for C19.
  case := `<enabled:0|1> <max_threads> <min_rules_per_thread> <reps> <pseed> <facts> <rules>`
     facts := `-` | `name=int,…`     rules := rule;rule;…   rule := `name/salience/enabled/cond/acts`
     cond  := RPN joined by `_` : `L:<field>:<op>:<int>` | `R:<field>:<op>:<field>` | `A` | `O` | `N` | `X`      acts := `-` | `field=int,…`
  obs  := `S:<run> P:<run> P:<run> …`
     run := `ok/<evaluated>/<fired>/<name=0|1,…>/<facts sorted>` | `err` | `panic` | `timeout`
  drv_c19 model  : case        ↦ `S:<run> P:<run>`  (S = sequential path; P = the configured engine under a
                                  pseudo-random interleaving derived from pseed — compared as a multiset)
  drv_c19 oracle : case | obs  ↦ `ok <tags>` / `fail <run>:<clause>`   (Spec.runOk / Spec.sameAsRun on the observations)
-/
open Proto C19

def parseKV (s : String) : Option (List (String × Int)) :=
  if s = "-" then some [] else
    (s.splitOn ",").mapM fun kv =>
      match kv.splitOn "=" with
      | [k, v] => v.toInt?.map fun i => (k, i)
      | _ => none

def showKV (kv : List (String × Int)) : String :=
  if kv.isEmpty then "-" else ",".intercalate (kv.map fun (k, v) => s!"{k}={v}")

/-- the harness prints the facts as sorted `k=v` strings; the model's facts are put in the same order -/
def canonFacts (kv : List (String × Int)) : List (String × Int) :=
  kv.mergeSort (fun a b => !(s!"{b.1}={b.2}" < s!"{a.1}={a.2}"))

def parseOp (s : String) : Option Op :=
  match s with
  | "eq" => some .eq | "ne" => some .ne | "gt" => some .gt
  | "ge" => some .ge | "lt" => some .lt | "le" => some .le
  | _ => none

def parseCond (s : String) : Option Cond :=
  let rec go (toks : List String) (st : List Cond) : Option Cond :=
    match toks with
    | [] => match st with | [c] => some c | _ => none
    | t :: rest =>
      if t = "A" then match st with | r :: l :: st' => go rest (.and l r :: st') | _ => none
      else if t = "O" then match st with | r :: l :: st' => go rest (.or l r :: st') | _ => none
      else if t = "X" then match st with | r :: l :: st' => go rest (.xnot l r :: st') | _ => none
      else if t = "N" then match st with | c :: st' => go rest (.not c :: st') | _ => none
      else match t.splitOn ":" with
        | ["L", f, o, v] =>
          match parseOp o, v.toInt? with
          | some o, some v => go rest (.leaf f o v :: st)
          | _, _ => none
        | ["R", f, o, g] =>
          match parseOp o with
          | some o => go rest (.leafRef f o g :: st)
          | none => none
        | _ => none
  go (s.splitOn "_") []

def parseRule (s : String) : Option CRule :=
  match s.splitOn "/" with
  | [name, sal, en, cond, acts] => do
    let sal ← sal.toInt?
    let cond ← parseCond cond
    let acts ← parseKV acts
    pure { name := name, salience := sal, enabled := en = "1", cond := cond,
           actions := acts.map fun (k, v) => Action.set k v }
  | _ => none

structure Case where
  cfg : Config
  pseed : Nat
  facts : Facts
  rules : List CRule

def parseCase (line : String) : Option Case :=
  match tokens line with
  | [en, mt, mr, _reps, pseed, facts, rules] => do
    let mt ← mt.toNat?
    let mr ← mr.toNat?
    let pseed ← pseed.toNat?
    let facts ← parseKV facts
    let rules ← if rules = "-" then some [] else (rules.splitOn ";").mapM parseRule
    pure { cfg := ⟨en = "1", mt, mr⟩, pseed := pseed, facts := canonFacts facts, rules := rules }
  | _ => none

def showPairs (ps : List (String × Bool)) : String :=
  if ps.isEmpty then "-" else ",".intercalate (ps.map fun (n, b) => s!"{n}={if b then 1 else 0}")

def showRun (r : Except Err (Result Cond Action Facts)) : String :=
  match r with
  | .error _ => "panic"
  | .ok res =>
    let o := res.obs
    s!"ok/{o.evaluated}/{o.fired}/{showPairs o.ctxs}/{showKV o.facts}"

def parsePairs (s : String) : Option (List (String × Bool)) :=
  if s = "-" then some [] else
    (s.splitOn ",").mapM fun kv =>
      match kv.splitOn "=" with
      | [k, "1"] => some (k, true)
      | [k, "0"] => some (k, false)
      | _ => none

def parseRun (s : String) : Option RunObs :=
  match s.splitOn "/" with
  | ["ok", ev, fi, cs, fs] => do
    let ev ← ev.toNat?
    let fi ← fi.toNat?
    let cs ← parsePairs cs
    let fs ← parseKV fs
    pure { evaluated := ev, fired := fi, ctxs := cs, facts := fs }
  | _ => none

/-- a pseudo-random interleaving: worker indices below 16 -/
def lcgSched (seed len : Nat) : List Nat :=
  let rec go (n : Nat) (x : Nat) (acc : List Nat) : List Nat :=
    match n with
    | 0 => acc
    | n + 1 =>
      let x' := (x * 6364136223846793005 + 1442695040888963407) % 18446744073709551616
      go n x' ((x' / 4294967296) % 16 :: acc)
  go len (seed + 1) []

def schedOf (pseed : Nat) (s : Int) : List Nat := lcgSched (pseed * 31 + s.toNat + (-s).toNat * 7) 96

def modelLine (line : String) : String :=
  match parseCase line with
  | none => "bad-case"
  | some c =>
    let s := executeParallel coreSem { c.cfg with enabled := false } c.rules c.facts (fun _ => [])
    let p := executeParallel coreSem c.cfg c.rules c.facts (schedOf c.pseed)
    s!"S:{showRun s} P:{showRun p}"

/-- diagnostic only (labels a `structureOk` failure): every level's segment is a permutation of that level -/
def levelsOnlyOk (rules : List CRule) (f : Facts) : List Int → List (String × Bool) → Bool
  | [], got => got.isEmpty
  | s :: ss, got =>
    let e := (group rules s).map (pairOf f)
    (got.take e.length).isPerm e && levelsOnlyOk rules f ss (got.drop e.length)

def anyLevel (c : Case) (p : List CRule → Bool) : Bool :=
  (levelKeys c.rules).any fun s => p (group c.rules s)

def oracleLine (line : String) : String :=
  match line.splitOn " | " with
  | [cs, os] =>
    match parseCase cs with
    | none => "bad-input"
    | some c =>
      let runs := tokens os
      match runs with
      | [] => "bad-input"
      | sTok :: pToks =>
        if !sTok.startsWith "S:" || pToks.any (fun t => !t.startsWith "P:") then "bad-input" else
        let seqCfg : Config := { c.cfg with enabled := false }
        match parseRun (sTok.drop 2).toString with
        | none => s!"fail S:notok({(sTok.drop 2).toString.takeWhile (· != '/')})"
        | some sObs =>
          if !countsOk sObs then "fail S:counts"
          else if !sameAsRef (refPairs c.rules c.facts) c.facts sObs then "fail S:sameAsRef"
          else if !structureOk seqCfg c.rules c.facts (levelKeys c.rules) sObs.ctxs then "fail S:structure"
          else
            -- does the model say the configured call errors (max_threads = 0 on a parallelised level)?
            let ident := executeParallel coreSem c.cfg c.rules c.facts (fun _ => [])
            let identCtxs := match ident with | .ok r => r.obs.ctxs | .error _ => []
            let expectPanic := match ident with | .ok _ => false | .error _ => true
            let rec check (i : Nat) (ps : List String) (reordered : Bool) : Except String Bool :=
              match ps with
              | [] => .ok reordered
              | t :: rest =>
                let body := (t.drop 2).toString
                if expectPanic then
                  if body = "panic" then check (i + 1) rest reordered else .error s!"fail P{i}:expected-panic"
                else
                  match parseRun body with
                  | none => .error s!"fail P{i}:notok({body.takeWhile (· != '/')})"
                  | some o =>
                    if !countsOk o then .error s!"fail P{i}:counts"
                    else if !sameAsRun sObs o then .error s!"fail P{i}:vsSequentialRun"
                    else if !sameAsRef (refPairs c.rules c.facts) c.facts o then .error s!"fail P{i}:sameAsRef"
                    else if !structureOk c.cfg c.rules c.facts (levelKeys c.rules) o.ctxs then
                      -- diagnose: are at least the level segments in place (then only the chunk layout differs)?
                      if levelsOnlyOk c.rules c.facts (levelKeys c.rules) o.ctxs then .error s!"fail P{i}:chunk-structure"
                      else .error s!"fail P{i}:level-order"
                    else check (i + 1) rest (reordered || o.ctxs != identCtxs)
            match check 0 pToks false with
            | .error e => e
            | .ok reordered =>
              let par := anyLevel c fun l => shouldParallelize c.cfg l.length
              let multi := c.cfg.maxThreads != 0 && anyLevel c fun l =>
                shouldParallelize c.cfg l.length && (chunks (divCeil l.length c.cfg.maxThreads) l).length ≥ 2
              let shortLast := c.cfg.maxThreads != 0 && anyLevel c fun l =>
                shouldParallelize c.cfg l.length && l.length % (divCeil l.length c.cfg.maxThreads) != 0
              let fewer := c.cfg.maxThreads != 0 && anyLevel c fun l =>
                shouldParallelize c.cfg l.length && l.length < c.cfg.maxThreads
              let hasFired := sObs.ctxs.any (·.2)
              let hasUnfired := sObs.ctxs.any (fun p => !p.2)
              let firedWithActs := c.rules.any fun r => r.enabled && r.cond.eval c.facts && !r.actions.isEmpty
              let tags :=
                (if par then ["par"] else ["seq_only"])
                ++ (if multi then ["multi_chunk"] else [])
                ++ (if shortLast then ["short_last_chunk"] else [])
                ++ (if fewer then ["n_lt_threads"] else [])
                ++ (if reordered then ["reordered"] else [])
                ++ (if (levelKeys c.rules).length ≥ 2 then ["levels>1"] else [])
                ++ (if anyLevel c (fun l => l.length ≥ 2) then ["ties"] else [])
                ++ (if c.rules.any (fun r => !r.enabled) then ["disabled"] else [])
                ++ (if hasFired then ["fired"] else []) ++ (if hasUnfired then ["unfired"] else [])
                ++ (if firedWithActs then ["fired_with_assignments"] else [])
                ++ (if expectPanic then ["panic_max_threads_0"] else [])
                ++ (if !c.cfg.enabled then ["parallelism_off"] else [])
                ++ (if multi && hasFired && hasUnfired then ["nontrivial"] else [])
              joinSp ("ok" :: tags)
  | _ => "bad-input"

def main (args : List String) : IO Unit :=
  match args with
  | ["model"] => mapLines modelLine
  | ["oracle"] => mapLines oracleLine
  | _ => IO.eprintln "usage: drv_c19 model|oracle"
