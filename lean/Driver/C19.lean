import RreModel.Proto
import RreModel.C19.Model
import RreModel.C19.Spec
/-
Driver for C19.
  case := `<enabled:0|1> <max_threads> <min_rules_per_thread> <reps> <pseed> <facts> <rules> [d<k> (<facts> <rules>)*]`
     facts := `-` | `name=V,…`     rules := rule;rule;…   rule := `name/salience/enabled/cond/acts`
     V     := `<int>` Integer | `f<int>` Number (integral float) | `b0`/`b1` Boolean | `s<text>` String
     name  := plain | `U.x` (field x of object U) | `~U.x` (the flat top-level key spelled `U.x`; Model.lookup: nested first)
     cond  := RPN joined by `_` : `L:<field>:<op>:<int|f<int>|b0|b1>` | `R:<field>:<op>:<text>` (string literal / field
              reference) | `E:<field>:<op>:<name|name+k|name-k|name*k>` (Value::Expression right-hand side) | `A` | `O` | `N` | `X`
              op ∈ eq ne gt ge lt le ct nc sw ew mt in
     acts  := `-` | item,…   item := `field=int` (Set) | mcall | log | retract | agenda | sched | wfdone | wfdata | append | custom
     d<k>  := flags: bit 0/1 debug_mode of the configured / the sequential engine's calls; bit 2 the engines are built from
              `ParallelConfig::default()` (with the case's max_threads; needs enabled=1, min_rules=2); bits 3-4 how the harness
              builds the facts (add_value / set+set_nested / from_context / merge+snapshot+restore) — the model has none of
              these: the flags must not change anything
              the token may carry a slow-worker suffix `w<worker>.<step|p>.<ms>` (the harness makes that worker of the first
              parallelised level sleep <ms> ms before its <step>-th rule / before it publishes): the model has no clock —
              the suffix must not change anything
     rule name := plain | `%L<pad>.<w>.<k>` (pad ASCII bytes then k characters of w bytes) | `%h<hex>` (any UTF-8 text):
              opaque identifiers for the model (the harness decodes them; distinct tokens are distinct names).  A rule whose
              name already occurs earlier in the same knowledge base is rejected by `KnowledgeBase::add_rule` and is not there
     every further `<facts> <rules>` pair is one more *stage*: another knowledge base (same name) and other facts run
     through the SAME two engine objects, in order
  obs  := stage ` ;; ` stage …      stage := `S:<run> P:<run> P:<run> …`
     run := `ok/<evaluated>/<fired>/<name=0|1,…>/<facts sorted>` | `err` | `panic` | `timeout` | `slow-not-taken`
  drv_c19 model  : case        ↦ per stage `S:<run> P:<run>`  (S = sequential path; P = the configured engine under a
                                  pseudo-random interleaving derived from pseed — compared as a multiset)
  drv_c19 oracle : case | obs  ↦ `ok <tags>` / `fail [K<stage>:]<run>:<clause>`   (Spec.runOk / Spec.sameAsRun on the
                                  observations of every stage, each against the reference of ITS OWN rules and facts)
-/
open Proto C19

def maxMag : Int := 9007199254740992   -- 2^53: `i as f64` is exact up to here

def parseIntB (s : String) : Option Int :=
  match s.toInt? with
  | some i => if -maxMag ≤ i && i ≤ maxMag && !s.startsWith "+" then some i else none
  | none => none

/-- a string literal of the grammar: a decimal integer, or a word Rust's `f64` parser rejects -/
def validText (s : String) : Bool :=
  match strNum? s with
  | some i => -maxMag ≤ i && i ≤ maxMag
  | none =>
    let l := s.toList.map Char.toLower
    !(match l with | c :: _ => c.isDigit || c == '.' || c == '+' || c == '-' | [] => true)
      && l != "inf".toList && l != "infinity".toList && l != "nan".toList

/-- scalar literal without the string form (condition literals; strings are `R:` leaves) -/
def parseScalar (v : String) : Option Val :=
  if v = "b0" then some (.bool false) else if v = "b1" then some (.bool true)
  else if v.startsWith "f" then (parseIntB (v.drop 1).toString).map .num
  else (parseIntB v).map .int

def parseVal (v : String) : Option Val :=
  if v.startsWith "s" then
    let t := (v.drop 1).toString
    if validText t then some (.str t) else none
  else parseScalar v

def showVal : Val → String
  | .int i => s!"{i}"
  | .num i => s!"f{i}"
  | .bool b => if b then "b1" else "b0"
  | .str t => s!"s{t}"

def parseKVwith (pv : String → Option α) (s : String) : Option (List (String × α)) :=
  if s = "-" then some [] else
    (s.splitOn ",").mapM fun kv =>
      match kv.splitOn "=" with
      | [k, v] => (pv v).map fun i => (k, i)
      | _ => none

def parseKV (s : String) : Option (List (String × Int)) := parseKVwith String.toInt? s
def parseFacts (s : String) : Option Facts := parseKVwith parseVal s

def showKV (kv : Facts) : String :=
  if kv.isEmpty then "-" else ",".intercalate (kv.map fun (k, v) => s!"{k}={showVal v}")

/-- the harness prints the facts as sorted `k=v` strings; the model's facts are put in the same order -/
def canonFacts (kv : Facts) : Facts :=
  kv.mergeSort (fun a b => !(s!"{b.1}={showVal b.2}" < s!"{a.1}={showVal a.2}"))

def parseOp (s : String) : Option Op :=
  match s with
  | "eq" => some .eq | "ne" => some .ne | "gt" => some .gt
  | "ge" => some .ge | "lt" => some .lt | "le" => some .le
  | "ct" => some .contains | "nc" => some .notContains | "sw" => some .startsWith
  | "ew" => some .endsWith | "mt" => some .matches | "in" => some .isIn
  | _ => none

/-- a field name as an expression atom: letters, digits and dots, starting with a letter, and not a spelling Rust's
float parser accepts (`inf`, `nan`, `infinity`) -/
def plainName (s : String) : Bool :=
  let l := s.toList
  (match l with | c :: _ => c.isAlpha | [] => false) && l.all (fun c => c.isAlphanum || c == '.')
    && !(["inf", "infinity", "nan"].contains (String.ofList (l.map Char.toLower)))

/-- the text of a `Value::Expression`: `name` | `name+k` | `name-k` | `name*k` (k ≤ 2^20, no sign) -/
def parseRhs (t : String) : Option Rhs :=
  let l := t.toList
  let isOp := fun c => c == '+' || c == '-' || c == '*'
  let name := String.ofList (l.takeWhile (fun c => !isOp c))
  match l.dropWhile (fun c => !isOp c) with
  | [] => if plainName name then some (.ref name) else none
  | o :: ds =>
    let ks := String.ofList ds
    if !plainName name || ds.isEmpty || !ds.all Char.isDigit || ds.length > 7 then none else
    match ks.toNat? with
    | some k =>
      if k > 1048576 then none else
      some (.arith name (if o == '+' then .add else if o == '-' then .sub else .mul) k)
    | none => none

/-- the actions of a rule: `field=int` is `ActionType::Set`, a keyword one of the other kinds (all stubs in
`execute_action_parallel`; `custom` = a `Custom` action whose function nobody registered) -/
def parseActs (s : String) : Option (List Action) :=
  if s = "-" then some [] else
    (s.splitOn ",").mapM fun kv =>
      match kv.splitOn "=" with
      | [k, v] => v.toInt?.map fun i => Action.set k i
      | ["mcall"] => some .methodCall
      | ["log"] => some .log
      | ["retract"] => some .retract
      | ["agenda"] => some .activateAgendaGroup
      | ["sched"] => some .scheduleRule
      | ["wfdone"] => some .completeWorkflow
      | ["wfdata"] => some .setWorkflowData
      | ["append"] => some .append
      | ["custom"] => some .customUnregistered
      | _ => none

def parseCond (s : String) : Option Cond :=
  let rec go (toks : List String) (st : List Cond) : Option Cond :=
    match toks with
    | [] => match st with | [c] => some c | _ => none
    | t :: rest =>
      if t = "A" then match st with | r :: l :: st' => go rest (.and l r :: st') | _ => none
      else if t = "O" then match st with | r :: l :: st' => go rest (.or l r :: st') | _ => none
      else if t = "X" then match st with | r :: l :: st' => go rest (.xnot l r :: st') | _ => none
      else if t = "N" then match st with | c :: st' => go rest (.not c :: st') | _ => none
      else match t.splitOn ":" with
        | ["L", f, o, v] =>
          match parseOp o, parseScalar v with
          | some o, some v => go rest (.leaf f o v :: st)
          | _, _ => none
        | ["E", f, o, t] =>
          match parseOp o, parseRhs t with
          | some o, some r => go rest (.leafExpr f o r :: st)
          | _, _ => none
        | ["R", f, o, g] =>
          match parseOp o with
          | some o => if validText g then go rest (.leafRef f o g :: st) else none
          | none => none
        | _ => none
  go (s.splitOn "_") []

def parseRule (s : String) : Option CRule :=
  match s.splitOn "/" with
  | [name, sal, en, cond, acts] => do
    let sal ← sal.toInt?
    let cond ← parseCond cond
    let acts ← parseActs acts
    pure { name := name, salience := sal, enabled := en = "1", cond := cond, actions := acts }
  | _ => none

structure Stage where
  facts : Facts
  rules : List CRule
  /-- some rule of the case text was rejected by `add_rule` (its name was taken) -/
  dups : Bool := false
  /-- the names as written, rejected ones included -/
  names : List String := []

structure Case where
  cfg : Config
  pseed : Nat
  debug : Nat
  stages : List Stage
  /-- the case asks the harness to delay one worker (slow-worker family) -/
  slow : Bool := false

def condArith : Cond → Bool
  | .leafExpr _ _ (.arith ..) => true
  | .leaf .. => false
  | .leafRef .. => false
  | .leafExpr .. => false
  | .and l r => condArith l || condArith r
  | .or l r => condArith l || condArith r
  | .not c => condArith c
  | .xnot l r => condArith l || condArith r

def condHas (p : Cond → Bool) : Cond → Bool
  | .and l r => condHas p l || condHas p r
  | .or l r => condHas p l || condHas p r
  | .not c => condHas p c
  | .xnot l r => condHas p l || condHas p r
  | c => p c

def isStrOp : Op → Bool
  | .contains | .notContains | .startsWith | .endsWith | .matches | .isIn => true
  | _ => false

def leafOp? : Cond → Option Op
  | .leaf _ o _ => some o
  | .leafRef _ o _ => some o
  | .leafExpr _ o _ => some o
  | _ => none

/-- `KnowledgeBase::add_rule` rejects a rule whose name is already in the knowledge base (whatever its salience or
enabled flag): only the first rule of every name is there -/
def dedupNames (rs : List CRule) : List CRule :=
  (rs.foldl (fun (acc : List CRule) r => if acc.any (·.name == r.name) then acc else r :: acc) []).reverse

def parseStage (facts rules : String) : Option Stage := do
  let facts ← parseFacts facts
  let rules ← if rules = "-" then some [] else (rules.splitOn ";").mapM parseRule
  let kept := dedupNames rules
  pure { facts := canonFacts facts, rules := kept, dups := kept.length != rules.length, names := rules.map (·.name) }

/-- the slow-worker suffix of the flags token: `w<worker>.<step|p>.<ms>` -/
def slowOk (l : List Char) : Bool :=
  match l with
  | 'w' :: rest =>
    match (String.ofList rest).splitOn "." with
    | [t, st, ms] => t.toNat?.isSome && (st = "p" || st.toNat?.isSome) && ms.toNat?.isSome
    | _ => false
  | _ => false

/-- (byte length, has a non-ASCII byte) of the name a `%L…` / `%h…` token stands for -/
def nameInfo (n : String) : Option (Nat × Bool) :=
  if n.startsWith "%L" then
    match ((n.drop 2).toString.splitOn ".").map String.toNat? with
    | [some p, some w, some k] => some (p + w * k, w > 1 && k > 0)
    | _ => none
  else if n.startsWith "%h" then
    let h := (n.drop 2).toString.toList
    if h = ['-'] then some (0, false) else
    let rec hi (l : List Char) : Bool :=
      match l with
      | a :: _ :: rest => "89abcdef".toList.contains a || hi rest
      | _ => false
    some (h.length / 2, hi h)
  else none

def parseStages : List String → Option (List Stage)
  | [] => some []
  | f :: r :: rest => do
    let st ← parseStage f r
    let more ← parseStages rest
    pure (st :: more)
  | _ => none

def parseCase (line : String) : Option Case :=
  match tokens line with
  | en :: mt :: mr :: _reps :: pseed :: facts :: rules :: rest => do
    let mt ← mt.toNat?
    let mr ← mr.toNat?
    let pseed ← pseed.toNat?
    let st0 ← parseStage facts rules
    let dbg ← match rest with
      | [] => some (0, false, [])
      | d :: more =>
        if d.startsWith "d" then
          let body := (d.drop 1).toString.toList
          let sfx := body.dropWhile Char.isDigit
          match (String.ofList (body.takeWhile Char.isDigit)).toNat? with
          | some k => if k < 32 && (sfx.isEmpty || slowOk sfx) then (parseStages more).map fun m => (k, !sfx.isEmpty, m) else none
          | none => none
        else none
    let (dbg, slow, more) := (dbg.1, dbg.2.1, dbg.2.2)
    let c : Case := { cfg := ⟨en = "1", mt, mr⟩, pseed := pseed, debug := dbg, stages := st0 :: more, slow := slow }
    -- bit 2 of the flags = `ParallelConfig::default()` (enabled, min_rules_per_thread 2) with the case's max_threads
    if dbg / 4 % 2 = 1 && !(c.cfg.enabled && mr = 2) then none
    -- arithmetic right-hand sides are computed in f64 by the engine: exact as long as the numbers stay small
    else if c.stages.any (fun st => st.rules.any (fun r => condArith r.cond)) &&
        c.stages.any (fun st => st.facts.any fun p => match p.2 with
          | .int i => i.natAbs > 2147483648 | .num i => i.natAbs > 2147483648
          | .str t => (match strNum? t with | some i => i.natAbs > 2147483648 | none => false) | .bool _ => false) then none
    else pure c
  | _ => none

def showPairs (ps : List (String × Bool)) : String :=
  if ps.isEmpty then "-" else ",".intercalate (ps.map fun (n, b) => s!"{n}={if b then 1 else 0}")

def showRun (r : Except Err (Result Cond Action Facts)) : String :=
  match r with
  | .error _ => "panic"
  | .ok res =>
    let o := res.obs
    s!"ok/{o.evaluated}/{o.fired}/{showPairs o.ctxs}/{showKV o.facts}"

def parsePairs (s : String) : Option (List (String × Bool)) :=
  if s = "-" then some [] else
    (s.splitOn ",").mapM fun kv =>
      match kv.splitOn "=" with
      | [k, "1"] => some (k, true)
      | [k, "0"] => some (k, false)
      | _ => none

def parseRun (s : String) : Option RunObs :=
  match s.splitOn "/" with
  | ["ok", ev, fi, cs, fs] => do
    let ev ← ev.toNat?
    let fi ← fi.toNat?
    let cs ← parsePairs cs
    let fs ← parseFacts fs
    pure { evaluated := ev, fired := fi, ctxs := cs, facts := fs }
  | _ => none

/-- a pseudo-random interleaving: worker indices below 16 -/
def lcgSched (seed len : Nat) : List Nat :=
  let rec go (n : Nat) (x : Nat) (acc : List Nat) : List Nat :=
    match n with
    | 0 => acc
    | n + 1 =>
      let x' := (x * 6364136223846793005 + 1442695040888963407) % 18446744073709551616
      go n x' ((x' / 4294967296) % 16 :: acc)
  go len (seed + 1) []

def schedOf (pseed : Nat) (s : Int) : List Nat := lcgSched (pseed * 31 + s.toNat + (-s).toNat * 7) 96

def modelLine (line : String) : String :=
  match parseCase line with
  | none => "bad-case"
  | some c =>
    -- the engines keep nothing between calls: every stage is the same function of its own rules and facts
    " ;; ".intercalate <| c.stages.map fun st =>
      let s := executeParallel coreSem { c.cfg with enabled := false } st.rules st.facts (fun _ => [])
      let p := executeParallel coreSem c.cfg st.rules st.facts (schedOf c.pseed)
      s!"S:{showRun s} P:{showRun p}"

/-- diagnostic only (labels a `structureOk` failure): every level's segment is a permutation of that level -/
def levelsOnlyOk (rules : List CRule) (f : Facts) : List Int → List (String × Bool) → Bool
  | [], got => got.isEmpty
  | s :: ss, got =>
    let e := (group rules s).map (pairOf f)
    (got.take e.length).isPerm e && levelsOnlyOk rules f ss (got.drop e.length)

def anyLevel (rules : List CRule) (p : List CRule → Bool) : Bool :=
  (levelKeys rules).any fun s => p (group rules s)

def condTyped : Cond → Bool
  | .leaf _ _ (.int _) => false
  | .leaf _ _ _ => true
  | .leafRef _ _ _ => false
  | .leafExpr _ _ _ => false
  | .and l r => condTyped l || condTyped r
  | .or l r => condTyped l || condTyped r
  | .not c => condTyped c
  | .xnot l r => condTyped l || condTyped r

/-- the printed form of a single-leaf rule's comparison (`Value::to_string` of the constant): two rules with the
same print but different constants are "look-alikes" -/
def leafPrint (r : CRule) : Option (String × Val) :=
  let pr : Val → String
    | .int i => s!"{i}" | .num i => s!"{i}" | .str t => t | .bool b => if b then "true" else "false"
  match r.cond with
  | .leaf f o v => some (s!"{f} {repr o} {pr v}", v)
  | .leafRef f o g => some (s!"{f} {repr o} {g}", .str g)
  | _ => none

def hasLookalike (l : List CRule) : Bool :=
  let ps := l.filterMap leafPrint
  ps.any fun a => ps.any fun b => a.1 == b.1 && a.2 != b.2

/-- one stage: the S run and the P runs of one knowledge base, against the reference of its own rules and facts -/
def checkStage (cfg : Config) (st : Stage) (runs : List String) : Except String (List String) :=
  let rules := st.rules
  let facts := st.facts
  match runs with
  | [] => .error "bad-input"
  | sTok :: pToks =>
    if !sTok.startsWith "S:" || pToks.any (fun t => !t.startsWith "P:") then .error "bad-input" else
    let seqCfg : Config := { cfg with enabled := false }
    match parseRun (sTok.drop 2).toString with
    | none => .error s!"fail S:notok({(sTok.drop 2).toString.takeWhile (· != '/')})"
    | some sObs =>
      if !countsOk sObs then .error "fail S:counts"
      else if !sameAsRef (refPairs rules facts) facts sObs then .error "fail S:sameAsRef"
      else if !structureOk seqCfg rules facts (levelKeys rules) sObs.ctxs then .error "fail S:structure"
      else
        -- does the model say the configured call errors (max_threads = 0 on a parallelised level)?
        let ident := executeParallel coreSem cfg rules facts (fun _ => [])
        let identCtxs := match ident with | .ok r => r.obs.ctxs | .error _ => []
        let expectPanic := match ident with | .ok _ => false | .error _ => true
        let rec check (i : Nat) (ps : List String) (reordered : Bool) : Except String Bool :=
          match ps with
          | [] => .ok reordered
          | t :: rest =>
            let body := (t.drop 2).toString
            if expectPanic then
              if body = "panic" then check (i + 1) rest reordered else .error s!"fail P{i}:expected-panic"
            else
              -- the configured engine returned Err where its sequential path (S, checked above) returned Ok
              if body = "err" then .error s!"fail P{i}:err" else
              match parseRun body with
              | none => .error s!"fail P{i}:notok({body.takeWhile (· != '/')})"
              | some o =>
                if !countsOk o then .error s!"fail P{i}:counts"
                else if !sameAsRun sObs o then .error s!"fail P{i}:vsSequentialRun"
                else if !sameAsRef (refPairs rules facts) facts o then .error s!"fail P{i}:sameAsRef"
                else if !structureOk cfg rules facts (levelKeys rules) o.ctxs then
                  -- diagnose: are at least the level segments in place (then only the chunk layout differs)?
                  if levelsOnlyOk rules facts (levelKeys rules) o.ctxs then .error s!"fail P{i}:chunk-structure"
                  else .error s!"fail P{i}:level-order"
                else check (i + 1) rest (reordered || o.ctxs != identCtxs)
        match check 0 pToks false with
        | .error e => .error e
        | .ok reordered =>
          let par := anyLevel rules fun l => shouldParallelize cfg l.length
          let multi := cfg.maxThreads != 0 && anyLevel rules fun l =>
            shouldParallelize cfg l.length && (chunks (divCeil l.length cfg.maxThreads) l).length ≥ 2
          let shortLast := cfg.maxThreads != 0 && anyLevel rules fun l =>
            shouldParallelize cfg l.length && l.length % (divCeil l.length cfg.maxThreads) != 0
          let fewer := cfg.maxThreads != 0 && anyLevel rules fun l =>
            shouldParallelize cfg l.length && l.length < cfg.maxThreads
          -- two single-leaf rules whose comparisons print alike but differ in type share a worker's chunk
          let lookalike := cfg.maxThreads != 0 && anyLevel rules fun l =>
            shouldParallelize cfg l.length && (chunks (divCeil l.length cfg.maxThreads) l).any hasLookalike
          let hasFired := sObs.ctxs.any (·.2)
          let hasUnfired := sObs.ctxs.any (fun p => !p.2)
          let firedWithActs := rules.any fun r => r.enabled && r.cond.eval facts && !r.actions.isEmpty
          let en := rules.filter (·.enabled)
          let exprRhs := en.any fun r => condHas (fun c => match c with | .leafExpr .. => true | _ => false) r.cond
          -- an expression right-hand side whose evaluation fails (missing field / non-numeric operand): the fallback arm
          let exprErr := en.any fun r => condHas (fun c => match c with
            | .leafExpr _ _ rhs => (rhs.eval? facts).isNone | _ => false) r.cond
          -- flat key first inside the expression evaluator, nested first outside: the two lookups disagree
          let exprFlatFirst := en.any fun r => condHas (fun c => match c with
            | .leafExpr _ _ (.ref n) => lookupFlatFirst facts n != lookup facts n
            | .leafExpr _ _ (.arith n _ _) => lookupFlatFirst facts n != lookup facts n | _ => false) r.cond
          let strOps := en.any fun r => condHas (fun c => match leafOp? c with | some o => isStrOp o | none => false) r.cond
          let strOpTrue := en.any fun r => condHas (fun c => match leafOp? c with
            | some o => isStrOp o && c.eval facts | none => false) r.cond
          let otherActs := rules.any fun r => r.enabled && r.cond.eval facts &&
            r.actions.any (fun a => match a with | .set .. => false | _ => true)
          let deepPath := facts.any fun p => ((p.1.splitOn ".").length ≥ 3)
          let typed := rules.any (fun r => condTyped r.cond) ||
            facts.any (fun p => match p.2 with | .int _ => false | _ => true)
          -- flat top-level keys spelled like a dotted path (`~U.x`): present at all / together with the object field of
          -- the same spelling and another value / some enabled rule's verdict would differ if the flat key won
          let flat := facts.filter fun p => p.1.startsWith "~"
          let shadowed := flat.any fun p => facts.any fun q => flatKey q.1 == p.1 && q.2 != p.2
          let flatFirst : Facts := flat.map (fun p => ((p.1.drop 1).toString, p.2)) ++ facts
          let flatSensitive := rules.any fun r => r.enabled && r.cond.eval facts != r.cond.eval flatFirst
          let infos := st.names.filterMap nameInfo
          -- a fired rule with a long non-ASCII name on a level that really runs on worker threads
          let longFiredPar := cfg.maxThreads != 0 && anyLevel rules fun l =>
            shouldParallelize cfg l.length && l.any fun r => r.cond.eval facts &&
              (match nameInfo r.name with | some (n, na) => n > 40 && na | none => false)
          .ok <|
            (if par then ["par"] else ["seq_only"])
            ++ (if st.names.any (·.startsWith "%") then ["unusual_rule_names"] else [])
            ++ (if infos.any (fun i => i.1 > 40) then ["rule_name_gt_40B"] else [])
            ++ (if infos.any (fun i => i.1 > 64) then ["rule_name_gt_64B"] else [])
            ++ (if infos.any (fun i => i.1 > 255) then ["rule_name_gt_255B"] else [])
            ++ (if infos.any (fun i => i.2) then ["rule_name_non_ascii"] else [])
            ++ (if infos.any (fun i => i.1 == 0) then ["rule_name_empty"] else [])
            ++ (if longFiredPar then ["long_non_ascii_name_fires_on_worker"] else [])
            ++ (if st.dups then ["duplicate_name_rejected_by_add_rule"] else [])
            ++ (if !flat.isEmpty then ["flat_dotted_key"] else [])
            ++ (if shadowed then ["flat_key_shadowed_by_nested_field"] else [])
            ++ (if flatSensitive then ["verdict_depends_on_nested_first"] else [])
            ++ (if multi then ["multi_chunk"] else [])
            ++ (if shortLast then ["short_last_chunk"] else [])
            ++ (if fewer then ["n_lt_threads"] else [])
            ++ (if reordered then ["reordered"] else [])
            ++ (if (levelKeys rules).length ≥ 2 then ["levels>1"] else [])
            ++ (if anyLevel rules (fun l => l.length ≥ 2) then ["ties"] else [])
            ++ (if rules.any (fun r => !r.enabled) then ["disabled"] else [])
            ++ (if hasFired then ["fired"] else []) ++ (if hasUnfired then ["unfired"] else [])
            ++ (if firedWithActs then ["fired_with_assignments"] else [])
            ++ (if expectPanic then ["panic_max_threads_0"] else [])
            ++ (if typed then ["typed_values"] else [])
            ++ (if exprRhs then ["expression_rhs"] else [])
            ++ (if exprErr then ["expression_rhs_eval_fails"] else [])
            ++ (if exprFlatFirst then ["expression_reads_flat_key_first"] else [])
            ++ (if strOps then ["string_operators"] else [])
            ++ (if strOpTrue then ["string_operator_true"] else [])
            ++ (if otherActs then ["fired_with_non_assignment_actions"] else [])
            ++ (if deepPath then ["nested_path_depth>=2"] else [])
            ++ (if lookalike then ["lookalike_constants_in_one_chunk"] else [])
            ++ (if multi && hasFired && hasUnfired then ["nontrivial"] else [])

/-- split the observation tokens at the `;;` stage separators -/
def splitStages (toks : List String) : List (List String) :=
  let rec go (ts : List String) (cur : List String) (acc : List (List String)) : List (List String) :=
    match ts with
    | [] => (cur.reverse :: acc).reverse
    | t :: rest => if t = ";;" then go rest [] (cur.reverse :: acc) else go rest (t :: cur) acc
  go toks [] []

def oracleLine (line : String) : String :=
  match line.splitOn " | " with
  | [cs, os] =>
    match parseCase cs with
    | none => "bad-input"
    | some c =>
      let groups := splitStages (tokens os)
      if groups.length != c.stages.length then "bad-input" else
      let rec go (k : Nat) (sts : List Stage) (gs : List (List String)) (tags : List String) : String :=
        match sts, gs with
        | st :: sts', g :: gs' =>
          match checkStage c.cfg st g with
          | .error e =>
            -- a failure in a later stage (an engine that has run another knowledge base before) is marked `K<stage>:`
            if k = 0 || !e.startsWith "fail " then e else s!"fail K{k}:{(e.drop 5).toString}"
          | .ok ts => go (k + 1) sts' gs' (tags ++ ts.filter (fun t => !tags.contains t))
        | _, _ =>
          let rulesDiffer := match c.stages with
            | s0 :: rest => rest.any fun s => s.rules != s0.rules
            | [] => false
          let sameCount := match c.stages with
            | s0 :: rest => rest.any fun s => s.rules != s0.rules && s.rules.length == s0.rules.length
            | [] => false
          joinSp ("ok" :: tags
            ++ (if !c.cfg.enabled then ["parallelism_off"] else [])
            ++ (if c.slow then ["slow_worker"] else [])
            ++ (if c.debug % 2 = 1 then ["debug_mode"] else [])
            ++ (if c.debug / 2 % 2 = 1 then ["debug_mode_seq"] else [])
            ++ (if c.debug / 4 % 2 = 1 then ["default_config"] else [])
            ++ (if c.debug / 8 % 4 ≠ 0 then [s!"facts_built_mode{c.debug / 8 % 4}"] else [])
            ++ (if c.stages.length ≥ 2 then ["engine_reused_across_kbs"] else [])
            ++ (if rulesDiffer then ["reused_with_different_rules"] else [])
            ++ (if sameCount then ["reused_same_name_same_version"] else []))
      go 0 c.stages groups []
  | _ => "bad-input"

def main (args : List String) : IO Unit :=
  match args with
  | ["model"] => mapLines modelLine
  | ["oracle"] => mapLines oracleLine
  | _ => IO.eprintln "usage: drv_c19 model|oracle"
