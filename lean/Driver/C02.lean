import RreModel.Proto
import RreModel.C02.Wire
import RreModel.C02.Oracle
/-
Driver for C02 (format: harness/src/bin/c02.rs).
  drv_c02 model   : case        ↦ observation line predicted by the model (C02.run)
  drv_c02 oracle  : case | obs  ↦ `ok <tags>` / `fail <clause>@<op>` (Spec clauses on the implementation's log)
A case is non-trivial for C02 when a rule fired whose firing depended on an attribute
(no-loop, lock-on-active, activation group, date window or a non-MAIN agenda group).
-/
open Proto C02 C02.Wire

def modelLine (line : String) : String :=
  match parseCase? line with
  | some c =>
    match c.start? with
    | some st => modelObs c st
    | none => "bad-case-dup"
  | none => "bad-case"

def nontrivial (tags : List String) : Bool :=
  tags.contains "fired" &&
  (tags.contains "noloop_fire" || tags.contains "lock_fire" || tags.contains "actgroup_fire"
   || tags.contains "dated_fire" || tags.contains "grouped_fire")

def main (args : List String) : IO Unit :=
  match args with
  | ["model"] => mapLines modelLine
  | ["oracle"] => mapLines (C02.Oracle.oracleLine nontrivial)
  | _ => IO.eprintln "usage: drv_c02 model|oracle"
