-- Root of the `RreModel` library: protocol helpers and the per-property models.
import RreModel.Proto
