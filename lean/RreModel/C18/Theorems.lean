import RreModel.C18.Lemmas
import RreModel.C18.Extra
/-
C18 — property theorems (only).  "Module imports stay acyclic and visibility matches the
declarations."  Every statement about `run ops` quantifies over *every* finite history `ops` of
create / delete / set-exports / add-rule / add-template / import operations (any length, any
names, any patterns); the proofs are by induction on the history through the invariant `Inv`.
The model is the code with `fix-C18.patch` and `fix-C18b.patch` applied.
-/
namespace C18

/-! ## 1. the two records of the import relation agree -/

/-- After every history, `get_import_graph` has an edge `a → b` exactly when module `a` exists and
one of its `get_imports()` declarations names `b`. -/
theorem graph_agrees_with_decls (ops : List Op) (a b : String) :
    gEdge (run ops).graph a b ↔ declEdge (run ops) a b :=
  (inv_run ops).agree a b

/-- After every history, every import declaration of an existing module names an existing module
(no declaration survives the deletion of its source). -/
theorem decls_name_existing_modules (ops : List Op) (a : String) (m : Module) (d : ImportDecl)
    (hm : aget a (run ops).modules = some m) (hd : d ∈ m.imports) : (run ops).has d.src :=
  (inv_run ops).exist a m d hm hd

/-! ## 2. `detect_cycle` decides reachability (any graph, any traversal order) -/

/-- If `to` is reachable from `src` in the import graph, the BFS of `detect_cycle` finds it. -/
theorem reach_complete (g : Graph) (to src : String) (p : Path (gEdge g) src to) :
    detectCycle g to src = true :=
  (detectCycle_iff g to src).mpr (Or.inr p)

/-- `detect_cycle` refuses only self-imports and imports whose target is reachable from the source. -/
theorem reach_sound (g : Graph) (to src : String) (h : detectCycle g to src = true) :
    to = src ∨ Path (gEdge g) src to :=
  (detectCycle_iff g to src).mp h

/-! ## 3. acyclicity is an invariant of every reachable state -/

/-- After every history no module reaches itself through declared imports of existing modules. -/
theorem acyclic_invariant (ops : List Op) (a : String) : ¬ Path (declEdge (run ops)) a a := by
  intro p
  exact (inv_run ops).acyclic a (p.mono (fun x y h => ((inv_run ops).agree x y).mpr h))

/-! ## 4. an import that would close a cycle is refused and changes nothing -/

/-- In every reachable state, importing `src` into `to` when `to = src` or `src` already reaches `to`
through declared imports answers the cycle error and leaves the state as it was. -/
theorem cycle_closing_import_refused (ops : List Op) (to src : String) (ty : ImportType) (pat : String)
    (re : Option ReExport) (hsrc : (run ops).has src)
    (hc : to = src ∨ Path (declEdge (run ops)) src to) :
    step (run ops) (.importFrom to src ty pat re) = (run ops, .err .cycle) := by
  have hdc : detectCycle (run ops).graph to src = true := by
    rw [detectCycle_iff]
    rcases hc with e | p
    · exact Or.inl e
    · exact Or.inr (p.mono (fun x y h => ((inv_run ops).agree x y).mpr h))
  unfold Mgr.has at hsrc
  simp only [step, importFrom]
  cases hs : aget src (run ops).modules with
  | none => exact absurd hs hsrc
  | some _ => simp [hdc]

/-- In every reachable state an import is accepted exactly when both modules exist, they differ, and
the source does not already reach the importer through declared imports. -/
theorem import_accepted_iff (ops : List Op) (to src : String) (ty : ImportType) (pat : String)
    (re : Option ReExport) :
    (step (run ops) (.importFrom to src ty pat re)).2 = .ok ↔
      ((run ops).has src ∧ (run ops).has to ∧ to ≠ src ∧ ¬ Path (declEdge (run ops)) src to) := by
  have hiff : detectCycle (run ops).graph to src = true ↔ (to = src ∨ Path (declEdge (run ops)) src to) := by
    rw [detectCycle_iff]
    constructor
    · rintro (e | p)
      · exact Or.inl e
      · exact Or.inr (p.mono (fun x y h => ((inv_run ops).agree x y).mp h))
    · rintro (e | p)
      · exact Or.inl e
      · exact Or.inr (p.mono (fun x y h => ((inv_run ops).agree x y).mpr h))
  have hsome : ∀ x : Option Module, x ≠ none ↔ x.isSome = true := by
    intro x; cases x <;> simp
  simp only [step, importFrom_res, expectedImport, existsB, Mgr.has, hsome]
  by_cases hs : (aget src (run ops).modules).isSome = true
  · by_cases hd : detectCycle (run ops).graph to src = true
    · have := hiff.mp hd
      simp only [hs, hd, Bool.not_true, Bool.false_eq_true, if_false, if_true, reduceCtorEq, true_and, false_iff]
      rintro ⟨_, hne, hnp⟩
      rcases this with e | p
      · exact hne e
      · exact hnp p
    · have hn : ¬ (to = src ∨ Path (declEdge (run ops)) src to) := fun h => hd (hiff.mpr h)
      by_cases ht : (aget to (run ops).modules).isSome = true
      · simp only [hs, hd, ht, Bool.not_true, Bool.false_eq_true, if_false, true_and, true_iff]
        exact ⟨fun e => hn (Or.inl e), fun p => hn (Or.inr p)⟩
      · simp [hs, hd, ht]
  · simp [hs]

/-- Every refused operation (any state, any operation — in particular a refused import) leaves the
whole manager state, hence every observable, unchanged. -/
theorem refused_import_changes_nothing (s : Mgr) (op : Op) (h : (step s op).2 ≠ .ok) :
    (step s op).1 = s :=
  step_err_unchanged s op h

/-! ## 5. visibility queries on existing modules always answer -/

theorem visibility_total (ops : List Op) (k : Kind) (name to : String) (h : (run ops).has to) :
    ∃ b, isVisible k (run ops) name to = .ok b := by
  rw [isVisible_eq k _ name to (inv_run ops)]
  unfold specVisible
  unfold Mgr.has at h
  cases hm : aget to (run ops).modules with
  | none => exact absurd hm h
  | some m => exact ⟨_, rfl⟩

theorem listing_total (ops : List Op) (to : String) (h : (run ops).has to) :
    ∃ l, getVisibleRules (run ops) to = .ok l := by
  unfold Mgr.has at h
  cases hm : aget to (run ops).modules with
  | none => exact absurd hm h
  | some m =>
    obtain ⟨l, hl, _⟩ := getVisibleRules_spec (run ops) to m (inv_run ops) hm
    exact ⟨l, hl⟩

/-! ## 6. visible ⇔ owned, or imported with a matching pattern from a module that exports it -/

/-- `is_rule_visible` / `is_template_visible` answer `Ok(true)` exactly when the module exists and
owns the item, or one of its import declarations of the matching type comes from a module that
exports the item (`exports_rule` / `exports_template`) and the declaration's pattern matches. -/
theorem visible_iff (ops : List Op) (k : Kind) (name to : String) :
    isVisible k (run ops) name to = .ok true ↔ DeclaredVisible k (run ops) name to := by
  rw [isVisible_eq k _ name to (inv_run ops), ← specVisible_true_iff]
  cases specVisible k (run ops) name to with
  | none => simp
  | some b => cases b <;> simp

/-- …where "exports" is: owns it and the export list admits it (All, or a Specific item of the right
type whose pattern matches), or some import declaration of the module re-exports a matching pattern
(the code tests the name against the re-export patterns only). -/
theorem exports_iff (k : Kind) (m : Module) (name : String) :
    exportsItem k m name = true ↔ DeclaredExport k m name :=
  exportsItem_iff k m name

/-! ## 7. `get_visible_rules` is the filter of the known rules by `is_rule_visible` -/

theorem get_visible_eq_filter (ops : List Op) (to : String) (l : List String)
    (h : getVisibleRules (run ops) to = .ok l) :
    l.Nodup ∧ ∀ r, r ∈ l ↔ (r ∈ allRules (run ops) ∧ isVisible .rule (run ops) r to = .ok true) := by
  cases hm : aget to (run ops).modules with
  | none => simp [getVisibleRules, hm] at h
  | some m =>
    obtain ⟨l', hl', hn, hmem⟩ := getVisibleRules_spec (run ops) to m (inv_run ops) hm
    rw [hl'] at h
    cases h
    refine ⟨hn, fun r => ?_⟩
    rw [hmem r, isVisible_eq .rule _ r to (inv_run ops)]
    cases specVisible .rule (run ops) r to with
    | none => simp
    | some b => cases b <;> simp

/-! ## 8. every run of the model satisfies the observation-level oracle -/

/-- The predicate the driver evaluates on the implementation's observations (`Spec.runOk`: graph =
declarations, no dangling declaration, acyclic, every query answers what the declarations say,
`import_from` answers as the declared relation demands, refused operations change nothing) holds of
the model's own observations along every history, whatever names are queried. -/
theorem model_meets_spec (U R T : List String) (ops : List Op) :
    runOk U (obsOf U R T init) ops (trace U R T init ops) = true :=
  trace_ok U R T ops init inv_init

/-! ## non-vacuity -/

/-! ## the remaining queries that read the module set and the import relation (reach audit) -/

/-- `validate_module` answers exactly for the existing modules (any state). -/
theorem validate_total (s : Mgr) (name : String) : (validate s name).isSome = true ↔ s.has name := by
  unfold validate Mgr.has
  cases aget name s.modules <;> simp

/-- After every history, `validate_module` never finds an import of a non-existent module: every existing module
is valid with no errors (deletion drops the declarations that name the deleted module). -/
theorem validate_finds_no_missing_module (ops : List Op) (name : String) (v : Validation)
    (h : validate (run ops) name = some v) : v.valid = true ∧ v.errors = 0 := by
  unfold validate at h
  cases hm : aget name (run ops).modules with
  | none => simp [hm] at h
  | some m =>
    simp only [hm, Option.some.injEq] at h
    have h0 : m.imports.countP (fun d => (aget d.src (run ops).modules).isNone) = 0 := by
      rw [List.countP_eq_zero]
      intro d hd
      have := decls_name_existing_modules ops name m d hm hd
      unfold Mgr.has at this
      cases hs : aget d.src (run ops).modules with
      | none => exact absurd hs this
      | some _ => simp
    subst h
    simp [h0]

/-- `get_transitive_dependencies` never reports the module itself (any state) — with `acyclic_invariant`: it would
not even if the start were not pre-marked as visited. -/
theorem dependencies_exclude_self (s : Mgr) (name : String) : name ∉ transDeps s name := by
  simp [transDeps]

example : transDeps ⟨[], [("C", ["B"]), ("B", ["A"])]⟩ "C" = ["B", "A"] := by
  simp [transDeps, growN, grow, succs, aget, sins, targets]
example : validate (run []) "MAIN" = some { valid := true, errors := 0, unused := 0, reexp := 0, empty := true } := by
  simp [validate, run, init, aget, newModule]

/-- A, B, C with a chain C → B → A, rules and exports, B re-exporting `r*` -/
def exChain : List Op :=
  [.create "A", .create "B", .create "C", .addRule "A" "r1", .addRule "A" "s1", .setExports "A" .all,
   .importFrom "B" "A" .allRules "*" (some ⟨["r*"], true⟩), .importFrom "C" "B" .all "r*" none]

/-- delete-then-recreate of a module that another one imports, then the reverse import -/
def exRecreate : List Op :=
  [.create "A", .create "B", .importFrom "A" "B" .allRules "*" none, .delete "B", .create "B",
   .importFrom "B" "A" .allRules "*" none]

-- the chain is really there, and closing it is refused with the state unchanged
example : (run exChain).graph = [("B", ["A"]), ("C", ["B"])] := by
  simp [exChain, run, step, create, updModule, importFrom, init, detectCycle, bfs, scan, succs, aget, aset, sins, newModule]
example : Path (declEdge (run exChain)) "C" "A" := by
  have h : ∀ a b, gEdge (run exChain).graph a b → declEdge (run exChain) a b :=
    fun a b => (graph_agrees_with_decls exChain a b).mp
  have hg : (run exChain).graph = [("B", ["A"]), ("C", ["B"])] := by
    simp [exChain, run, step, create, updModule, importFrom, init, detectCycle, bfs, scan, succs, aget, aset, sins, newModule]
  exact .cons (b := "B") (h _ _ (by simp [gEdge, hg, succs, aget])) (.single (h _ _ (by simp [gEdge, hg, succs, aget])))
example : (step (run exChain) (.importFrom "A" "C" .allRules "*" none)).2 = .err .cycle := by
  simp [exChain, run, step, create, updModule, importFrom, init, detectCycle, bfs, scan, succs, aget, aset, sins, newModule]
-- visibility through the re-export: C sees r1 (re-exported by B, pattern r*), not s1; the listing agrees
example : isVisible .rule (run exChain) "r1" "C" = .ok true ∧ isVisible .rule (run exChain) "s1" "C" = .ok false
    ∧ isVisible .rule (run exChain) "s1" "B" = .ok true := by
  simp [exChain, run, step, create, updModule, importFrom, init, detectCycle, bfs, scan, succs, aget, aset, sins,
    newModule, isVisible, scanImports, owned, kindImport, exportsItem, shouldReExport, patternMatches, stripStarSuffix]
example : getVisibleRules (run exChain) "C" = .ok ["r1"] := by
  simp [exChain, run, step, create, updModule, importFrom, init, detectCycle, bfs, scan, succs, aget, aset, sins,
    newModule, getVisibleRules, collectImports, allRules, kindImport, exportsItem, shouldReExport, patternMatches,
    stripStarSuffix]
-- after delete + recreate the old declaration is gone, so the reverse import is legitimately accepted
example : (run exRecreate).graph = [("A", []), ("B", ["A"])] ∧
    (run exRecreate).modules = [("MAIN", newModule "MAIN"), ("A", {}), ("B", { imports := [⟨"A", .allRules, "*", none⟩] })] := by
  simp [exRecreate, run, step, create, delete, importFrom, init, detectCycle, bfs, scan, succs, aget, aset, adel, sins,
    newModule, dropImportsFrom]
example : isVisible .rule (run (exRecreate.take 4)) "r1" "A" = .ok false := by
  simp [exRecreate, run, step, create, delete, importFrom, init, detectCycle, bfs, scan, succs, aget, aset, adel, sins,
    newModule, dropImportsFrom, isVisible, scanImports, owned]

/-! ## the behaviour before `fix-C18.patch`, for the record -/

/-- With the unrepaired `delete_module` (graph cleaned, declarations kept) the history `exRecreate`
ends in a state whose declared imports form the cycle A → B → A, and after its first four steps a
visibility query on the existing module A is an error. -/
theorem unfixed_delete_counterexample :
    (∃ a, Path (declEdge (runUnfixed exRecreate)) a a) ∧
    isVisible .rule (runUnfixed (exRecreate.take 4)) "r1" "A" = .error .notFound := by
  constructor
  · refine ⟨"A", .cons (b := "B") ?_ (.single ?_)⟩
    · refine ⟨{ imports := [⟨"B", .allRules, "*", none⟩] }, ?_, ⟨"B", .allRules, "*", none⟩, by simp, rfl⟩
      simp [exRecreate, runUnfixed, stepUnfixed, deleteUnfixed, step, create, importFrom, init, detectCycle, bfs, scan,
        succs, aget, aset, adel, sins, newModule]
    · refine ⟨{ imports := [⟨"A", .allRules, "*", none⟩] }, ?_, ⟨"A", .allRules, "*", none⟩, by simp, rfl⟩
      simp [exRecreate, runUnfixed, stepUnfixed, deleteUnfixed, step, create, importFrom, init, detectCycle, bfs, scan,
        succs, aget, aset, adel, sins, newModule]
  · simp [exRecreate, runUnfixed, stepUnfixed, deleteUnfixed, step, create, importFrom, init, detectCycle, bfs, scan,
      succs, aget, aset, adel, sins, newModule, isVisible, scanImports, owned, kindImport]

end C18
