import RreModel.C18.Spec
/-
C18 — the remaining public queries of `ModuleManager` that read the module set and the import relation
(reach audit): `list_modules`, `get_transitive_dependencies`, `validate_module` (`validate_all_modules`,
`get_import_graph_debug`, `get_stats` are compared with their twins by the harness). Model + oracle clauses.
No Mathlib.
-/
namespace C18

/-- one round of the BFS of `get_transitive_dependencies`: add the successors of everything visited -/
def grow (g : Graph) (vis : List String) : List String :=
  vis.foldl (fun acc a => (succs g a).foldl (fun acc b => sins b acc) acc) vis

/-- `fuel` rounds; `fuel` = number of import targets of the graph + 1 suffices for the fixpoint (every round before
the fixpoint adds a target) -/
def growN (g : Graph) : Nat → List String → List String
  | 0, vis => vis
  | n + 1, vis => growN g n (grow g vis)

/-- `get_transitive_dependencies(name)` as a set: everything the BFS visits except the start (which is put into
`visited` before the loop and therefore never reported). The code answers `Ok` for every name, existing or not. -/
def transDeps (s : Mgr) (name : String) : List String :=
  (growN s.graph ((targets s.graph).length + 1) [name]).filter (fun b => b != name)

/-- `ModuleValidation`: `is_valid`, number of errors, and the warnings by kind -/
structure Validation where
  valid : Bool
  errors : Nat          -- "Import references non-existent module"
  unused : Nat          -- "Import from … doesn't match any exported items"
  reexp : Nat           -- "Re-export pattern … doesn't match any items"
  empty : Bool          -- "Module is empty"
deriving Repr, DecidableEq

/-- the `has_visible` loop of `validate_module` (`ImportType::All` looks at rules only — as the code does) -/
def importHasVisible (fm : Module) (d : ImportDecl) : Bool :=
  match d.ty with
  | .allRules | .rules | .all => fm.rules.any (fun r => exportsItem .rule fm r && patternMatches d.pattern r)
  | .allTemplates | .templates => fm.templates.any (fun t => exportsItem .template fm t && patternMatches d.pattern t)

/-- the `matches_any` loop of `validate_module` for one re-export pattern -/
def reexportMatches (s : Mgr) (d : ImportDecl) (p : String) : Bool :=
  match aget d.src s.modules with
  | some fm => fm.rules.any (fun r => exportsItem .rule fm r && patternMatches p r)
      || fm.templates.any (fun t => exportsItem .template fm t && patternMatches p t)
  | none => false

/-- `validate_module(name)`; `none` = `Err` (the module does not exist) -/
def validate (s : Mgr) (name : String) : Option Validation :=
  match aget name s.modules with
  | none => none
  | some m =>
    let errors := m.imports.countP (fun d => (aget d.src s.modules).isNone)
    let unused := m.imports.countP (fun d =>
      match aget d.src s.modules with
      | some fm => !importHasVisible fm d
      | none => false)
    let reexp := (m.imports.map (fun d =>
      match d.reExport with
      | some re => re.patterns.countP (fun p => !reexportMatches s d p)
      | none => 0)).sum
    some { valid := errors == 0, errors := errors, unused := unused, reexp := reexp,
           empty := m.rules.isEmpty && m.templates.isEmpty && m.imports.isEmpty }

/-- the extra observations after an operation, for the module names `U` of the case -/
structure Extra where
  mods : List String                                   -- `list_modules()` (a set: hash order)
  deps : List (String × Option (List String))          -- `get_transitive_dependencies(m)` (a set); `none` = `Err`
  vals : List (String × Option Validation)             -- `validate_module(m)`
deriving Repr, DecidableEq

/-- `list_modules` -/
def listModules (s : Mgr) : List String := s.modules.map (·.1)

def extraOf (U : List String) (s : Mgr) : Extra :=
  { mods := listModules s
    deps := U.map (fun m => (m, some (transDeps s m)))
    vals := U.map (fun m => (m, validate s m)) }

def sameSet (a b : List String) : Bool := a.all (fun x => decide (x ∈ b)) && b.all (fun x => decide (x ∈ a))

/-- **oracle clauses** over the implementation's observations (`st` = the state shown by the same snapshot):
* `list_modules` names exactly the existing modules;
* `get_transitive_dependencies` always answers, and answers exactly the modules reachable in the observed import
  graph by one or more edges (`detectCycle g b a` = "`a` reaches `b`" for `a ≠ b`) — never the module itself;
* `validate_module` answers exactly for the existing modules, finds no import of a non-existent module
  (`is_valid`, no errors), and its warnings are what the declarations and export lists say. -/
def extraOk (U : List String) (st : Mgr) (e : Extra) : Bool :=
  let ns := (names st U).eraseDups
  sameSet e.mods (st.modules.map (·.1)) && e.mods.length == (st.modules.map (·.1)).length
  && e.deps.all (fun q =>
      match q.2 with
      | none => false
      | some l => !l.contains q.1
          && ns.all (fun b => decide (b ∈ l) == (b != q.1 && detectCycle st.graph b q.1))
          && l.all (fun b => decide (b ∈ ns)))
  && e.vals.all (fun q =>
      match aget q.1 st.modules, q.2 with
      | none, none => true
      | some _, some v => v.valid && v.errors == 0 && some v == validate st q.1
      | _, _ => false)

/-- name of the first violated clause -/
def extraClause (U : List String) (st : Mgr) (e : Extra) : Option String :=
  if !(sameSet e.mods (st.modules.map (·.1)) && e.mods.length == (st.modules.map (·.1)).length) then some "list_modules"
  else if e.deps.any (fun q => q.2.isNone) then some "dependencies_total"
  else if e.deps.any (fun q => match q.2 with | some l => l.contains q.1 | none => false) then some "depends_on_itself"
  else if !extraOk U st { e with vals := [] } then some "dependencies_eq_reachable"
  else if e.vals.any (fun q => (aget q.1 st.modules).isSome != q.2.isSome) then some "validate_total"
  else if e.vals.any (fun q => match q.2 with | some v => !(v.valid && v.errors == 0) | none => false) then some "validate_finds_missing_module"
  else if !extraOk U st e then some "validate_warnings"
  else none

end C18
