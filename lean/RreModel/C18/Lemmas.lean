import RreModel.C18.Spec
/-
C18 — helper lemmas: finite maps, paths, the BFS of `detect_cycle`, the state invariant and its
preservation by every operation, the visibility loops.  Core Lean only.
-/
namespace C18

/-! ### finite maps and sets -/

theorem aget_aset {β : Type} (k k' : String) (v : β) (l : List (String × β)) :
    aget k' (aset k v l) = if k' = k then some v else aget k' l := by
  induction l with
  | nil =>
    by_cases h : k' = k
    · simp [aset, aget, h]
    · have : ¬ k = k' := fun e => h e.symm
      simp [aset, aget, h, this]
  | cons p l ih =>
    obtain ⟨a, b⟩ := p
    by_cases hak : a = k
    · subst hak
      by_cases h : k' = a
      · subst h; simp [aset, aget]
      · have : ¬ a = k' := fun e => h e.symm
        simp [aset, aget, h, this]
    · by_cases h : k' = k
      · subst h; simp [aset, aget, hak, ih]
      · simp only [aset, hak, if_false, aget, ih, h]

theorem aget_adel {β : Type} (k k' : String) (l : List (String × β)) :
    aget k' (adel k l) = if k' = k then none else aget k' l := by
  induction l with
  | nil => simp [adel, aget]
  | cons p l ih =>
    obtain ⟨a, b⟩ := p
    unfold adel at ih ⊢
    by_cases hak : a = k
    · subst hak
      by_cases h : k' = a
      · subst h; simpa [aget] using ih
      · have : ¬ a = k' := fun e => h e.symm
        simpa [aget, h, this] using ih
    · simp only [List.filter_cons, ne_eq, hak, not_false_eq_true, decide_true, if_true, aget]
      by_cases h : a = k'
      · subst h; simp [hak]
      · simp only [h, if_false, ih]

theorem aget_mapVal {β γ : Type} (f : β → γ) (k : String) (l : List (String × β)) :
    aget k (l.map (fun p => (p.1, f p.2))) = (aget k l).map f := by
  induction l with
  | nil => simp [aget]
  | cons p l ih =>
    obtain ⟨a, b⟩ := p
    simp only [List.map_cons, aget]
    split
    · simp
    · exact ih

theorem aget_some_mem {β : Type} (k : String) (v : β) (l : List (String × β)) (h : aget k l = some v) :
    (k, v) ∈ l := by
  induction l with
  | nil => simp [aget] at h
  | cons p l ih =>
    obtain ⟨a, b⟩ := p
    simp only [aget] at h
    split at h
    · rename_i hak; cases h; subst hak; exact List.mem_cons_self ..
    · exact List.mem_cons_of_mem _ (ih h)

theorem mem_aget {β : Type} (k : String) (v : β) (l : List (String × β)) (h : (k, v) ∈ l) :
    ∃ v', aget k l = some v' := by
  induction l with
  | nil => cases h
  | cons p l ih =>
    obtain ⟨a, b⟩ := p
    simp only [aget]
    split
    · exact ⟨b, rfl⟩
    · rename_i hak
      rcases List.mem_cons.mp h with e | h'
      · cases e; exact absurd rfl hak
      · exact ih h'

theorem mem_sins (x y : String) (l : List String) : y ∈ sins x l ↔ y = x ∨ y ∈ l := by
  unfold sins
  split
  · rename_i h
    constructor
    · exact Or.inr
    · rintro (rfl | h') <;> assumption
  · simp [List.mem_append, or_comm]

theorem sins_nodup (x : String) (l : List String) (h : l.Nodup) : (sins x l).Nodup := by
  unfold sins
  split
  · exact h
  · rename_i hx
    rw [List.nodup_append]
    refine ⟨h, by simp, ?_⟩
    intro a ha b hb
    simp at hb; subst hb
    intro e; subst e; exact hx ha

/-! ### paths -/

theorem Path.mono {E E' : String → String → Prop} (h : ∀ a b, E a b → E' a b) {a b : String}
    (p : Path E a b) : Path E' a b := by
  induction p with
  | single e => exact .single (h _ _ e)
  | cons e _ ih => exact .cons (h _ _ e) ih

theorem Path.trans {E : String → String → Prop} {a b c : String} (p : Path E a b) (q : Path E b c) :
    Path E a c := by
  induction p with
  | single e => exact .cons e q
  | cons e _ ih => exact .cons e (ih q)

/-- paths after adding the single edge `t → f`: either an old path, or one that goes through the
new edge, i.e. `a` reaches `t` and `f` reaches `b` in the old relation -/
theorem path_add_edge {E E' : String → String → Prop} (t f : String)
    (h : ∀ a b, E' a b → E a b ∨ (a = t ∧ b = f)) {a b : String} (p : Path E' a b) :
    Path E a b ∨ ((a = t ∨ Path E a t) ∧ (f = b ∨ Path E f b)) := by
  induction p with
  | single e =>
    rcases h _ _ e with e' | ⟨rfl, rfl⟩
    · exact Or.inl (.single e')
    · exact Or.inr ⟨Or.inl rfl, Or.inl rfl⟩
  | @cons a b c e _ ih =>
    rcases h _ _ e with e' | ⟨rfl, rfl⟩
    · rcases ih with p' | ⟨hb, hc⟩
      · exact Or.inl (.cons e' p')
      · refine Or.inr ⟨Or.inr ?_, hc⟩
        rcases hb with rfl | pb
        · exact .single e'
        · exact .cons e' pb
    · rcases ih with p' | ⟨_, hc⟩
      · exact Or.inr ⟨Or.inl rfl, Or.inr p'⟩
      · exact Or.inr ⟨Or.inl rfl, hc⟩

/-- adding an edge `t → f` to an acyclic relation in which `f` does not reach `t` keeps it acyclic -/
theorem acyclic_add_edge {E E' : String → String → Prop} (t f : String)
    (h : ∀ a b, E' a b → E a b ∨ (a = t ∧ b = f))
    (hac : ∀ a, ¬ Path E a a) (hne : t ≠ f) (hnr : ¬ Path E f t) : ∀ a, ¬ Path E' a a := by
  intro a p
  rcases path_add_edge t f h p with p' | ⟨ha, hb⟩
  · exact hac a p'
  · rcases ha with rfl | pa
    · rcases hb with e | pb
      · exact hne e.symm
      · exact hnr pb
    · rcases hb with rfl | pb
      · exact hnr pa
      · exact hnr (pb.trans pa)

/-! ### the scan of one adjacency list -/

theorem scan_none (tgt : String) (xs vis q : List String) (h : scan tgt xs vis q = none) : tgt ∈ xs := by
  induction xs generalizing vis q with
  | nil => simp [scan] at h
  | cons x xs ih =>
    simp only [scan] at h
    split at h
    · rename_i e; subst e; exact List.mem_cons_self ..
    · split at h
      · exact List.mem_cons_of_mem _ (ih _ _ h)
      · exact List.mem_cons_of_mem _ (ih _ _ h)

theorem scan_some (tgt : String) (xs vis q vis' q' : List String) (h : scan tgt xs vis q = some (vis', q')) :
    tgt ∉ xs ∧ (∀ x ∈ xs, x ∈ vis') ∧ (∀ v ∈ vis, v ∈ vis') ∧
    ∃ new, q' = q ++ new ∧ (∀ v ∈ new, v ∈ xs ∧ v ∈ vis') ∧ (∀ v ∈ vis', v ∈ vis ∨ v ∈ new) := by
  induction xs generalizing vis q with
  | nil =>
    simp only [scan, Option.some.injEq, Prod.mk.injEq] at h
    obtain ⟨rfl, rfl⟩ := h
    exact ⟨by simp, by simp, fun v hv => hv, [], by simp, by simp, fun v hv => Or.inl hv⟩
  | cons x xs ih =>
    simp only [scan] at h
    split at h
    · cases h
    · rename_i hne
      split at h
      · rename_i hv
        obtain ⟨h1, h2, h3, new, h4, h5, h6⟩ := ih _ _ h
        refine ⟨?_, ?_, h3, new, h4, ?_, h6⟩
        · intro hm
          rcases List.mem_cons.mp hm with e | hm'
          · exact hne e.symm
          · exact h1 hm'
        · intro y hy
          rcases List.mem_cons.mp hy with rfl | hy'
          · exact h3 _ hv
          · exact h2 _ hy'
        · intro v hv'
          exact ⟨List.mem_cons_of_mem _ (h5 v hv').1, (h5 v hv').2⟩
      · rename_i hv
        obtain ⟨h1, h2, h3, new, h4, h5, h6⟩ := ih _ _ h
        refine ⟨?_, ?_, fun v hv' => h3 v (List.mem_cons_of_mem _ hv'), x :: new, ?_, ?_, ?_⟩
        · intro hm
          rcases List.mem_cons.mp hm with e | hm'
          · exact hne e.symm
          · exact h1 hm'
        · intro y hy
          rcases List.mem_cons.mp hy with rfl | hy'
          · exact h3 _ (List.mem_cons_self ..)
          · exact h2 _ hy'
        · rw [h4]; simp
        · intro v hv'
          rcases List.mem_cons.mp hv' with rfl | hv''
          · exact ⟨List.mem_cons_self .., h3 _ (List.mem_cons_self ..)⟩
          · exact ⟨List.mem_cons_of_mem _ (h5 v hv'').1, (h5 v hv'').2⟩
        · intro v hv'
          rcases h6 v hv' with hv'' | hv''
          · rcases List.mem_cons.mp hv'' with rfl | hv3
            · exact Or.inr (List.mem_cons_self ..)
            · exact Or.inl hv3
          · exact Or.inr (List.mem_cons_of_mem _ hv'')

/-! ### the BFS: what it finds is reachable, what is reachable it finds -/

theorem bfs_sound (g : Graph) (tgt src : String) (vis q : List String)
    (hq : ∀ v ∈ q, v ∈ vis) (hv : ∀ v ∈ vis, v = src ∨ Path (gEdge g) src v)
    (h : bfs g tgt vis q = true) : Path (gEdge g) src tgt := by
  fun_induction bfs g tgt vis q with
  | case1 vis => cases h
  | case2 vis c q' hs =>
    have htc : gEdge g c tgt := scan_none _ _ _ _ hs
    rcases hv c (hq c (List.mem_cons_self ..)) with rfl | p
    · exact .single htc
    · exact p.trans (.single htc)
  | case3 vis c q' vis' q'' hs ih =>
    obtain ⟨_, _, h3, new, h4, h5, h6⟩ := scan_some _ _ _ _ _ _ hs
    apply ih _ _ h
    · intro v hv'
      rw [h4] at hv'
      rcases List.mem_append.mp hv' with h' | h'
      · exact h3 v (hq v (List.mem_cons_of_mem _ h'))
      · exact (h5 v h').2
    · intro v hv'
      rcases h6 v hv' with h' | h'
      · exact hv v h'
      · have hcv : gEdge g c v := (h5 v h').1
        rcases hv c (hq c (List.mem_cons_self ..)) with rfl | p
        · exact Or.inr (.single hcv)
        · exact Or.inr (p.trans (.single hcv))

/-- closure invariant of the BFS: every visited node that is no longer queued has all its
successors visited and none of them is the target -/
theorem bfs_complete (g : Graph) (tgt : String) (vis q : List String)
    (hq : ∀ v ∈ q, v ∈ vis)
    (hc : ∀ v ∈ vis, v ∉ q → ∀ w ∈ succs g v, w ∈ vis ∧ w ≠ tgt)
    (h : bfs g tgt vis q = false) :
    ∃ V : List String, (∀ v ∈ vis, v ∈ V) ∧ ∀ v ∈ V, ∀ w ∈ succs g v, w ∈ V ∧ w ≠ tgt := by
  fun_induction bfs g tgt vis q with
  | case1 vis => exact ⟨vis, fun v hv => hv, fun v hv => hc v hv (by simp)⟩
  | case2 vis c q' hs => cases h
  | case3 vis c q' vis' q'' hs ih =>
    obtain ⟨h1, h2, h3, new, h4, h5, h6⟩ := scan_some _ _ _ _ _ _ hs
    have hq' : ∀ v ∈ q'', v ∈ vis' := by
      intro v hv'
      rw [h4] at hv'
      rcases List.mem_append.mp hv' with h' | h'
      · exact h3 v (hq v (List.mem_cons_of_mem _ h'))
      · exact (h5 v h').2
    have hc' : ∀ v ∈ vis', v ∉ q'' → ∀ w ∈ succs g v, w ∈ vis' ∧ w ≠ tgt := by
      intro v hv' hnq w hw
      have hvold : v ∈ vis := by
        rcases h6 v hv' with h' | h'
        · exact h'
        · exact absurd (by rw [h4]; exact List.mem_append_right _ h') hnq
      have hnq' : v ∉ q' := fun h' => hnq (by rw [h4]; exact List.mem_append_left _ h')
      by_cases hvc : v = c
      · subst hvc
        exact ⟨h2 w hw, fun e => h1 (e ▸ hw)⟩
      · have : v ∉ c :: q' := by
          intro hm
          rcases List.mem_cons.mp hm with e | hm'
          · exact hvc e
          · exact hnq' hm'
        obtain ⟨hw1, hw2⟩ := hc v hvold this w hw
        exact ⟨h3 w hw1, hw2⟩
    obtain ⟨V, hV1, hV2⟩ := ih hq' hc' h
    exact ⟨V, fun v hv => hV1 v (h3 v hv), hV2⟩

theorem closed_no_path (g : Graph) (tgt : String) (V : List String)
    (hV : ∀ v ∈ V, ∀ w ∈ succs g v, w ∈ V ∧ w ≠ tgt) {a b : String} (p : Path (gEdge g) a b) (ha : a ∈ V) :
    b ∈ V ∧ b ≠ tgt := by
  induction p with
  | single e => exact hV _ ha _ e
  | cons e _ ih => exact ih (hV _ ha _ e).1

/-- `detect_cycle` refuses exactly the imports that would close a cycle: `to = from`, or `to` is
reachable from `from` in the import graph.  In particular the answer does not depend on the order
in which the adjacency sets are traversed. -/
theorem detectCycle_iff (g : Graph) (to src : String) :
    detectCycle g to src = true ↔ (to = src ∨ Path (gEdge g) src to) := by
  unfold detectCycle
  by_cases hts : to = src
  · simp [hts]
  · simp only [hts, if_false, false_or]
    constructor
    · intro h
      exact bfs_sound g to src [src] [src] (fun v hv => hv) (fun v hv => Or.inl (by simpa using hv)) h
    · intro p
      cases hb : bfs g to [src] [src] with
      | true => rfl
      | false =>
        obtain ⟨V, hV1, hV2⟩ := bfs_complete g to [src] [src] (fun v hv => hv)
          (fun v hv hn => absurd hv hn) hb
        exact absurd rfl (closed_no_path g to V hV2 p (hV1 src (by simp))).2

/-! ### the state invariant -/

/-- what every reachable manager state satisfies -/
structure Inv (s : Mgr) : Prop where
  /-- the graph and the declarations record the same relation -/
  agree : ∀ a b, gEdge s.graph a b ↔ declEdge s a b
  /-- every declaration names an existing module -/
  exist : ∀ a m d, aget a s.modules = some m → d ∈ m.imports → s.has d.src
  /-- no module reaches itself -/
  acyclic : ∀ a, ¬ Path (gEdge s.graph) a a

theorem inv_init : Inv init := by
  refine ⟨?_, ?_, ?_⟩
  · intro a b
    constructor
    · intro h; simp [gEdge, succs, init, aget] at h
    · rintro ⟨m, hm, d, hd, _⟩
      simp only [init, aget] at hm
      split at hm
      · cases hm; simp [newModule] at hd
      · cases hm
  · intro a m d hm hd
    simp only [init, aget] at hm
    split at hm
    · cases hm; simp [newModule] at hd
    · cases hm
  · intro a p
    cases p with
    | single e => simp [gEdge, succs, init, aget] at e
    | cons e _ => simp [gEdge, succs, init, aget] at e

theorem succs_aset (g : Graph) (k a : String) (l : List String) :
    succs (aset k l g) a = if a = k then l else succs g a := by
  unfold succs
  rw [aget_aset]
  by_cases h : a = k
  · simp [h]
  · simp [h]

/-- an update of one module that keeps its import declarations keeps the invariant -/
theorem inv_updModule (s : Mgr) (n : String) (f : Module → Module) (hf : ∀ m, (f m).imports = m.imports)
    (h : Inv s) : Inv (updModule s n f).1 := by
  unfold updModule
  cases hn : aget n s.modules with
  | none => exact h
  | some m0 =>
    simp only
    have hget : ∀ a, aget a (aset n (f m0) s.modules) = if a = n then some (f m0) else aget a s.modules :=
      fun a => aget_aset n a (f m0) s.modules
    have hdecl : ∀ a b, declEdge { s with modules := aset n (f m0) s.modules } a b ↔ declEdge s a b := by
      intro a b
      unfold declEdge
      simp only [hget]
      by_cases han : a = n
      · subst han
        simp only [if_true, Option.some.injEq, exists_eq_left', hn, hf]
      · simp only [han, if_false]
    refine ⟨fun a b => (h.agree a b).trans (hdecl a b).symm, ?_, h.acyclic⟩
    intro a m d hm hd
    simp only [hget] at hm
    have hsrc : s.has d.src := by
      by_cases han : a = n
      · subst han
        simp only [if_true, Option.some.injEq] at hm
        subst hm
        rw [hf] at hd
        exact h.exist _ _ _ hn hd
      · simp only [han, if_false] at hm
        exact h.exist _ _ _ hm hd
    unfold Mgr.has at hsrc ⊢
    simp only [hget]
    split
    · simp
    · exact hsrc

theorem inv_create (s : Mgr) (n : String) (h : Inv s) : Inv (create s n).1 := by
  unfold create
  cases hn : aget n s.modules with
  | some m0 => exact h
  | none =>
    simp only
    have hget : ∀ a, aget a (aset n (newModule n) s.modules) = if a = n then some (newModule n) else aget a s.modules :=
      fun a => aget_aset n a (newModule n) s.modules
    have hnone : ∀ b, ¬ declEdge s n b := by
      rintro b ⟨m, hm, _⟩
      rw [hn] at hm; cases hm
    have hdecl : ∀ a b, declEdge { s with modules := aset n (newModule n) s.modules } a b ↔ declEdge s a b := by
      intro a b
      by_cases han : a = n
      · subst han
        constructor
        · rintro ⟨m, hm, d, hd, _⟩
          simp only [hget, if_true, Option.some.injEq] at hm
          subst hm
          simp [newModule] at hd
        · intro hd; exact absurd hd (hnone b)
      · unfold declEdge
        simp only [hget, han, if_false]
    refine ⟨fun a b => (h.agree a b).trans (hdecl a b).symm, ?_, h.acyclic⟩
    intro a m d hm hd
    simp only [hget] at hm
    have hsrc : s.has d.src := by
      by_cases han : a = n
      · subst han
        simp only [if_true, Option.some.injEq] at hm
        subst hm
        simp [newModule] at hd
      · simp only [han, if_false] at hm
        exact h.exist _ _ _ hm hd
    unfold Mgr.has at hsrc ⊢
    simp only [hget]
    split
    · simp
    · exact hsrc

theorem inv_delete (s : Mgr) (n : String) (h : Inv s) : Inv (delete s n).1 := by
  unfold delete
  split
  · exact h
  · cases hn : aget n s.modules with
    | none => exact h
    | some m0 =>
      simp only
      have hget : ∀ a, aget a ((adel n s.modules).map (fun p => (p.1, dropImportsFrom n p.2))) =
          if a = n then none else (aget a s.modules).map (dropImportsFrom n) := by
        intro a
        rw [aget_mapVal (dropImportsFrom n), aget_adel]
        split <;> rfl
      have hsucc : ∀ a, succs ((adel n s.graph).map (fun p => (p.1, p.2.filter (fun x => x ≠ n)))) a =
          if a = n then [] else (succs s.graph a).filter (fun x => x ≠ n) := by
        intro a
        unfold succs
        rw [aget_mapVal (fun l : List String => l.filter (fun x => x ≠ n)), aget_adel]
        by_cases han : a = n
        · simp [han]
        · simp only [han, if_false]
          cases aget a s.graph <;> simp
      refine ⟨?_, ?_, ?_⟩
      · intro a b
        unfold gEdge declEdge
        simp only [hsucc, hget]
        by_cases han : a = n
        · simp [han]
        · simp only [han, if_false, List.mem_filter, ne_eq, decide_not, Bool.not_eq_eq_eq_not, Bool.not_true,
            decide_eq_false_iff_not, Option.map_eq_some_iff]
          constructor
          · rintro ⟨hb, hbn⟩
            obtain ⟨m, hm, d, hd, hdb⟩ := (h.agree a b).mp hb
            refine ⟨_, ⟨m, hm, rfl⟩, d, ?_, hdb⟩
            simp only [dropImportsFrom, List.mem_filter, ne_eq, decide_not, Bool.not_eq_eq_eq_not, Bool.not_true,
              decide_eq_false_iff_not]
            exact ⟨hd, hdb ▸ hbn⟩
          · rintro ⟨_, ⟨m, hm, rfl⟩, d, hd, hdb⟩
            simp only [dropImportsFrom, List.mem_filter, ne_eq, decide_not, Bool.not_eq_eq_eq_not, Bool.not_true,
              decide_eq_false_iff_not] at hd
            exact ⟨(h.agree a b).mpr ⟨m, hm, d, hd.1, hdb⟩, hdb ▸ hd.2⟩
      · intro a m d hm hd
        simp only [hget] at hm
        by_cases han : a = n
        · simp [han] at hm
        · simp only [han, if_false, Option.map_eq_some_iff] at hm
          obtain ⟨m1, hm1, rfl⟩ := hm
          simp only [dropImportsFrom, List.mem_filter, ne_eq, decide_not, Bool.not_eq_eq_eq_not, Bool.not_true,
            decide_eq_false_iff_not] at hd
          have hsrc := h.exist _ _ _ hm1 hd.1
          unfold Mgr.has at hsrc ⊢
          simp only [hget, hd.2, if_false]
          cases hx : aget d.src s.modules with
          | none => exact absurd hx hsrc
          | some _ => simp
      · intro a p
        apply h.acyclic a
        refine Path.mono ?_ p
        intro x y hxy
        unfold gEdge at hxy ⊢
        simp only [hsucc] at hxy
        split at hxy
        · cases hxy
        · exact (List.mem_filter.mp hxy).1

theorem inv_importFrom (s : Mgr) (to src : String) (ty : ImportType) (pat : String) (re : Option ReExport)
    (h : Inv s) : Inv (importFrom s to src ty pat re).1 := by
  unfold importFrom
  cases hsrc : aget src s.modules with
  | none => exact h
  | some ms =>
    simp only
    cases hdc : detectCycle s.graph to src with
    | true => exact h
    | false =>
      simp only [Bool.false_eq_true, if_false]
      cases hto : aget to s.modules with
      | none => exact h
      | some m0 =>
        simp only
        have hncy : ¬ (to = src ∨ Path (gEdge s.graph) src to) := by
          rw [← detectCycle_iff]; simp [hdc]
        have hget : ∀ a, aget a (aset to { m0 with imports := m0.imports ++ [⟨src, ty, pat, re⟩] } s.modules) =
            if a = to then some { m0 with imports := m0.imports ++ [⟨src, ty, pat, re⟩] } else aget a s.modules :=
          fun a => aget_aset to a _ s.modules
        have hedge : ∀ a b, gEdge (aset to (sins src (succs s.graph to)) s.graph) a b ↔
            (gEdge s.graph a b ∨ (a = to ∧ b = src)) := by
          intro a b
          unfold gEdge
          rw [succs_aset]
          by_cases hat : a = to
          · subst hat
            simp only [if_true, mem_sins, true_and]
            exact or_comm
          · simp [hat]
        refine ⟨?_, ?_, ?_⟩
        · intro a b
          rw [hedge, h.agree]
          unfold declEdge
          simp only [hget]
          by_cases hat : a = to
          · subst hat
            simp only [if_true, Option.some.injEq, exists_eq_left', List.mem_append, List.mem_singleton, true_and, hto]
            constructor
            · rintro (⟨d, hd, hdb⟩ | hb)
              · exact ⟨d, Or.inl hd, hdb⟩
              · exact ⟨⟨src, ty, pat, re⟩, Or.inr rfl, hb.symm⟩
            · rintro ⟨d, hd | hd, hdb⟩
              · exact Or.inl ⟨d, hd, hdb⟩
              · subst hd; exact Or.inr hdb.symm
          · simp [hat]
        · intro a m d hm hd
          simp only [hget] at hm
          have hs : s.has d.src := by
            by_cases hat : a = to
            · subst hat
              simp only [if_true, Option.some.injEq] at hm
              subst hm
              rcases List.mem_append.mp hd with hd' | hd'
              · exact h.exist _ _ _ hto hd'
              · simp at hd'; subst hd'
                unfold Mgr.has; simp [hsrc]
            · simp only [hat, if_false] at hm
              exact h.exist _ _ _ hm hd
          unfold Mgr.has at hs ⊢
          simp only [hget]
          split
          · simp
          · exact hs
        · exact acyclic_add_edge to src (fun a b hab => (hedge a b).mp hab) h.acyclic
            (fun e => hncy (Or.inl e)) (fun p => hncy (Or.inr p))

theorem inv_step (s : Mgr) (op : Op) (h : Inv s) : Inv (step s op).1 := by
  cases op with
  | create n => exact inv_create s n h
  | delete n => exact inv_delete s n h
  | setExports n e => exact inv_updModule s n _ (fun _ => rfl) h
  | addRule n r => exact inv_updModule s n _ (fun _ => rfl) h
  | addTemplate n t => exact inv_updModule s n _ (fun _ => rfl) h
  | importFrom to src ty pat re => exact inv_importFrom s to src ty pat re h

theorem inv_foldl (ops : List Op) (s : Mgr) (h : Inv s) : Inv (ops.foldl (fun s op => (step s op).1) s) := by
  induction ops generalizing s with
  | nil => exact h
  | cons op ops ih => exact ih _ (inv_step s op h)

theorem inv_run (ops : List Op) : Inv (run ops) := inv_foldl ops init inv_init

/-! ### refused operations -/

theorem step_err_unchanged (s : Mgr) (op : Op) (h : (step s op).2 ≠ .ok) : (step s op).1 = s := by
  cases op with
  | create n =>
    simp only [step, create] at h ⊢
    split <;> simp_all
  | delete n =>
    simp only [step, delete] at h ⊢
    split
    · rfl
    · split <;> simp_all
  | setExports n e =>
    simp only [step, updModule] at h ⊢
    split <;> simp_all
  | addRule n r =>
    simp only [step, updModule] at h ⊢
    split <;> simp_all
  | addTemplate n t =>
    simp only [step, updModule] at h ⊢
    split <;> simp_all
  | importFrom to src ty pat re =>
    simp only [step, importFrom] at h ⊢
    split
    · rfl
    · split
      · rfl
      · split <;> simp_all

/-! ### visibility -/

theorem scanImports_eq (k : Kind) (s : Mgr) (name : String) (ds : List ImportDecl)
    (hd : ∀ d ∈ ds, s.has d.src) :
    scanImports k s name ds = .ok (ds.any (importAdmits k s name)) := by
  induction ds with
  | nil => simp [scanImports]
  | cons d rest ih =>
    have ih' := ih (fun d' hd' => hd d' (List.mem_cons_of_mem _ hd'))
    have hsrc := hd d (List.mem_cons_self ..)
    unfold Mgr.has at hsrc
    simp only [scanImports, List.any_cons, importAdmits]
    cases hk : kindImport k d.ty with
    | false => simpa [importAdmits] using ih'
    | true =>
      cases hs : aget d.src s.modules with
      | none => exact absurd hs hsrc
      | some fm =>
        simp only [Bool.not_true, Bool.false_eq_true, if_false, Bool.true_and]
        cases hc : (exportsItem k fm name && patternMatches d.pattern name) with
        | true => simp
        | false => simpa [importAdmits] using ih'

theorem isVisible_eq (k : Kind) (s : Mgr) (name to : String) (h : Inv s) :
    isVisible k s name to =
      match specVisible k s name to with
      | some b => .ok b
      | none => .error .notFound := by
  unfold isVisible specVisible
  cases hm : aget to s.modules with
  | none => rfl
  | some m =>
    simp only
    rw [scanImports_eq k s name m.imports (fun d hd => h.exist _ _ _ hm hd)]
    by_cases ho : name ∈ owned k m
    · simp [ho]
    · simp [ho]

theorem specVisible_true_iff (k : Kind) (s : Mgr) (name to : String) :
    specVisible k s name to = some true ↔ DeclaredVisible k s name to := by
  unfold specVisible DeclaredVisible
  cases hm : aget to s.modules with
  | none => simp
  | some m =>
    simp only [Option.some.injEq, Bool.or_eq_true, decide_eq_true_eq, List.any_eq_true, exists_eq_left']
    constructor
    · rintro (ho | ⟨d, hd, ha⟩)
      · exact Or.inl ho
      · right
        unfold importAdmits at ha
        simp only [Bool.and_eq_true] at ha
        obtain ⟨hk, hx⟩ := ha
        cases hs : aget d.src s.modules with
        | none => rw [hs] at hx; cases hx
        | some fm =>
          rw [hs] at hx
          simp only [Bool.and_eq_true] at hx
          exact ⟨d, hd, hk, fm, hs, hx.1, hx.2⟩
    · rintro (ho | ⟨d, hd, hk, fm, hs, he, hp⟩)
      · exact Or.inl ho
      · right
        refine ⟨d, hd, ?_⟩
        simp [importAdmits, hk, hs, he, hp]

theorem exportsItem_iff (k : Kind) (m : Module) (name : String) :
    exportsItem k m name = true ↔ DeclaredExport k m name := by
  have hre : shouldReExport m name = true ↔
      ∃ d ∈ m.imports, ∃ re, d.reExport = some re ∧ ∃ p ∈ re.patterns, patternMatches p name = true := by
    unfold shouldReExport
    simp only [List.any_eq_true]
    constructor
    · rintro ⟨d, hd, hx⟩
      cases hr : d.reExport with
      | none => rw [hr] at hx; cases hx
      | some re =>
        rw [hr] at hx
        simp only [List.any_eq_true] at hx
        exact ⟨d, hd, re, hr, hx⟩
    · rintro ⟨d, hd, re, hr, hx⟩
      refine ⟨d, hd, ?_⟩
      rw [hr]
      simpa only [List.any_eq_true] using hx
  unfold exportsItem DeclaredExport
  rw [Bool.or_eq_true, hre]
  apply or_congr_left
  cases he : m.exports with
  | all => simp
  | none => simp
  | specific items =>
    simp only [Bool.and_eq_true, decide_eq_true_eq, List.any_eq_true, reduceCtorEq, ExportList.specific.injEq,
      exists_eq_left', false_or]

theorem mem_foldl_sins_if (c : String → Bool) (rs acc : List String) (r : String) :
    r ∈ rs.foldl (fun a x => if c x then sins x a else a) acc ↔ r ∈ acc ∨ (r ∈ rs ∧ c r = true) := by
  induction rs generalizing acc with
  | nil => simp
  | cons x rs ih =>
    simp only [List.foldl_cons, ih, List.mem_cons]
    by_cases hc : c x = true
    · simp only [hc, if_true, mem_sins]
      constructor
      · rintro ((rfl | h) | h)
        · exact Or.inr ⟨Or.inl rfl, hc⟩
        · exact Or.inl h
        · exact Or.inr ⟨Or.inr h.1, h.2⟩
      · rintro (h | ⟨rfl | h, h2⟩)
        · exact Or.inl (Or.inr h)
        · exact Or.inl (Or.inl rfl)
        · exact Or.inr ⟨h, h2⟩
    · simp only [hc, if_false, Bool.false_eq_true]
      constructor
      · rintro (h | h)
        · exact Or.inl h
        · exact Or.inr ⟨Or.inr h.1, h.2⟩
      · rintro (h | ⟨rfl | h, h2⟩)
        · exact Or.inl h
        · exact absurd h2 hc
        · exact Or.inr ⟨h, h2⟩

theorem nodup_foldl_sins_if (c : String → Bool) (rs acc : List String) (h : acc.Nodup) :
    (rs.foldl (fun a x => if c x then sins x a else a) acc).Nodup := by
  induction rs generalizing acc with
  | nil => exact h
  | cons x rs ih =>
    simp only [List.foldl_cons]
    apply ih
    split
    · exact sins_nodup x acc h
    · exact h

theorem collectImports_spec (s : Mgr) (ds : List ImportDecl) (acc : List String)
    (hd : ∀ d ∈ ds, s.has d.src) :
    ∃ l, collectImports s ds acc = .ok l ∧ (acc.Nodup → l.Nodup) ∧
      ∀ r, r ∈ l ↔ r ∈ acc ∨ (r ∈ allRules s ∧ ds.any (importAdmits .rule s r) = true) := by
  induction ds generalizing acc with
  | nil => exact ⟨acc, rfl, id, by simp⟩
  | cons d rest ih =>
    have hrest : ∀ d' ∈ rest, s.has d'.src := fun d' hd' => hd d' (List.mem_cons_of_mem _ hd')
    have hsrc := hd d (List.mem_cons_self ..)
    unfold Mgr.has at hsrc
    simp only [collectImports]
    cases hk : kindImport .rule d.ty with
    | false =>
      obtain ⟨l, hl, hn, hmem⟩ := ih acc hrest
      refine ⟨l, by simpa using hl, hn, ?_⟩
      intro r
      rw [hmem r]
      simp [importAdmits, hk]
    | true =>
      cases hs : aget d.src s.modules with
      | none => exact absurd hs hsrc
      | some fm =>
        simp only [Bool.not_true, Bool.false_eq_true, if_false]
        obtain ⟨l, hl, hn, hmem⟩ := ih
          ((allRules s).foldl (fun a r => if exportsItem .rule fm r && patternMatches d.pattern r then sins r a else a) acc) hrest
        refine ⟨l, hl, fun ha => hn (nodup_foldl_sins_if _ _ _ ha), ?_⟩
        intro r
        rw [hmem r, mem_foldl_sins_if (fun r => exportsItem .rule fm r && patternMatches d.pattern r)]
        simp only [List.any_cons, Bool.or_eq_true, importAdmits, hk, hs, Bool.true_and]
        constructor
        · rintro ((h | ⟨h1, h2⟩) | ⟨h1, h2⟩)
          · exact Or.inl h
          · exact Or.inr ⟨h1, Or.inl h2⟩
          · exact Or.inr ⟨h1, Or.inr (by simpa [importAdmits] using h2)⟩
        · rintro (h | ⟨h1, h2 | h2⟩)
          · exact Or.inl (Or.inl h)
          · exact Or.inl (Or.inr ⟨h1, h2⟩)
          · exact Or.inr ⟨h1, by simpa [importAdmits] using h2⟩

theorem mem_foldl_sins (rs acc : List String) (r : String) :
    r ∈ rs.foldl (fun a x => sins x a) acc ↔ r ∈ acc ∨ r ∈ rs := by
  have := mem_foldl_sins_if (fun _ => true) rs acc r
  simpa using this

theorem nodup_foldl_sins (rs acc : List String) (h : acc.Nodup) :
    (rs.foldl (fun a x => sins x a) acc).Nodup := by
  have := nodup_foldl_sins_if (fun _ => true) rs acc h
  simpa using this

theorem owned_rule_mem_allRules (s : Mgr) (to : String) (m : Module) (r : String)
    (hm : aget to s.modules = some m) (hr : r ∈ m.rules) : r ∈ allRules s := by
  unfold allRules
  rw [List.mem_flatMap]
  exact ⟨(to, m), aget_some_mem _ _ _ hm, hr⟩

theorem getVisibleRules_spec (s : Mgr) (to : String) (m : Module) (h : Inv s)
    (hm : aget to s.modules = some m) :
    ∃ l, getVisibleRules s to = .ok l ∧ l.Nodup ∧
      ∀ r, r ∈ l ↔ (r ∈ allRules s ∧ specVisible .rule s r to = some true) := by
  unfold getVisibleRules
  rw [hm]
  simp only
  obtain ⟨l, hl, hn, hmem⟩ := collectImports_spec s m.imports (m.rules.foldl (fun a r => sins r a) [])
    (fun d hd => h.exist _ _ _ hm hd)
  refine ⟨l, hl, hn (nodup_foldl_sins _ _ List.nodup_nil), ?_⟩
  intro r
  rw [hmem r, mem_foldl_sins]
  unfold specVisible
  rw [hm]
  simp only [List.not_mem_nil, false_or, Option.some.injEq, Bool.or_eq_true, decide_eq_true_eq]
  constructor
  · rintro (h1 | ⟨h1, h2⟩)
    · exact ⟨owned_rule_mem_allRules s to m r hm h1, Or.inl h1⟩
    · exact ⟨h1, Or.inr h2⟩
  · rintro ⟨h1, h2 | h2⟩
    · exact Or.inl h2
    · exact Or.inr ⟨h1, h2⟩

/-! ### the model's observations satisfy the oracle -/

theorem declEdgeB_iff (s : Mgr) (a b : String) : declEdgeB s a b = true ↔ declEdge s a b := by
  unfold declEdgeB declEdge
  cases aget a s.modules with
  | none => simp
  | some m => simp

theorem graphAgreesB_of_inv (s : Mgr) (U : List String) (h : Inv s) : graphAgreesB s U = true := by
  unfold graphAgreesB
  simp only [List.all_eq_true]
  intro a _ b _
  have h1 := h.agree a b
  unfold gEdge at h1
  by_cases hb : b ∈ succs s.graph a
  · have := (declEdgeB_iff s a b).mpr (h1.mp hb)
    simp [hb, this]
  · have : declEdgeB s a b = false := by
      cases hx : declEdgeB s a b with
      | false => rfl
      | true => exact absurd (h1.mpr ((declEdgeB_iff s a b).mp hx)) hb
    simp [hb, this]

theorem noDanglingB_of_inv (s : Mgr) (U : List String) (h : Inv s) : noDanglingB s U = true := by
  unfold noDanglingB
  simp only [List.all_eq_true]
  intro a _
  cases hm : aget a s.modules with
  | none => rfl
  | some m =>
    simp only [List.all_eq_true]
    intro d hd
    have := h.exist a m d hm hd
    unfold Mgr.has at this
    unfold existsB
    cases hx : aget d.src s.modules with
    | none => exact absurd hx this
    | some _ => rfl

theorem acyclicB_of_inv (s : Mgr) (U : List String) (h : Inv s) : acyclicB s U = true := by
  unfold acyclicB
  simp only [List.all_eq_true]
  intro a _ b hb
  cases hdc : detectCycle s.graph a b with
  | false => rfl
  | true =>
    exfalso
    rcases (detectCycle_iff s.graph a b).mp hdc with e | p
    · subst e; exact h.acyclic a (.single hb)
    · exact h.acyclic a (.cons hb p)

theorem toOpt_isVisible (k : Kind) (s : Mgr) (name to : String) (h : Inv s) :
    toOpt (isVisible k s name to) = specVisible k s name to := by
  rw [isVisible_eq k s name to h]
  cases specVisible k s name to <;> rfl

theorem listing_ok (s : Mgr) (to : String) (h : Inv s) :
    (match aget to s.modules, toOpt (getVisibleRules s to) with
      | none, none => true
      | some _, some l =>
        (allRules s).all (fun r => decide (r ∈ l) == (specVisible .rule s r to == some true))
        && l.all (fun r => decide (r ∈ allRules s))
      | _, _ => false) = true := by
  cases hm : aget to s.modules with
  | none => simp [getVisibleRules, hm, toOpt]
  | some m =>
    obtain ⟨l, hl, _, hmem⟩ := getVisibleRules_spec s to m h hm
    rw [hl]
    simp only [toOpt, Bool.and_eq_true, List.all_eq_true, decide_eq_true_eq]
    constructor
    · intro r hr
      by_cases hrl : r ∈ l
      · have := ((hmem r).mp hrl).2
        simp [hrl, this]
      · have : specVisible .rule s r to ≠ some true := fun hx => hrl ((hmem r).mpr ⟨hr, hx⟩)
        simp [hrl, this]
    · intro r hr
      exact ((hmem r).mp hr).1

theorem snapOk_of_inv (U R T : List String) (s : Mgr) (h : Inv s) : snapOk U (obsOf U R T s) = true := by
  unfold snapOk obsOf
  simp only [Bool.and_eq_true, graphAgreesB_of_inv s U h, noDanglingB_of_inv s U h, acyclicB_of_inv s U h, true_and,
    List.all_eq_true, List.mem_flatMap, List.mem_map]
  refine ⟨⟨?_, ?_⟩, ?_⟩
  · rintro q ⟨m, _, r, _, rfl⟩
    simp [toOpt_isVisible _ s r m h]
  · rintro q ⟨m, _, t, _, rfl⟩
    simp [toOpt_isVisible _ s t m h]
  · rintro q ⟨m, _, rfl⟩
    exact listing_ok s m h

theorem importFrom_res (s : Mgr) (to src : String) (ty : ImportType) (pat : String) (re : Option ReExport) :
    (importFrom s to src ty pat re).2 = expectedImport s to src := by
  unfold importFrom expectedImport existsB
  cases aget src s.modules with
  | none => simp
  | some ms =>
    simp only [Option.isSome_some, Bool.not_true, Bool.false_eq_true, if_false]
    cases detectCycle s.graph to src with
    | true => simp
    | false =>
      simp only [Bool.false_eq_true, if_false]
      cases aget to s.modules <;> simp

theorem stepOk_model (U R T : List String) (s : Mgr) (op : Op) :
    stepOk (obsOf U R T s) op (step s op).2 (obsOf U R T (step s op).1) = true := by
  unfold stepOk
  rw [Bool.and_eq_true]
  constructor
  · cases op with
    | importFrom to src ty pat re => simp [step, importFrom_res, obsOf]
    | _ => rfl
  · by_cases hr : (step s op).2 = .ok
    · simp [hr]
    · simp only [hr, if_false, step_err_unchanged s op hr]
      simp

theorem trace_ok (U R T : List String) (ops : List Op) (s : Mgr) (h : Inv s) :
    runOk U (obsOf U R T s) ops (trace U R T s ops) = true := by
  induction ops generalizing s with
  | nil => rfl
  | cons op ops ih =>
    simp only [trace, runOk, Bool.and_eq_true]
    exact ⟨⟨stepOk_model U R T s op, snapOk_of_inv U R T _ (inv_step s op h)⟩, ih _ (inv_step s op h)⟩

/-! ### the unrepaired `delete_module`, kept only to record the defect (`unfixed_delete_counterexample`) -/

/-- `delete_module` as it was before fix-C18: the graph is cleaned, the declarations are not -/
def deleteUnfixed (s : Mgr) (n : String) : Mgr × Res :=
  if n = "MAIN" then (s, .err .defaultModule)
  else match aget n s.modules with
    | none => (s, .err .notFound)
    | some _ =>
      ({ modules := adel n s.modules,
         graph := (adel n s.graph).map (fun p => (p.1, p.2.filter (fun x => x ≠ n))) }, .ok)

def stepUnfixed (s : Mgr) : Op → Mgr × Res
  | .delete n => deleteUnfixed s n
  | op => step s op

def runUnfixed (ops : List Op) : Mgr := ops.foldl (fun s op => (stepUnfixed s op).1) init

end C18
