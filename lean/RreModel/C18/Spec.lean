import RreModel.C18.Model
/-
C18 — the vocabulary of the property (import relation, paths, declared visibility) and the property
as decidable predicates over API-level observations (the runtime oracle that the driver evaluates
on the implementation's own observations).
-/
namespace C18

/-- a non-empty path in a relation on module names -/
inductive Path (E : String → String → Prop) : String → String → Prop
  | single {a b : String} : E a b → Path E a b
  | cons {a b c : String} : E a b → Path E b c → Path E a c

/-- `a` has an edge to `b` in the import graph (`get_import_graph`) -/
def gEdge (g : Graph) (a b : String) : Prop := b ∈ succs g a

/-- module `a` exists and one of its import declarations (`get_module(a).get_imports()`) names `b` -/
def declEdge (s : Mgr) (a b : String) : Prop :=
  ∃ m, aget a s.modules = some m ∧ ∃ d ∈ m.imports, d.src = b

def Mgr.has (s : Mgr) (a : String) : Prop := aget a s.modules ≠ none

/-- the declarative reading of "visible": the module owns the item, or one of its import
declarations of the right type comes from an existing module that exports the item and the
declaration's pattern matches it -/
def DeclaredVisible (k : Kind) (s : Mgr) (name to : String) : Prop :=
  ∃ m, aget to s.modules = some m ∧
    (name ∈ owned k m ∨
     ∃ d ∈ m.imports, kindImport k d.ty = true ∧
       ∃ fm, aget d.src s.modules = some fm ∧ exportsItem k fm name = true ∧ patternMatches d.pattern name = true)

/-- the declarative reading of "module `m` exports `name`": it owns it and its export list admits it,
or one of its import declarations re-exports a pattern matching the name -/
def DeclaredExport (k : Kind) (m : Module) (name : String) : Prop :=
  (name ∈ owned k m ∧
     (m.exports = .all ∨
      ∃ items, m.exports = .specific items ∧ ∃ it ∈ items, kindItem k it.ty = true ∧ patternMatches it.pattern name = true))
  ∨ ∃ d ∈ m.imports, ∃ re, d.reExport = some re ∧ ∃ p ∈ re.patterns, patternMatches p name = true

/-! ### the oracle: decidable predicates over observations

An observation (`Obs`) is what the public API shows after an operation: for every module name of
the case whether it exists and, if so, `get_rules`, `get_templates`, `get_exports`, `get_imports`
(`st.modules`), `get_import_graph` (`st.graph`), and the answers of `is_rule_visible`,
`is_template_visible` (`vis`, `tvis`: one entry per queried (name, module); `none` = `Err`) and
`get_visible_rules` (`listing`). -/

structure Obs where
  st : Mgr
  vis : List ((String × String) × Option Bool)        -- ((rule, module), answer)
  tvis : List ((String × String) × Option Bool)       -- ((template, module), answer)
  listing : List (String × Option (List String))      -- (module, answer)
deriving Repr, DecidableEq

def existsB (s : Mgr) (a : String) : Bool := (aget a s.modules).isSome

/-- declared imports of `a` name `b` -/
def declEdgeB (s : Mgr) (a b : String) : Bool :=
  match aget a s.modules with
  | some m => m.imports.any (fun d => d.src = b)
  | none => false

/-- import declaration `d` (held by some module of `s`) makes `name` visible: right type, the source
exists and exports the item, and the declaration's pattern matches -/
def importAdmits (k : Kind) (s : Mgr) (name : String) (d : ImportDecl) : Bool :=
  kindImport k d.ty &&
    (match aget d.src s.modules with
     | some fm => exportsItem k fm name && patternMatches d.pattern name
     | none => false)

/-- the declarative answer a visibility query must give (`none` = the module does not exist) -/
def specVisible (k : Kind) (s : Mgr) (name to : String) : Option Bool :=
  match aget to s.modules with
  | none => none
  | some m => some (decide (name ∈ owned k m) || m.imports.any (importAdmits k s name))

/-- every module name the observation mentions: the names of the case, the keys and targets of the
graph, the existing modules and the sources of their declarations -/
def names (s : Mgr) (U : List String) : List String :=
  U ++ s.graph.map (·.1) ++ targets s.graph ++ s.modules.map (·.1)
    ++ s.modules.flatMap (fun p => p.2.imports.map (·.src))

/-- the import relation recorded in the graph and in the declarations is the same relation -/
def graphAgreesB (s : Mgr) (U : List String) : Bool :=
  (names s U).all (fun a => (names s U).all (fun b => decide (b ∈ succs s.graph a) == declEdgeB s a b))

/-- every import declaration of an existing module names an existing module -/
def noDanglingB (s : Mgr) (U : List String) : Bool :=
  (names s U).all (fun a =>
    match aget a s.modules with
    | some m => m.imports.all (fun d => existsB s d.src)
    | none => true)

/-- no module reaches itself: no edge `a → b` has `a = b` or `b` reaching `a` -/
def acyclicB (s : Mgr) (U : List String) : Bool :=
  (names s U).all (fun a => (succs s.graph a).all (fun b => !detectCycle s.graph a b))

/-- state clauses + every query answers, and answers what the declarations say -/
def snapOk (U : List String) (o : Obs) : Bool :=
  graphAgreesB o.st U && noDanglingB o.st U && acyclicB o.st U
  && o.vis.all (fun q => q.2 == specVisible .rule o.st q.1.1 q.1.2)
  && o.tvis.all (fun q => q.2 == specVisible .template o.st q.1.1 q.1.2)
  && o.listing.all (fun q =>
      match aget q.1 o.st.modules, q.2 with
      | none, none => true
      | some _, some l =>
        (allRules o.st).all (fun r => decide (r ∈ l) == (specVisible .rule o.st r q.1 == some true))
        && l.all (fun r => decide (r ∈ allRules o.st))
      | _, _ => false)

/-- the answer `import_from` must give in the state observed before it -/
def expectedImport (s : Mgr) (to src : String) : Res :=
  if !existsB s src then .err .sourceNotFound
  else if detectCycle s.graph to src then .err .cycle
  else if !existsB s to then .err .notFound
  else .ok

/-- step clause: an import answers as the declared relation demands (an import that would close
a cycle is refused), and a refused operation leaves every observable unchanged -/
def stepOk (o : Obs) (op : Op) (r : Res) (o' : Obs) : Bool :=
  (match op with
   | .importFrom to src _ _ _ => r == expectedImport o.st to src
   | _ => true)
  && (if r = .ok then true else o' == o)

/-! ### the model's own observations -/

def toOpt {α : Type} : Except Err α → Option α
  | .ok a => some a
  | .error _ => none

/-- what the API shows of model state `s` when asked about modules `U`, rules `R`, templates `T` -/
def obsOf (U R T : List String) (s : Mgr) : Obs :=
  { st := s
    vis := U.flatMap (fun m => R.map (fun r => ((r, m), toOpt (isVisible .rule s r m))))
    tvis := U.flatMap (fun m => T.map (fun t => ((t, m), toOpt (isVisible .template s t m))))
    listing := U.map (fun m => (m, toOpt (getVisibleRules s m))) }

/-- results and observations of the model along a history -/
def trace (U R T : List String) : Mgr → List Op → List (Res × Obs)
  | _, [] => []
  | s, op :: ops => ((step s op).2, obsOf U R T (step s op).1) :: trace U R T (step s op).1 ops

/-- whole-run oracle: every step is admissible and every snapshot satisfies the state clauses -/
def runOk (U : List String) : Obs → List Op → List (Res × Obs) → Bool
  | _, [], [] => true
  | o, op :: ops, (r, o') :: rest => stepOk o op r o' && snapOk U o' && runOk U o' ops rest
  | _, _, _ => false

end C18
