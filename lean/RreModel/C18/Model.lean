/-
C18 — model of `src/engine/module.rs` (`ModuleManager`, `Module`, `pattern_matches`) *after* the two
repairs `fix-C18.patch` (`delete_module` also drops the import declarations that name the deleted
module) and `fix-C18b.patch` (`get_visible_rules` enumerates every rule known to the manager, so a
rule that is visible only through a re-export is listed as well).

`HashMap<String, _>` is an association list read by first match (`aget`), written by
replace-or-append (`aset`) and deleted by filtering (`adel`); `HashSet<String>` is a list used only
through membership.  Nothing below depends on the order of these lists except the *message* of a
cycle error, which is not modelled (only the error kind is).
Not modelled: `current_focus`, `fact_types`, `doc`, `salience`, statistics, `validate_module`.
-/
namespace C18

/-! ### finite maps and sets -/

def aget {β : Type} (k : String) : List (String × β) → Option β
  | [] => none
  | (a, b) :: t => if a = k then some b else aget k t

def aset {β : Type} (k : String) (v : β) : List (String × β) → List (String × β)
  | [] => [(k, v)]
  | (a, b) :: t => if a = k then (a, v) :: t else (a, b) :: aset k v t

def adel {β : Type} (k : String) (l : List (String × β)) : List (String × β) :=
  l.filter (fun p => p.1 ≠ k)

/-- `HashSet::insert` -/
def sins (x : String) (l : List String) : List String := if x ∈ l then l else l ++ [x]

/-! ### data -/

inductive ItemType where
  | rule | template | fact | all
deriving Repr, DecidableEq

structure ExportItem where
  ty : ItemType
  pattern : String
deriving Repr, DecidableEq

inductive ExportList where
  | all
  | none
  | specific (items : List ExportItem)
deriving Repr, DecidableEq

inductive ImportType where
  | allRules | allTemplates | rules | templates | all
deriving Repr, DecidableEq

structure ReExport where
  patterns : List String
  transitive : Bool
deriving Repr, DecidableEq

structure ImportDecl where
  src : String                      -- `from_module`
  ty : ImportType
  pattern : String
  reExport : Option ReExport
deriving Repr, DecidableEq

structure Module where
  rules : List String := []
  templates : List String := []
  exports : ExportList := .none
  imports : List ImportDecl := []
deriving Repr, DecidableEq

/-- `ModuleManager`: `modules` and the separate `import_graph` -/
structure Mgr where
  modules : List (String × Module)
  graph : List (String × List String)
deriving Repr, DecidableEq

/-- `Module::new`: MAIN exports everything, every other module nothing -/
def newModule (name : String) : Module :=
  { exports := if name = "MAIN" then .all else .none }

/-- `ModuleManager::new` -/
def init : Mgr := { modules := [("MAIN", newModule "MAIN")], graph := [] }

inductive Err where
  | alreadyExists | notFound | defaultModule | sourceNotFound | cycle
deriving Repr, DecidableEq

inductive Res where
  | ok
  | err (e : Err)
deriving Repr, DecidableEq

/-! ### `pattern_matches` -/

/-- `str::strip_suffix('*')` on the characters -/
def stripStarSuffix : List Char → Option (List Char)
  | [] => none
  | [c] => if c = '*' then some [] else none
  | c :: d :: t => (stripStarSuffix (d :: t)).map (c :: ·)

/-- `pattern_matches(pattern, name)`: `*` and `?ALL` match everything, `p*` is a prefix test, `*s` a
suffix test (only when the pattern does not also end in `*`), anything else is equality -/
def patternMatches (pattern name : String) : Bool :=
  if pattern = "*" ∨ pattern = "?ALL" then true
  else match stripStarSuffix pattern.toList with
    | some pre => pre.isPrefixOf name.toList
    | none =>
      match pattern.toList with
      | '*' :: suf => suf.isSuffixOf name.toList
      | _ => pattern = name

/-! ### the import graph and `detect_cycle` -/

abbrev Graph := List (String × List String)

/-- `self.import_graph.get(&current)` with `if let Some(imports)` -/
def succs (g : Graph) (a : String) : List String :=
  match aget a g with
  | some l => l
  | none => []

/-- every name that occurs as an import target in the graph -/
def targets (g : Graph) : List String := g.flatMap (·.2)

/-- number of graph targets not yet visited: the reason the BFS terminates -/
def unvisited (g : Graph) (vis : List String) : Nat := (targets g).countP (fun x => decide (x ∉ vis))

/-- the `for imported in imports` loop of `detect_cycle`: `none` = the target was met (a cycle),
`some (visited', queue')` otherwise -/
def scan (tgt : String) : List String → List String → List String → Option (List String × List String)
  | [], vis, q => some (vis, q)
  | x :: xs, vis, q =>
    if x = tgt then none
    else if x ∈ vis then scan tgt xs vis q
    else scan tgt xs (x :: vis) (q ++ [x])

theorem countP_notin_cons_le (l vis : List String) (x : String) :
    l.countP (fun y => decide (y ∉ x :: vis)) ≤ l.countP (fun y => decide (y ∉ vis)) := by
  apply List.countP_mono_left
  intro y _ hy
  simp only [List.mem_cons, not_or, decide_eq_true_eq] at hy ⊢
  exact hy.2

theorem countP_lt {α} (p q : α → Bool) (l : List α) (himp : ∀ x, q x = true → p x = true)
    (hex : ∃ x ∈ l, p x = true ∧ q x = false) : l.countP q < l.countP p := by
  induction l with
  | nil => obtain ⟨x, hx, _⟩ := hex; cases hx
  | cons a l ih =>
    have hle : l.countP q ≤ l.countP p := List.countP_mono_left (fun x _ => himp x)
    obtain ⟨x, hx, hp, hq⟩ := hex
    simp only [List.countP_cons]
    rcases List.mem_cons.mp hx with rfl | hx'
    · simp [hp, hq]; omega
    · have := ih ⟨x, hx', hp, hq⟩
      by_cases hqa : q a = true
      · simp [hqa, himp a hqa]; omega
      · simp [hqa]; split <;> omega

theorem countP_notin_cons_lt (l vis : List String) (x : String) (hx : x ∈ l) (hv : x ∉ vis) :
    l.countP (fun y => decide (y ∉ x :: vis)) < l.countP (fun y => decide (y ∉ vis)) := by
  apply countP_lt
  · intro y hy
    simp only [List.mem_cons, not_or, decide_eq_true_eq] at hy ⊢
    exact hy.2
  · exact ⟨x, hx, by simpa using hv, by simp⟩

/-- the measure never grows during a scan, and every push is paid for by a newly visited target -/
theorem scan_measure (T : List String) (tgt : String) (xs vis q vis' q' : List String)
    (hxs : ∀ x ∈ xs, x ∈ T) (h : scan tgt xs vis q = some (vis', q')) :
    T.countP (fun y => decide (y ∉ vis')) + q'.length ≤ T.countP (fun y => decide (y ∉ vis)) + q.length ∧
    T.countP (fun y => decide (y ∉ vis')) ≤ T.countP (fun y => decide (y ∉ vis)) := by
  induction xs generalizing vis q with
  | nil => simp [scan] at h; obtain ⟨rfl, rfl⟩ := h; exact ⟨Nat.le_refl _, Nat.le_refl _⟩
  | cons x xs ih =>
    simp only [scan] at h
    have hxs' : ∀ y ∈ xs, y ∈ T := fun y hy => hxs y (List.mem_cons_of_mem _ hy)
    split at h
    · cases h
    · split at h
      · exact ih vis q hxs' h
      · rename_i _ hv
        have h1 := ih (x :: vis) (q ++ [x]) hxs' h
        have h2 := countP_notin_cons_lt T vis x (hxs x (List.mem_cons_self ..)) hv
        simp only [List.length_append, List.length_cons, List.length_nil] at h1
        omega

theorem succs_sub_targets (g : Graph) (a x : String) (hx : x ∈ succs g a) : x ∈ targets g := by
  induction g with
  | nil => simp [succs, aget] at hx
  | cons p g ih =>
    obtain ⟨k, l⟩ := p
    simp only [succs, aget] at hx
    simp only [targets, List.flatMap_cons, List.mem_append]
    by_cases hk : k = a
    · simp only [hk, if_true] at hx; exact Or.inl hx
    · simp only [hk, if_false] at hx; exact Or.inr (ih hx)

/-- the `while let Some(current) = queue.pop_front()` loop of `detect_cycle`; `true` = `to_module`
is reachable (the code returns the cycle error).  Well-founded on (unvisited targets, queue length):
an iteration that pushes nothing shortens the queue, one that pushes something visits a new target. -/
def bfs (g : Graph) (tgt : String) (vis q : List String) : Bool :=
  match q with
  | [] => false
  | c :: q' =>
    match h : scan tgt (succs g c) vis q' with
    | none => true
    | some (vis', q'') => bfs g tgt vis' q''
termination_by (unvisited g vis, q.length)
decreasing_by
  have hm := scan_measure (targets g) tgt (succs g c) vis q' vis' q'' (succs_sub_targets g c) h
  simp only [unvisited, List.length_cons]
  rcases Nat.lt_or_ge ((targets g).countP (fun y => decide (y ∉ vis'))) ((targets g).countP (fun y => decide (y ∉ vis))) with hlt | hge
  · exact Prod.Lex.left _ _ hlt
  · have heq : (targets g).countP (fun y => decide (y ∉ vis')) = (targets g).countP (fun y => decide (y ∉ vis)) := by omega
    rw [heq]
    exact Prod.Lex.right _ (by have := hm.1; omega)

/-- `detect_cycle(to_module, from_module)`: `true` = refused -/
def detectCycle (g : Graph) (to src : String) : Bool :=
  if to = src then true else bfs g to [src] [src]

/-! ### operations -/

inductive Op where
  | create (name : String)
  | delete (name : String)
  | setExports (name : String) (e : ExportList)
  | addRule (name rule : String)
  | addTemplate (name tmpl : String)
  | importFrom (to src : String) (ty : ImportType) (pattern : String) (re : Option ReExport)
deriving Repr, DecidableEq

/-- `create_module` -/
def create (s : Mgr) (n : String) : Mgr × Res :=
  match aget n s.modules with
  | some _ => (s, .err .alreadyExists)
  | none => ({ s with modules := aset n (newModule n) s.modules }, .ok)

/-- what `delete_module` does to a surviving module (fix-C18): forget the imports from `n` -/
def dropImportsFrom (n : String) (m : Module) : Module :=
  { m with imports := m.imports.filter (fun d => d.src ≠ n) }

/-- `delete_module` (with fix-C18) -/
def delete (s : Mgr) (n : String) : Mgr × Res :=
  if n = "MAIN" then (s, .err .defaultModule)
  else match aget n s.modules with
    | none => (s, .err .notFound)
    | some _ =>
      ({ modules := (adel n s.modules).map (fun p => (p.1, dropImportsFrom n p.2)),
         graph := (adel n s.graph).map (fun p => (p.1, p.2.filter (fun x => x ≠ n))) }, .ok)

/-- `get_module_mut(name)?` followed by an infallible update of the module -/
def updModule (s : Mgr) (n : String) (f : Module → Module) : Mgr × Res :=
  match aget n s.modules with
  | none => (s, .err .notFound)
  | some m => ({ s with modules := aset n (f m) s.modules }, .ok)

/-- `import_from_with_reexport` (and `import_from`, which passes `None`) -/
def importFrom (s : Mgr) (to src : String) (ty : ImportType) (pat : String) (re : Option ReExport) : Mgr × Res :=
  match aget src s.modules with
  | none => (s, .err .sourceNotFound)
  | some _ =>
    if detectCycle s.graph to src then (s, .err .cycle)
    else match aget to s.modules with
      | none => (s, .err .notFound)
      | some m =>
        ({ modules := aset to { m with imports := m.imports ++ [⟨src, ty, pat, re⟩] } s.modules,
           graph := aset to (sins src (succs s.graph to)) s.graph }, .ok)

def step (s : Mgr) : Op → Mgr × Res
  | .create n => create s n
  | .delete n => delete s n
  | .setExports n e => updModule s n (fun m => { m with exports := e })
  | .addRule n r => updModule s n (fun m => { m with rules := sins r m.rules })
  | .addTemplate n t => updModule s n (fun m => { m with templates := sins t m.templates })
  | .importFrom to src ty pat re => importFrom s to src ty pat re

def run (ops : List Op) : Mgr := ops.foldl (fun s op => (step s op).1) init

/-! ### visibility -/

/-- rules and templates are handled by the same code shape; `Kind` selects the fields -/
inductive Kind where
  | rule | template
deriving Repr, DecidableEq

def owned (k : Kind) (m : Module) : List String :=
  match k with
  | .rule => m.rules
  | .template => m.templates

/-- `matches!(import.import_type, AllRules | Rules | All)` resp. `AllTemplates | Templates | All` -/
def kindImport (k : Kind) (t : ImportType) : Bool :=
  match k, t with
  | .rule, .allRules | .rule, .rules | .rule, .all => true
  | .template, .allTemplates | .template, .templates | .template, .all => true
  | _, _ => false

/-- `matches!(item.item_type, ItemType::Rule | ItemType::All)` resp. `Template | All` -/
def kindItem (k : Kind) (t : ItemType) : Bool :=
  match k, t with
  | .rule, .rule | .rule, .all => true
  | .template, .template | .template, .all => true
  | _, _ => false

/-- `should_re_export_rule` / `should_re_export_template`: some import declaration carries a
re-export pattern matching the name (the code looks at the name only) -/
def shouldReExport (m : Module) (name : String) : Bool :=
  m.imports.any (fun d =>
    match d.reExport with
    | some re => re.patterns.any (fun p => patternMatches p name)
    | none => false)

/-- `exports_rule` / `exports_template` -/
def exportsItem (k : Kind) (m : Module) (name : String) : Bool :=
  (match m.exports with
   | .all => decide (name ∈ owned k m)
   | .none => false
   | .specific items =>
     decide (name ∈ owned k m) && items.any (fun it => kindItem k it.ty && patternMatches it.pattern name))
  || shouldReExport m name

/-- the `for import in module.get_imports()` loop of `is_rule_visible` / `is_template_visible`,
including the `?` on `get_module(&import.from_module)` -/
def scanImports (k : Kind) (s : Mgr) (name : String) : List ImportDecl → Except Err Bool
  | [] => .ok false
  | d :: rest =>
    if !kindImport k d.ty then scanImports k s name rest
    else match aget d.src s.modules with
      | none => .error .notFound
      | some fm =>
        if exportsItem k fm name && patternMatches d.pattern name then .ok true
        else scanImports k s name rest

/-- `is_rule_visible(name, to)` / `is_template_visible(name, to)` -/
def isVisible (k : Kind) (s : Mgr) (name to : String) : Except Err Bool :=
  match aget to s.modules with
  | none => .error .notFound
  | some m => if name ∈ owned k m then .ok true else scanImports k s name m.imports

/-- every rule owned by some module of the manager (candidates of `get_visible_rules`, fix-C18b) -/
def allRules (s : Mgr) : List String := s.modules.flatMap (fun p => p.2.rules)

/-- the import loop of `get_visible_rules`: collects into the `visible` set -/
def collectImports (s : Mgr) : List ImportDecl → List String → Except Err (List String)
  | [], acc => .ok acc
  | d :: rest, acc =>
    if !kindImport .rule d.ty then collectImports s rest acc
    else match aget d.src s.modules with
      | none => .error .notFound
      | some fm =>
        collectImports s rest
          ((allRules s).foldl (fun a r => if exportsItem .rule fm r && patternMatches d.pattern r then sins r a else a) acc)

/-- `get_visible_rules(module)` (with fix-C18b); the result is a set (the code returns it in hash order) -/
def getVisibleRules (s : Mgr) (to : String) : Except Err (List String) :=
  match aget to s.modules with
  | none => .error .notFound
  | some m => collectImports s m.imports (m.rules.foldl (fun a r => sins r a) [])

end C18
