import RreModel.C08.Spec
/-
C08 — helper lemmas: the cascade loop (closure, derivation, leastness, bound), the TMS-level
retraction, and the invariant carried along every well-formed history of the engine.
-/
namespace C08

/-! ### validity and support -/

/-- `f` has a valid justification when the facts in `R` are retracted -/
def Supported (js : List Just) (R : List Nat) (f : Nat) : Prop :=
  ∃ j ∈ js, j.fact = f ∧ j.valid R = true

/-- every non-retracted fact that owns a justification still has a valid one -/
def Closed (js : List Just) (S : List Nat) : Prop :=
  ∀ f, (∃ j ∈ js, j.fact = f) → f ∉ S → Supported js S f

theorem valid_iff (R : List Nat) (j : Just) :
    j.valid R = true ↔ j.explicit = true ∨ ∀ p ∈ j.premises, p ∉ R := by
  simp [Just.valid]

theorem hasValid_iff (js R f) : hasValid js R f = true ↔ Supported js R f := by
  simp [hasValid, Supported]

theorem hasValid_false_iff (js R f) : hasValid js R f = false ↔ ¬ Supported js R f := by
  rw [← hasValid_iff]; simp

theorem valid_anti {R S : List Nat} (hsub : ∀ x ∈ R, x ∈ S) (j : Just) (h : j.valid S = true) :
    j.valid R = true := by
  rw [valid_iff] at h ⊢
  rcases h with h | h
  · exact Or.inl h
  · exact Or.inr fun p hp hr => h p hp (hsub p hr)

theorem supported_anti {js : List Just} {R S : List Nat} (hsub : ∀ x ∈ R, x ∈ S) {f : Nat}
    (h : Supported js S f) : Supported js R f := by
  obtain ⟨j, hj, hf, hv⟩ := h
  exact ⟨j, hj, hf, valid_anti hsub j hv⟩

theorem valid_keep (R : List Nat) (f : Nat) (j : Just) (h : j.valid R = true)
    (hn : f ∉ j.premises) : j.valid (f :: R) = true := by
  rw [valid_iff] at h ⊢
  rcases h with h | h
  · exact Or.inl h
  · refine Or.inr fun p hp hr => ?_
    rcases List.mem_cons.mp hr with e | hr'
    · subst e; exact hn hp
    · exact h p hp hr'

/-! ### the cascade loop -/

/-- Stack invariant: every non-retracted fact that owns a justification is either still
supported or has a pending justification on the stack. -/
def Pending (js : List Just) (R : List Nat) (st : List Just) : Prop :=
  ∀ f, (∃ j ∈ js, j.fact = f) → f ∉ R → Supported js R f ∨ ∃ j ∈ st, j.fact = f

theorem pending_mark (js : List Just) (R : List Nat) (j0 : Just) (st : List Just)
    (hp : Pending js R (j0 :: st)) :
    Pending js (j0.fact :: R) (dependents js j0.fact ++ st) := by
  intro g hg hr
  have hgf : g ≠ j0.fact := fun e => hr (e ▸ List.mem_cons_self ..)
  have hr' : g ∉ R := fun h => hr (List.mem_cons_of_mem _ h)
  rcases hp g hg hr' with ⟨j, hj, hjf, hv⟩ | ⟨j, hj, hjf⟩
  · by_cases hc : j0.fact ∈ j.premises
    · right; exact ⟨j, List.mem_append_left _ (mem_dependents.mpr ⟨hj, hc⟩), hjf⟩
    · left; exact ⟨j, hj, hjf, valid_keep R j0.fact j hv hc⟩
  · right
    rcases List.mem_cons.mp hj with e | hj'
    · subst e; exact absurd hjf.symm hgf
    · exact ⟨j, List.mem_append_right _ hj', hjf⟩

theorem cond_iff (js : List Just) (R : List Nat) (f : Nat) :
    ((!hasValid js R f && !R.contains f) = true) ↔ (¬ Supported js R f ∧ f ∉ R) := by
  rw [← hasValid_iff]; simp

theorem pending_skip (js : List Just) (R : List Nat) (j0 : Just) (st : List Just)
    (hp : Pending js R (j0 :: st))
    (hskip : ¬ ((!hasValid js R j0.fact && !R.contains j0.fact) = true)) :
    Pending js R st := by
  intro g hg hr
  rcases hp g hg hr with hs | ⟨j, hj, hjf⟩
  · exact Or.inl hs
  · rcases List.mem_cons.mp hj with e | hj'
    · subst e
      left
      rw [cond_iff] at hskip
      rw [hjf] at hskip
      exact Classical.byContradiction fun hns => hskip ⟨hns, hr⟩
    · exact Or.inr ⟨j, hj', hjf⟩

/-- the retracted set after the loop is the old one plus exactly the emitted facts -/
theorem loop_fst (js : List Just) (R : List Nat) (st : List Just) (hst) :
    (loop js R st hst).1 = (loop js R st hst).2.reverse ++ R := by
  fun_induction loop js R st hst with
  | case1 R hst => simp
  | case2 R j st' hst h r _ ih =>
    simp only [List.reverse_cons, List.append_assoc, List.singleton_append]; exact ih
  | case3 R j st' hst h _ ih => exact ih

/-- A *derivation*: the facts of the list are removed one after the other, each one owning a
justification, not yet retracted, and without any valid justification at its turn. -/
def Deriv (js : List Just) : List Nat → List Nat → Prop
  | _, [] => True
  | R, g :: gs => (∃ j ∈ js, j.fact = g) ∧ g ∉ R ∧ ¬ Supported js R g ∧ Deriv js (g :: R) gs

theorem loop_deriv (js : List Just) (R : List Nat) (st : List Just) (hst) :
    Deriv js R (loop js R st hst).2 := by
  fun_induction loop js R st hst with
  | case1 R hst => simp [Deriv]
  | case2 R j st' hst h r _ ih =>
    rw [cond_iff] at h
    exact ⟨⟨j, hst j (List.mem_cons_self ..), rfl⟩, h.2, h.1, ih⟩
  | case3 R j st' hst h _ ih => exact ih

theorem loop_closed (js : List Just) (R : List Nat) (st : List Just) (hst)
    (hp : Pending js R st) : Closed js (loop js R st hst).1 := by
  fun_induction loop js R st hst with
  | case1 R hst =>
    intro f hf hr
    rcases hp f hf hr with h | ⟨j, hj, _⟩
    · exact h
    · cases hj
  | case2 R j st' hst h r _ ih => exact ih (pending_mark js R j st' hp)
  | case3 R j st' hst h _ ih => exact ih (pending_skip js R j st' hp h)

/-! ### what a derivation implies -/

theorem deriv_fresh {js : List Just} {R out : List Nat} (h : Deriv js R out) :
    out.Nodup ∧ ∀ g ∈ out, g ∉ R := by
  induction out generalizing R with
  | nil => simp
  | cons g gs ih =>
    obtain ⟨_, hg, _, hd⟩ := h
    obtain ⟨h1, h2⟩ := ih hd
    refine ⟨List.nodup_cons.mpr ⟨fun hm => h2 g hm (List.mem_cons_self ..), h1⟩, ?_⟩
    intro x hx
    rcases List.mem_cons.mp hx with e | hx'
    · subst e; exact hg
    · exact fun hr => h2 x hx' (List.mem_cons_of_mem _ hr)

theorem deriv_justified {js : List Just} {R out : List Nat} (h : Deriv js R out) :
    ∀ g ∈ out, ∃ j ∈ js, j.fact = g := by
  induction out generalizing R with
  | nil => simp
  | cons g gs ih =>
    obtain ⟨hj, _, _, hd⟩ := h
    intro x hx
    rcases List.mem_cons.mp hx with e | hx'
    · subst e; exact hj
    · exact ih hd x hx'

/-- every fact removed by a derivation is without support at the end -/
theorem deriv_unsupported {js : List Just} {R out : List Nat} (h : Deriv js R out) :
    ∀ g ∈ out, ¬ Supported js (out.reverse ++ R) g := by
  induction out generalizing R with
  | nil => simp
  | cons g gs ih =>
    obtain ⟨_, _, hns, hd⟩ := h
    intro x hx hs
    have hsub : ∀ y ∈ R, y ∈ (g :: gs).reverse ++ R := fun y hy => List.mem_append_right _ hy
    rcases List.mem_cons.mp hx with e | hx'
    · subst e; exact hns (supported_anti hsub hs)
    · refine ih hd x hx' ?_
      have : (g :: gs).reverse ++ R = gs.reverse ++ (g :: R) := by simp
      rw [this] at hs; exact hs

/-- leastness: a derivation never leaves a closed superset of its starting set -/
theorem deriv_least {js : List Just} {R out : List Nat} (h : Deriv js R out)
    (S : List Nat) (hsub : ∀ x ∈ R, x ∈ S) (hc : Closed js S) : ∀ g ∈ out, g ∈ S := by
  induction out generalizing R with
  | nil => simp
  | cons g gs ih =>
    obtain ⟨hj, _, hns, hd⟩ := h
    have hg : g ∈ S := Classical.byContradiction fun hn => hns (supported_anti hsub (hc g hj hn))
    intro x hx
    rcases List.mem_cons.mp hx with e | hx'
    · subst e; exact hg
    · refine ih hd ?_ x hx'
      intro y hy
      rcases List.mem_cons.mp hy with e | hy'
      · subst e; exact hg
      · exact hsub y hy'

theorem live_cons_lt {js : List Just} {R : List Nat} {g : Nat} (hj : ∃ j ∈ js, j.fact = g)
    (hg : g ∉ R) : live js (g :: R) < live js R := by
  unfold live
  apply countP_lt
  · intro x hx; simp at hx ⊢; exact hx.2
  · obtain ⟨j, hj, hf⟩ := hj
    exact ⟨j, hj, by simp [hf, hg], by simp [hf]⟩

/-- the bound behind termination: a derivation is no longer than the number of justifications of
non-retracted facts -/
theorem deriv_length {js : List Just} {R out : List Nat} (h : Deriv js R out) :
    out.length ≤ live js R := by
  induction out generalizing R with
  | nil => simp
  | cons g gs ih =>
    obtain ⟨hj, hg, _, hd⟩ := h
    have := ih hd
    have := live_cons_lt hj hg
    simp only [List.length_cons]; omega

/-! ### the TMS-level retraction -/

theorem mem_insertSet {x y : Nat} {s : List Nat} : y ∈ insertSet x s ↔ y = x ∨ y ∈ s := by
  unfold insertSet
  by_cases h : s.contains x = true
  · rw [if_pos h]
    constructor
    · exact Or.inr
    · rintro (e | h')
      · subst e; simpa using h
      · exact h'
  · rw [if_neg h]; simp

theorem mem_removeAll {gone s : List Nat} {x : Nat} : x ∈ removeAll gone s ↔ x ∈ s ∧ x ∉ gone := by
  simp [removeAll]

theorem pending_start (js : List Just) (R : List Nat) (h : Nat) (hc : Closed js R) :
    Pending js (insertSet h R) (dependents js h) := by
  intro g hg hr
  have hgh : g ≠ h := fun e => hr (mem_insertSet.mpr (Or.inl e))
  have hr' : g ∉ R := fun hm => hr (mem_insertSet.mpr (Or.inr hm))
  obtain ⟨j, hj, hjf, hv⟩ := hc g hg hr'
  by_cases hcn : h ∈ j.premises
  · right; exact ⟨j, mem_dependents.mpr ⟨hj, hcn⟩, hjf⟩
  · left
    refine ⟨j, hj, hjf, ?_⟩
    rw [valid_iff] at hv ⊢
    rcases hv with hv | hv
    · exact Or.inl hv
    · refine Or.inr fun p hp hm => ?_
      rcases mem_insertSet.mp hm with e | hm'
      · subst e; exact hcn hp
      · exact hv p hp hm'

/-- what one `retract_with_cascade` does to the TMS, given that before it every non-retracted
justified fact had a valid justification -/
theorem retract_spec (t : Tms) (h : Nat) (hc : Closed t.justs t.retracted) :
    (t.retractWithCascade h).1.justs = t.justs ∧
    (t.retractWithCascade h).1.retracted
      = (t.retractWithCascade h).2.reverse ++ insertSet h t.retracted ∧
    Closed t.justs (t.retractWithCascade h).1.retracted ∧
    Deriv t.justs (insertSet h t.retracted) (t.retractWithCascade h).2 ∧
    (t.retractWithCascade h).1.logical = removeAll (h :: (t.retractWithCascade h).2) t.logical ∧
    (t.retractWithCascade h).1.explicit = removeAll (h :: (t.retractWithCascade h).2) t.explicit := by
  refine ⟨rfl, ?_, ?_, ?_, rfl, rfl⟩
  · exact loop_fst _ _ _ _
  · exact loop_closed _ _ _ _ (pending_start _ _ _ hc)
  · exact loop_deriv _ _ _ _

/-! ### the engine: presence, working memory, the invariant -/

theorem present_iff (e : Engine) (h : Nat) :
    e.present h = true ↔ 1 ≤ h ∧ h < e.nextId ∧ h ∉ e.wmRetracted := by
  simp [Engine.present, and_assoc]

theorem mem_wmApply (n : Nat) (wm cs : List Nat) (x : Nat) :
    x ∈ wmApply n wm cs ↔ x ∈ wm ∨ (x ∈ cs ∧ 1 ≤ x ∧ x < n) := by
  induction cs generalizing wm with
  | nil => simp [wmApply]
  | cons c cs ih =>
    unfold wmApply
    split
    · next hc =>
      simp only [Bool.and_eq_true, decide_eq_true_eq] at hc
      rw [ih]
      constructor
      · rintro (hm | hm)
        · rcases List.mem_cons.mp hm with e | hm'
          · subst e; exact Or.inr ⟨List.mem_cons_self .., hc.1.1, hc.1.2⟩
          · exact Or.inl hm'
        · exact Or.inr ⟨List.mem_cons_of_mem _ hm.1, hm.2⟩
      · rintro (hm | ⟨hm, hr⟩)
        · exact Or.inl (List.mem_cons_of_mem _ hm)
        · rcases List.mem_cons.mp hm with e | hm'
          · subst e; exact Or.inl (List.mem_cons_self ..)
          · exact Or.inr ⟨hm', hr⟩
    · next hc =>
      rw [ih]
      constructor
      · rintro (hm | hm)
        · exact Or.inl hm
        · exact Or.inr ⟨List.mem_cons_of_mem _ hm.1, hm.2⟩
      · rintro (hm | ⟨hm, hr⟩)
        · exact Or.inl hm
        · rcases List.mem_cons.mp hm with e | hm'
          · subst e
            left
            simp only [Bool.and_eq_true, decide_eq_true_eq, not_and, Bool.not_eq_eq_eq_not] at hc
            have := hc ⟨hr.1, hr.2⟩
            simpa using this
          · exact Or.inr ⟨hm', hr⟩

/-- The invariant of every well-formed history.  `req` is the ghost list of requested retractions. -/
structure Inv (e : Engine) (req : List Nat) : Prop where
  pos : 1 ≤ e.nextId
  /-- the TMS and working memory agree on what is retracted -/
  sync : ∀ x, x ∈ e.tms.retracted ↔ x ∈ e.wmRetracted
  rng : ∀ x ∈ e.wmRetracted, 1 ≤ x ∧ x < e.nextId
  jrng : ∀ j ∈ e.tms.justs, (1 ≤ j.fact ∧ j.fact < e.nextId) ∧ ∀ p ∈ j.premises, 1 ≤ p ∧ p < e.nextId
  /-- every non-retracted justified fact has a valid justification -/
  closed : Closed e.tms.justs e.tms.retracted
  /-- a retracted fact was requested, or has no valid justification -/
  dead : ∀ f ∈ e.tms.retracted, f ∈ req ∨ ¬ Supported e.tms.justs e.tms.retracted f
  reqsub : ∀ f ∈ req, f ∈ e.tms.retracted
  logi : ∀ f, f ∈ e.tms.logical ↔
    f ∉ e.tms.retracted ∧ ∃ j ∈ e.tms.justs, j.fact = f ∧ j.explicit = false
  expl : ∀ f, f ∈ e.tms.explicit ↔
    f ∉ e.tms.retracted ∧ ∃ j ∈ e.tms.justs, j.fact = f ∧ j.explicit = true

theorem inv_init : Inv init [] := by
  constructor <;> simp [init, Closed]

/-- recording one justification `j` whose fact is live (or the handle being created) and whose
premises are all live -/
theorem inv_record {e : Engine} {req : List Nat} (hi : Inv e req) (j : Just) (n' : Nat)
    (hn : e.nextId ≤ n')
    (hfact : 1 ≤ j.fact ∧ j.fact < n' ∧ j.fact ∉ e.wmRetracted)
    (hprem : ∀ p ∈ j.premises, e.present p = true)
    (t' : Tms) (hj : t'.justs = e.tms.justs ++ [j]) (hr : t'.retracted = e.tms.retracted)
    (hl : ∀ f, f ∈ t'.logical ↔ f ∈ e.tms.logical ∨ (f = j.fact ∧ j.explicit = false))
    (he : ∀ f, f ∈ t'.explicit ↔ f ∈ e.tms.explicit ∨ (f = j.fact ∧ j.explicit = true)) :
    Inv { e with nextId := n', tms := t' } req := by
  have hjR : j.fact ∉ e.tms.retracted := fun hm => hfact.2.2 ((hi.sync _).mp hm)
  have hjv : j.valid e.tms.retracted = true := by
    rw [valid_iff]; right
    intro p hp hm
    have := (present_iff e p).mp (hprem p hp)
    exact this.2.2 ((hi.sync _).mp hm)
  have hold : ∀ f, f ≠ j.fact → Supported (e.tms.justs ++ [j]) e.tms.retracted f →
      Supported e.tms.justs e.tms.retracted f := by
    rintro f hne ⟨j', hj', hf', hv'⟩
    rcases List.mem_append.mp hj' with hm | hm
    · exact ⟨j', hm, hf', hv'⟩
    · simp at hm; subst hm; exact absurd hf'.symm hne
  constructor
  · show 1 ≤ n'; have := hi.pos; omega
  · intro x; show x ∈ t'.retracted ↔ _; rw [hr]; exact hi.sync x
  · intro x hx; have := hi.rng x hx; exact ⟨this.1, by show x < n'; omega⟩
  · intro j' hj'
    change j' ∈ t'.justs at hj'
    rw [hj] at hj'
    show (1 ≤ j'.fact ∧ j'.fact < n') ∧ ∀ p ∈ j'.premises, 1 ≤ p ∧ p < n'
    rcases List.mem_append.mp hj' with hm | hm
    · have := hi.jrng j' hm
      exact ⟨⟨this.1.1, by omega⟩, fun p hp => ⟨(this.2 p hp).1, by have := (this.2 p hp).2; omega⟩⟩
    · simp at hm; subst hm
      refine ⟨⟨hfact.1, hfact.2.1⟩, fun p hp => ?_⟩
      have := (present_iff e p).mp (hprem p hp)
      exact ⟨this.1, by omega⟩
  · show Closed t'.justs t'.retracted
    rw [hj, hr]
    rintro f ⟨j', hj', hf'⟩ hfr
    by_cases hfe : f = j.fact
    · exact ⟨j, by simp, hfe.symm, hjv⟩
    · rcases List.mem_append.mp hj' with hm | hm
      · obtain ⟨j2, h2, h3, h4⟩ := hi.closed f ⟨j', hm, hf'⟩ hfr
        exact ⟨j2, List.mem_append_left _ h2, h3, h4⟩
      · simp at hm; subst hm; exact absurd hf'.symm hfe
  · show ∀ f ∈ t'.retracted, f ∈ req ∨ ¬ Supported t'.justs t'.retracted f
    rw [hj, hr]
    intro f hf
    have hne : f ≠ j.fact := fun e' => hjR (e' ▸ hf)
    rcases hi.dead f hf with h1 | h1
    · exact Or.inl h1
    · exact Or.inr fun hs => h1 (hold f hne hs)
  · intro f hf; show f ∈ t'.retracted; rw [hr]; exact hi.reqsub f hf
  · intro f
    show f ∈ t'.logical ↔ f ∉ t'.retracted ∧ ∃ j' ∈ t'.justs, j'.fact = f ∧ j'.explicit = false
    rw [hl, hj, hr, hi.logi]
    constructor
    · rintro (⟨h1, j', h2, h3, h4⟩ | ⟨h1, h2⟩)
      · exact ⟨h1, j', List.mem_append_left _ h2, h3, h4⟩
      · subst h1; exact ⟨hjR, j, by simp, rfl, h2⟩
    · rintro ⟨h1, j', h2, h3, h4⟩
      rcases List.mem_append.mp h2 with hm | hm
      · exact Or.inl ⟨h1, j', hm, h3, h4⟩
      · simp at hm; subst hm; exact Or.inr ⟨h3.symm, h4⟩
  · intro f
    show f ∈ t'.explicit ↔ f ∉ t'.retracted ∧ ∃ j' ∈ t'.justs, j'.fact = f ∧ j'.explicit = true
    rw [he, hj, hr, hi.expl]
    constructor
    · rintro (⟨h1, j', h2, h3, h4⟩ | ⟨h1, h2⟩)
      · exact ⟨h1, j', List.mem_append_left _ h2, h3, h4⟩
      · subst h1; exact ⟨hjR, j, by simp, rfl, h2⟩
    · rintro ⟨h1, j', h2, h3, h4⟩
      rcases List.mem_append.mp h2 with hm | hm
      · exact Or.inl ⟨h1, j', hm, h3, h4⟩
      · simp at hm; subst hm; exact Or.inr ⟨h3.symm, h4⟩

/-- a successful `engine.retract(h)` keeps the invariant; `h` becomes a requested retraction -/
theorem inv_retract {e : Engine} {req : List Nat} (hi : Inv e req) (h : Nat)
    (hp : e.present h = true) : Inv (e.retract h).1 (h :: req) := by
  have hpi := (present_iff e h).mp hp
  obtain ⟨hjs, hR, hcl, hder, hlog, hexp⟩ := retract_spec e.tms h hi.closed
  have hcasc_rng : ∀ g ∈ (e.tms.retractWithCascade h).2, 1 ≤ g ∧ g < e.nextId := by
    intro g hg
    obtain ⟨j, hj, hf⟩ := deriv_justified hder g hg
    have := (hi.jrng j hj).1
    rw [hf] at this; exact this
  have hmemR : ∀ x, x ∈ (e.tms.retractWithCascade h).1.retracted ↔
      x ∈ (e.tms.retractWithCascade h).2 ∨ x = h ∨ x ∈ e.tms.retracted := by
    intro x; rw [hR]; simp [mem_insertSet]
  have hsubR : ∀ x ∈ e.tms.retracted, x ∈ (e.tms.retractWithCascade h).1.retracted :=
    fun x hx => (hmemR x).mpr (Or.inr (Or.inr hx))
  have he : (e.retract h).1 = { e with
      wmRetracted := wmApply e.nextId (h :: e.wmRetracted) (e.tms.retractWithCascade h).2,
      tms := (e.tms.retractWithCascade h).1 } := by
    simp [Engine.retract, hp]
  rw [he]
  constructor
  · exact hi.pos
  · intro x
    show x ∈ (e.tms.retractWithCascade h).1.retracted ↔ x ∈ wmApply _ _ _
    rw [hmemR, mem_wmApply]
    constructor
    · rintro (h1 | h1 | h1)
      · exact Or.inr ⟨h1, hcasc_rng x h1⟩
      · exact Or.inl (h1 ▸ List.mem_cons_self ..)
      · exact Or.inl (List.mem_cons_of_mem _ ((hi.sync x).mp h1))
    · rintro (h1 | h1)
      · rcases List.mem_cons.mp h1 with e1 | h2
        · exact Or.inr (Or.inl e1)
        · exact Or.inr (Or.inr ((hi.sync x).mpr h2))
      · exact Or.inl h1.1
  · intro x hx
    change x ∈ wmApply _ _ _ at hx
    rw [mem_wmApply] at hx
    rcases hx with h1 | h1
    · rcases List.mem_cons.mp h1 with e1 | h2
      · subst e1; exact ⟨hpi.1, hpi.2.1⟩
      · exact hi.rng x h2
    · exact h1.2
  · intro j hj
    change j ∈ (e.tms.retractWithCascade h).1.justs at hj
    rw [hjs] at hj
    exact hi.jrng j hj
  · show Closed (e.tms.retractWithCascade h).1.justs _
    rw [hjs]; exact hcl
  · show ∀ f ∈ (e.tms.retractWithCascade h).1.retracted, f ∈ h :: req ∨
      ¬ Supported (e.tms.retractWithCascade h).1.justs (e.tms.retractWithCascade h).1.retracted f
    rw [hjs]
    intro f hf
    rcases (hmemR f).mp hf with h1 | h1 | h1
    · right; rw [hR]; exact deriv_unsupported hder f h1
    · left; exact h1 ▸ List.mem_cons_self ..
    · rcases hi.dead f h1 with h2 | h2
      · exact Or.inl (List.mem_cons_of_mem _ h2)
      · exact Or.inr fun hs => h2 (supported_anti hsubR hs)
  · intro f hf
    show f ∈ (e.tms.retractWithCascade h).1.retracted
    rcases List.mem_cons.mp hf with e1 | h2
    · exact (hmemR f).mpr (Or.inr (Or.inl e1))
    · exact hsubR f (hi.reqsub f h2)
  · intro f
    show f ∈ (e.tms.retractWithCascade h).1.logical ↔ f ∉ (e.tms.retractWithCascade h).1.retracted ∧
      ∃ j ∈ (e.tms.retractWithCascade h).1.justs, j.fact = f ∧ j.explicit = false
    rw [hlog, hjs, mem_removeAll, hi.logi, hmemR]
    simp only [List.mem_cons, not_or]
    constructor
    · rintro ⟨⟨h1, h2⟩, h3, h4⟩; exact ⟨⟨h4, h3, h1⟩, h2⟩
    · rintro ⟨⟨h4, h3, h1⟩, h2⟩; exact ⟨⟨h1, h2⟩, h3, h4⟩
  · intro f
    show f ∈ (e.tms.retractWithCascade h).1.explicit ↔ f ∉ (e.tms.retractWithCascade h).1.retracted ∧
      ∃ j ∈ (e.tms.retractWithCascade h).1.justs, j.fact = f ∧ j.explicit = true
    rw [hexp, hjs, mem_removeAll, hi.expl, hmemR]
    simp only [List.mem_cons, not_or]
    constructor
    · rintro ⟨⟨h1, h2⟩, h3, h4⟩; exact ⟨⟨h4, h3, h1⟩, h2⟩
    · rintro ⟨⟨h4, h3, h1⟩, h2⟩; exact ⟨⟨h1, h2⟩, h3, h4⟩

theorem retract_absent {e : Engine} (h : Nat) (hp : ¬ e.present h = true) : e.retract h = (e, none) := by
  simp [Engine.retract, hp]

theorem all_present {e : Engine} {ps : List Nat} (h : ps.all e.present = true) :
    ∀ p ∈ ps, e.present p = true := by
  simpa using h

/-- every operation of a well-formed history keeps the invariant -/
theorem inv_step {e : Engine} {req : List Nat} (hi : Inv e req) (op : Op) (hok : op.ok e = true) :
    Inv (step e op).1 (reqStep e req op) := by
  have hfresh : 1 ≤ e.nextId ∧ e.nextId < e.nextId + 1 ∧ e.nextId ∉ e.wmRetracted :=
    ⟨hi.pos, by omega, fun hm => by have := (hi.rng _ hm).2; omega⟩
  cases op with
  | insert =>
    exact inv_record hi ⟨e.nextId, true, []⟩ (e.nextId + 1) (by omega) hfresh (by simp) _ rfl rfl
      (by intro f; simp [Tms.addExplicit]) (by intro f; simp [Tms.addExplicit, mem_insertSet, or_comm])
  | insertExplicit =>
    exact inv_record hi ⟨e.nextId, true, []⟩ (e.nextId + 1) (by omega) hfresh (by simp) _ rfl rfl
      (by intro f; simp [Tms.addExplicit]) (by intro f; simp [Tms.addExplicit, mem_insertSet, or_comm])
  | insertLogical ps =>
    exact inv_record hi ⟨e.nextId, false, ps⟩ (e.nextId + 1) (by omega) hfresh
      (all_present (by simpa [Op.ok] using hok)) _ rfl rfl
      (by intro f; simp [Tms.addLogical, mem_insertSet, or_comm]) (by intro f; simp [Tms.addLogical])
  | addLogical f ps =>
    simp only [Op.ok, Bool.and_eq_true] at hok
    have hf := (present_iff e f).mp hok.1
    exact inv_record hi ⟨f, false, ps⟩ e.nextId (Nat.le_refl _) hf (all_present hok.2) _ rfl rfl
      (by intro g; simp [Tms.addLogical, mem_insertSet, or_comm]) (by intro g; simp [Tms.addLogical])
  | addExplicit f =>
    simp only [Op.ok] at hok
    have hf := (present_iff e f).mp hok
    exact inv_record hi ⟨f, true, []⟩ e.nextId (Nat.le_refl _) hf (by simp) _ rfl rfl
      (by intro g; simp [Tms.addExplicit]) (by intro g; simp [Tms.addExplicit, mem_insertSet, or_comm])
  | retract h =>
    by_cases hp : e.present h = true
    · have h1 : (step e (.retract h)).1 = (e.retract h).1 := by
        simp only [step]; split <;> simp_all
      rw [h1]; simp only [reqStep, hp, if_true]
      exact inv_retract hi h hp
    · have h1 : (step e (.retract h)).1 = e := by
        simp [step, retract_absent h hp]
      rw [h1]; simp only [reqStep, hp]; exact hi

theorem inv_runFrom {e : Engine} {req : List Nat} (hi : Inv e req) (ops : List Op)
    (hwf : wfFrom e ops = true) : Inv (runFrom e ops) (requestedFrom e req ops) := by
  induction ops generalizing e req with
  | nil => exact hi
  | cons op ops ih =>
    simp only [wfFrom, Bool.and_eq_true] at hwf
    exact ih (inv_step hi op hwf.1) hwf.2

theorem inv_run (ops : List Op) (hwf : WF ops) : Inv (run ops) (requested ops) :=
  inv_runFrom inv_init ops hwf

/-! ### reading the invariant at the level of presence -/

/-- under the invariant, "has a valid justification w.r.t. the retracted set" is the same as
"has an explicit justification or one whose premises are all present" -/
theorem supported_iff_now {e : Engine} {req : List Nat} (hi : Inv e req) (f : Nat) :
    Supported e.tms.justs e.tms.retracted f ↔ e.HasExplicit f ∨ e.SupportedNow f := by
  constructor
  · rintro ⟨j, hj, hf, hv⟩
    rw [valid_iff] at hv
    rcases hv with hv | hv
    · exact Or.inl ⟨j, hj, hf, hv⟩
    · refine Or.inr ⟨j, hj, hf, fun p hp => ?_⟩
      have hr := (hi.jrng j hj).2 p hp
      exact (present_iff e p).mpr ⟨hr.1, hr.2, fun hm => hv p hp ((hi.sync p).mpr hm)⟩
  · rintro (⟨j, hj, hf, hx⟩ | ⟨j, hj, hf, hp⟩)
    · exact ⟨j, hj, hf, (valid_iff _ _).mpr (Or.inl hx)⟩
    · refine ⟨j, hj, hf, (valid_iff _ _).mpr (Or.inr fun p hpp hm => ?_)⟩
      exact ((present_iff e p).mp (hp p hpp)).2.2 ((hi.sync p).mp hm)

/-- a justified fact is present iff it is not in the TMS's retracted set -/
theorem present_iff_not_retracted {e : Engine} {req : List Nat} (hi : Inv e req) {f : Nat}
    (hf : e.Justified f) : e.present f = true ↔ f ∉ e.tms.retracted := by
  obtain ⟨j, hj, hjf⟩ := hf
  have hr := (hi.jrng j hj).1
  rw [hjf] at hr
  rw [present_iff, hi.sync]
  exact ⟨fun h => h.2.2, fun h => ⟨hr.1, hr.2, h⟩⟩

theorem step_fst_retract (e : Engine) (h : Nat) : (step e (.retract h)).1 = (e.retract h).1 := by
  simp only [step]; split <;> simp_all

theorem runFrom_append (e : Engine) (ops : List Op) (op : Op) :
    runFrom e (ops ++ [op]) = (step (runFrom e ops) op).1 := by
  simp [runFrom, List.foldl_append]

theorem wfFrom_append (e : Engine) (ops : List Op) (op : Op) :
    wfFrom e (ops ++ [op]) = (wfFrom e ops && op.ok (runFrom e ops)) := by
  induction ops generalizing e with
  | nil => simp [wfFrom, runFrom]
  | cons o os ih => simp [wfFrom, runFrom, ih, Bool.and_assoc]

theorem requestedFrom_append (e : Engine) (req : List Nat) (ops : List Op) (op : Op) :
    requestedFrom e req (ops ++ [op]) = reqStep (runFrom e ops) (requestedFrom e req ops) op := by
  induction ops generalizing e req with
  | nil => simp [requestedFrom, runFrom]
  | cons o os ih => simp [requestedFrom, runFrom, ih]

/-! ### general-state forms of the property clauses (used by Theorems.lean and by the bridge) -/

theorem support_of_inv {e : Engine} {req : List Nat} (hi : Inv e req) (f : Nat)
    (hf : e.LogicalOnly f) : e.present f = true ↔ f ∉ req ∧ e.SupportedNow f := by
  have hnx : ¬ e.HasExplicit f := by
    rintro ⟨j, hj, hjf, hx⟩; have := hf.2 j hj hjf; rw [this] at hx; cases hx
  rw [present_iff_not_retracted hi hf.1]
  constructor
  · intro hnr
    refine ⟨fun hr => hnr (hi.reqsub f hr), ?_⟩
    rcases (supported_iff_now hi f).mp (hi.closed f hf.1 hnr) with h | h
    · exact absurd h hnx
    · exact h
  · rintro ⟨hnq, hs⟩ hr
    rcases hi.dead f hr with h | h
    · exact hnq h
    · exact h ((supported_iff_now hi f).mpr (Or.inr hs))

theorem explicit_of_inv {e : Engine} {req : List Nat} (hi : Inv e req) (f : Nat)
    (hf : e.HasExplicit f) : e.present f = true ↔ f ∉ req := by
  obtain ⟨j, hj, hjf, hx⟩ := hf
  rw [present_iff_not_retracted hi ⟨j, hj, hjf⟩]
  constructor
  · exact fun hnr hr => hnr (hi.reqsub f hr)
  · intro hnq hr
    rcases hi.dead f hr with h | h
    · exact hnq h
    · exact h ⟨j, hj, hjf, (valid_iff _ _).mpr (Or.inl hx)⟩

theorem queries_of_inv {e : Engine} {req : List Nat} (hi : Inv e req) (f : Nat) :
    (e.tms.isLogical f = true ↔
      e.present f = true ∧ ∃ j ∈ e.tms.justs, j.fact = f ∧ j.explicit = false) ∧
    (e.tms.isExplicit f = true ↔ e.present f = true ∧ e.HasExplicit f) ∧
    (e.tms.hasValidJustification f = true ↔ e.HasExplicit f ∨ e.SupportedNow f) := by
  refine ⟨?_, ?_, ?_⟩
  · simp only [Tms.isLogical, List.contains_iff_mem]
    rw [hi.logi]
    constructor
    · rintro ⟨h1, j, hj, hf, hx⟩
      exact ⟨(present_iff_not_retracted hi ⟨j, hj, hf⟩).mpr h1, j, hj, hf, hx⟩
    · rintro ⟨h1, j, hj, hf, hx⟩
      exact ⟨(present_iff_not_retracted hi ⟨j, hj, hf⟩).mp h1, j, hj, hf, hx⟩
  · simp only [Tms.isExplicit, List.contains_iff_mem]
    rw [hi.expl]
    constructor
    · rintro ⟨h1, j, hj, hf, hx⟩
      exact ⟨(present_iff_not_retracted hi ⟨j, hj, hf⟩).mpr h1, j, hj, hf, hx⟩
    · rintro ⟨h1, j, hj, hf, hx⟩
      exact ⟨(present_iff_not_retracted hi ⟨j, hj, hf⟩).mp h1, j, hj, hf, hx⟩
  · unfold Tms.hasValidJustification
    rw [hasValid_iff]; exact supported_iff_now hi f

/-- what a successful retraction does to presence, and what the cascade list is -/
theorem retract_effect {e : Engine} {req : List Nat} (hi : Inv e req) (h : Nat)
    (hp : e.present h = true) :
    ∃ c, e.retract h = ((e.retract h).1, some c) ∧
      (∀ x, (e.retract h).1.present x = true ↔ e.present x = true ∧ x ≠ h ∧ x ∉ c) ∧
      Deriv e.tms.justs (insertSet h e.tms.retracted) c ∧
      (e.retract h).1.tms.justs = e.tms.justs ∧
      (e.retract h).1.nextId = e.nextId ∧
      (e.retract h).1.tms.retracted = c.reverse ++ insertSet h e.tms.retracted := by
  have hpi := (present_iff e h).mp hp
  obtain ⟨hjs, hR, -, hder, -, -⟩ := retract_spec e.tms h hi.closed
  have he : e.retract h = ({ e with
      wmRetracted := wmApply e.nextId (h :: e.wmRetracted) (e.tms.retractWithCascade h).2,
      tms := (e.tms.retractWithCascade h).1 }, some (e.tms.retractWithCascade h).2) := by
    simp [Engine.retract, hp]
  refine ⟨(e.tms.retractWithCascade h).2, by rw [he], ?_, hder, by rw [he]; exact hjs, by rw [he], by rw [he]; exact hR⟩
  intro x
  rw [he, present_iff, present_iff]
  show (1 ≤ x ∧ x < e.nextId ∧ x ∉ wmApply _ _ _) ↔ _
  rw [mem_wmApply]
  constructor
  · rintro ⟨h1, h2, h3⟩
    refine ⟨⟨h1, h2, fun hm => h3 (Or.inl (List.mem_cons_of_mem _ hm))⟩,
      fun e1 => h3 (Or.inl (e1 ▸ List.mem_cons_self ..)), fun hm => h3 (Or.inr ⟨hm, h1, h2⟩)⟩
  · rintro ⟨⟨h1, h2, h3⟩, h4, h5⟩
    refine ⟨h1, h2, ?_⟩
    rintro (hm | hm)
    · rcases List.mem_cons.mp hm with e1 | hm'
      · exact h4 e1
      · exact h3 hm'
    · exact h5 hm.1

/-! ### bridge: the model's observation trace satisfies the Boolean oracle of Spec.lean -/

theorem mem_univ {k x : Nat} : x ∈ univ k ↔ 1 ≤ x ∧ x ≤ k := by
  simp only [univ, List.mem_map, List.mem_range]
  constructor
  · rintro ⟨a, ha, rfl⟩; omega
  · rintro ⟨h1, h2⟩; exact ⟨x - 1, by omega, by omega⟩

theorem sameSet_iff {a b : List Nat} : sameSet a b = true ↔ ∀ x, x ∈ a ↔ x ∈ b := by
  simp only [sameSet, Bool.and_eq_true, List.all_eq_true, List.contains_iff_mem]
  exact ⟨fun h x => ⟨h.1 x, h.2 x⟩, fun h => ⟨fun x => (h x).mp, fun x => (h x).mpr⟩⟩

/-- the presence list observed over a universe that covers all issued handles -/
theorem pres_contains {k : Nat} {e : Engine} (hb : e.nextId ≤ k + 1) (x : Nat) :
    ((univ k).filter e.present).contains x = e.present x := by
  rw [Bool.eq_iff_iff, List.contains_iff_mem, List.mem_filter, mem_univ]
  constructor
  · exact fun h => h.2
  · intro h
    have := (present_iff e x).mp h
    exact ⟨⟨this.1, by omega⟩, h⟩

theorem beq_of_iff {a b : Bool} (h : a = true ↔ b = true) : (a == b) = true := by
  cases a <;> cases b <;> simp_all

/-- what the ghost is, relative to the model state -/
structure Rel (k : Nat) (g : Ghost) (e : Engine) (req : List Nat) : Prop where
  n : g.n + 1 = e.nextId
  js : g.js = e.tms.justs
  req : g.req = req
  wf : g.wf = true
  pres : g.pres = (univ k).filter e.present

theorem hasExplicit_iff (e : Engine) (f : Nat) : hasExplicit e.tms.justs f = true ↔ e.HasExplicit f := by
  simp [hasExplicit, Engine.HasExplicit]

theorem hasLogical_iff (e : Engine) (f : Nat) :
    hasLogical e.tms.justs f = true ↔ ∃ j ∈ e.tms.justs, j.fact = f ∧ j.explicit = false := by
  simp [hasLogical]

theorem logicalOnly_iff (e : Engine) (f : Nat) : logicalOnly e.tms.justs f = true ↔ e.LogicalOnly f := by
  simp only [logicalOnly, Bool.and_eq_true, Bool.not_eq_eq_eq_not, Bool.not_true, hasLogical_iff]
  rw [← Bool.not_eq_true, hasExplicit_iff]
  constructor
  · rintro ⟨⟨j, hj, hf, hx⟩, hne⟩
    refine ⟨⟨j, hj, hf⟩, fun j' hj' hf' => ?_⟩
    cases hx' : j'.explicit
    · rfl
    · exact absurd ⟨j', hj', hf', hx'⟩ hne
  · rintro ⟨⟨j, hj, hf⟩, hall⟩
    refine ⟨⟨j, hj, hf, hall j hj hf⟩, ?_⟩
    rintro ⟨j', hj', hf', hx'⟩
    rw [hall j' hj' hf'] at hx'; cases hx'

theorem supportedBy_iff {k : Nat} {e : Engine} (hb : e.nextId ≤ k + 1) (f : Nat) :
    supportedBy e.tms.justs ((univ k).filter e.present) f = true ↔ e.SupportedNow f := by
  simp only [supportedBy, Engine.SupportedNow, List.any_eq_true, Bool.and_eq_true, beq_iff_eq,
    List.all_eq_true, pres_contains hb]

theorem validBy_iff {k : Nat} {e : Engine} (hb : e.nextId ≤ k + 1) (f : Nat) :
    validBy e.tms.justs ((univ k).filter e.present) f = true ↔ e.HasExplicit f ∨ e.SupportedNow f := by
  simp only [validBy, Engine.SupportedNow, Engine.HasExplicit, List.any_eq_true, Bool.and_eq_true,
    beq_iff_eq, List.all_eq_true, pres_contains hb, Bool.or_eq_true]
  constructor
  · rintro ⟨j, hj, hf, hx | hp⟩
    · exact Or.inl ⟨j, hj, hf, hx⟩
    · exact Or.inr ⟨j, hj, hf, hp⟩
  · rintro (⟨j, hj, hf, hx⟩ | ⟨j, hj, hf, hp⟩)
    · exact ⟨j, hj, hf, Or.inl hx⟩
    · exact ⟨j, hj, hf, Or.inr hp⟩

/-- the state clauses hold of every observation of a state satisfying the invariant -/
theorem state_ok {k : Nat} {g : Ghost} {e : Engine} {req : List Nat} (hi : Inv e req)
    (hr : Rel k g e req) (hb : e.nextId ≤ k + 1) (r : Res) : stateOk k g (e.obs k r) = true := by
  simp only [stateOk, hr.wf, Bool.not_true, Bool.false_or, List.all_eq_true, Bool.and_eq_true]
  intro f hf
  rw [hr.js, hr.req, hr.pres]
  refine ⟨⟨?_, ?_⟩, ?_⟩
  · simp only [supportClause, Bool.or_eq_true, Bool.not_eq_eq_eq_not, Bool.not_true]
    cases hlo : logicalOnly e.tms.justs f
    · exact Or.inl rfl
    · right
      apply beq_of_iff
      rw [pres_contains hb, support_of_inv hi f ((logicalOnly_iff e f).mp hlo)]
      simp only [Bool.and_eq_true, Bool.not_eq_eq_eq_not, Bool.not_true, supportedBy_iff hb]
      rw [← Bool.not_eq_true, List.contains_iff_mem]
  · simp only [explicitClause, Bool.or_eq_true, Bool.not_eq_eq_eq_not, Bool.not_true]
    cases hx : hasExplicit e.tms.justs f
    · exact Or.inl rfl
    · right
      apply beq_of_iff
      rw [pres_contains hb, explicit_of_inv hi f ((hasExplicit_iff e f).mp hx)]
      simp only [Bool.not_eq_eq_eq_not, Bool.not_true]
      rw [← Bool.not_eq_true, List.contains_iff_mem]
  · obtain ⟨q1, q2, q3⟩ := queries_of_inv hi f
    simp only [queryClause, Engine.obs, Bool.and_eq_true]
    refine ⟨⟨?_, ?_⟩, ?_⟩
    · apply beq_of_iff
      rw [List.contains_iff_mem, List.mem_filter, pres_contains hb, Bool.and_eq_true, hasLogical_iff, q1]
      exact ⟨fun h => h.2, fun h => ⟨hf, h⟩⟩
    · apply beq_of_iff
      rw [List.contains_iff_mem, List.mem_filter, pres_contains hb, Bool.and_eq_true, hasExplicit_iff, q2]
      exact ⟨fun h => h.2, fun h => ⟨hf, h⟩⟩
    · apply beq_of_iff
      rw [List.contains_iff_mem, List.mem_filter, validBy_iff hb, q3]
      exact ⟨fun h => h.2, fun h => ⟨hf, h⟩⟩

/-- `P` lists exactly the issued handles that are not in `R` -/
def Compl (n : Nat) (P R : List Nat) : Prop := ∀ x, x ∈ P ↔ (1 ≤ x ∧ x < n) ∧ x ∉ R

/-- a derivation over the retracted set is a derivation in the oracle's presence-based form -/
theorem derivOk_of_deriv {js : List Just} {n : Nat}
    (hjr : ∀ j ∈ js, (1 ≤ j.fact ∧ j.fact < n) ∧ ∀ p ∈ j.premises, 1 ≤ p ∧ p < n)
    {R c : List Nat} (hd : Deriv js R c) (P : List Nat) (hP : Compl n P R) :
    derivOk js P c = true := by
  induction c generalizing R P with
  | nil => simp [derivOk]
  | cons g gs ih =>
    obtain ⟨⟨j0, hj0, hf0⟩, hg, hns, hd'⟩ := hd
    have hgr : 1 ≤ g ∧ g < n := hf0 ▸ (hjr j0 hj0).1
    simp only [derivOk, Bool.and_eq_true, Bool.not_eq_eq_eq_not, Bool.not_true]
    refine ⟨⟨?_, ?_⟩, ih hd' _ ?_⟩
    · rw [List.contains_iff_mem]; exact (hP g).mpr ⟨hgr, hg⟩
    · rw [← Bool.not_eq_true]
      intro hv
      apply hns
      simp only [validBy, List.any_eq_true, Bool.and_eq_true, beq_iff_eq, Bool.or_eq_true,
        List.all_eq_true, List.contains_iff_mem] at hv
      obtain ⟨j, hj, hf, hv⟩ := hv
      refine ⟨j, hj, hf, (valid_iff _ _).mpr ?_⟩
      rcases hv with hv | hv
      · exact Or.inl hv
      · exact Or.inr fun p hp => ((hP p).mp (hv p hp)).2
    · intro x
      simp only [List.mem_filter, bne_iff_ne, ne_eq, List.mem_cons, not_or]
      rw [hP x]
      constructor
      · rintro ⟨⟨h1, h2⟩, h3⟩; exact ⟨h1, h3, h2⟩
      · rintro ⟨h1, h3, h2⟩; exact ⟨⟨h1, h2⟩, h3⟩

theorem present_congr {e e' : Engine} (hn : e'.nextId = e.nextId) (hw : e'.wmRetracted = e.wmRetracted) :
    e'.present = e.present := by
  funext x; simp [Engine.present, hn, hw]

theorem present_bump {e e' : Engine} {req : List Nat} (hi : Inv e req) (hn : e'.nextId = e.nextId + 1)
    (hw : e'.wmRetracted = e.wmRetracted) (x : Nat) :
    e'.present x = true ↔ x = e.nextId ∨ e.present x = true := by
  rw [present_iff, present_iff, hn, hw]
  constructor
  · rintro ⟨h1, h2, h3⟩
    by_cases hx : x = e.nextId
    · exact Or.inl hx
    · exact Or.inr ⟨h1, by omega, h3⟩
  · rintro (hx | ⟨h1, h2, h3⟩)
    · subst hx; exact ⟨hi.pos, by omega, fun hm => by have := (hi.rng _ hm).2; omega⟩
    · exact ⟨h1, by omega, h3⟩

theorem sameSet_bump {k : Nat} {e e' : Engine} {req : List Nat} (hi : Inv e req)
    (hn : e'.nextId = e.nextId + 1) (hw : e'.wmRetracted = e.wmRetracted) (hb : e'.nextId ≤ k + 1) :
    sameSet ((univ k).filter e'.present) (e.nextId :: (univ k).filter e.present) = true := by
  rw [sameSet_iff]
  intro x
  simp only [List.mem_filter, List.mem_cons, present_bump hi hn hw, mem_univ]
  constructor
  · rintro ⟨h1, h2 | h2⟩
    · exact Or.inl h2
    · exact Or.inr ⟨h1, h2⟩
  · rintro (h2 | ⟨h1, h2⟩)
    · subst h2; exact ⟨⟨hi.pos, by omega⟩, Or.inl rfl⟩
    · exact ⟨h1, Or.inr h2⟩

theorem sameSet_refl (a : List Nat) : sameSet a a = true := by rw [sameSet_iff]; intro x; rfl

theorem step_retract_present {e : Engine} {h : Nat} {c : List Nat}
    (he : e.retract h = ((e.retract h).1, some c)) :
    step e (.retract h) = ((e.retract h).1, .retracted c) := by
  simp only [step]; rw [he]

theorem step_nextId_ge {e : Engine} {req : List Nat} (hi : Inv e req) (op : Op) :
    e.nextId ≤ (step e op).1.nextId := by
  cases op with
  | retract h =>
    rw [step_fst_retract]
    by_cases hp : e.present h = true
    · obtain ⟨c, -, -, -, -, hn, -⟩ := retract_effect hi h hp; omega
    · rw [retract_absent h hp]; exact Nat.le_refl _
  | insert => simp [step, Engine.insertExplicit]
  | insertExplicit => simp [step, Engine.insertExplicit]
  | insertLogical ps => simp [step, Engine.insertLogical]
  | addLogical f ps => simp [step]
  | addExplicit f => simp [step]

/-- every operation of a well-formed history passes the oracle's frame/result clause, and the
ghost keeps describing the model state -/
theorem step_ok {k : Nat} {g : Ghost} {e : Engine} {req : List Nat} (hi : Inv e req)
    (hr : Rel k g e req) (op : Op) (hok : op.ok e = true) (hb : (step e op).1.nextId ≤ k + 1) :
    ∃ g', stepGhost g op ((step e op).1.obs k (step e op).2) = some g' ∧
      Rel k g' (step e op).1 (reqStep e req op) := by
  have hbe : e.nextId ≤ k + 1 := Nat.le_trans (step_nextId_ge hi op) hb
  cases op with
  | insert =>
    refine ⟨{ g with n := g.n + 1, js := g.js ++ [⟨g.n + 1, true, []⟩], pres := (univ k).filter (step e .insert).1.present }, ?_, ?_⟩
    · simp only [stepGhost, step, Engine.obs, Engine.insertExplicit, hr.n, hr.pres]
      rw [if_pos]
      simp only [Bool.and_eq_true, beq_self_eq_true, true_and]
      exact sameSet_bump (e' := { e with nextId := e.nextId + 1, tms := e.tms.addExplicit e.nextId }) hi rfl rfl hb
    · constructor
      · show g.n + 1 + 1 = e.nextId + 1; rw [hr.n]
      · show g.js ++ _ = e.tms.justs ++ _; rw [hr.js, hr.n]
      · exact hr.req
      · exact hr.wf
      · rfl
  | insertExplicit =>
    refine ⟨{ g with n := g.n + 1, js := g.js ++ [⟨g.n + 1, true, []⟩], pres := (univ k).filter (step e .insertExplicit).1.present }, ?_, ?_⟩
    · simp only [stepGhost, step, Engine.obs, Engine.insertExplicit, hr.n, hr.pres]
      rw [if_pos]
      simp only [Bool.and_eq_true, beq_self_eq_true, true_and]
      exact sameSet_bump (e' := { e with nextId := e.nextId + 1, tms := e.tms.addExplicit e.nextId }) hi rfl rfl hb
    · constructor
      · show g.n + 1 + 1 = e.nextId + 1; rw [hr.n]
      · show g.js ++ _ = e.tms.justs ++ _; rw [hr.js, hr.n]
      · exact hr.req
      · exact hr.wf
      · rfl
  | insertLogical ps =>
    refine ⟨{ g with n := g.n + 1, js := g.js ++ [⟨g.n + 1, false, ps⟩], pres := (univ k).filter (step e (.insertLogical ps)).1.present, wf := g.wf && ps.all g.pres.contains }, ?_, ?_⟩
    · simp only [stepGhost, step, Engine.obs, Engine.insertLogical, hr.n, hr.pres]
      rw [if_pos]
      simp only [Bool.and_eq_true, beq_self_eq_true, true_and]
      exact sameSet_bump (e' := { e with nextId := e.nextId + 1, tms := e.tms.addLogical e.nextId ps }) hi rfl rfl hb
    · constructor
      · show g.n + 1 + 1 = e.nextId + 1; rw [hr.n]
      · show g.js ++ _ = e.tms.justs ++ _; rw [hr.js, hr.n]
      · exact hr.req
      · show (g.wf && ps.all g.pres.contains) = true
        rw [hr.wf, hr.pres, Bool.true_and, List.all_eq_true]
        intro p hp; rw [pres_contains hbe]; exact all_present (by simpa [Op.ok] using hok) p hp
      · rfl
  | addLogical f ps =>
    simp only [Op.ok, Bool.and_eq_true] at hok
    refine ⟨{ g with js := g.js ++ [⟨f, false, ps⟩], pres := (univ k).filter (step e (.addLogical f ps)).1.present, wf := g.wf && g.pres.contains f && ps.all g.pres.contains }, ?_, ?_⟩
    · simp only [stepGhost, step, Engine.obs, hr.pres]
      rw [if_pos]
      simp only [Bool.and_eq_true, beq_self_eq_true, true_and]
      rw [present_congr (e' := { e with tms := e.tms.addLogical f ps }) rfl rfl]
      exact sameSet_refl _
    · constructor
      · exact hr.n
      · show g.js ++ _ = e.tms.justs ++ _; rw [hr.js]
      · exact hr.req
      · show (g.wf && g.pres.contains f && ps.all g.pres.contains) = true
        rw [hr.wf, hr.pres, Bool.true_and, Bool.and_eq_true, List.all_eq_true, pres_contains hbe]
        exact ⟨hok.1, fun p hp => by rw [pres_contains hbe]; exact all_present hok.2 p hp⟩
      · rfl
  | addExplicit f =>
    simp only [Op.ok] at hok
    refine ⟨{ g with js := g.js ++ [⟨f, true, []⟩], pres := (univ k).filter (step e (.addExplicit f)).1.present, wf := g.wf && g.pres.contains f }, ?_, ?_⟩
    · simp only [stepGhost, step, Engine.obs, hr.pres]
      rw [if_pos]
      simp only [Bool.and_eq_true, beq_self_eq_true, true_and]
      rw [present_congr (e' := { e with tms := e.tms.addExplicit f }) rfl rfl]
      exact sameSet_refl _
    · constructor
      · exact hr.n
      · show g.js ++ _ = e.tms.justs ++ _; rw [hr.js]
      · exact hr.req
      · show (g.wf && g.pres.contains f) = true
        rw [hr.wf, hr.pres, Bool.true_and, pres_contains hbe]; exact hok
      · rfl
  | retract h =>
    by_cases hp : e.present h = true
    · obtain ⟨c, he, hpres, hder, hjs, hn, hR⟩ := retract_effect hi h hp
      have hstep := step_retract_present he
      have hfresh := deriv_fresh hder
      refine ⟨{ g with req := h :: g.req, pres := (univ k).filter (e.retract h).1.present }, ?_, ?_⟩
      · rw [hstep]
        simp only [stepGhost, Engine.obs, hr.pres, pres_contains hbe, hp, if_true]
        rw [if_pos]
        simp only [Bool.and_eq_true, Bool.not_eq_eq_eq_not, Bool.not_true, Bool.or_eq_true]
        refine ⟨⟨?_, ?_⟩, Or.inr ?_⟩
        · rw [sameSet_iff]
          intro x
          simp only [List.mem_filter, hpres, Bool.and_eq_true, bne_iff_ne, ne_eq,
            Bool.not_eq_eq_eq_not, Bool.not_true]
          rw [← Bool.not_eq_true, List.contains_iff_mem]
          constructor
          · rintro ⟨h1, h2, h3, h4⟩; exact ⟨⟨h1, h2⟩, h3, h4⟩
          · rintro ⟨⟨h1, h2⟩, h3, h4⟩; exact ⟨h1, h2, h3, h4⟩
        · rw [← Bool.not_eq_true, List.contains_iff_mem]
          exact fun hm => hfresh.2 h hm (mem_insertSet.mpr (Or.inl rfl))
        · rw [hr.js]
          refine derivOk_of_deriv hi.jrng hder _ ?_
          intro x
          simp only [List.mem_filter, bne_iff_ne, ne_eq, mem_univ, present_iff, mem_insertSet, not_or]
          rw [hi.sync]
          constructor
          · rintro ⟨⟨-, h1, h2, h3⟩, h4⟩; exact ⟨⟨h1, h2⟩, h4, h3⟩
          · rintro ⟨⟨h1, h2⟩, h4, h3⟩; exact ⟨⟨⟨h1, by omega⟩, h1, h2, h3⟩, h4⟩
      · rw [hstep]
        constructor
        · show g.n + 1 = (e.retract h).1.nextId; rw [hn]; exact hr.n
        · show g.js = (e.retract h).1.tms.justs; rw [hjs]; exact hr.js
        · show h :: g.req = reqStep e req (.retract h)
          simp only [reqStep, hp, if_true]; rw [hr.req]
        · exact hr.wf
        · rfl
    · have hstep : step e (.retract h) = (e, .err) := by simp [step, retract_absent h hp]
      refine ⟨{ g with pres := (univ k).filter e.present }, ?_, ?_⟩
      · rw [hstep]
        simp only [stepGhost, Engine.obs, hr.pres, pres_contains hbe, hp]
        simp [sameSet_refl]
      · rw [hstep]
        constructor
        · exact hr.n
        · exact hr.js
        · show g.req = reqStep e req (.retract h); simp only [reqStep, hp]; exact hr.req
        · exact hr.wf
        · rfl

theorem step_nextId {e : Engine} {req : List Nat} (hi : Inv e req) (op : Op) :
    (step e op).1.nextId = e.nextId + (if op.inserts then 1 else 0) := by
  cases op with
  | retract h =>
    rw [step_fst_retract]
    by_cases hp : e.present h = true
    · obtain ⟨c, -, -, -, -, hn, -⟩ := retract_effect hi h hp; simp [Op.inserts, hn]
    · rw [retract_absent h hp]; simp [Op.inserts]
  | insert => simp [step, Engine.insertExplicit, Op.inserts]
  | insertExplicit => simp [step, Engine.insertExplicit, Op.inserts]
  | insertLogical ps => simp [step, Engine.insertLogical, Op.inserts]
  | addLogical f ps => simp [step, Op.inserts]
  | addExplicit f => simp [step, Op.inserts]

/-- along a well-formed history the model's observations pass every clause of the oracle -/
theorem trace_ok {k : Nat} {g : Ghost} {e : Engine} {req : List Nat} (hi : Inv e req)
    (hr : Rel k g e req) (ops : List Op) (hwf : wfFrom e ops = true)
    (hb : e.nextId + (ops.filter Op.inserts).length ≤ k + 1) (i : Nat) :
    firstBad k i g ops (trace k e ops) = none := by
  induction ops generalizing g e req i with
  | nil => simp [trace, firstBad]
  | cons op ops ih =>
    simp only [wfFrom, Bool.and_eq_true] at hwf
    have hn : (step e op).1.nextId + (ops.filter Op.inserts).length ≤ k + 1 := by
      rw [step_nextId hi op]
      by_cases ho : op.inserts = true
      · have hf : (op :: ops).filter Op.inserts = op :: ops.filter Op.inserts := List.filter_cons_of_pos ho
        rw [hf] at hb
        simp only [ho, List.length_cons, if_true] at hb ⊢; omega
      · have hf : (op :: ops).filter Op.inserts = ops.filter Op.inserts := List.filter_cons_of_neg ho
        rw [hf] at hb
        simp only [ho, Bool.false_eq_true, if_false]; omega
    have hb' : (step e op).1.nextId ≤ k + 1 := by omega
    obtain ⟨g', hs, hr'⟩ := step_ok hi hr op hwf.1 hb'
    have hi' := inv_step hi op hwf.1
    simp only [trace, firstBad, hs, state_ok hi' hr' hb' _, if_true]
    exact ih hi' hr' hwf.2 hn (i + 1)

theorem rel_init (k : Nat) : Rel k {} init [] := by
  constructor <;> try rfl
  show [] = (univ k).filter init.present
  symm; rw [List.filter_eq_nil_iff]
  intro x _; simp [Engine.present, init]; omega

theorem universe_bound (ops : List Op) : init.nextId + (ops.filter Op.inserts).length ≤ universeOf ops + 1 := by
  have : (ops.filter Op.inserts).length + 1 ≤ universeOf ops := Nat.le_max_left _ _
  simp only [init]; omega

/-! ### the maintenance call -/

theorem stripC_none (ts : List (Option Op)) : stripC (none :: ts) = stripC ts := rfl
theorem stripC_some (op : Op) (ts : List (Option Op)) : stripC (some op :: ts) = op :: stripC ts := rfl
theorem stripC_map_some (ops : List Op) : stripC (ops.map some) = ops := by
  induction ops with
  | nil => rfl
  | cons op ops ih => simp [stripC_some, ih]

theorem weave_map_some {σ π : Type} (V : StepView σ π) (ops : List Op) (steps : List σ) (prev : π)
    (hl : steps.length = ops.length) : weave V (ops.map some) steps prev = steps := by
  induction ops generalizing steps prev with
  | nil => cases steps with
    | nil => rfl
    | cons _ _ => simp at hl
  | cons op ops ih =>
    cases steps with
    | nil => simp at hl
    | cons st steps =>
      simp only [List.map_cons, weave]
      rw [ih steps _ (by simpa using hl)]

theorem unweave_weave {σ π : Type} [BEq σ] [ReflBEq σ] (V : StepView σ π) (ts : List (Option Op)) (steps : List σ)
    (prev : π) (i : Nat) (hl : steps.length = (stripC ts).length) :
    unweave V ts (weave V ts steps prev) prev i = .ok steps := by
  induction ts generalizing steps prev i with
  | nil =>
    cases steps with
    | nil => rfl
    | cons _ _ => simp [stripC] at hl
  | cons t ts ih =>
    cases t with
    | none =>
      simp only [weave, unweave, BEq.rfl, if_true]
      exact ih steps prev (i + 1) hl
    | some op =>
      cases steps with
      | nil => simp [stripC_some] at hl
      | cons st steps =>
        simp only [weave, unweave]
        rw [ih steps _ (i + 1) (by simpa [stripC_some] using hl)]
        rfl

theorem weave_length {σ π : Type} (V : StepView σ π) (ts : List (Option Op)) (steps : List σ)
    (prev : π) (hl : steps.length = (stripC ts).length) : (weave V ts steps prev).length = ts.length := by
  induction ts generalizing steps prev with
  | nil => rfl
  | cons t ts ih =>
    cases t with
    | none => simp only [weave, List.length_cons]; rw [ih steps prev hl]
    | some op =>
      cases steps with
      | nil => simp [stripC_some] at hl
      | cons st steps =>
        simp only [weave, List.length_cons]
        rw [ih steps _ (by simpa [stripC_some] using hl)]

theorem unweave_ok_exact {σ π : Type} [BEq σ] [LawfulBEq σ] (V : StepView σ π) (ts : List (Option Op)) (obs rest : List σ)
    (prev : π) (i : Nat) (hl : obs.length = ts.length) (h : unweave V ts obs prev i = .ok rest) :
    rest.length = (stripC ts).length ∧ obs = weave V ts rest prev := by
  induction ts generalizing obs rest prev i with
  | nil =>
    cases obs with
    | nil => simp only [unweave, Except.ok.injEq] at h; subst h; exact ⟨rfl, rfl⟩
    | cons _ _ => simp at hl
  | cons t ts ih =>
    cases obs with
    | nil => simp at hl
    | cons st obs =>
      have hl' : obs.length = ts.length := by simpa using hl
      cases t with
      | none =>
        simp only [unweave] at h
        by_cases hc : (st == V.cstep prev) = true
        · rw [if_pos hc] at h
          obtain ⟨h1, h2⟩ := ih obs rest prev (i + 1) hl' h
          refine ⟨h1, ?_⟩
          simp only [weave]
          rw [← h2, eq_of_beq hc]
        · rw [if_neg hc] at h; cases h
      | some op =>
        simp only [unweave] at h
        cases hu : unweave V ts obs (V.setsOf st) (i + 1) with
        | error j => rw [hu] at h; cases h
        | ok r =>
          rw [hu] at h
          have : rest = st :: r := by
            simp only [Except.map] at h
            cases h; rfl
          subst this
          obtain ⟨h1, h2⟩ := ih obs r _ (i + 1) hl' hu
          refine ⟨by simp [stripC_some, h1], ?_⟩
          simp only [weave]
          rw [← h2]

/-- a failing step is a maintenance call, at or after the step the count started from -/
theorem unweave_error_at {σ π : Type} [BEq σ] (V : StepView σ π) (ts : List (Option Op)) (obs : List σ)
    (prev : π) (i j : Nat) (h : unweave V ts obs prev i = .error j) :
    i ≤ j ∧ ts[j - i]? = some none ∧ ∃ st, obs[j - i]? = some st ∧ ∃ p, (st == V.cstep p) = false := by
  induction ts generalizing obs prev i with
  | nil => simp [unweave] at h
  | cons t ts ih =>
    cases obs with
    | nil => cases t <;> simp [unweave] at h
    | cons st obs =>
      cases t with
      | none =>
        simp only [unweave] at h
        by_cases hc : (st == V.cstep prev) = true
        · rw [if_pos hc] at h
          obtain ⟨h1, h2, s, h3, h4⟩ := ih obs prev (i + 1) h
          have : j - i = (j - (i + 1)) + 1 := by omega
          refine ⟨by omega, ?_, s, ?_, h4⟩
          · rw [this]; simpa using h2
          · rw [this]; simpa using h3
        · rw [if_neg hc] at h
          cases h
          refine ⟨Nat.le_refl _, by simp, st, by simp, prev, by simpa using hc⟩
      | some op =>
        simp only [unweave] at h
        cases hu : unweave V ts obs (V.setsOf st) (i + 1) with
        | ok r => rw [hu] at h; simp [Except.map] at h
        | error j' =>
          rw [hu] at h
          have : j' = j := by simp only [Except.map] at h; cases h; rfl
          subst this
          obtain ⟨h1, h2, s, h3, h4⟩ := ih obs _ (i + 1) hu
          have : j' - i = (j' - (i + 1)) + 1 := by omega
          refine ⟨by omega, ?_, s, ?_, h4⟩
          · rw [this]; simpa using h2
          · rw [this]; simpa using h3

theorem traceC_eq_weave {σ π : Type} (V : StepView σ π) (enc : Obs → σ) (k : Nat) (e : Engine) (prev : π)
    (ts : List (Option Op)) : traceC V enc k e prev ts = weave V ts ((trace k e (stripC ts)).map enc) prev := by
  induction ts generalizing e prev with
  | nil => rfl
  | cons t ts ih =>
    cases t with
    | none => simp only [traceC, weave, stripC_none]; rw [ih]
    | some op => simp only [traceC, stripC_some, trace, List.map_cons, weave]; rw [ih]

theorem trace_length (k : Nat) (e : Engine) (ops : List Op) : (trace k e ops).length = ops.length := by
  induction ops generalizing e with
  | nil => rfl
  | cons op ops ih => simp [trace, ih]

end C08
