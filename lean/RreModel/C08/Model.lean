/-
C08 — model of the truth-maintenance system `src/rete/tms.rs` (`TruthMaintenanceSystem`) and of
the engine layer that applies it to working memory: `IncrementalEngine::{insert, insert_explicit,
insert_logical, retract, tms_mut}` in `src/rete/propagation.rs` with `WorkingMemory::{insert,
retract, get}` of `src/rete/working_memory.rs`.

Fact handles are `Nat` (`FactHandle(u64)`; working memory hands out 1, 2, 3, … and never reuses
one).  Fact types/data, the agenda and rule propagation do not influence presence or support and
are not modelled.

`justifications : HashMap<u64, Justification>` is the list `justs` in id order (ids are handed out
1, 2, … and the modelled API never removes one).  The two index maps are the views the code
maintains next to it:
  `fact_justifications[f]` = the justifications with `fact = f`, in id order;
  `fact_dependents[p]`     = the justifications having `p` among their premises, in id order, once
                             per *occurrence* of `p` (a duplicated premise pushes the id twice).
`HashSet`s are duplicate-free lists; nothing is ever read from them by iteration.
-/
namespace C08

/-- generic counting lemma behind the termination measure of the cascade -/
theorem countP_lt {α} (p q : α → Bool) (l : List α) (himp : ∀ x, q x = true → p x = true)
    (hex : ∃ x ∈ l, p x = true ∧ q x = false) : l.countP q < l.countP p := by
  induction l with
  | nil => obtain ⟨x, hx, _⟩ := hex; cases hx
  | cons a l ih =>
    have hle : l.countP q ≤ l.countP p := List.countP_mono_left (fun x _ => himp x)
    obtain ⟨x, hx, hp, hq⟩ := hex
    simp only [List.countP_cons]
    rcases List.mem_cons.mp hx with rfl | hx'
    · simp [hp, hq]; omega
    · have := ih ⟨x, hx', hp, hq⟩
      by_cases hqa : q a = true
      · simp [hqa, himp a hqa]; omega
      · simp [hqa]; split <;> omega

/-- `Justification` (id = position in `Tms.justs`; `source_rule`, `created_at` are not observable) -/
structure Just where
  fact : Nat
  explicit : Bool            -- `JustificationType::Explicit`
  premises : List Nat
deriving Repr, DecidableEq

/-- `Justification::is_valid(&retracted_facts)` -/
def Just.valid (R : List Nat) (j : Just) : Bool :=
  j.explicit || !(j.premises.any fun p => R.contains p)

/-- `has_valid_justification`: some justification recorded for `f` is valid -/
def hasValid (js : List Just) (R : List Nat) (f : Nat) : Bool :=
  js.any fun j => j.fact == f && j.valid R

/-- `fact_dependents[h]` (with multiplicity, in id order) -/
def dependents (js : List Just) (h : Nat) : List Just :=
  js.flatMap fun j => (j.premises.filter (· == h)).map fun _ => j

theorem mem_dependents {js : List Just} {h : Nat} {j : Just} :
    j ∈ dependents js h ↔ j ∈ js ∧ h ∈ j.premises := by
  simp only [dependents, List.mem_flatMap, List.mem_map, List.mem_filter, beq_iff_eq]
  constructor
  · rintro ⟨a, ha, x, ⟨hx, rfl⟩, rfl⟩; exact ⟨ha, hx⟩
  · rintro ⟨h1, h2⟩; exact ⟨j, h1, h, ⟨h2, rfl⟩, rfl⟩

/-- termination measure: justifications whose fact is not retracted -/
def live (js : List Just) (R : List Nat) : Nat := js.countP fun j => !R.contains j.fact

/-- `HashSet::insert` / `HashSet::remove` -/
def insertSet (x : Nat) (s : List Nat) : List Nat := if s.contains x then s else x :: s
def removeAll (gone : List Nat) (s : List Nat) : List Nat := s.filter fun x => !gone.contains x

/-- The recursion of `retract_with_cascade` below its first three statements, as the equivalent
explicit-stack machine.  `R` = `retracted_facts`; `st` = the dependent justifications still to be
looked at (the rest of the `for just_id in dependent_just_ids.clone()` loops of all active calls,
innermost first).  Pop `j`; if `j.fact` has no valid justification and is not yet retracted:
retract it (`retracted_facts.insert`), emit it (`to_retract.push`) and look at *its* dependents
before the rest (the recursive call, whose result is appended right behind it).  The result is
`(retracted_facts, to_retract)`; the emitted order is the order of the recursive code.
Terminates because every marking step retracts a fact that owns a justification. -/
def loop (js : List Just) (R : List Nat) (st : List Just) (hst : ∀ j ∈ st, j ∈ js) :
    List Nat × List Nat :=
  match st with
  | [] => (R, [])
  | j :: st' =>
    if h : (!hasValid js R j.fact && !R.contains j.fact) = true then
      let r := loop js (j.fact :: R) (dependents js j.fact ++ st')
        (by intro x hx
            rcases List.mem_append.mp hx with h1 | h2
            · exact (mem_dependents.mp h1).1
            · exact hst x (List.mem_cons_of_mem _ h2))
      (r.1, j.fact :: r.2)
    else loop js R st' (fun x hx => hst x (List.mem_cons_of_mem _ hx))
termination_by (live js R, st.length)
decreasing_by
  · apply Prod.Lex.left
    unfold live
    apply countP_lt
    · intro x hx; simp at hx ⊢; exact hx.2
    · refine ⟨j, hst j (List.mem_cons_self ..), ?_, ?_⟩
      · simp at h; simp [h.2]
      · simp
  · apply Prod.Lex.right
    simp

/-- `TruthMaintenanceSystem` -/
structure Tms where
  justs : List Just := []
  logical : List Nat := []      -- `logical_facts`
  explicit : List Nat := []     -- `explicit_facts`
  retracted : List Nat := []    -- `retracted_facts`
deriving Repr, DecidableEq

/-- `add_explicit_justification` -/
def Tms.addExplicit (t : Tms) (f : Nat) : Tms :=
  { t with justs := t.justs ++ [⟨f, true, []⟩], explicit := insertSet f t.explicit }

/-- `add_logical_justification` -/
def Tms.addLogical (t : Tms) (f : Nat) (ps : List Nat) : Tms :=
  { t with justs := t.justs ++ [⟨f, false, ps⟩], logical := insertSet f t.logical }

def Tms.isLogical (t : Tms) (f : Nat) : Bool := t.logical.contains f
def Tms.isExplicit (t : Tms) (f : Nat) : Bool := t.explicit.contains f
def Tms.hasValidJustification (t : Tms) (f : Nat) : Bool := hasValid t.justs t.retracted f

/-- `retract_with_cascade`: mark `h`, run the cascade; every fact marked on the way (in any
recursive call) is removed from `logical_facts` and `explicit_facts`.  Returns the cascade list. -/
def Tms.retractWithCascade (t : Tms) (h : Nat) : Tms × List Nat :=
  let r := loop t.justs (insertSet h t.retracted) (dependents t.justs h)
    (fun _ hx => (mem_dependents.mp hx).1)
  ({ t with retracted := r.1,
            logical := removeAll (h :: r.2) t.logical,
            explicit := removeAll (h :: r.2) t.explicit }, r.2)

/-- `IncrementalEngine` as far as C08 is concerned: `WorkingMemory` (`next_id`, the handles whose
`metadata.retracted` flag is set — `retract` never deletes an entry) and the TMS. -/
structure Engine where
  nextId : Nat := 1
  wmRetracted : List Nat := []
  tms : Tms := {}
deriving Repr, DecidableEq

def init : Engine := {}

/-- `working_memory().get(h).is_some()` -/
def Engine.present (e : Engine) (h : Nat) : Bool :=
  decide (1 ≤ h) && decide (h < e.nextId) && !e.wmRetracted.contains h

/-- `IncrementalEngine::insert` and `insert_explicit` (identical bodies as far as TMS/WM go) -/
def Engine.insertExplicit (e : Engine) : Engine × Nat :=
  ({ e with nextId := e.nextId + 1, tms := e.tms.addExplicit e.nextId }, e.nextId)

/-- `IncrementalEngine::insert_logical` -/
def Engine.insertLogical (e : Engine) (ps : List Nat) : Engine × Nat :=
  ({ e with nextId := e.nextId + 1, tms := e.tms.addLogical e.nextId ps }, e.nextId)

/-- the `for cascaded_handle in cascaded_facts` loop of `IncrementalEngine::retract`:
a cascaded handle is retracted from working memory if `get` still finds it -/
def wmApply (nextId : Nat) (wm : List Nat) : List Nat → List Nat
  | [] => wm
  | c :: cs =>
    if decide (1 ≤ c) && decide (c < nextId) && !wm.contains c then wmApply nextId (c :: wm) cs
    else wmApply nextId wm cs

/-- `IncrementalEngine::retract`: `Err` (nothing changes) when `get` finds nothing; otherwise
working memory marks `h`, the TMS cascades, the cascade is applied to working memory.
The engine returns `Ok(())`; the model also hands back the TMS's cascade list. -/
def Engine.retract (e : Engine) (h : Nat) : Engine × Option (List Nat) :=
  if e.present h then
    let r := e.tms.retractWithCascade h
    ({ e with wmRetracted := wmApply e.nextId (h :: e.wmRetracted) r.2, tms := r.1 }, some r.2)
  else (e, none)

/-- one operation of a history -/
inductive Op where
  | insert                                   -- `engine.insert(..)`
  | insertExplicit                           -- `engine.insert_explicit(..)`
  | insertLogical (ps : List Nat)            -- `engine.insert_logical(.., ps)`
  | addLogical (f : Nat) (ps : List Nat)     -- `engine.tms_mut().add_logical_justification(f, .., ps)`
  | addExplicit (f : Nat)                    -- `engine.tms_mut().add_explicit_justification(f)`
  | retract (h : Nat)                        -- `engine.retract(h)`
deriving Repr, DecidableEq

/-- what the call returns -/
inductive Res where
  | handle (h : Nat)
  | unit
  | retracted (cascade : List Nat)           -- `Ok(())`, with the TMS's cascade list
  | err
deriving Repr, DecidableEq

def step (e : Engine) : Op → Engine × Res
  | .insert => let r := e.insertExplicit; (r.1, .handle r.2)
  | .insertExplicit => let r := e.insertExplicit; (r.1, .handle r.2)
  | .insertLogical ps => let r := e.insertLogical ps; (r.1, .handle r.2)
  | .addLogical f ps => ({ e with tms := e.tms.addLogical f ps }, .unit)
  | .addExplicit f => ({ e with tms := e.tms.addExplicit f }, .unit)
  | .retract h =>
    match e.retract h with
    | (e', some c) => (e', .retracted c)
    | (e', none) => (e', .err)

def runFrom (e : Engine) (ops : List Op) : Engine := ops.foldl (fun e op => (step e op).1) e
def run (ops : List Op) : Engine := runFrom init ops

/-! ### rule actions during `fire_all`, and `reset_with_deffacts`

`IncrementalEngine::process_action_results` handles each `ActionResult` a fired rule's action returned; every arm that touches
facts calls the engine's own entry point (`self.retract`, `self.insert_explicit`, `self.insert_logical`), the other arms touch
the agenda / print. The trigger side of `fire_all` (agenda, conditions, the write-back of modified fields with
`working_memory.update`) inserts and retracts nothing. -/

/-- `ActionResult` as far as facts are concerned -/
inductive Action where
  | retract (h : Nat)                 -- `Retract(handle)` (GRL `retract($X)`): `self.retract(handle)`, an `Err` is printed and dropped
  | retractByType (h : Option Nat)    -- `RetractByType(t)`: `self.retract` of the first live fact of type `t` (`none`: there is none)
  | insertFact                        -- `InsertFact`: `self.insert_explicit`
  | insertLogical (ps : List Nat)     -- `InsertLogicalFact { premises }`: `self.insert_logical`
  | other                             -- `Update` / `ActivateAgendaGroup` / `CallFunction` / `ScheduleRule` / `None`
deriving Repr, DecidableEq

/-- `process_action_results`, one result -/
def Engine.processAction (e : Engine) : Action → Engine
  | .retract h => (e.retract h).1
  | .retractByType (some h) => (e.retract h).1
  | .retractByType none => e
  | .insertFact => e.insertExplicit.1
  | .insertLogical ps => (e.insertLogical ps).1
  | .other => e

/-- the operation of a history an action result amounts to (`none`: it inserts and retracts nothing) -/
def Action.asOp : Action → Option Op
  | .retract h => some (.retract h)
  | .retractByType (some h) => some (.retract h)
  | .retractByType none => none
  | .insertFact => some .insertExplicit
  | .insertLogical ps => some (.insertLogical ps)
  | .other => none

/-- `reset_with_deffacts` (after the repair F-C08-reset: working memory, agenda AND the TMS start again) with `k` deffacts
facts, each loaded through `insert` / `insert_with_template` -/
def Engine.resetWithDeffacts (_ : Engine) (k : Nat) : Engine := runFrom init (List.replicate k .insert)

end C08
