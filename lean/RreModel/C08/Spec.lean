import RreModel.C08.Model
/-
C08 — the property as decidable predicates over *API-level observations*: after every operation
the harness records what the call returned, `working_memory().get(h)` for every handle, the
`is_logical` / `is_explicit` / `has_valid_justification` answers and `tms().stats()`.
The oracle never looks at the model: it keeps a *ghost* of the history itself (which justifications
were recorded, which retractions were requested and succeeded) and evaluates the clauses of the
property on the implementation's observations.  Theorems.lean proves the same clauses of the model.
-/
namespace C08

/-- what is observed after one operation (sets restricted to the universe `1..=K`, ascending) -/
structure Obs where
  res : Res
  present : List Nat        -- handles `h` with `working_memory().get(h).is_some()`
  logical : List Nat        -- `is_logical`
  explicit : List Nat       -- `is_explicit`
  valid : List Nat          -- `has_valid_justification`
  stats : List Nat          -- `TmsStats`: justifications, logical, explicit, retracted
deriving Repr, DecidableEq

def univ (k : Nat) : List Nat := (List.range k).map (· + 1)

def Engine.obs (k : Nat) (e : Engine) (r : Res) : Obs :=
  { res := r,
    present := (univ k).filter e.present,
    logical := (univ k).filter e.tms.isLogical,
    explicit := (univ k).filter e.tms.isExplicit,
    valid := (univ k).filter e.tms.hasValidJustification,
    stats := [e.tms.justs.length, e.tms.logical.length, e.tms.explicit.length, e.tms.retracted.length] }

/-- the model's observation sequence -/
def trace (k : Nat) : Engine → List Op → List Obs
  | _, [] => []
  | e, op :: ops => (step e op).1.obs k (step e op).2 :: trace k (step e op).1 ops

/-- size of the observed universe for a case: one more than the handles it can create, and at
least every handle it mentions -/
def Op.maxMention : Op → Nat
  | .insert | .insertExplicit => 0
  | .insertLogical ps => ps.foldl max 0
  | .addLogical f ps => ps.foldl max f
  | .addExplicit f => f
  | .retract h => h

def Op.inserts : Op → Bool
  | .insert | .insertExplicit | .insertLogical _ => true
  | _ => false

def universeOf (ops : List Op) : Nat :=
  max ((ops.filter Op.inserts).length + 1) ((ops.map Op.maxMention).foldl max 0)

/-! ### the ghost of the history and the clauses -/

/-- what the oracle remembers of the history so far -/
structure Ghost where
  n : Nat := 0              -- handles created
  js : List Just := []      -- justifications recorded
  req : List Nat := []      -- handles whose retraction was requested (and succeeded)
  wf : Bool := true         -- every premise and every re-justified fact was live when recorded
  pres : List Nat := []     -- handles present (as last observed)
deriving Repr

/-- some justification of `f` has all its premises present -/
def supportedBy (js : List Just) (pres : List Nat) (f : Nat) : Bool :=
  js.any fun j => j.fact == f && j.premises.all pres.contains

/-- some justification of `f` is explicit or has all its premises present -/
def validBy (js : List Just) (pres : List Nat) (f : Nat) : Bool :=
  js.any fun j => j.fact == f && (j.explicit || j.premises.all pres.contains)

def hasExplicit (js : List Just) (f : Nat) : Bool := js.any fun j => j.fact == f && j.explicit
def hasLogical (js : List Just) (f : Nat) : Bool := js.any fun j => j.fact == f && !j.explicit
/-- `f` was inserted logically and never given an explicit justification -/
def logicalOnly (js : List Just) (f : Nat) : Bool := hasLogical js f && !hasExplicit js f

/-- **support**: a logically-only-justified fact is present exactly when its retraction was not
requested and one of its justifications has all of its premises present -/
def supportClause (js : List Just) (req pres : List Nat) (f : Nat) : Bool :=
  !logicalOnly js f || (pres.contains f == (!req.contains f && supportedBy js pres f))

/-- **explicit**: a fact with an explicit justification is absent exactly when its retraction was
requested -/
def explicitClause (js : List Just) (req pres : List Nat) (f : Nat) : Bool :=
  !hasExplicit js f || (pres.contains f == !req.contains f)

/-- the TMS's own answers are truthful -/
def queryClause (js : List Just) (pres : List Nat) (o : Obs) (f : Nat) : Bool :=
  (o.logical.contains f == (pres.contains f && hasLogical js f))
  && (o.explicit.contains f == (pres.contains f && hasExplicit js f))
  && (o.valid.contains f == validBy js pres f)

/-- **nothing else**: the cascade list is a derivation — each fact in it was present and, given
the facts removed before it in the same call, had no valid justification left -/
def derivOk (js : List Just) : List Nat → List Nat → Bool
  | _, [] => true
  | pres, g :: gs => pres.contains g && !validBy js pres g && derivOk js (pres.filter (· != g)) gs

def sameSet (a b : List Nat) : Bool := a.all b.contains && b.all a.contains

/-- frame + result clause of one operation; returns the ghost after it (`none` = clause violated) -/
def stepGhost (g : Ghost) (op : Op) (o : Obs) : Option Ghost :=
  match op with
  | .insert | .insertExplicit =>
    if o.res == .handle (g.n + 1) && sameSet o.present ((g.n + 1) :: g.pres) then
      some { g with n := g.n + 1, js := g.js ++ [⟨g.n + 1, true, []⟩], pres := o.present }
    else none
  | .insertLogical ps =>
    if o.res == .handle (g.n + 1) && sameSet o.present ((g.n + 1) :: g.pres) then
      some { g with n := g.n + 1, js := g.js ++ [⟨g.n + 1, false, ps⟩], pres := o.present,
                    wf := g.wf && ps.all g.pres.contains }
    else none
  | .addLogical f ps =>
    if o.res == .unit && sameSet o.present g.pres then
      some { g with js := g.js ++ [⟨f, false, ps⟩], pres := o.present,
                    wf := g.wf && g.pres.contains f && ps.all g.pres.contains }
    else none
  | .addExplicit f =>
    if o.res == .unit && sameSet o.present g.pres then
      some { g with js := g.js ++ [⟨f, true, []⟩], pres := o.present, wf := g.wf && g.pres.contains f }
    else none
  | .retract h =>
    if g.pres.contains h then
      match o.res with
      | .retracted c =>
        -- removed in this call = h and the cascade, nothing else; the cascade is a derivation
        if sameSet o.present (g.pres.filter fun x => x != h && !c.contains x)
           && !c.contains h && (!g.wf || derivOk g.js (g.pres.filter (· != h)) c) then
          some { g with req := h :: g.req, pres := o.present }
        else none
      | _ => none
    else
      if o.res == .err && sameSet o.present g.pres then some { g with pres := o.present } else none

/-- state clauses after an operation (only while the history is well-formed) -/
def stateOk (k : Nat) (g : Ghost) (o : Obs) : Bool :=
  !g.wf || (univ k).all fun f =>
    supportClause g.js g.req g.pres f && explicitClause g.js g.req g.pres f && queryClause g.js g.pres o f

/-- whole-history oracle; `some i` = index of the first operation whose clauses fail -/
def firstBad (k : Nat) : Nat → Ghost → List Op → List Obs → Option Nat
  | _, _, [], [] => none
  | i, g, op :: ops, o :: os =>
    match stepGhost g op o with
    | some g' => if stateOk k g' o then firstBad k (i + 1) g' ops os else some i
    | none => some i
  | i, _, _, _ => some i

def runOk (ops : List Op) (os : List Obs) : Bool :=
  (firstBad (universeOf ops) 0 {} ops os).isNone

/-- ghost at the end of a history (for tags) -/
def ghostEnd : Ghost → List Op → List Obs → Ghost
  | g, op :: ops, o :: os =>
    match stepGhost g op o with
    | some g' => ghostEnd g' ops os
    | none => g
  | g, _, _ => g

/-! ### the domain of the property: well-formed histories, and the requested retractions -/

/-- "every premise is live when its justification is recorded"; a further justification can only
be recorded for a fact that is itself live (handles are never reused, so a logical insertion of
a fact that is gone creates a new fact — `insert_logical` — rather than re-justifying the old
handle) -/
def Op.ok (e : Engine) : Op → Bool
  | .insertLogical ps => ps.all e.present
  | .addLogical f ps => e.present f && ps.all e.present
  | .addExplicit f => e.present f
  | _ => true

def wfFrom (e : Engine) : List Op → Bool
  | [] => true
  | op :: ops => op.ok e && wfFrom (step e op).1 ops

/-- the history is well-formed -/
def WF (ops : List Op) : Prop := wfFrom init ops = true

/-- handles whose retraction was requested by a `retract` call that succeeded -/
def reqStep (e : Engine) (req : List Nat) : Op → List Nat
  | .retract h => if e.present h then h :: req else req
  | _ => req

def requestedFrom (e : Engine) (req : List Nat) : List Op → List Nat
  | [] => req
  | op :: ops => requestedFrom (step e op).1 (reqStep e req op) ops

def requested (ops : List Op) : List Nat := requestedFrom init [] ops

/-- `f` owns a justification / an explicit one / only logical ones -/
def Engine.Justified (e : Engine) (f : Nat) : Prop := ∃ j ∈ e.tms.justs, j.fact = f
def Engine.HasExplicit (e : Engine) (f : Nat) : Prop := ∃ j ∈ e.tms.justs, j.fact = f ∧ j.explicit = true
def Engine.LogicalOnly (e : Engine) (f : Nat) : Prop :=
  e.Justified f ∧ ∀ j ∈ e.tms.justs, j.fact = f → j.explicit = false
/-- at least one justification of `f` has all of its premises present -/
def Engine.SupportedNow (e : Engine) (f : Nat) : Prop :=
  ∃ j ∈ e.tms.justs, j.fact = f ∧ ∀ p ∈ j.premises, e.present p = true

/-! ### the maintenance call `C` (`working_memory_mut().clear_modification_tracking()`)

`WorkingMemory::clear_modification_tracking` clears the two "pending since the last propagation" sets (`modified_handles`,
`retracted_handles`) and nothing else, so it is not an operation of the model (`Op` is untouched): a case is a list of
`Option Op` (`none` = `C`), the model runs `stripC` of it, and the step a `C` shows must be `cstep` of the sets of the step
before it — clause `maintenance`. The step type `σ` and the sets type `π` are parameters: the driver instantiates them
with the text of a step (`res/present/logical/explicit/valid/stats`, `setsOf` = everything after the result, `cstep p = "c/" ++ p`);
`weave` is what `drv_c08 model` prints for a case with `C` in it, `unweave` is the clause `drv_c08 oracle` evaluates first
(`fail maintenance@i`) and whose result it hands to `runOk`. -/

/-- the two views of a step the clause needs -/
structure StepView (σ π : Type) where
  /-- the sets of a step (everything but the result) -/
  setsOf : σ → π
  /-- the step a maintenance call shows when the sets before it are `p`: result `c`, the same sets -/
  cstep : π → σ

/-- the history the model and `runOk` see: the case without its maintenance calls -/
def stripC (ts : List (Option Op)) : List Op := ts.filterMap id

/-- model mode: put a step `cstep <sets of the step before>` back for every `C` -/
def weave {σ π : Type} (V : StepView σ π) : List (Option Op) → List σ → π → List σ
  | [], _, _ => []
  | none :: ts, steps, prev => V.cstep prev :: weave V ts steps prev
  | some _ :: ts, st :: steps, _ => st :: weave V ts steps (V.setsOf st)
  | some _ :: _, [], _ => []

/-- oracle mode, clause **maintenance**: check the `C` steps (result `c`, sets unchanged) and remove them;
`.error i` = the clause fails at (original) step `i`. A truncated observation is handed on as it is (`runOk` rejects it). -/
def unweave {σ π : Type} [BEq σ] (V : StepView σ π) : List (Option Op) → List σ → π → Nat → Except Nat (List σ)
  | [], rest, _, _ => .ok rest
  | none :: ts, st :: steps, prev, i =>
    if st == V.cstep prev then unweave V ts steps prev (i + 1) else .error i
  | some _ :: ts, st :: steps, _, i => (unweave V ts steps (V.setsOf st) (i + 1)).map (st :: ·)
  | _ :: _, [], _, _ => .ok []

/-- the model extended by the maintenance call (the thin wrapper): `C` leaves the engine as it is — neither the facts nor the
TMS are touched — and shows the sets of the step before it; any other operation is `step`, observed by `Engine.obs` and
rendered by `enc` -/
def traceC {σ π : Type} (V : StepView σ π) (enc : Obs → σ) (k : Nat) : Engine → π → List (Option Op) → List σ
  | _, _, [] => []
  | e, prev, none :: ts => V.cstep prev :: traceC V enc k e prev ts
  | e, _, some op :: ts =>
    enc ((step e op).1.obs k (step e op).2)
      :: traceC V enc k (step e op).1 (V.setsOf (enc ((step e op).1.obs k (step e op).2))) ts

end C08
