import RreModel.C08.Lemmas
/-
C08 — property theorems (only).  Helper lemmas live in Lemmas.lean.
"Truth maintenance keeps exactly the facts that still have support."

All statements quantify over *every* well-formed history `ops : List Op` (any length, any number
of facts, any justification graph — chains, diamonds, several justifications per fact, shared and
duplicated premises, cycles; retractions of explicit and of derived facts in any order).  Since
every prefix of a well-formed history is one, "at the end of every history" is "after every
operation".  `WF ops` is the property's own domain: every premise is live when its justification
is recorded (and a further justification is only recorded for a fact that is itself live).
-/
namespace C08

/-- **support_invariant.**  After every well-formed history, a fact that was inserted logically
(and never given an explicit justification) is present *exactly when* its own retraction was
never requested and at least one of its justifications has all of its premises present. -/
theorem support_invariant (ops : List Op) (hwf : WF ops) (f : Nat)
    (hf : (run ops).LogicalOnly f) :
    (run ops).present f = true ↔ f ∉ requested ops ∧ (run ops).SupportedNow f :=
  support_of_inv (inv_run ops hwf) f hf

/-- **explicit_only_by_request.**  A fact with an explicit justification (inserted by `insert` /
`insert_explicit`) is present exactly as long as its retraction has not been requested: no
cascade ever removes it, whatever else it is also justified by. -/
theorem explicit_only_by_request (ops : List Op) (hwf : WF ops) (f : Nat)
    (hf : (run ops).HasExplicit f) :
    (run ops).present f = true ↔ f ∉ requested ops :=
  explicit_of_inv (inv_run ops hwf) f hf

/-- a `retract` of a handle that is not present is an error and changes nothing -/
theorem retract_absent_noop (e : Engine) (h : Nat) (hp : e.present h = false) :
    e.retract h = (e, none) :=
  retract_absent h (by rw [hp]; simp)

/-- no other operation ever removes a fact -/
theorem only_retract_removes (e : Engine) (op : Op) (hop : ∀ h, op ≠ .retract h) (x : Nat)
    (hx : e.present x = true) : (step e op).1.present x = true := by
  have hpi := (present_iff e x).mp hx
  rw [present_iff]
  cases op with
  | retract h => exact absurd rfl (hop h)
  | insert => exact ⟨hpi.1, by simp [step, Engine.insertExplicit]; omega, by simpa [step, Engine.insertExplicit] using hpi.2.2⟩
  | insertExplicit => exact ⟨hpi.1, by simp [step, Engine.insertExplicit]; omega, by simpa [step, Engine.insertExplicit] using hpi.2.2⟩
  | insertLogical ps => exact ⟨hpi.1, by simp [step, Engine.insertLogical]; omega, by simpa [step, Engine.insertLogical] using hpi.2.2⟩
  | addLogical f ps => exact ⟨hpi.1, by simpa [step] using hpi.2.1, by simpa [step] using hpi.2.2⟩
  | addExplicit f => exact ⟨hpi.1, by simpa [step] using hpi.2.1, by simpa [step] using hpi.2.2⟩

/-- …in its one-step form: if an explicitly justified fact is present before an operation and
absent after it, the operation was the retraction of that very fact. -/
theorem explicit_leaves_only_by_retract (ops : List Op) (op : Op) (hwf : WF (ops ++ [op])) (f : Nat)
    (hf : (run ops).HasExplicit f) (hp : (run ops).present f = true)
    (hn : (run (ops ++ [op])).present f = false) : op = .retract f := by
  have hwf' : wfFrom init ops = true ∧ op.ok (run ops) = true := by
    have := hwf; unfold WF at this; rw [wfFrom_append] at this; simpa [run] using this
  have hi := inv_run ops hwf'.1
  have hi' := inv_step hi op hwf'.2
  have hrun : run (ops ++ [op]) = (step (run ops) op).1 := runFrom_append init ops op
  rw [hrun] at hn
  obtain ⟨j, hj, hjf, hx⟩ := hf
  have hnr : f ∉ (run ops).tms.retracted := (present_iff_not_retracted hi ⟨j, hj, hjf⟩).mp hp
  have hnq : f ∉ requested ops := fun h => hnr (hi.reqsub f h)
  by_cases hop : ∃ h, op = .retract h
  · obtain ⟨h, rfl⟩ := hop
    by_cases hph : (run ops).present h = true
    · by_cases hfh : h = f
      · rw [hfh]
      · exfalso
        -- `f` keeps its explicit justification, is not requested, yet is gone: impossible
        have hjs : (step (run ops) (.retract h)).1.tms.justs = (run ops).tms.justs := by
          rw [step_fst_retract]; simp [Engine.retract, hph, Tms.retractWithCascade]
        have hj' : j ∈ (step (run ops) (.retract h)).1.tms.justs := hjs ▸ hj
        have hnp : ¬ (step (run ops) (.retract h)).1.present f = true := by rw [hn]; simp
        rw [present_iff_not_retracted hi' ⟨j, hj', hjf⟩] at hnp
        have hr' := Classical.not_not.mp hnp
        rcases hi'.dead f hr' with h1 | h1
        · simp only [reqStep, hph, if_true, List.mem_cons] at h1
          rcases h1 with h1 | h1
          · exact hfh h1.symm
          · exact hnq h1
        · exact h1 ⟨j, hj', hjf, (valid_iff _ _).mpr (Or.inl hx)⟩
    · exfalso
      have : (step (run ops) (.retract h)).1 = run ops := by
        rw [step_fst_retract, retract_absent h hph]
      rw [this, hp] at hn; cases hn
  · exfalso
    have := only_retract_removes (run ops) op (fun h e => hop ⟨h, e⟩) f hp
    rw [this] at hn; cases hn

/-- **cascade_exact.**  One successful `retract h` after any well-formed history removes, in that
same call, `h` and the returned cascade and nothing else; the cascade consists of facts that were
present, each listed once; every fact of the cascade is left without support (no explicit
justification, no justification whose premises are all still present); every fact that is still
present and owns a justification still has support; and the removed set is the *least* one with
that closure property — any set of handles that contains `h` and the facts already retracted and
leaves no unsupported justified fact outside contains the whole cascade. -/
theorem cascade_exact (ops : List Op) (hwf : WF ops) (h : Nat)
    (hp : (run ops).present h = true) :
    ∃ c, ((run ops).retract h).2 = some c ∧
      (∀ x, ((run ops).retract h).1.present x = true ↔ (run ops).present x = true ∧ x ≠ h ∧ x ∉ c) ∧
      c.Nodup ∧ h ∉ c ∧ (∀ g ∈ c, (run ops).present g = true) ∧
      (∀ g ∈ c, ¬ ((run ops).retract h).1.HasExplicit g ∧ ¬ ((run ops).retract h).1.SupportedNow g) ∧
      (∀ f, ((run ops).retract h).1.present f = true → ((run ops).retract h).1.Justified f →
        ((run ops).retract h).1.HasExplicit f ∨ ((run ops).retract h).1.SupportedNow f) ∧
      (∀ S : List Nat, h ∈ S → (∀ x ∈ (run ops).wmRetracted, x ∈ S) →
        Closed (run ops).tms.justs S → ∀ g ∈ c, g ∈ S) := by
  have hi := inv_run ops hwf
  have hi' := inv_retract hi h hp
  generalize run ops = e at *
  have hpi := (present_iff e h).mp hp
  obtain ⟨hjs, hR, hcl, hder, -, -⟩ := retract_spec e.tms h hi.closed
  have hfresh := deriv_fresh hder
  have he : e.retract h = ({ e with
      wmRetracted := wmApply e.nextId (h :: e.wmRetracted) (e.tms.retractWithCascade h).2,
      tms := (e.tms.retractWithCascade h).1 }, some (e.tms.retractWithCascade h).2) := by
    simp [Engine.retract, hp]
  have hcasc_rng : ∀ g ∈ (e.tms.retractWithCascade h).2, 1 ≤ g ∧ g < e.nextId := by
    intro g hg
    obtain ⟨j, hj, hf⟩ := deriv_justified hder g hg
    have := (hi.jrng j hj).1
    rw [hf] at this; exact this
  refine ⟨(e.tms.retractWithCascade h).2, by rw [he], ?_, hfresh.1, ?_, ?_, ?_, ?_, ?_⟩
  · intro x
    rw [he, present_iff, present_iff]
    show (1 ≤ x ∧ x < e.nextId ∧ x ∉ wmApply _ _ _) ↔ _
    rw [mem_wmApply]
    constructor
    · rintro ⟨h1, h2, h3⟩
      refine ⟨⟨h1, h2, fun hm => h3 (Or.inl (List.mem_cons_of_mem _ hm))⟩,
        fun e1 => h3 (Or.inl (e1 ▸ List.mem_cons_self ..)), fun hm => h3 (Or.inr ⟨hm, h1, h2⟩)⟩
    · rintro ⟨⟨h1, h2, h3⟩, h4, h5⟩
      refine ⟨h1, h2, ?_⟩
      rintro (hm | hm)
      · rcases List.mem_cons.mp hm with e1 | hm'
        · exact h4 e1
        · exact h3 hm'
      · exact h5 hm.1
  · exact fun hm => hfresh.2 h hm (mem_insertSet.mpr (Or.inl rfl))
  · intro g hg
    have hr := hcasc_rng g hg
    exact (present_iff e g).mpr ⟨hr.1, hr.2, fun hm =>
      hfresh.2 g hg (mem_insertSet.mpr (Or.inr ((hi.sync g).mpr hm)))⟩
  · intro g hg
    have hns : ¬ Supported (e.retract h).1.tms.justs (e.retract h).1.tms.retracted g := by
      rw [he]; show ¬ Supported (e.tms.retractWithCascade h).1.justs (e.tms.retractWithCascade h).1.retracted g
      rw [hjs, hR]; exact deriv_unsupported hder g hg
    rw [supported_iff_now hi' g] at hns
    exact ⟨fun hx => hns (Or.inl hx), fun hs => hns (Or.inr hs)⟩
  · intro f hpf hjf
    have hnr := (present_iff_not_retracted hi' hjf).mp hpf
    exact (supported_iff_now hi' f).mp (hi'.closed f hjf hnr)
  · intro S hS hsub hc g hg
    refine deriv_least hder S ?_ hc g hg
    intro x hx
    rcases mem_insertSet.mp hx with e1 | hm
    · exact e1 ▸ hS
    · exact hsub x ((hi.sync x).mp hm)

/-- **cascade_terminates.**  The cascade is a total function by construction (well-founded
recursion on the number of justifications of non-retracted facts, then the stack length — no
fuel); quantitatively, for *every* TMS state and handle the returned list has no repetition and is
no longer than the number of recorded justifications. -/
theorem cascade_terminates (t : Tms) (h : Nat) :
    (t.retractWithCascade h).2.Nodup ∧ (t.retractWithCascade h).2.length ≤ t.justs.length := by
  have hder : Deriv t.justs (insertSet h t.retracted) (t.retractWithCascade h).2 := loop_deriv _ _ _ _
  refine ⟨(deriv_fresh hder).1, Nat.le_trans (deriv_length hder) ?_⟩
  unfold live; exact List.countP_le_length

/-- the TMS's own answers are truthful after every well-formed history: `is_logical` /
`is_explicit` say "present and owns a logical / an explicit justification", and
`has_valid_justification` says "owns an explicit justification or one whose premises are all present" -/
theorem queries_truthful (ops : List Op) (hwf : WF ops) (f : Nat) :
    ((run ops).tms.isLogical f = true ↔
      (run ops).present f = true ∧ ∃ j ∈ (run ops).tms.justs, j.fact = f ∧ j.explicit = false) ∧
    ((run ops).tms.isExplicit f = true ↔ (run ops).present f = true ∧ (run ops).HasExplicit f) ∧
    ((run ops).tms.hasValidJustification f = true ↔ (run ops).HasExplicit f ∨ (run ops).SupportedNow f) :=
  queries_of_inv (inv_run ops hwf) f

/-- **model_meets_spec.**  The observation trace of the model along every well-formed history
passes the oracle of Spec.lean — the *same* Boolean predicate `runOk` that the driver evaluates on
the implementation's observations: per operation the result and frame clause (an insertion adds
exactly the new handle, a justification changes no presence, a failed retract changes nothing, a
successful retract removes exactly `h` and the returned cascade, which is a derivation), and after
every operation, for every handle of the universe, the support clause, the explicit clause and the
truthfulness of `is_logical` / `is_explicit` / `has_valid_justification`. -/
theorem model_meets_spec (ops : List Op) (hwf : WF ops) :
    runOk ops (trace (universeOf ops) init ops) = true := by
  unfold runOk
  rw [trace_ok inv_init (rel_init _) ops hwf (universe_bound ops) 0]
  rfl

/-! ### retractions and insertions made by rule actions during `fire_all`; `reset_with_deffacts` -/

/-- **A rule action is the operation it stands for.**  Whatever a fired rule's action returns, `process_action_results`
leaves the engine in the state of the corresponding operation of a history (or, for results that touch no fact, as it was). -/
theorem action_is_op (e : Engine) (a : Action) :
    e.processAction a = match a.asOp with
      | some op => (step e op).1
      | none => e := by
  cases a with
  | retract h => simp [Engine.processAction, Action.asOp, step_fst_retract]
  | retractByType o => cases o <;> simp [Engine.processAction, Action.asOp, step_fst_retract]
  | insertFact => simp [Engine.processAction, Action.asOp, step]
  | insertLogical ps => simp [Engine.processAction, Action.asOp, step]
  | other => rfl

/-- …so a history continued by any sequence of action results (any number of firings) ends in the state of the plain history
with those operations appended: every theorem above speaks about retractions and insertions made by rule actions too. -/
theorem actions_are_history (ops : List Op) (acts : List Action) :
    acts.foldl Engine.processAction (run ops) = run (ops ++ acts.filterMap Action.asOp) := by
  induction acts generalizing ops with
  | nil => simp
  | cons a acts ih =>
    rw [List.foldl_cons, action_is_op]
    cases h : a.asOp with
    | none => simp only [List.filterMap_cons, h]; exact ih ops
    | some op =>
      simp only [List.filterMap_cons, h]
      have := ih (ops ++ [op])
      rw [show run (ops ++ [op]) = (step (run ops) op).1 from runFrom_append init ops op] at this
      rw [this, List.append_assoc]; rfl

/-- **A retraction made by a rule action removes, in that same call, every fact it leaves without support and nothing else**
(`cascade_exact` for `ActionResult::Retract` — what GRL `retract($X)` produces — after any well-formed history). -/
theorem action_retract_exact (ops : List Op) (hwf : WF ops) (h : Nat) (hp : (run ops).present h = true) :
    ∃ c : List Nat, (∀ x, ((run ops).processAction (.retract h)).present x = true ↔ (run ops).present x = true ∧ x ≠ h ∧ x ∉ c) ∧
      (∀ g ∈ c, (run ops).present g = true ∧ ¬ ((run ops).processAction (.retract h)).HasExplicit g ∧
        ¬ ((run ops).processAction (.retract h)).SupportedNow g) ∧
      (∀ f, ((run ops).processAction (.retract h)).present f = true → ((run ops).processAction (.retract h)).Justified f →
        ((run ops).processAction (.retract h)).HasExplicit f ∨ ((run ops).processAction (.retract h)).SupportedNow f) := by
  obtain ⟨c, -, h1, -, -, h2, h3, h4, -⟩ := cascade_exact ops hwf h hp
  exact ⟨c, h1, fun g hg => ⟨h2 g hg, h3 g hg⟩, h4⟩

/-- **`reset_with_deffacts` starts a new history**: whatever happened before, the operations after it run as in a fresh engine
that loaded the `k` deffacts facts — the history the theorems (and the driver, per segment) speak about. -/
theorem reset_starts_new_history (e : Engine) (k : Nat) (ops : List Op) :
    runFrom (e.resetWithDeffacts k) ops = run (List.replicate k .insert ++ ops) := by
  simp [Engine.resetWithDeffacts, run, runFrom, List.foldl_append]

-- the seeded demo: a rule action retracts the premise of a chain 1 → 2 → 3; both dependents go in the same call
example : ((run [.insert, .insertLogical [1], .insertLogical [2]]).processAction (.retract 1)).wmRetracted = [3, 2, 1] := by
  simp [Engine.processAction, run, runFrom, step, init, Engine.insertExplicit, Engine.insertLogical, Engine.retract,
    Engine.present, Tms.addExplicit, Tms.addLogical, Tms.retractWithCascade, insertSet, removeAll, dependents, loop, hasValid,
    Just.valid, wmApply]

/-! ### Non-vacuity: concrete histories meeting the hypotheses (evaluated by `simp`, since the
cascade is defined by well-founded recursion), and the witnesses showing that the domain
hypothesis `WF` cannot be dropped. -/

local macro "c08_eval" : tactic => `(tactic|
  simp [run, runFrom, wfFrom, WF, Op.ok, requested, requestedFrom, reqStep, step, init,
    Engine.insertExplicit, Engine.insertLogical, Engine.retract, Engine.present, Tms.addExplicit,
    Tms.addLogical, Tms.retractWithCascade, insertSet, removeAll, dependents, loop, hasValid,
    Just.valid, wmApply])

/-- a diamond with two justifications for fact 4 (4 ← 2, 4 ← 3; 2 ← 1, 3 ← 1), then `retract 2` -/
def exOps : List Op :=
  [.insert, .insertLogical [1], .insertLogical [1], .insertLogical [2], .addLogical 4 [3], .retract 2]

def exState : Engine :=
  { nextId := 5, wmRetracted := [2],
    tms := { justs := [⟨1, true, []⟩, ⟨2, false, [1]⟩, ⟨3, false, [1]⟩, ⟨4, false, [2]⟩, ⟨4, false, [3]⟩],
             logical := [4, 3], explicit := [1], retracted := [2] } }

theorem exOps_wf : WF exOps := by unfold exOps; c08_eval
theorem exOps_run : run exOps = exState := by unfold exOps exState; c08_eval
theorem exOps_req : requested exOps = [2] := by unfold exOps; c08_eval

/-- `support_invariant` is not vacuous: fact 4 is logical-only, has lost one of its two
justifications, and is present because the other one still has its premise -/
example : WF exOps ∧ (run exOps).LogicalOnly 4 ∧ (run exOps).present 4 = true ∧
    4 ∉ requested exOps ∧ (run exOps).SupportedNow 4 := by
  rw [exOps_run, exOps_req]
  exact ⟨exOps_wf, by unfold Engine.LogicalOnly Engine.Justified; decide, by decide, by decide,
    by unfold Engine.SupportedNow; decide⟩

/-- …and fact 2 (logical-only, retracted on request while its premise 1 is present) is the case
that makes the `f ∉ requested` conjunct necessary -/
example : (run exOps).LogicalOnly 2 ∧ (run exOps).present 2 = false ∧ 2 ∈ requested exOps ∧
    (run exOps).SupportedNow 2 := by
  rw [exOps_run, exOps_req]
  exact ⟨by unfold Engine.LogicalOnly Engine.Justified; decide, by decide, by decide,
    by unfold Engine.SupportedNow; decide⟩

/-- `explicit_only_by_request` / `cascade_exact` are not vacuous: in that state fact 1 is explicit
and present; retracting it cascades through 3 and then 4 (2 is already gone), in that order -/
example : (run exOps).HasExplicit 1 ∧ (run exOps).present 1 = true ∧
    ((run exOps).retract 1).2 = some [3, 4] ∧ ((run exOps).retract 1).1.wmRetracted = [4, 3, 1, 2] := by
  rw [exOps_run]
  refine ⟨by unfold Engine.HasExplicit; decide, by decide, ?_, ?_⟩ <;> (unfold exState; c08_eval)

/-- retracting the root of the untouched diamond: the cascade is emitted in the order of the
recursive code (2, then what 2 drags along — nothing, 4 still has 3 —, then 3, then 4) -/
example : ((run (exOps.take 5)).retract 1).2 = some [2, 3, 4] := by
  unfold exOps; c08_eval

/-- a cycle (2 ← 1, 3 ← 2, 2 ← 3): retracting 1 leaves 2 and 3 present — each *literally* has a
justification whose premises are all present, which is what the property asks -/
example : WF [.insert, .insertLogical [1], .insertLogical [2], .addLogical 2 [3], .retract 1] ∧
    (run [.insert, .insertLogical [1], .insertLogical [2], .addLogical 2 [3], .retract 1]).wmRetracted = [1] := by
  constructor <;> c08_eval

/-- The statement of `support_invariant` without the domain hypothesis. -/
def support_invariant_unrestricted : Prop :=
  ∀ (ops : List Op) (f : Nat), (run ops).LogicalOnly f →
    ((run ops).present f = true ↔ f ∉ requested ops ∧ (run ops).SupportedNow f)

/-- It is false, so `WF` is needed — in both of its parts.  (i) A premise that is not live when
its justification is recorded: `insert; retract 1; insert_logical [1]` leaves fact 2 present
without support.  (The second witness, re-justifying a handle that is already gone, is below.)
Both witnesses are replayed on the real code by the correspondence (corpus/C08). -/
theorem support_invariant_needs_wf : ¬ support_invariant_unrestricted := by
  intro h
  have h2 := h [.insert, .retract 1, .insertLogical [1]] 2
  have hrun : run [.insert, .retract 1, .insertLogical [1]] =
      { nextId := 3, wmRetracted := [1],
        tms := { justs := [⟨1, true, []⟩, ⟨2, false, [1]⟩], logical := [2], explicit := [],
                 retracted := [1] } } := by c08_eval
  rw [hrun] at h2
  have := (h2 (by unfold Engine.LogicalOnly Engine.Justified; decide)).mp (by decide)
  exact absurd this.2 (by unfold Engine.SupportedNow; decide)

/-- (ii) re-justifying a dead handle through `tms_mut()`: `insert; insert; insert_logical [1];
retract 1` cascades fact 3 away; `add_logical_justification(3, [2])` then gives the dead handle a
justification whose premise is present — the TMS answers `is_logical(3)` and
`has_valid_justification(3)` with `true`, working memory has no fact 3. -/
theorem rejustified_dead_handle :
    let ops : List Op := [.insert, .insert, .insertLogical [1], .retract 1, .addLogical 3 [2]]
    ¬ WF ops ∧ (run ops).LogicalOnly 3 ∧ 3 ∉ requested ops ∧ (run ops).SupportedNow 3 ∧
    (run ops).present 3 = false ∧ (run ops).tms.isLogical 3 = true ∧
    (run ops).tms.hasValidJustification 3 = true := by
  intro ops
  have hrun : run ops =
      { nextId := 4, wmRetracted := [3, 1],
        tms := { justs := [⟨1, true, []⟩, ⟨2, true, []⟩, ⟨3, false, [1]⟩, ⟨3, false, [2]⟩],
                 logical := [3], explicit := [2], retracted := [3, 1] } } := by
    unfold ops; c08_eval
  have hreq : requested ops = [1] := by unfold ops; c08_eval
  rw [hrun, hreq]
  refine ⟨by unfold ops; c08_eval, by unfold Engine.LogicalOnly Engine.Justified; decide, by decide,
    by unfold Engine.SupportedNow; decide, by decide, by decide, ?_⟩
  simp [Tms.hasValidJustification, hasValid, Just.valid]

/-! ### the maintenance call `C` (`clear_modification_tracking`) — oracle clause `maintenance`

`StepView`, `weave`, `unweave`, `traceC` (Spec.lean) are the functions `drv_c08` runs, for any step type `σ` / sets type `π`
(the driver: the text of a step, `ReflBEq`/`LawfulBEq String`). -/

/-- **Maintenance calls are invisible.** For every case `ts` (operations with `C` calls anywhere, any number of them), every
rendering `enc` of an observation and every view `V`:
(a) the model extended by `C` as a call that leaves the engine alone (`traceC`) shows exactly the model's trace of the history
    WITHOUT the calls, with a step `cstep <sets before>` woven in at every `C` — this is the line `drv_c08 model` prints;
(b) on that observation the clause `maintenance` holds at every `C` step (`unweave` answers `.ok`, never `.error i`), and what it
    hands on to `runOk` is, step for step, the model's trace of the stripped history: no observation of any operation changed;
(c) which `runOk` accepts when the stripped history is well-formed (`model_meets_spec`). -/
theorem maintenance_noop {σ π : Type} [BEq σ] [ReflBEq σ] (V : StepView σ π) (enc : Obs → σ) (empty : π)
    (ts : List (Option Op)) :
    traceC V enc (universeOf (stripC ts)) init empty ts
        = weave V ts ((trace (universeOf (stripC ts)) init (stripC ts)).map enc) empty
    ∧ unweave V ts (traceC V enc (universeOf (stripC ts)) init empty ts) empty 0
        = .ok ((trace (universeOf (stripC ts)) init (stripC ts)).map enc)
    ∧ (WF (stripC ts) → runOk (stripC ts) (trace (universeOf (stripC ts)) init (stripC ts)) = true) := by
  refine ⟨traceC_eq_weave V enc _ init empty ts, ?_, model_meets_spec (stripC ts)⟩
  rw [traceC_eq_weave]
  exact unweave_weave V ts _ empty 0 (by rw [List.length_map, trace_length])

/-- **`runOk` of the stripped history implies the clause, for any observations.** Take ANY observation `steps` of the history
without its maintenance calls (the implementation's, not only the model's) and let every `C` step repeat the sets of the step
before it (`weave`): the clause holds at every `C` and the steps handed to `runOk` are `steps` themselves — so the verdict on
the case with the calls is the verdict `runOk (stripC ts) steps` on the case without them; two cases that differ only in where
their `C` calls are get the same steps. A history without `C` is woven into itself. -/
theorem maintenance_transparent {σ π : Type} [BEq σ] [ReflBEq σ] (V : StepView σ π) (ts : List (Option Op))
    (steps : List σ) (prev : π) (i : Nat) (hl : steps.length = (stripC ts).length) :
    unweave V ts (weave V ts steps prev) prev i = .ok steps
    ∧ (weave V ts steps prev).length = ts.length
    ∧ (∀ ts' j, stripC ts' = stripC ts → unweave V ts' (weave V ts' steps prev) prev j = .ok steps)
    ∧ weave V ((stripC ts).map some) steps prev = steps :=
  ⟨unweave_weave V ts steps prev i hl, weave_length V ts steps prev hl,
   fun ts' j h => unweave_weave V ts' steps prev j (by rw [h]; exact hl),
   weave_map_some V (stripC ts) steps prev hl⟩

/-- **The clause is exact.** On an observation with one step per token, `unweave` answers `.ok rest` exactly when the observation
is `rest` with, at every `C`, the step `cstep <sets of the last step before it that is not a C step>` (the empty sets before the
first operation) — nothing else passes; and an answer `.error j` names a token `j` that is a `C` whose step differs from the
expected one (the driver prints `fail maintenance@j`). -/
theorem maintenance_exact {σ π : Type} [BEq σ] [LawfulBEq σ] (V : StepView σ π) (ts : List (Option Op))
    (obs : List σ) (prev : π) (i : Nat) (hl : obs.length = ts.length) :
    (∀ rest, unweave V ts obs prev i = .ok rest ↔ (rest.length = (stripC ts).length ∧ obs = weave V ts rest prev))
    ∧ (∀ j, unweave V ts obs prev i = .error j →
        i ≤ j ∧ ts[j - i]? = some none ∧ ∃ st, obs[j - i]? = some st ∧ ∃ p, (st == V.cstep p) = false) := by
  refine ⟨fun rest => ⟨unweave_ok_exact V ts obs rest prev i hl, ?_⟩, fun j => unweave_error_at V ts obs prev i j⟩
  rintro ⟨h1, h2⟩
  rw [h2]
  exact unweave_weave V ts rest prev i h1

/-- a structured instance of the view for the examples: a step is (result or `c`, the five sets) -/
def obsView : StepView (Option Res × List (List Nat)) (List (List Nat)) :=
  { setsOf := fun s => s.2, cstep := fun p => (none, p) }
def encObs (o : Obs) : Option Res × List (List Nat) := (some o.res, [o.present, o.logical, o.explicit, o.valid, o.stats])

-- a history with maintenance calls before the first operation, between operations and (twice) at the end
example :
    traceC obsView encObs 3 init [[], [], [], [], [0, 0, 0, 0]] [none, some .insert, none, some (.insertLogical [1]), none, none]
      = [(none, [[], [], [], [], [0, 0, 0, 0]]),
         (some (.handle 1), [[1], [], [1], [1], [1, 0, 1, 0]]),
         (none, [[1], [], [1], [1], [1, 0, 1, 0]]),
         (some (.handle 2), [[1, 2], [2], [1], [1, 2], [2, 1, 1, 0]]),
         (none, [[1, 2], [2], [1], [1, 2], [2, 1, 1, 0]]),
         (none, [[1, 2], [2], [1], [1, 2], [2, 1, 1, 0]])]
    ∧ unweave obsView [none, some .insert, none, some (.insertLogical [1]), none, none]
        (traceC obsView encObs 3 init [[], [], [], [], [0, 0, 0, 0]]
          [none, some .insert, none, some (.insertLogical [1]), none, none]) [[], [], [], [], [0, 0, 0, 0]] 0
      = .ok ((trace 3 init [.insert, .insertLogical [1]]).map encObs) := by constructor <;> rfl
-- the clause rejects a `C` step that lost a fact (token 2), and one that shows a result other than `c` (token 0)
example :
    unweave obsView [some .insert, some (.insertLogical [1]), none]
      [(some (.handle 1), [[1], [], [1], [1], [1, 0, 1, 0]]), (some (.handle 2), [[1, 2], [2], [1], [1, 2], [2, 1, 1, 0]]),
       (none, [[1], [], [1], [1], [2, 1, 1, 0]])] [[], [], [], [], [0, 0, 0, 0]] 0 = .error 2
    ∧ unweave obsView [none, some .insert]
      [(some .unit, [[], [], [], [], [0, 0, 0, 0]]), (some (.handle 1), [[1], [], [1], [1], [1, 0, 1, 0]])]
      [[], [], [], [], [0, 0, 0, 0]] 0 = .error 0 := by constructor <;> rfl

end C08
