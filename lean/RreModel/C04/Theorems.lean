import RreModel.C04.MaskLemmas
import RreModel.C04.ArgLemmas
/-
C04 — property theorems (only).  "Parsing GRL yields exactly the rules that were written."
The statements quantify over every condition tree, every admissible layout of it (`LT`: any white
space around every token, redundant parentheses anywhere) and every leaf parser.  Leaf texts are
restricted by `LeafOk` (balanced parentheses, no `&`/`|`, trimmed, not starting like a structural
form).  Since the literal masking (fix F-C04b) every entry point runs the pipeline on `mask text`:
the `…_strlit_opaque` theorems lift the round trips to leaf / statement texts whose string literals
have ARBITRARY bodies (`OpaqueLeaf`, `OpaqueStmt`: only the literal's own quote character and a line
break are excluded) — `LeafOk` is then required of the text with *emptied* literals only.  The
`…_counterexample`s are statements about the pipeline *without* the masking (the pre-fix parser): each
case excluded by `LeafOk` really failed there (replayed on the unfixed implementation: F-C04b).
-/
namespace C04

/-- **The splitter.** On any admissible rendering, `split_logical_operator` for `||` (`o = true`) or
`&&` (`o = false`, when there is no top-level `||`) returns exactly the renderings of the top-level
operands, trimmed — operators inside parentheses, `exists(…)`, `forall(…)` are not split points — and
`None` when there is no top-level occurrence. -/
theorem splitLogical_render (o : Bool) (t : LT) (h : t.WF) (hc : o = false → t.conjLevel = true) :
    splitLogical (opChar o) t.render =
      if ((t.kids o).map LT.render).length > 1 then some ((t.kids o).map LT.render) else none :=
  LT.splitLogical_render' o t h hc

/-- **Round trip of `parse_when_clause` (priority theorem).** For every condition tree, every
admissible layout `t` of it, every white space around it and every leaf parser `A` that accepts the
leaf texts, parsing the rendering returns exactly the tree that was written (`t.sem`: layout and
redundant parentheses erased), with `A`'s result at each leaf: `&&` binds tighter than `||`, both
associate to the left, parentheses, `!`, `exists(…)`, `forall(…)` are respected. -/
theorem parseWhen_render (A : Str → Except Err α) (g : Str → α) (t : LT) (h : t.WF)
    (hA : ∀ s ∈ t.leaves, A s = .ok (g s)) (a b : Str) (ha : Ws a) (hb : Ws b) :
    parseWhen A (a ++ t.render ++ b) = .ok (t.sem.map g) :=
  (parse_all A g t h hA).1 _ a b ha hb (by simp; omega)

/-- Precedence, spelled out on three opaque leaves: `x || y && z` is `x or (y and z)`,
`x && y || z` is `(x and y) or z`, and `(x || y) && z` is `(x or y) and z`. -/
theorem parseWhen_precedence (x y z : Str) (hx : LeafOk x) (hy : LeafOk y) (hz : LeafOk z) :
    parseWhen (fun s => .ok s) (x ++ " || ".toList ++ (y ++ " && ".toList ++ z)) = .ok (.or (.single x) (.and (.single y) (.single z)))
    ∧ parseWhen (fun s => .ok s) (x ++ " && ".toList ++ y ++ " || ".toList ++ z) = .ok (.or (.and (.single x) (.single y)) (.single z))
    ∧ parseWhen (fun s => .ok s) ('(' :: x ++ " || ".toList ++ y ++ ") && ".toList ++ z) = .ok (.and (.or (.single x) (.single y)) (.single z)) := by
  have sp : Ws [' '] := by intro c hc; simp at hc; subst hc; rfl
  refine ⟨?_, ?_, ?_⟩
  · have := parseWhen_render (fun s => Except.ok s) id (.or (.leaf x) [' '] [' '] (.and (.leaf y) [' '] [' '] (.leaf z)))
      ⟨sp, sp, hx, ⟨sp, sp, hy, hz, rfl, rfl⟩, rfl⟩ (by intro s _; rfl) [] [] Ws.nil Ws.nil
    simpa [LT.render, LT.sem, Cond.map] using this
  · have := parseWhen_render (fun s => Except.ok s) id (.or (.and (.leaf x) [' '] [' '] (.leaf y)) [' '] [' '] (.leaf z))
      ⟨sp, sp, ⟨sp, sp, hx, hy, rfl, rfl⟩, hz, rfl⟩ (by intro s _; rfl) [] [] Ws.nil Ws.nil
    simpa [LT.render, LT.sem, Cond.map] using this
  · have := parseWhen_render (fun s => Except.ok s) id (.and (.paren [] [] (.or (.leaf x) [' '] [' '] (.leaf y))) [' '] [' '] (.leaf z))
      ⟨sp, sp, ⟨Ws.nil, Ws.nil, sp, sp, hx, hy, rfl⟩, hz, rfl, rfl⟩ (by intro s _; rfl) [] [] Ws.nil Ws.nil
    simpa [LT.render, LT.sem, Cond.map] using this

/-- **Layout is irrelevant.** Two admissible layouts of the same condition tree — different white
space, line breaks (comments have become white space, see `stripComments`), redundant parentheses —
parse to the same result. -/
theorem parseWhen_layout_irrelevant (A : Str → Except Err α) (g : Str → α) (t₁ t₂ : LT)
    (h₁ : t₁.WF) (h₂ : t₂.WF) (hsem : t₁.sem = t₂.sem)
    (hA₁ : ∀ s ∈ t₁.leaves, A s = .ok (g s)) (hA₂ : ∀ s ∈ t₂.leaves, A s = .ok (g s))
    (a₁ b₁ a₂ b₂ : Str) (ha₁ : Ws a₁) (hb₁ : Ws b₁) (ha₂ : Ws a₂) (hb₂ : Ws b₂) :
    parseWhen A (a₁ ++ t₁.render ++ b₁) = parseWhen A (a₂ ++ t₂.render ++ b₂) := by
  rw [parseWhen_render A g t₁ h₁ hA₁ a₁ b₁ ha₁ hb₁, parseWhen_render A g t₂ h₂ hA₂ a₂ b₂ ha₂ hb₂, hsem]

/-- **Round trip of `parse_then_clause`.** For every list of statement texts without `;`, each
trimmed and non-empty, with any white space before and after each statement and after the last `;`,
the statements found are exactly those written, in order; so parsing is the statement parser mapped
over them. -/
theorem parseThen_render (P : Str → Except Err β) (xs : List (Str × Str × Str)) (w : Str) (hw : Ws w)
    (hx : ∀ x ∈ xs, Ws x.1 ∧ Ws x.2.2 ∧ Edges x.2.1 ∧ ∀ c ∈ x.2.1, c ≠ ';') :
    parseThenWith P (renderStmts xs w) = (xs.map (·.2.1)).mapM P := by
  unfold parseThenWith; rw [statements_render xs w hw hx]

/-- the full literal round trip: every literal class of the grammar (kept as a statement; the float
class is a parameter of the model and is exercised by the correspondence check) -/
def parseValue_renderLit_full (X : Ext) : Prop :=
  (∀ (q : Char) (s : Str), (q = '"' ∨ q = '\'') → (∀ c ∈ s, c ≠ q ∧ c ≠ '\n') →
      parseValue X (lits (q :: s ++ [q])) (mask (q :: s ++ [q])) = .str s)
  ∧ (∀ (T : List Str) (i : Int), -9223372036854775808 ≤ i → i ≤ 9223372036854775807 → parseValue X T (intShow i) = .int i)
  ∧ (∀ T, parseValue X T "true".toList = .bool true ∧ parseValue X T "false".toList = .bool false
      ∧ parseValue X T "null".toList = .null)

theorem mask_literal (q : Char) (s : Str) (hq : q = '"' ∨ q = '\'') (hs : ∀ c ∈ s, c ≠ q ∧ c ≠ '\n') :
    mask (q :: s ++ [q]) = q :: maskBodyAt 0 s ++ [q] ∧ lits (q :: s ++ [q]) = (if s.isEmpty then [] else [s]) := by
  have := maskGo_lit q hq s [] 0 hs
  constructor
  · simpa [mask, maskGo] using this.1
  · simpa [lits, litsGo] using this.2

/-- **String literals are opaque (values).** A quoted string — ANY body that does not contain the
literal's own quote character or a line break: spaces, operators, braces, `;`, `&&`, ` then `, comment
markers, the other quote character, placeholder look-alikes, non-ASCII text … — goes through
`mask_string_literals` and `parse_value` (which unmasks with the table) to exactly that string. -/
theorem parseValue_strlit_opaque (X : Ext) (q : Char) (s : Str) (hq : q = '"' ∨ q = '\'')
    (hs : ∀ c ∈ s, c ≠ q ∧ c ≠ '\n') :
    parseValue X (lits (q :: s ++ [q])) (mask (q :: s ++ [q])) = .str s := by
  obtain ⟨hm, hl⟩ := mask_literal q s hq hs
  rw [hm, hl]
  generalize hT : (if s.isEmpty then ([] : List Str) else [s]) = T
  have hqw : isWs q = false := by rcases hq with rfl | rfl <;> rfl
  have hed : Edges (q :: maskBodyAt 0 s ++ [q]) :=
    ⟨⟨q, rfl, hqw⟩, ⟨q, getLast_append_some _ _ q rfl, hqw⟩⟩
  have hnb : ((q :: maskBodyAt 0 s ++ [q]).head? == some '[') = false := by
    rcases hq with rfl | rfl <;> simp
  have hmem : q ∉ maskBodyAt 0 s := by
    intro hm
    have := (maskBodyAt_mem hm).ne
    rcases hq with rfl | rfl
    · exact this.2.2.2.2.2.1 rfl
    · exact this.2.2.2.2.2.2.1 rfl
  have hinner : ((q :: maskBodyAt 0 s ++ [q]).drop 1).dropLast = maskBodyAt 0 s := by simp
  have hlast : (q :: maskBodyAt 0 s ++ [q]).getLast? = some q := getLast_append_some _ _ q rfl
  have hun : unmask T (maskBodyAt 0 s) = s := by
    have := unmask_maskBodyAt T 0 s [] (by
      intro hne; rw [← hT]
      cases s with
      | nil => exact absurd rfl hne
      | cons c cs => rfl)
    simpa [unmask_nil] using this
  have key : parseScalar X T (q :: maskBodyAt 0 s ++ [q]) = .str s := by
    unfold parseScalar
    simp only [hinner, hlast, hun]
    rcases hq with rfl | rfl
    · simp [hmem]
    · simp [hmem]
  unfold parseValue
  cases hf : (q :: maskBodyAt 0 s ++ [q]).length with
  | zero => simp at hf
  | succ n =>
    simp only [parseValueF]
    rw [trim_self hed, hnb]
    simpa using key

/-- **Integer literals.** The decimal rendering of every `i64` (`i64::to_string`: optional `-`, digits,
no leading zeros) is read back by `parse_value` as that integer — including `i64::MIN` and `i64::MAX`. -/
theorem parseValue_int_roundtrip (X : Ext) (T : List Str) (i : Int)
    (hlo : -9223372036854775808 ≤ i) (hhi : i ≤ 9223372036854775807) : parseValue X T (intShow i) = .int i :=
  parseValue_intShow X T i hlo hhi

/-- **Literals: every class of the grammar but floats** (floats are a parameter of the model: `Ext.parseF64`):
`parseValue_renderLit_full` holds for every `X`. -/
theorem parseValue_renderLit (X : Ext) : parseValue_renderLit_full X :=
  ⟨fun q s hq hs => parseValue_strlit_opaque X q s hq hs, fun T i hlo hhi => parseValue_int_roundtrip X T i hlo hhi,
    fun _ => ⟨rfl, rfl, rfl⟩⟩

/-- (the former partial statement, kept under its name: strings and constants) -/
theorem parseValue_renderLit_partial (X : Ext) :
    (∀ (q : Char) (s : Str), (q = '"' ∨ q = '\'') → (∀ c ∈ s, c ≠ q ∧ c ≠ '\n') →
      parseValue X (lits (q :: s ++ [q])) (mask (q :: s ++ [q])) = .str s)
    ∧ (∀ T, parseValue X T "true".toList = .bool true ∧ parseValue X T "false".toList = .bool false
        ∧ parseValue X T "null".toList = .null) :=
  ⟨(parseValue_renderLit X).1, (parseValue_renderLit X).2.2⟩

example : parseValue ⟨fun _ => none, fun _ => 0, fun _ => [], fun _ => none⟩ [] (intShow (-9223372036854775808))
    = .int (-9223372036854775808) := parseValue_int_roundtrip _ _ _ (by decide) (by decide)

/-- the hypothesis "not the own quote character" cannot be dropped: `"a" + "b"` is not one literal -/
theorem parseValue_string_counterexample :
    parseValue ⟨fun _ => none, fun _ => 0, fun _ => [], fun _ => none⟩ (lits "\"a\" + \"b\"".toList) (mask "\"a\" + \"b\"".toList)
      ≠ .str "a\" + \"b".toList := by
  intro h
  have := congrArg Value.strText h
  revert this
  decide +kernel

/-- **String concatenation is an expression, never ONE literal.** A value text `q b₁ q  mid  q b₂ q` — it starts and ends with
a string literal of the same quote kind `q` (ANY bodies: spaces, operators, dots, the other quote, placeholder look-alikes …),
`mid` is made of code and further literals, and its code has an arithmetic operator and a blank or a dot, as in
`"Hello, " + User.name + "!"`, `'Dr. ' + U.d + ' (hon.)'`, `"a" + "b"` — goes through `mask_string_literals` and `parse_value`
to `Value::Expression(<the text as written>)` (literal bodies restored by `unmask`): it is NOT the string between the first
and the last quote. The inner quote character is the only thing that tells the two apart, whatever the bodies are.
(Floats are a parameter of the model: the masked text is assumed not to be read as a float; it starts with a quote.) -/
theorem parseValue_concat_expr (X : Ext) (q : Char) (b₁ b₂ : Str) (mid : List Seg)
    (hq : q = '"' ∨ q = '\'') (h1 : ∀ c ∈ b₁, c ≠ q ∧ c ≠ '\n') (h2 : ∀ c ∈ b₂, c ≠ q ∧ c ≠ '\n')
    (hmid : ∀ x ∈ mid, x.Ok)
    (hop : ∃ s o, Seg.code s ∈ mid ∧ o ∈ s ∧ isArith o = true)
    (hsp : ∃ s c, Seg.code s ∈ mid ∧ c ∈ s ∧ (c = '.' ∨ c = ' '))
    (hf : X.parseF64 (mask (renderSegs (.lit q b₁ :: mid ++ [.lit q b₂]))) = none) :
    parseValue X (lits (renderSegs (.lit q b₁ :: mid ++ [.lit q b₂]))) (mask (renderSegs (.lit q b₁ :: mid ++ [.lit q b₂])))
      = .expr (renderSegs (.lit q b₁ :: mid ++ [.lit q b₂])) := by
  have hl : ∀ x ∈ (Seg.lit q b₁ :: mid ++ [Seg.lit q b₂]), x.Ok := by
    intro x hx
    simp only [List.cons_append, List.mem_cons, List.mem_append, List.mem_nil_iff, or_false] at hx
    rcases hx with rfl | hx | rfl
    · exact ⟨hq, h1⟩
    · exact hmid x hx
    · exact ⟨hq, h2⟩
  have hun := unmask_mask_segs _ hl
  obtain ⟨_, hm, _⟩ := renderSegs_closed _ hl
  obtain ⟨n, hshape⟩ := concat_masked q b₁ b₂ mid
  generalize hT : lits (renderSegs (.lit q b₁ :: mid ++ [.lit q b₂])) = T at *
  generalize ht : renderSegs (.lit q b₁ :: mid ++ [.lit q b₂]) = t at *
  have hM : mask t = q :: (maskBodyAt 0 b₁ ++ [q] ++ maskedSegsAt (0 + (Seg.lit q b₁).lits.length) mid ++ q :: maskBodyAt n b₂) ++ [q] := by
    unfold mask; rw [hm 0, hshape]
  generalize hI : maskBodyAt 0 b₁ ++ [q] ++ maskedSegsAt (0 + (Seg.lit q b₁).lits.length) mid ++ q :: maskBodyAt n b₂ = I at hM
  generalize hMM : mask t = M at *
  have hqw : isWs q = false := by rcases hq with rfl | rfl <;> rfl
  have hqI : q ∈ I := by rw [← hI]; simp
  have hlast : M.getLast? = some q := by rw [hM]; exact getLast_append_some _ _ q rfl
  have hhead : M.head? = some q := by rw [hM]; rfl
  have hed : Edges M := ⟨⟨q, hhead, hqw⟩, ⟨q, hlast, hqw⟩⟩
  have hinner : (M.drop 1).dropLast = I := by rw [hM]; simp
  have hlen : M.length = I.length + 2 := by rw [hM]; simp
  -- the operator and the blank / dot are still there after masking
  have hany : M.any isArith = true := by
    obtain ⟨s, o, hs, ho, ha⟩ := hop
    have : o ∈ I := by rw [← hI]; simp [mem_maskedSegsAt_of_code _ mid s o hs ho]
    rw [hM]; simp only [List.any_eq_true]; exact ⟨o, by simp [this], ha⟩
  have hdot : (M.contains '.' || M.contains ' ') = true := by
    obtain ⟨s, c, hs, hc, hcc⟩ := hsp
    have hcI : c ∈ I := by rw [← hI]; simp [mem_maskedSegsAt_of_code _ mid s c hs hc]
    have hcM : c ∈ M := by rw [hM]; simp [hcI]
    rcases hcc with rfl | rfl
    · simp [hcM]
    · simp [hcM]
  have hi64 : parseI64 M = none := by rw [hM]; exact parseI64_quote q _ hq
  have key : parseScalar X T M = .expr t := by
    unfold parseScalar
    have hlow : ∀ w : Str, (∀ c, w.head? = some c → c ≠ q) → (lower M == w) = false := by
      intro w hw
      rw [beq_eq_false_iff_ne]
      intro h
      have h' := lower_head M q _ hM
      rw [h] at h'
      have hqq : q.toLower = q := by rcases hq with rfl | rfl <;> rfl
      rw [hqq] at h'
      exact hw q h' rfl
    have ht1 := hlow "true".toList (by intro c hc; simp at hc; subst hc; rcases hq with rfl | rfl <;> decide)
    have ht2 := hlow "false".toList (by intro c hc; simp at hc; subst hc; rcases hq with rfl | rfl <;> decide)
    have ht3 := hlow "null".toList (by intro c hc; simp at hc; subst hc; rcases hq with rfl | rfl <;> decide)
    simp only [hinner, hlast, hhead, ht1, ht2, ht3, hi64, hf, hun]
    have hexp : isExpression M = true := by unfold isExpression; rw [hany, hdot]; rfl
    rcases hq with rfl | rfl
    · simp [hqI, hexp]
    · simp [hqI, hexp]
  unfold parseValue
  have hnb : (M.head? == some '[') = false := by
    rw [hhead]; rcases hq with rfl | rfl <;> decide
  cases hf' : M.length with
  | zero => omega
  | succ k =>
    simp only [parseValueF]
    rw [trim_self hed, hnb]
    simpa using key

def exMid : Str := " + User.name + ".toList
theorem exMid_ok : ∀ x ∈ [Seg.code exMid], x.Ok := by
  intro x hx
  simp only [List.mem_cons, List.mem_nil_iff, or_false] at hx
  subst hx
  exact ⟨by intro c hc; revert c; decide, by intro c hc; revert c; decide⟩
example : parseValue ⟨fun _ => none, fun _ => 0, fun _ => [], fun _ => none⟩
    (lits "\"Hello, \" + User.name + \"!\"".toList) (mask "\"Hello, \" + User.name + \"!\"".toList)
    = .expr "\"Hello, \" + User.name + \"!\"".toList :=
  parseValue_concat_expr _ '"' "Hello, ".toList "!".toList [.code exMid] (Or.inl rfl)
    (by decide) (by decide) exMid_ok ⟨exMid, '+', by simp, by decide, rfl⟩ ⟨exMid, ' ', by simp, by decide, Or.inr rfl⟩ rfl

/-- **`unmask` inverts `mask_string_literals`** on every text made of code (no quote character, no
`MASK_START`) and string literals with arbitrary bodies: with the table `lits text`, the masked text
unmasks to the text. -/
theorem unmask_mask_strlit (l : List Seg) (h : ∀ x ∈ l, x.Ok) :
    unmask (lits (renderSegs l)) (mask (renderSegs l)) = renderSegs l :=
  unmask_mask_segs l h

/-- the masked text of a padded condition: the padding is untouched, the tree is masked from offset 0,
and the table is the table of the tree -/
theorem mask_padded (t : LT) (h : t.WFo) (a b : Str) (ha : Ws a) (hb : Ws b) :
    mask (a ++ t.render ++ b) = a ++ (t.maskAt 0).render ++ b ∧ lits (a ++ t.render ++ b) = lits t.render := by
  have p := ((Piece.code ha.quoteFree).append (LT.render_masked t h)).append (Piece.code hb.quoteFree)
  constructor
  · have := p.2.1 0; unfold mask; rw [this]; simp
  · rw [p.2.2]; simp

/-- **String literals are opaque (conditions).** The round trip of `parse_when_clause` for condition
trees whose leaf texts contain string literals with ARBITRARY bodies (`OpaqueLeaf`): the text is masked
(as every entry point does), parsed, and the tree that was written comes back, the leaf parser seeing
the masked leaf texts (`t.maskAt 0`: every literal body replaced by its placeholder) — `}`, `&&`, `||`,
` then `, unbalanced parentheses, `!` … inside a literal are never structure. -/
theorem parseWhen_render_strlit_opaque (A : Str → Except Err α) (g : Str → α) (t : LT) (h : t.WFo)
    (hA : ∀ s ∈ (t.maskAt 0).leaves, A s = .ok (g s)) (a b : Str) (ha : Ws a) (hb : Ws b) :
    parseWhen A (mask (a ++ t.render ++ b)) = .ok ((t.maskAt 0).sem.map g) := by
  rw [(mask_padded t h a b ha hb).1]
  exact parseWhen_render A g (t.maskAt 0) (LT.WFo.masked t h 0) hA a b ha hb

/-- … and with the leaf parser that just unmasks with the table of the text (what `parse_value` and the
other leaf sites do), the tree comes back with the leaf texts exactly as written, literal bodies intact. -/
theorem parseWhen_strlit_opaque_unmask (t : LT) (h : t.WFo) (a b : Str) (ha : Ws a) (hb : Ws b) :
    parseWhen (fun m => .ok (unmask (lits (a ++ t.render ++ b)) m)) (mask (a ++ t.render ++ b)) = .ok t.sem := by
  rw [parseWhen_render_strlit_opaque _ (unmask (lits (a ++ t.render ++ b))) t h (fun _ _ => rfl) a b ha hb]
  have := LT.sem_unmask t h (lits (a ++ t.render ++ b)) [] [] (by rw [(mask_padded t h a b ha hb).2]; simp)
  rw [show ([] : List Str).length = 0 from rfl] at this
  rw [this]

/-- **String literals are opaque (actions).** The round trip of `parse_then_clause` for statements whose
string literals have ARBITRARY bodies (`OpaqueStmt`): after masking, the statements found are exactly
the masked statements, in order — a `;` inside a literal is not a separator — and each unmasks (with
the table of the text) to the statement as written. -/
theorem parseThen_render_strlit_opaque (P : Str → Except Err β) (xs : List (Str × Str × Str)) (w : Str) (hw : Ws w)
    (hx : ∀ x ∈ xs, Ws x.1 ∧ Ws x.2.2 ∧ OpaqueStmt x.2.1) :
    parseThenWith P (mask (renderStmts xs w)) = ((maskStmtsAt 0 xs).map (·.2.1)).mapM P
    ∧ (maskStmtsAt 0 xs).map (fun x => unmask (lits (renderStmts xs w)) x.2.1) = xs.map (·.2.1) := by
  have p := renderStmts_masked xs w hw hx
  constructor
  · have hm : mask (renderStmts xs w) = renderStmts (maskStmtsAt 0 xs) w := p.2.1 0
    rw [hm]
    apply parseThen_render P (maskStmtsAt 0 xs) w hw
    -- every masked statement is trimmed and `;`-free, with the same padding
    have key : ∀ (ys : List (Str × Str × Str)) (n : Nat), (∀ x ∈ ys, Ws x.1 ∧ Ws x.2.2 ∧ OpaqueStmt x.2.1) →
        ∀ y ∈ maskStmtsAt n ys, Ws y.1 ∧ Ws y.2.2 ∧ Edges y.2.1 ∧ ∀ c ∈ y.2.1, c ≠ ';' := by
      intro ys
      induction ys with
      | nil => intro n _ y hy; simp [maskStmtsAt] at hy
      | cons x xs' ih =>
        intro n hx' y hy
        obtain ⟨a, s, b⟩ := x
        simp only [maskStmtsAt, List.mem_cons] at hy
        obtain ⟨h1, h2, h3⟩ := hx' (a, s, b) (by simp)
        rcases hy with rfl | hy
        · exact ⟨h1, h2, (h3.masked.2.1 n).1, (h3.masked.2.1 n).2⟩
        · exact ih _ (fun z hz => hx' z (by simp [hz])) y hy
    exact key xs 0 hx
  · have := maskStmtsAt_unmask xs (fun x hxm => (hx x hxm).2.2) (lits (renderStmts xs w)) [] [] (by rw [p.2.2]; simp)
    simpa using this

/-! ### the pipeline without the masking (the parser before fix F-C04b) -/

/-- the statement of the round trip of the *unmasked* pipeline without the hypothesis on leaf texts:
every trimmed text that does not start like a structural form is an opaque leaf -/
def parseWhen_leaf_full : Prop :=
  ∀ s : Str, Edges s → s.head? ≠ some '(' → s.head? ≠ some '!' → parseWhen (fun x => .ok x) s = .ok (.single s)

/-- F-C04b (pre-fix pipeline): a string literal containing `&&` is split — the leaf `x == "a && b"` comes
back as a conjunction; with the masking it is one leaf (`strlit_examples`) -/
theorem parseWhen_strlit_and_counterexample : ¬ parseWhen_leaf_full := by
  intro h
  have := h "x == \"a && b\"".toList ⟨⟨'x', rfl, rfl⟩, ⟨'"', rfl, rfl⟩⟩ (by decide) (by decide)
  revert this
  decide +kernel

/-- F-C04b (pre-fix pipeline): an unbalanced parenthesis inside a string literal hides a following `&&` -/
theorem parseWhen_strlit_paren_counterexample :
    parseWhen (fun x => Except.ok x) "x == \"(\" && y == 1".toList = .ok (.single "x == \"(\" && y == 1".toList) := by
  decide +kernel

/-- F-C04b (pre-fix pipeline): a string literal containing `;` is cut in two statements -/
theorem parseThen_strlit_semicolon_counterexample :
    statements "Y = \"a;b\";".toList = ["Y = \"a".toList, "b\"".toList] := by
  decide +kernel

/-- F-C04a/e before the fixes: `salience -5` was read as the default 0 and a number inside the quoted
description won; after the fixes both are read as written -/
theorem prefix_salience_negative_counterexample :
    extractSalienceOld "salience -5 ".toList = .ok 0 ∧ extractSalience "salience -5 ".toList = .ok (-5)
    ∧ extractSalienceOld "\"uses salience 99\" salience 3 ".toList = .ok 99
    ∧ extractSalience "\"uses salience 99\" salience 3 ".toList = .ok 3
    ∧ extractSalience "salience -2147483648 ".toList = .ok (-2147483648)
    ∧ extractSalience "salience 2147483648 ".toList = .error .parse := by
  decide +kernel

/-- the other attributes that may stand before and after `salience … agenda-group "…"` -/
inductive OAttr where
  | noLoop | lockOnActive | activationGroup (g : Str)

def OAttr.render : OAttr → Str
  | .noLoop => "no-loop ".toList
  | .lockOnActive => "lock-on-active ".toList
  | .activationGroup g => "activation-group \"".toList ++ g ++ "\" ".toList

def OAttr.Ok : OAttr → Prop
  | .activationGroup g => g ≠ [] ∧ ∀ c ∈ g, c ≠ '"' ∧ c ≠ '\n'
  | _ => True

/-- every attribute in every order (kept as a statement; NOT proved — exercised exhaustively by the
correspondence check over all 128 attribute subsets in shuffled orders).  The header goes through the
masking like every text, so group names are arbitrary (also `salience 9`, `agenda-group `, `{`). -/
def attributes_any_order_full (X : Ext) : Prop :=
  ∀ (sal : Int) (g : Str) (ps qs : List OAttr), -2147483648 ≤ sal → sal ≤ 2147483647 →
    (∀ c ∈ g, c ≠ '"' ∧ c ≠ '\n') → g ≠ [] → (∀ a ∈ ps ++ qs, a.Ok) →
    let header := ps.flatMap OAttr.render ++ "salience ".toList ++ intShow sal ++ " agenda-group \"".toList ++ g ++ "\" ".toList
      ++ qs.flatMap OAttr.render
    extractSalience (mask header) = .ok sal
    ∧ (parseAttrs X (lits header) (mask header)).map (·.agendaGroup) = .ok (some g)

/-! ### non-vacuity: concrete instances meeting the hypotheses -/

instance (s : Str) : Decidable (Edges s) := by unfold Edges; infer_instance

/-- the witnesses of the three `…_counterexample`s above, through the pipeline with the masking -/
theorem strlit_examples :
    parseWhen (fun x => Except.ok (unmask (lits "x == \"a && b\"".toList) x)) (mask "x == \"a && b\"".toList)
        = .ok (.single "x == \"a && b\"".toList)
    ∧ parseWhen (fun x => Except.ok (unmask (lits "x == \"(\" && y == 1".toList) x)) (mask "x == \"(\" && y == 1".toList)
        = .ok (.and (.single "x == \"(\"".toList) (.single "y == 1".toList))
    ∧ (statements (mask "Y = \"a;b\";".toList)).map (unmask (lits "Y = \"a;b\";".toList)) = ["Y = \"a;b\"".toList] := by
  decide +kernel

/-- `note == "go } then (stop && || ;"` — a leaf with every metacharacter in its literal -/
def exSegs : List Seg := [.code "note == ".toList, .lit '"' "go } then (stop && || ; it's".toList]

theorem exSegs_ok : ∀ x ∈ exSegs, x.Ok := by
  intro x hx
  simp only [exSegs, List.mem_cons, List.mem_nil_iff, or_false] at hx
  rcases hx with rfl | rfl
  · exact ⟨by intro c hc; revert c; decide, by intro c hc; revert c; decide⟩
  · exact ⟨Or.inl rfl, by intro c hc; revert c; decide⟩

theorem exSegs_opaque : OpaqueLeaf (renderSegs exSegs) :=
  ⟨exSegs, exSegs_ok, rfl,
    ⟨by decide +kernel, by decide +kernel, by decide +kernel, by decide +kernel, by decide +kernel, by decide +kernel,
     by decide +kernel, by decide +kernel⟩⟩

/-- `note == "go } then (stop && || ; it's" &&\n!note == "go } …"` -/
def exTreeO : LT := .and (.leaf (renderSegs exSegs)) [' '] ['\n'] (.not [] (.leaf (renderSegs exSegs)))

example : exTreeO.WFo := ⟨by decide, by decide, exSegs_opaque, ⟨Ws.nil, rfl, exSegs_opaque⟩, rfl, rfl⟩

example : parseWhen (fun x => Except.ok (unmask (lits exTreeO.render) x)) (mask exTreeO.render)
    = .ok (.and (.single "note == \"go } then (stop && || ; it's\"".toList)
                (.not (.single "note == \"go } then (stop && || ; it's\"".toList))) := by decide +kernel

/-- `msg = "a;b += c = d, e {"` as a statement -/
def exStmtSegs : List Seg := [.code "msg = ".toList, .lit '"' "a;b += c = d, e {".toList]

example : OpaqueStmt (renderSegs exStmtSegs) :=
  ⟨exStmtSegs, by
      intro x hx
      simp only [exStmtSegs, List.mem_cons, List.mem_nil_iff, or_false] at hx
      rcases hx with rfl | rfl
      · exact ⟨by intro c hc; revert c; decide, by intro c hc; revert c; decide⟩
      · exact ⟨Or.inl rfl, by intro c hc; revert c; decide⟩,
    rfl, by decide +kernel, by decide +kernel⟩

def exLeaf1 : Str := "User.Age >= 18".toList
def exLeaf2 : Str := "f(a, b) > 2".toList
def exLeaf3 : Str := "User.Country == \"US\"".toList


theorem exLeaf1_ok : LeafOk exLeaf1 := ⟨by decide +kernel, by decide +kernel, by decide +kernel, by decide +kernel, by decide +kernel, by decide +kernel, by decide +kernel, by decide +kernel⟩
theorem exLeaf2_ok : LeafOk exLeaf2 := ⟨by decide +kernel, by decide +kernel, by decide +kernel, by decide +kernel, by decide +kernel, by decide +kernel, by decide +kernel, by decide +kernel⟩
theorem exLeaf3_ok : LeafOk exLeaf3 := ⟨by decide +kernel, by decide +kernel, by decide +kernel, by decide +kernel, by decide +kernel, by decide +kernel, by decide +kernel, by decide +kernel⟩

/-- `!( a  ||  b )&&c` with a line break: an admissible layout of `(not (a or b)) and c` -/
def exTree : LT :=
  .and (.not [] (.paren [' '] [' '] (.or (.leaf exLeaf1) [' ', ' '] ['\n'] (.leaf exLeaf2)))) [] [] (.leaf exLeaf3)

example : exTree.WF :=
  ⟨Ws.nil, Ws.nil, ⟨Ws.nil, rfl, by decide, by decide, by decide, by decide, exLeaf1_ok, exLeaf2_ok, rfl⟩, exLeaf3_ok, rfl, rfl⟩

example : parseWhen (fun x => Except.ok x) exTree.render
    = .ok (.and (.not (.or (.single exLeaf1) (.single exLeaf2))) (.single exLeaf3)) := by decide +kernel

example : statements (renderStmts [([], "Y = 2".toList, [' ']), (['\n'], "log(\"x\")".toList, [])] [' ']) =
    ["Y = 2".toList, "log(\"x\")".toList] := by decide +kernel

/-! ## string literals are opaque inside an argument list -/

/-- **Argument lists.** `functionName(a, b, …) op value`, `test(functionName(a, b, …))` (and, with `parse_value` in place of
`unmask`, every action form with an argument list) cut the text between the parentheses out of the MASKED rule text, split it at
every comma, trim each piece and only then restore the literals.  For every list of one or more arguments, each any mixture of
code and string literals whose bodies are ARBITRARY (only the own quote character and a line break are excluded) — padded with
any white space, and trimmed / comma-free once the literals are emptied — the result is exactly the arguments that were
written, in order: a comma, a parenthesis, a quote of the other kind, `&&`, `;` … inside a literal never separates anything.
`pre` / `post`: the literals of the rule text before / after the list (the list is a slice of a larger masked text). -/
theorem splitArgs_strlit_opaque (T pre post : List Str) (a : Arg) (as : List Arg) (h : ∀ b ∈ a :: as, b.Ok)
    (hT : T = pre ++ litsArgs (a :: as) ++ post) :
    splitArgs T (joinComma (maskedArgsAt pre.length (a :: as))) = (a :: as).map fun b => renderSegs b.segs := by
  unfold splitArgs
  rw [joinComma_trim_ne pre.length a as (h a (by simp))]
  simp only [Bool.false_eq_true, if_false]
  have hs : splitCommaGo (joinComma (maskedArgsAt pre.length (a :: as))) [] = maskedArgsAt pre.length (a :: as) := by
    have hc := maskedArgsAt_no_comma pre.length (a :: as) h
    simp only [maskedArgsAt] at hc ⊢
    exact splitCommaGo_join _ _ hc
  rw [hs]
  exact maskedArgsAt_unmask T pre post (a :: as) h hT

/-- … and from the text as written: mask the rendered list, split, trim, unmask -/
theorem splitArgs_mask_render (a : Arg) (as : List Arg) (h : ∀ b ∈ a :: as, b.Ok) :
    splitArgs (lits (renderArgs (a :: as))) (mask (renderArgs (a :: as))) = (a :: as).map fun b => renderSegs b.segs := by
  obtain ⟨_, m, l⟩ := renderArgs_piece (a :: as) h
  unfold mask
  rw [m, l]
  exact splitArgs_strlit_opaque (litsArgs (a :: as)) [] [] a as h (by simp)

/-- the order matters: restoring the literals BEFORE the split (seeded change C04-9) makes the comma inside
`"red,green"` a separator -/
theorem splitArgs_unmask_first_counterexample :
    let src := "User.tags, \"red,green\"".toList
    splitArgs [] (unmask (lits src) (mask src)) = ["User.tags".toList, "\"red".toList, "green\"".toList]
    ∧ splitArgs (lits src) (mask src) = ["User.tags".toList, "\"red,green\"".toList] := by
  decide +kernel

/-- `containsAny( User.tags ,"red,green" , 'a) && (b;' )` — three arguments, commas / parentheses / `&&` / `;` inside literals -/
def exArgs : List Arg :=
  [⟨[' '], [.code "User.tags".toList], [' ']⟩, ⟨[], [.lit '"' "red,green".toList], [' ']⟩,
   ⟨[' '], [.lit '\'' "a) && (b;".toList], ['\t']⟩]

theorem exArgs_ok : ∀ a ∈ exArgs, a.Ok := by
  intro a ha
  simp only [exArgs, List.mem_cons, List.mem_nil_iff, or_false] at ha
  rcases ha with rfl | rfl | rfl <;>
    refine ⟨?_, by intro c hc; revert c; decide, by intro c hc; revert c; decide, by decide, by intro c hc; revert c; decide⟩ <;>
    intro x hx <;> simp only [List.mem_cons, List.mem_nil_iff, or_false] at hx <;> subst hx
  · exact ⟨by intro c hc; revert c; decide, by intro c hc; revert c; decide⟩
  · exact ⟨Or.inl rfl, by intro c hc; revert c; decide⟩
  · exact ⟨Or.inr rfl, by intro c hc; revert c; decide⟩

example : renderArgs exArgs = " User.tags ,\"red,green\" , 'a) && (b;'\t".toList := by decide +kernel

example : splitArgs (lits (renderArgs exArgs)) (mask (renderArgs exArgs))
    = ["User.tags".toList, "\"red,green\"".toList, "'a) && (b;'".toList] := by decide +kernel

end C04
