import RreModel.C04.Lemmas
/-
C04 — property theorems (only).  "Parsing GRL yields exactly the rules that were written."
The statements quantify over every condition tree, every admissible layout of it (`LT`: any white
space around every token, redundant parentheses anywhere) and every leaf parser.  Leaf texts are
restricted by `LeafOk` (balanced parentheses, no `&`/`|`, trimmed, not starting like a structural
form) — the hypothesis "string literals are metacharacter-free"; the `…_counterexample`s show that
each excluded case really fails in the model (replayed on the implementation: findings F-C04b).
-/
namespace C04

/-- **The splitter.** On any admissible rendering, `split_logical_operator` for `||` (`o = true`) or
`&&` (`o = false`, when there is no top-level `||`) returns exactly the renderings of the top-level
operands, trimmed — operators inside parentheses, `exists(…)`, `forall(…)` are not split points — and
`None` when there is no top-level occurrence. -/
theorem splitLogical_render (o : Bool) (t : LT) (h : t.WF) (hc : o = false → t.conjLevel = true) :
    splitLogical (opChar o) t.render =
      if ((t.kids o).map LT.render).length > 1 then some ((t.kids o).map LT.render) else none :=
  LT.splitLogical_render' o t h hc

/-- **Round trip of `parse_when_clause` (priority theorem).** For every condition tree, every
admissible layout `t` of it, every white space around it and every leaf parser `A` that accepts the
leaf texts, parsing the rendering returns exactly the tree that was written (`t.sem`: layout and
redundant parentheses erased), with `A`'s result at each leaf: `&&` binds tighter than `||`, both
associate to the left, parentheses, `!`, `exists(…)`, `forall(…)` are respected. -/
theorem parseWhen_render (A : Str → Except Err α) (g : Str → α) (t : LT) (h : t.WF)
    (hA : ∀ s ∈ t.leaves, A s = .ok (g s)) (a b : Str) (ha : Ws a) (hb : Ws b) :
    parseWhen A (a ++ t.render ++ b) = .ok (t.sem.map g) :=
  (parse_all A g t h hA).1 _ a b ha hb (by simp; omega)

/-- Precedence, spelled out on three opaque leaves: `x || y && z` is `x or (y and z)`,
`x && y || z` is `(x and y) or z`, and `(x || y) && z` is `(x or y) and z`. -/
theorem parseWhen_precedence (x y z : Str) (hx : LeafOk x) (hy : LeafOk y) (hz : LeafOk z) :
    parseWhen (fun s => .ok s) (x ++ " || ".toList ++ (y ++ " && ".toList ++ z)) = .ok (.or (.single x) (.and (.single y) (.single z)))
    ∧ parseWhen (fun s => .ok s) (x ++ " && ".toList ++ y ++ " || ".toList ++ z) = .ok (.or (.and (.single x) (.single y)) (.single z))
    ∧ parseWhen (fun s => .ok s) ('(' :: x ++ " || ".toList ++ y ++ ") && ".toList ++ z) = .ok (.and (.or (.single x) (.single y)) (.single z)) := by
  have sp : Ws [' '] := by intro c hc; simp at hc; subst hc; rfl
  refine ⟨?_, ?_, ?_⟩
  · have := parseWhen_render (fun s => Except.ok s) id (.or (.leaf x) [' '] [' '] (.and (.leaf y) [' '] [' '] (.leaf z)))
      ⟨sp, sp, hx, ⟨sp, sp, hy, hz, rfl, rfl⟩, rfl⟩ (by intro s _; rfl) [] [] Ws.nil Ws.nil
    simpa [LT.render, LT.sem, Cond.map] using this
  · have := parseWhen_render (fun s => Except.ok s) id (.or (.and (.leaf x) [' '] [' '] (.leaf y)) [' '] [' '] (.leaf z))
      ⟨sp, sp, ⟨sp, sp, hx, hy, rfl, rfl⟩, hz, rfl⟩ (by intro s _; rfl) [] [] Ws.nil Ws.nil
    simpa [LT.render, LT.sem, Cond.map] using this
  · have := parseWhen_render (fun s => Except.ok s) id (.and (.paren [] [] (.or (.leaf x) [' '] [' '] (.leaf y))) [' '] [' '] (.leaf z))
      ⟨sp, sp, ⟨Ws.nil, Ws.nil, sp, sp, hx, hy, rfl⟩, hz, rfl, rfl⟩ (by intro s _; rfl) [] [] Ws.nil Ws.nil
    simpa [LT.render, LT.sem, Cond.map] using this

/-- **Layout is irrelevant.** Two admissible layouts of the same condition tree — different white
space, line breaks (comments have become white space, see `stripComments`), redundant parentheses —
parse to the same result. -/
theorem parseWhen_layout_irrelevant (A : Str → Except Err α) (g : Str → α) (t₁ t₂ : LT)
    (h₁ : t₁.WF) (h₂ : t₂.WF) (hsem : t₁.sem = t₂.sem)
    (hA₁ : ∀ s ∈ t₁.leaves, A s = .ok (g s)) (hA₂ : ∀ s ∈ t₂.leaves, A s = .ok (g s))
    (a₁ b₁ a₂ b₂ : Str) (ha₁ : Ws a₁) (hb₁ : Ws b₁) (ha₂ : Ws a₂) (hb₂ : Ws b₂) :
    parseWhen A (a₁ ++ t₁.render ++ b₁) = parseWhen A (a₂ ++ t₂.render ++ b₂) := by
  rw [parseWhen_render A g t₁ h₁ hA₁ a₁ b₁ ha₁ hb₁, parseWhen_render A g t₂ h₂ hA₂ a₂ b₂ ha₂ hb₂, hsem]

/-- **Round trip of `parse_then_clause`.** For every list of statement texts without `;`, each
trimmed and non-empty, with any white space before and after each statement and after the last `;`,
the statements found are exactly those written, in order; so parsing is the statement parser mapped
over them. -/
theorem parseThen_render (P : Str → Except Err β) (xs : List (Str × Str × Str)) (w : Str) (hw : Ws w)
    (hx : ∀ x ∈ xs, Ws x.1 ∧ Ws x.2.2 ∧ Edges x.2.1 ∧ ∀ c ∈ x.2.1, c ≠ ';') :
    parseThenWith P (renderStmts xs w) = (xs.map (·.2.1)).mapM P := by
  unfold parseThenWith; rw [statements_render xs w hw hx]

/-- the full literal round trip: every literal class of the grammar (kept as a statement; the
integer and float classes are exercised by the correspondence check, incl. the i64 extremes) -/
def parseValue_renderLit_full (X : Ext) : Prop :=
  (∀ (q : Char) (s : Str), (q = '"' ∨ q = '\'') → parseValue X (q :: s ++ [q]) = .str s)
  ∧ (∀ i : Int, -9223372036854775808 ≤ i → i ≤ 9223372036854775807 → parseValue X (intShow i) = .int i)
  ∧ parseValue X "true".toList = .bool true ∧ parseValue X "false".toList = .bool false
  ∧ parseValue X "null".toList = .null

/-- **Literals (partial).** A quoted string that does not contain its own quote character is that
string, whatever else it contains (spaces, operators, comment markers, non-ASCII text, digits …);
`true`, `false`, `null` are the constants. -/
theorem parseValue_renderLit_partial (X : Ext) :
    (∀ (q : Char) (s : Str), (q = '"' ∨ q = '\'') → (∀ c ∈ s, c ≠ q) → parseValue X (q :: s ++ [q]) = .str s)
    ∧ parseValue X "true".toList = .bool true ∧ parseValue X "false".toList = .bool false
    ∧ parseValue X "null".toList = .null := by
  refine ⟨?_, rfl, rfl, rfl⟩
  intro q s hq hs
  have hqw : isWs q = false := by rcases hq with rfl | rfl <;> rfl
  have hed : Edges (q :: s ++ [q]) :=
    ⟨⟨q, rfl, hqw⟩, ⟨q, getLast_append_some _ _ q rfl, hqw⟩⟩
  have hnb : ((q :: s ++ [q]).head? == some '[') = false := by
    rcases hq with rfl | rfl <;> simp
  have hmem : q ∉ s := fun hm => hs q hm rfl
  have hinner : ((q :: s ++ [q]).drop 1).dropLast = s := by simp [List.dropLast_concat]
  have hlast : (q :: s ++ [q]).getLast? = some q := getLast_append_some _ _ q rfl
  have hlen : (q :: s ++ [q]).length ≥ 2 := by simp
  have key : parseScalar X (q :: s ++ [q]) = .str s := by
    unfold parseScalar
    simp only [hinner, hlast]
    rcases hq with rfl | rfl
    · simp [hmem]
    · simp [hmem]
  unfold parseValue
  cases hf : (q :: s ++ [q]).length with
  | zero => simp at hf
  | succ n =>
    simp only [parseValueF]
    rw [trim_self hed, hnb]
    simpa using key

/-- a string literal that contains its own quote character is not read back as written -/
theorem parseValue_string_counterexample :
    ¬ parseValue_renderLit_full ⟨fun _ => none, fun _ => 0, fun _ => [], fun _ => none⟩ := by
  intro h
  have := congrArg Value.strText (h.1 '"' "a\" + \"b".toList (Or.inl rfl))
  revert this
  decide +kernel

/-- the statement of the round trip without the hypothesis on leaf texts: every trimmed text that
does not start like a structural form is an opaque leaf -/
def parseWhen_leaf_full : Prop :=
  ∀ s : Str, Edges s → s.head? ≠ some '(' → s.head? ≠ some '!' → parseWhen (fun x => .ok x) s = .ok (.single s)

/-- F-C04b: a string literal containing `&&` is split — the leaf `x == "a && b"` comes back as a conjunction -/
theorem parseWhen_strlit_and_counterexample : ¬ parseWhen_leaf_full := by
  intro h
  have := h "x == \"a && b\"".toList ⟨⟨'x', rfl, rfl⟩, ⟨'"', rfl, rfl⟩⟩ (by decide) (by decide)
  revert this
  decide +kernel

/-- F-C04b: an unbalanced parenthesis inside a string literal hides a following `&&` -/
theorem parseWhen_strlit_paren_counterexample :
    parseWhen (fun x => Except.ok x) "x == \"(\" && y == 1".toList = .ok (.single "x == \"(\" && y == 1".toList) := by
  decide +kernel

/-- F-C04b: a string literal containing `;` is cut in two statements -/
theorem parseThen_strlit_semicolon_counterexample :
    statements "Y = \"a;b\";".toList = ["Y = \"a".toList, "b\"".toList] := by
  decide +kernel

/-- F-C04a/e before the fixes: `salience -5` was read as the default 0 and a number inside the quoted
description won; after the fixes both are read as written -/
theorem prefix_salience_negative_counterexample :
    extractSalienceOld "salience -5 ".toList = .ok 0 ∧ extractSalience "salience -5 ".toList = .ok (-5)
    ∧ extractSalienceOld "\"uses salience 99\" salience 3 ".toList = .ok 99
    ∧ extractSalience "\"uses salience 99\" salience 3 ".toList = .ok 3
    ∧ extractSalience "salience -2147483648 ".toList = .ok (-2147483648)
    ∧ extractSalience "salience 2147483648 ".toList = .error .parse := by
  decide +kernel

/-- every attribute in every order: kept as a statement (exercised exhaustively by the correspondence
check over all 128 attribute subsets in shuffled orders; not proved) -/
def attributes_any_order_full (X : Ext) : Prop :=
  ∀ (sal : Int) (g : Str) (pre post : Str), -2147483648 ≤ sal → sal ≤ 2147483647 →
    (∀ c ∈ g, c ≠ '"') → g ≠ [] →
    extractSalience (pre ++ "salience ".toList ++ intShow sal ++ " agenda-group \"".toList ++ g ++ "\" ".toList ++ post) = .ok sal
    ∧ (parseAttrs X (pre ++ "salience ".toList ++ intShow sal ++ " agenda-group \"".toList ++ g ++ "\" ".toList ++ post)).map (·.agendaGroup) = .ok (some g)

/-! ### non-vacuity: concrete instances meeting the hypotheses -/

def exLeaf1 : Str := "User.Age >= 18".toList
def exLeaf2 : Str := "f(a, b) > 2".toList
def exLeaf3 : Str := "User.Country == \"US\"".toList

instance (s : Str) : Decidable (Edges s) := by unfold Edges; infer_instance

theorem exLeaf1_ok : LeafOk exLeaf1 := ⟨by decide +kernel, by decide +kernel, by decide +kernel, by decide +kernel, by decide +kernel, by decide +kernel, by decide +kernel, by decide +kernel⟩
theorem exLeaf2_ok : LeafOk exLeaf2 := ⟨by decide +kernel, by decide +kernel, by decide +kernel, by decide +kernel, by decide +kernel, by decide +kernel, by decide +kernel, by decide +kernel⟩
theorem exLeaf3_ok : LeafOk exLeaf3 := ⟨by decide +kernel, by decide +kernel, by decide +kernel, by decide +kernel, by decide +kernel, by decide +kernel, by decide +kernel, by decide +kernel⟩

/-- `!( a  ||  b )&&c` with a line break: an admissible layout of `(not (a or b)) and c` -/
def exTree : LT :=
  .and (.not [] (.paren [' '] [' '] (.or (.leaf exLeaf1) [' ', ' '] ['\n'] (.leaf exLeaf2)))) [] [] (.leaf exLeaf3)

example : exTree.WF :=
  ⟨Ws.nil, Ws.nil, ⟨Ws.nil, rfl, by decide, by decide, by decide, by decide, exLeaf1_ok, exLeaf2_ok, rfl⟩, exLeaf3_ok, rfl, rfl⟩

example : parseWhen (fun x => Except.ok x) exTree.render
    = .ok (.and (.not (.or (.single exLeaf1) (.single exLeaf2))) (.single exLeaf3)) := by decide +kernel

example : statements (renderStmts [([], "Y = 2".toList, [' ']), (['\n'], "log(\"x\")".toList, [])] [' ']) =
    ["Y = 2".toList, "log(\"x\")".toList] := by decide +kernel

end C04
