import RreModel.C04.Theorems2
/-
C04 — whole files, lemmas: the masked form of a rendered rule / file (`mrender`, `mfileTail`), the rule splitter
(`rule_split_regex` + `find_iter`, model `splitRules`) and the header / body / when-then captures
(`rule_regex`, `when_then_regex`, models `matchRuleAt`, `matchWhenAt`/`lazyThen`) on them.
-/
namespace C04

/-! ## the masked text of a rule -/

def RuleSrc.nA (n : Nat) (r : RuleSrc) : Nat := n + r.nameLits.length
def RuleSrc.nC (n : Nat) (r : RuleSrc) : Nat := r.nA n + (litsAttrs r.attrs).length
def RuleSrc.nS (n : Nat) (r : RuleSrc) : Nat := r.nC n + r.cond.cnt
def RuleSrc.lits (r : RuleSrc) : List Str :=
  r.nameLits ++ litsAttrs r.attrs ++ C04.lits r.cond.render ++ r.stmts.flatMap fun x => C04.lits x.2.1

/-- the rule text after `mask_string_literals` when `n` table entries precede it -/
def RuleSrc.mrender (n : Nat) (r : RuleSrc) : Str :=
  sRule ++ r.w0 ++ r.mnameText n ++ r.w1 ++ mattrs (r.nA n) r.attrs ++ sOpen ++ r.w2 ++ sWhen ++ r.w3
    ++ (r.cond.maskAt (r.nC n)).render ++ r.w4 ++ sThen ++ r.w5 ++ renderStmts (maskStmtsAt (r.nS n) r.stmts) r.w6 ++ sClose

/-- the layout and the grammar-level content are admissible (string literal bodies, names, group names are ARBITRARY
but for their own quote character and a line break) -/
structure RuleSrc.Ok (r : RuleSrc) : Prop where
  name : if r.quoted then r.name ≠ [] ∧ ∀ c ∈ r.name, c ≠ '"' ∧ c ≠ '\n'
         else (∃ c cs, r.name = c :: cs ∧ isIdStart c = true) ∧ ∀ c ∈ r.name, isWord c = true
  w0 : Ws r.w0 ∧ r.w0 ≠ []
  w1 : Ws r.w1 ∧ r.w1 ≠ []
  attrs : ∀ a ∈ r.attrs, a.Ok
  w2 : Ws r.w2
  w3 : Ws r.w3 ∧ r.w3 ≠ []
  cond : r.cond.WFo
  w4 : Ws r.w4 ∧ r.w4 ≠ []
  w5 : Ws r.w5 ∧ r.w5 ≠ []
  stmts : r.stmts ≠ [] ∧ ∀ x ∈ r.stmts, Ws x.1 ∧ Ws x.2.2 ∧ OpaqueStmt x.2.1
  w6 : Ws r.w6

theorem isWord_quoteFree {s : Str} (h : ∀ c ∈ s, isWord c = true) : QuoteFree s := by
  intro c hc
  have := h c hc
  constructor <;> (intro e; subst e; revert this; decide)

theorem quoteFree_kw : QuoteFree sRule ∧ QuoteFree sOpen ∧ QuoteFree sWhen ∧ QuoteFree sThen ∧ QuoteFree sClose := by
  refine ⟨?_, ?_, ?_, ?_, ?_⟩ <;> (intro c hc; revert c; decide)

theorem RuleSrc.name_piece (r : RuleSrc) (h : r.Ok) : Piece r.nameText (fun n => r.mnameText n) r.nameLits := by
  have hn := h.name
  unfold RuleSrc.nameText RuleSrc.mnameText RuleSrc.nameLits
  by_cases hq : r.quoted = true
  · simp only [hq, if_true] at hn ⊢
    have pl : Piece (Seg.lit '"' r.name).render (fun n => (Seg.lit '"' r.name).maskedAt n) (Seg.lit '"' r.name).lits :=
      Seg.closed _ ⟨Or.inl rfl, hn.2⟩
    refine pl.congr (fun n => rfl) ?_
    cases hv : r.name with
    | nil => exact absurd hv hn.1
    | cons c cs => simp [Seg.lits]
  · have hq' : r.quoted = false := by simpa using hq
    simp only [hq', Bool.false_eq_true, if_false] at hn ⊢
    exact Piece.code (isWord_quoteFree hn.2)

/-- **masking a rule** masks the name, the attribute values, the condition leaves and the statements — each at its offset —
and nothing else -/
theorem RuleSrc.render_piece (r : RuleSrc) (h : r.Ok) : Piece r.render (fun n => r.mrender n) r.lits := by
  obtain ⟨q1, q2, q3, q4, q5⟩ := quoteFree_kw
  have c := fun {w : Str} (hw : Ws w) => Piece.code hw.quoteFree
  have p := (((((((((((((((Piece.code q1).append (c h.w0.1)).append (r.name_piece h)).append (c h.w1.1)).append
    (renderAttrs_piece r.attrs h.attrs)).append (Piece.code q2)).append (c h.w2)).append (Piece.code q3)).append (c h.w3.1)).append
    (LT.render_masked r.cond h.cond)).append (c h.w4.1)).append (Piece.code q4)).append (c h.w5.1)).append
    (renderStmts_masked r.stmts r.w6 h.w6 h.stmts.2)).append (Piece.code q5))
  refine p.congr (fun n => ?_) ?_
  · simp [RuleSrc.mrender, RuleSrc.nA, RuleSrc.nC, RuleSrc.nS, LT.cnt, Nat.add_assoc]
  · simp [RuleSrc.lits]

/-! ## files -/

def mblocks : Nat → List (RuleSrc × Str) → List Str
  | _, [] => []
  | n, x :: xs => x.1.mrender n :: mblocks (n + x.1.lits.length) xs

def mfileTail : Nat → List (RuleSrc × Str) → Str
  | _, [] => []
  | n, x :: xs => x.1.mrender n ++ x.2 ++ mfileTail (n + x.1.lits.length) xs

def litsFile (rs : List (RuleSrc × Str)) : List Str := rs.flatMap fun x => x.1.lits

theorem renderFile_piece (g0 : Str) (rs : List (RuleSrc × Str)) (hg : Ws g0) (h : ∀ x ∈ rs, x.1.Ok ∧ Ws x.2) :
    Piece (renderFile g0 rs) (fun n => g0 ++ mfileTail n rs) (litsFile rs) := by
  have key : Piece (rs.flatMap fun x => x.1.render ++ x.2) (fun n => mfileTail n rs) (litsFile rs) := by
    induction rs with
    | nil => exact ⟨MaskClosed.nil, fun _ => rfl, rfl⟩
    | cons x xs ih =>
      obtain ⟨h1, h2⟩ := h x (by simp)
      have p := ((x.1.render_piece h1).append (Piece.code h2.quoteFree)).append (ih (fun y hy => h y (by simp [hy])))
      simp only [List.flatMap_cons, litsFile] at *
      exact p.congr (fun n => by simp [mfileTail]) (by simp)
  exact ((Piece.code hg.quoteFree).append key).congr (fun n => by simp) (by simp)


/-! ## the rule splitter -/

theorem sRule_eq : sRule = ['r', 'u', 'l', 'e'] := by decide
theorem sWhen_eq : sWhen = ['w', 'h', 'e', 'n'] := by decide
theorem sThen_eq : sThen = ['t', 'h', 'e', 'n'] := by decide

theorem isWs_ne {c : Char} (h : isWs c = true) : c ≠ 'r' ∧ c ≠ 'w' ∧ c ≠ 't' ∧ c ≠ '{' ∧ c ≠ '}' ∧ c ≠ '"' := by
  refine ⟨?_, ?_, ?_, ?_, ?_, ?_⟩ <;> (intro e; subst e; revert h; decide)

theorem matchRuleHeadAt_ws (c : Char) (cs : Str) (h : isWs c = true) : matchRuleHeadAt (c :: cs) = none := by
  unfold matchRuleHeadAt startsWith
  rw [sRule_eq]
  have : ('r' == c) = false := by simpa using (isWs_ne h).1.symm
  simp [List.isPrefixOf, this]

theorem splitRulesF_ws (w rest : Str) (hw : Ws w) (f : Nat) :
    splitRulesF (f + w.length) (w ++ rest) = splitRulesF f rest := by
  induction w with
  | nil => rfl
  | cons c cs ih =>
    have hc := hw c (by simp)
    have e : f + (c :: cs).length = (f + cs.length) + 1 := by simp; omega
    rw [e]
    simp only [List.cons_append, splitRulesF, matchRuleHeadAt_ws c _ hc]
    exact ih (fun d hd => hw d (by simp [hd]))

theorem splitRulesF_ws_only (w : Str) (hw : Ws w) (f : Nat) : splitRulesF f w = [] := by
  induction w generalizing f with
  | nil => cases f <;> rfl
  | cons c cs ih =>
    cases f with
    | zero => rfl
    | succ f =>
      simp only [splitRulesF, matchRuleHeadAt_ws c _ (hw c (by simp))]
      exact ih (fun d hd => hw d (by simp [hd])) f

theorem splitRulesF_block (f : Nat) (head body rest : Str) (nm : Str)
    (hh : matchRuleHeadAt (head ++ (body ++ '}' :: rest)) = some (nm, body ++ '}' :: rest))
    (hb : ∀ c ∈ body, c ≠ '}') (hne : head ≠ []) :
    splitRulesF (f + 1) (head ++ (body ++ '}' :: rest)) = (head ++ body ++ ['}']) :: splitRulesF f rest := by
  obtain ⟨h0, ht, rfl⟩ : ∃ h0 ht, head = h0 :: ht := by
    cases head with
    | nil => exact absurd rfl hne
    | cons a b => exact ⟨a, b, rfl⟩
  have t := takeWhile_stop (· != '}') body '}' rest (fun c hc => by simpa using hb c hc) (by simp)
  have hc : (body ++ '}' :: rest).contains '}' = true := by simp
  have hl : (h0 :: ht ++ (body ++ '}' :: rest)).length - (body ++ '}' :: rest).length = (h0 :: ht).length := by
    simp only [List.length_append, List.length_cons]; omega
  have htk : (h0 :: ht ++ (body ++ '}' :: rest)).take (h0 :: ht).length = h0 :: ht := List.take_left
  simp only [List.cons_append] at hh hl htk ⊢
  simp only [splitRulesF, hh, hc, if_true, t.1, t.2, hl, htk, List.drop_one, List.tail_cons]
  simp

/-- what must hold of the code (the text outside string literals) of the condition and the statements: no `}` and no
` then ` — stated on the masked text, i.e. the text with every literal body replaced by its digits-only placeholder -/
def ThenFree (s : Str) : Prop :=
  ∀ a b rest, s = a ++ b → b ≠ [] → (∃ c t, rest = c :: t ∧ isWs c = true) → matchThenAt (b ++ rest) = none

structure RuleSrc.CodeOk (n : Nat) (r : RuleSrc) : Prop where
  brace : ∀ c ∈ (r.cond.maskAt (r.nC n)).render ++ renderStmts (maskStmtsAt (r.nS n) r.stmts) r.w6, c ≠ '}'
  thenFree : ThenFree (r.cond.maskAt (r.nC n)).render

def RuleSrc.mhead (n : Nat) (r : RuleSrc) : Str := sRule ++ (r.w0 ++ r.mnameText n)
def RuleSrc.mbodyIn (n : Nat) (r : RuleSrc) : Str :=
  r.w2 ++ (sWhen ++ (r.w3 ++ ((r.cond.maskAt (r.nC n)).render ++ (r.w4 ++ (sThen ++ (r.w5 ++ renderStmts (maskStmtsAt (r.nS n) r.stmts) r.w6))))))
def RuleSrc.mbody (n : Nat) (r : RuleSrc) : Str := r.w1 ++ (mattrs (r.nA n) r.attrs ++ ('{' :: r.mbodyIn n))
/-- the name the header capture reports (masked) -/
def RuleSrc.mname (n : Nat) (r : RuleSrc) : Str := if r.quoted then maskBodyAt n r.name else r.name

theorem RuleSrc.mrender_eq (n : Nat) (r : RuleSrc) : r.mrender n = r.mhead n ++ (r.mbody n ++ '}' :: []) := by
  simp [RuleSrc.mrender, RuleSrc.mhead, RuleSrc.mbody, RuleSrc.mbodyIn, sOpen, sClose, List.append_assoc]

theorem AKind.kw_noBrace (k : AKind) : ∀ c ∈ k.kw, c ≠ '{' ∧ c ≠ '}' := by
  cases k <;> (intro c hc; revert c; decide)

theorem mattrs_noBrace (n : Nat) (as : List HAttr) (has : ∀ a ∈ as, a.Ok) : ∀ c ∈ mattrs n as, c ≠ '{' ∧ c ≠ '}' := by
  induction as generalizing n with
  | nil => intro c hc; simp [mattrs] at hc
  | cons a as ih =>
    intro c hc
    simp only [mattrs, List.mem_append] at hc
    rcases hc with (hc | hc) | hc
    · exact AKind.kw_noBrace _ c hc
    · have := (a.mtail_kinert n (has a (by simp)) c hc).ne
      exact ⟨this.2.2.2.2.2.2.2.1, this.2.2.2.2.2.2.2.2⟩
    · exact ih _ (fun b hb => has b (by simp [hb])) c hc

theorem RuleSrc.mbodyIn_noBrace (n : Nat) (r : RuleSrc) (h : r.Ok) (hc : r.CodeOk n) : ∀ c ∈ r.mbodyIn n, c ≠ '}' := by
  intro c hm
  simp only [RuleSrc.mbodyIn, List.mem_append] at hm
  rcases hm with hm | hm | hm | hm | hm | hm | hm | hm
  · exact (isWs_ne (h.w2 c hm)).2.2.2.2.1
  · rw [sWhen_eq] at hm; revert c; decide
  · exact (isWs_ne (h.w3.1 c hm)).2.2.2.2.1
  · exact hc.brace c (by simp [hm])
  · exact (isWs_ne (h.w4.1 c hm)).2.2.2.2.1
  · rw [sThen_eq] at hm; revert c; decide
  · exact (isWs_ne (h.w5.1 c hm)).2.2.2.2.1
  · exact hc.brace c (by simp [hm])

theorem RuleSrc.mbody_noBrace (n : Nat) (r : RuleSrc) (h : r.Ok) (hc : r.CodeOk n) : ∀ c ∈ r.mbody n, c ≠ '}' := by
  intro c hm
  simp only [RuleSrc.mbody, List.mem_append, List.mem_cons] at hm
  rcases hm with hm | hm | hm | hm
  · exact (isWs_ne (h.w1.1 c hm)).2.2.2.2.1
  · exact (mattrs_noBrace _ _ h.attrs c hm).2
  · subst hm; decide
  · exact r.mbodyIn_noBrace n h hc c hm

theorem isIdStart_ne {c : Char} (h : isIdStart c = true) : c ≠ '"' ∧ isWs c = false := by
  constructor
  · intro e; subst e; revert h; decide
  · cases hw : isWs c with
    | false => rfl
    | true =>
      rcases List.mem_cons.mp (isWs_cases hw) with rfl | h'
      · revert h; decide
      · simp only [List.mem_cons, List.mem_nil_iff, or_false] at h'
        rcases h' with rfl | rfl | rfl <;> (revert h; decide)

/-- `rule\s+NAME` at the start of a rendered rule: the name, and the rest right after it -/
theorem RuleSrc.head_match (n : Nat) (r : RuleSrc) (h : r.Ok) (x : Str) (hx : ∃ c t, x = c :: t ∧ isWs c = true) :
    matchRuleHeadAt (r.mhead n ++ x) = some (r.mname n, x) := by
  obtain ⟨c0, t0, rfl, hc0⟩ := hx
  have hw0 : (r.w0.isEmpty) = false := by
    cases hw : r.w0 with
    | nil => exact absurd hw h.w0.2
    | cons _ _ => rfl
  unfold matchRuleHeadAt RuleSrc.mhead
  have hd : (sRule ++ (r.w0 ++ r.mnameText n) ++ c0 :: t0).drop 4 = r.w0 ++ (r.mnameText n ++ c0 :: t0) := by
    have : sRule.length = 4 := rfl
    rw [List.append_assoc, ← this, List.drop_left, List.append_assoc]
  have hs : startsWith (sRule ++ (r.w0 ++ r.mnameText n) ++ c0 :: t0) sRule = true := by
    rw [List.append_assoc]; exact startsWith_append _ _
  simp only [hs, Bool.not_true, Bool.false_eq_true, if_false, hd]
  have hn := h.name
  unfold RuleSrc.mnameText RuleSrc.mname
  by_cases hq : r.quoted = true
  · simp only [hq, if_true] at hn ⊢
    have t1 := takeWhile_stop isWs r.w0 '"' (maskBodyAt n r.name ++ ['"'] ++ c0 :: t0) h.w0.1 (by decide)
    simp only [List.cons_append, List.append_assoc] at t1 ⊢
    rw [t1.1, t1.2]
    simp only [hw0, Bool.false_eq_true, if_false, takeRuleName]
    have t2 := takeWhile_stop (· != '"') (maskBodyAt n r.name) '"' (c0 :: t0)
      (fun c hc => by simpa using maskBodyAt_noQuote n r.name c hc) (by simp)
    simp only [List.nil_append] at t2 ⊢
    rw [t2.1, t2.2]
    have : (maskBodyAt n r.name).isEmpty = false := by
      unfold maskBodyAt
      cases hv : r.name with
      | nil => exact absurd hv hn.1
      | cons _ _ => simp
    simp [this]
  · have hq' : r.quoted = false := by simpa using hq
    simp only [hq', Bool.false_eq_true, if_false] at hn ⊢
    obtain ⟨⟨c, cs, hname, hid⟩, hword⟩ := hn
    have t1 : (r.w0 ++ (r.name ++ c0 :: t0)).takeWhile isWs = r.w0 ∧ (r.w0 ++ (r.name ++ c0 :: t0)).dropWhile isWs = r.name ++ c0 :: t0 := by
      rw [hname]; exact takeWhile_stop isWs r.w0 c _ h.w0.1 (isIdStart_ne hid).2
    rw [t1.1, t1.2]
    simp only [hw0, Bool.false_eq_true, if_false]
    have t2 := takeWhile_stop isWord r.name c0 t0 hword (isWord_ws_false hc0)
    rw [hname] at t2 ⊢
    simp only [List.cons_append] at t2 ⊢
    unfold takeRuleName
    split
    · rename_i heq; simp at heq; exact absurd heq.1 (isIdStart_ne hid).1
    · simp only [takeIdent, hid, if_true, t2.1, t2.2]

/-- **The rule splitter.** On the masked text of a rendered file — white space `g0`, then every rule followed by its gap —
`rule_split_regex` + `find_iter` return exactly the masked rule texts: one per rule, in source order, each from its
`rule` keyword to its closing `}`; nothing of a neighbouring rule or of a gap. -/
theorem splitRulesF_file (rs : List (RuleSrc × Str)) (n : Nat) (g0 : Str) (hg : Ws g0)
    (h : ∀ x ∈ rs, x.1.Ok ∧ Ws x.2 ∧ x.2 ≠ []) (hc : ∀ k, ∀ x ∈ rs, x.1.CodeOk k) (f : Nat)
    (hf : (g0 ++ mfileTail n rs).length < f) :
    splitRulesF f (g0 ++ mfileTail n rs) = mblocks n rs := by
  induction rs generalizing n g0 f with
  | nil => simp only [mfileTail, List.append_nil, mblocks]; exact splitRulesF_ws_only g0 hg f
  | cons x xs ih =>
    obtain ⟨h1, h2, h2n⟩ := h x (by simp)
    have hck := hc n x (by simp)
    obtain ⟨g1, gt, hgap, hg1⟩ : ∃ c t, x.2 = c :: t ∧ isWs c = true := by
      cases hx : x.2 with
      | nil => exact absurd hx h2n
      | cons c t => exact ⟨c, t, rfl, h2 c (by simp [hx])⟩
    simp only [mfileTail, mblocks]
    rw [x.1.mrender_eq n]
    -- skip the gap before the rule
    have hlen : (g0 ++ (x.1.mhead n ++ (x.1.mbody n ++ ['}']) ++ x.2 ++ mfileTail (n + x.1.lits.length) xs)).length < f := by
      simpa [mfileTail, x.1.mrender_eq n] using hf
    obtain ⟨f', rfl⟩ : ∃ f', f = (f' + 1) + g0.length := ⟨f - g0.length - 1, by simp at hlen; omega⟩
    rw [splitRulesF_ws g0 _ hg]
    have e : x.1.mhead n ++ (x.1.mbody n ++ ['}']) ++ x.2 ++ mfileTail (n + x.1.lits.length) xs
        = x.1.mhead n ++ (x.1.mbody n ++ '}' :: (x.2 ++ mfileTail (n + x.1.lits.length) xs)) := by simp
    rw [e]
    have hm : matchRuleHeadAt (x.1.mhead n ++ (x.1.mbody n ++ '}' :: (x.2 ++ mfileTail (n + x.1.lits.length) xs)))
        = some (x.1.mname n, x.1.mbody n ++ '}' :: (x.2 ++ mfileTail (n + x.1.lits.length) xs)) := by
      apply x.1.head_match n h1
      obtain ⟨c, t, hw, hcw⟩ : ∃ c t, x.1.w1 = c :: t ∧ isWs c = true := by
        cases hx : x.1.w1 with
        | nil => exact absurd hx h1.w1.2
        | cons c t => exact ⟨c, t, rfl, h1.w1.1 c (by simp [hx])⟩
      refine ⟨c, t ++ (mattrs (x.1.nA n) x.1.attrs ++ ('{' :: x.1.mbodyIn n)) ++ '}' :: (x.2 ++ mfileTail (n + x.1.lits.length) xs), ?_, hcw⟩
      simp [RuleSrc.mbody, hw]
    rw [splitRulesF_block f' _ _ _ _ hm (x.1.mbody_noBrace n h1 hck) (by simp [RuleSrc.mhead, sRule_eq])]
    congr 1
    · simp
    · apply ih (n + x.1.lits.length) x.2 h2 (fun y hy => h y (by simp [hy])) (fun k y hy => hc k y (by simp [hy]))
      simp only [List.length_append, List.length_cons] at hlen ⊢
      omega

end C04
