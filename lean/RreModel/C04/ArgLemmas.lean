import RreModel.C04.MaskLemmas
/-
C04 — lemmas about argument lists (`splitArgs`: the `args_str.split(',').map(|a| self.unmask(a.trim()))` of the function-call
and `test(...)` leaves of `parse_single_condition`; the same split-then-trim runs in `parse_function_args_as_params`,
`parse_method_args` and the `ScheduleRule` branch): splitting the MASKED argument list at commas returns the arguments that
were written, whatever the bodies of their string literals contain.  Core Lean only.
-/
namespace C04

/-- one argument as written: white space, code and string-literal segments, white space -/
structure Arg where
  wl : Str
  segs : List Seg
  wr : Str
deriving Repr

/-- admissible: the segments are well formed (literal bodies ARBITRARY except for the own quote and a line break), the padding is
white space, and the argument with EMPTIED literals is trimmed, non-empty and has no comma -/
def Arg.Ok (a : Arg) : Prop :=
  (∀ x ∈ a.segs, x.Ok) ∧ Ws a.wl ∧ Ws a.wr ∧ Edges (blankSegs a.segs) ∧ ∀ c ∈ blankSegs a.segs, c ≠ ','

/-- as written -/
def Arg.render (a : Arg) : Str := a.wl ++ renderSegs a.segs ++ a.wr
/-- after the masking, when `n` literals came before -/
def Arg.maskedAt (n : Nat) (a : Arg) : Str := a.wl ++ maskedSegsAt n a.segs ++ a.wr

def joinComma : List Str → Str
  | [] => []
  | [x] => x
  | x :: y :: r => x ++ ',' :: joinComma (y :: r)

/-- the argument list as written -/
def renderArgs (as : List Arg) : Str := joinComma (as.map Arg.render)

/-- the masked argument list, when `n` literals came before -/
def maskedArgsAt : Nat → List Arg → List Str
  | _, [] => []
  | n, a :: as => a.maskedAt n :: maskedArgsAt (n + (litsSegs a.segs).length) as

def litsArgs (as : List Arg) : List Str := as.flatMap fun a => litsSegs a.segs

theorem InertChar.ne_comma {c : Char} (h : InertChar c) : c ≠ ',' := by
  rcases h with h | h | h
  · subst h; decide
  · subst h; decide
  · intro e; subst e; revert h; decide

theorem splitCommaGo_acc (x r cur : Str) (hx : ∀ c ∈ x, c ≠ ',') :
    splitCommaGo (x ++ r) cur = splitCommaGo r (cur ++ x) := by
  induction x generalizing cur with
  | nil => simp
  | cons c cs ih =>
    have hc : (c == ',') = false := by simpa using hx c (by simp)
    simp only [List.cons_append, splitCommaGo, hc, Bool.false_eq_true, if_false]
    rw [ih _ (fun d hd => hx d (by simp [hd]))]
    simp

/-- splitting a comma-joined list of comma-free pieces returns the pieces -/
theorem splitCommaGo_join (x : Str) (xs : List Str) (h : ∀ y ∈ x :: xs, ∀ c ∈ y, c ≠ ',') :
    splitCommaGo (joinComma (x :: xs)) [] = x :: xs := by
  induction xs generalizing x with
  | nil =>
    have := splitCommaGo_acc x [] [] (h x (by simp))
    simpa [joinComma, splitCommaGo] using this
  | cons y ys ih =>
    simp only [joinComma]
    rw [splitCommaGo_acc x _ [] (h x (by simp))]
    simp only [splitCommaGo, beq_self_eq_true, if_true, List.nil_append]
    rw [ih y (fun z hz => h z (by simp at hz ⊢; exact Or.inr hz))]

theorem Arg.masked_no_comma (n : Nat) (a : Arg) (h : a.Ok) : ∀ c ∈ a.maskedAt n, c ≠ ',' := by
  obtain ⟨_, hl, hr, _, hc⟩ := h
  intro c hm
  simp only [Arg.maskedAt, List.mem_append] at hm
  rcases hm with (hm | hm) | hm
  · intro e; subst e; have := hl _ hm; revert this; decide
  · rcases maskedSegsAt_mem n a.segs hm with h1 | h1
    · exact hc c h1
    · exact h1.ne_comma
  · intro e; subst e; have := hr _ hm; revert this; decide

theorem Arg.masked_edges (n : Nat) (a : Arg) (h : a.Ok) : Edges (maskedSegsAt n a.segs) := by
  obtain ⟨_, _, _, he, _⟩ := h
  unfold Edges
  rw [maskedSegsAt_head, maskedSegsAt_getLast]
  exact he

theorem Arg.trim_masked (n : Nat) (a : Arg) (h : a.Ok) : trim (a.maskedAt n) = maskedSegsAt n a.segs :=
  trim_pad a.wl _ a.wr h.2.1 h.2.2.1 (a.masked_edges n h)

theorem maskedArgsAt_no_comma (n : Nat) (as : List Arg) (h : ∀ a ∈ as, a.Ok) :
    ∀ y ∈ maskedArgsAt n as, ∀ c ∈ y, c ≠ ',' := by
  induction as generalizing n with
  | nil => intro y hy; simp [maskedArgsAt] at hy
  | cons a as ih =>
    intro y hy
    simp only [maskedArgsAt, List.mem_cons] at hy
    rcases hy with rfl | hy
    · exact a.masked_no_comma n (h a (by simp))
    · exact ih _ (fun b hb => h b (by simp [hb])) y hy

/-- every masked argument is restored by `unmask` after the trim -/
theorem maskedArgsAt_unmask (T pre post : List Str) (as : List Arg) (h : ∀ a ∈ as, a.Ok)
    (hT : T = pre ++ litsArgs as ++ post) :
    (maskedArgsAt pre.length as).map (fun m => unmask T (trim m)) = as.map fun a => renderSegs a.segs := by
  induction as generalizing pre with
  | nil => rfl
  | cons a as ih =>
    have ha := h a (by simp)
    have e : litsArgs (a :: as) = litsSegs a.segs ++ litsArgs as := by simp [litsArgs]
    have ih' := ih (pre ++ litsSegs a.segs) (fun b hb => h b (by simp [hb])) (by rw [hT, e]; simp [List.append_assoc])
    simp only [List.length_append] at ih'
    simp only [maskedArgsAt, List.map_cons]
    rw [ih', a.trim_masked _ ha,
      unmask_maskedSegsAt T pre (litsArgs as ++ post) a.segs ha.1 (by rw [hT, e]; simp [List.append_assoc])]

theorem dropWhile_ne_nil_of_mem (p : Char → Bool) (l : Str) (d : Char) (hd : d ∈ l) (hp : p d = false) :
    l.dropWhile p ≠ [] := by
  induction l with
  | nil => simp at hd
  | cons x xs ih =>
    simp only [List.dropWhile]
    cases hx : p x with
    | false => simp
    | true =>
      simp only
      rcases List.mem_cons.mp hd with rfl | h
      · rw [hp] at hx; cases hx
      · exact ih h

/-- the trimmed masked list is not empty (the `args_str.trim().is_empty()` test of the code) -/
theorem joinComma_trim_ne (n : Nat) (a : Arg) (as : List Arg) (h : a.Ok) :
    (trim (joinComma (maskedArgsAt n (a :: as)))).isEmpty = false := by
  -- the first non-blank character of the first argument survives the trim
  obtain ⟨⟨c, hc, hw⟩, _⟩ := a.masked_edges n h
  have hl := h.2.1
  cases hm : maskedSegsAt n a.segs with
  | nil => rw [hm] at hc; simp at hc
  | cons d ds =>
    rw [hm] at hc
    simp only [List.head?_cons, Option.some.injEq] at hc
    subst hc
    -- the text is `wl ++ d :: rest`
    have shape : ∃ rest, joinComma (maskedArgsAt n (a :: as)) = a.wl ++ d :: rest := by
      cases as with
      | nil => exact ⟨ds ++ a.wr, by simp [maskedArgsAt, joinComma, Arg.maskedAt, hm]⟩
      | cons b bs => exact ⟨ds ++ a.wr ++ ',' :: joinComma (maskedArgsAt (n + (litsSegs a.segs).length) (b :: bs)),
          by simp [maskedArgsAt, joinComma, Arg.maskedAt, hm]⟩
    obtain ⟨rest, hs⟩ := shape
    rw [hs]
    unfold trim trimStart trimEnd
    rw [dropWhile_ws_append a.wl (d :: rest) hl ⟨d, rfl, hw⟩]
    -- dropping trailing white space of `d :: rest` keeps `d`
    have hne : ((d :: rest).reverse.dropWhile isWs) ≠ [] :=
      dropWhile_ne_nil_of_mem isWs _ d (by simp) hw
    cases hr : ((d :: rest).reverse.dropWhile isWs) with
    | nil => exact absurd hr hne
    | cons z zs => simp

/-! ## masking an argument list masks its arguments (each at its offset) and nothing else -/

theorem Arg.piece (a : Arg) (h : a.Ok) : Piece a.render (fun n => a.maskedAt n) (litsSegs a.segs) := by
  have p1 : Piece a.wl (fun _ => a.wl) [] := Piece.code h.2.1.quoteFree
  have p2 : Piece (renderSegs a.segs) (fun n => maskedSegsAt n a.segs) (litsSegs a.segs) := renderSegs_closed a.segs h.1
  have p3 : Piece a.wr (fun _ => a.wr) [] := Piece.code h.2.2.1.quoteFree
  exact ((p1.append p2).append p3).congr (by intro n; simp [Arg.maskedAt]) (by simp)

theorem quoteFree_comma : QuoteFree [','] := by intro c hc; revert c; decide

theorem renderArgs_piece (as : List Arg) (h : ∀ a ∈ as, a.Ok) :
    Piece (renderArgs as) (fun n => joinComma (maskedArgsAt n as)) (litsArgs as) := by
  induction as with
  | nil => exact ⟨MaskClosed.nil, fun _ => rfl, rfl⟩
  | cons a as ih =>
    have pa := a.piece (h a (by simp))
    cases as with
    | nil => exact pa.congr (by intro n; simp [maskedArgsAt, joinComma]) (by simp [litsArgs])
    | cons b bs =>
      have ih' := ih (fun c hc => h c (by simp at hc ⊢; exact Or.inr hc))
      have pc : Piece [','] (fun _ => [',']) [] := Piece.code quoteFree_comma
      have := (pa.append pc).append ih'
      simp only [renderArgs, List.map_cons, joinComma] at this ⊢
      refine Piece.congr (by simpa [List.append_assoc] using this) ?_ ?_
      · intro n; simp [maskedArgsAt, joinComma]
      · simp [litsArgs]

end C04
