import RreModel.C04.Model
/-
C04 — the property: "parsing the text rendered from a rule list yields exactly that rule list".
* the abstract (grammar level) rule list carried by a case: `ALit`, `AAtom`, `ACond`, `AStmt`, `ARule`;
* `expected…`: the documented mapping of the grammar into the parser's data model;
* the canonical printer of the data model (the wire format of observations) — the runtime oracle is
  "observation = print (expected rules)" for all three entry points;
* `LT`: a condition together with one concrete layout (white space, redundant parentheses), its
  rendering and its meaning — the vocabulary of the round-trip theorems.
-/
namespace C04

/-! ## abstract grammar -/

inductive ALit where
  | int (i : Int)
  | float (text : Str) (bits : Nat)          -- source text and the f64 it denotes
  | str (quote : Char) (s : Str)             -- quote ∈ {'"', '\''}
  | bool (b : Bool)
  | null
  | arr (xs : List ALit)
  | ident (s : Str)                          -- bare identifier: a variable reference
  | path (s : Str)                           -- dotted field reference
  | arith (s : Str)                          -- arithmetic expression text
deriving Repr, Inhabited

inductive AAtom where
  | cmp (field : Str) (op : Op) (v : ALit)
  | arith (lhs : Str) (optext : Str) (vtext : Str)
  | call (f : Str) (args : List Str) (op : Op) (v : ALit)
  | test (f : Str) (args : List Str)
  | mcount (field : Str) (op : Op) (v : ALit)
  | mfirst (field : Str) (var : Option Str)
  | mlast (field : Str) (var : Option Str)
  | mempty (field : Str)
  | mnotempty (field : Str)
  | mcollect (field : Str) (var : Str)
deriving Repr, Inhabited

inductive AStmt where
  | set (field : Str) (v : ALit)
  | append (field : Str) (v : ALit)
  | call (f : Str) (args : List ALit)
  | retract (obj : Str)
  | log (v : ALit)
  | activate (g : Str)
  | schedule (delay : Nat) (rule : Str)
  | complete (w : Str)
  | wfdata (k : Str) (v : ALit)
  | method (obj meth : Str) (args : List ALit)
deriving Repr, Inhabited

structure ARule where
  name : Str
  salience : Int
  noLoop : Bool
  lockOnActive : Bool
  agendaGroup : Option Str
  activationGroup : Option Str
  dateEffective : Option Str
  dateExpires : Option Str
  cond : Cond AAtom
  stmts : List AStmt
deriving Repr, Inhabited

/-! ## documented mapping into the data model -/

def expectedLit : ALit → Value
  | .int i => .int i
  | .float _ b => .num b
  | .str _ s => .str s
  | .bool b => .bool b
  | .null => .null
  | .arr xs => .arr (xs.attach.map fun ⟨x, _⟩ => expectedLit x)
  | .ident s => .expr s
  | .path s => .expr s
  | .arith s => .expr s

def expectedAtom : AAtom → Condition
  | .cmp f o v => ⟨.field f, o, expectedLit v⟩
  | .arith l o v => ⟨.test (l ++ [' '] ++ o ++ [' '] ++ v) [], .eq, bTrue⟩
  | .call f as o v => ⟨.call f as, o, expectedLit v⟩
  | .test f as => ⟨.test f as, .eq, bTrue⟩
  | .mcount f o v => ⟨.multi f "count".toList none, o, expectedLit v⟩
  | .mfirst f v => ⟨.multi f "first".toList v, .eq, bTrue⟩
  | .mlast f v => ⟨.multi f "last".toList v, .eq, bTrue⟩
  | .mempty f => ⟨.multi f "empty".toList none, .eq, bTrue⟩
  | .mnotempty f => ⟨.multi f "not_empty".toList none, .eq, bTrue⟩
  | .mcollect f v => ⟨.multi f "collect".toList (some v), .eq, bTrue⟩

def Cond.map (g : α → β) : Cond α → Cond β
  | .single a => .single (g a)
  | .and l r => .and (l.map g) (r.map g)
  | .or l r => .or (l.map g) (r.map g)
  | .not c => .not (c.map g)
  | .ex c => .ex (c.map g)
  | .fa c => .fa (c.map g)

def expectedStmt (X : Ext) : AStmt → Action
  | .set f v => .set f (expectedLit v)
  | .append f v => .append f (expectedLit v)
  | .call f as => .custom f (indexed (as.map expectedLit))
  | .retract o => .retract o
  | .log v => .log (valueShow X (expectedLit v))
  | .activate g => .activate g
  | .schedule d r => .schedule r d
  | .complete w => .complete w
  | .wfdata k v => .wfdata k (expectedLit v)
  | .method o m as => .method o m (as.map expectedLit)

/-- `none` when a date text is not a date (then the documented result is a parse error) -/
def expectedRule (X : Ext) (r : ARule) : Option Rule := do
  let de ← match r.dateEffective with | none => some none | some d => (X.parseDate d).map some
  let dx ← match r.dateExpires with | none => some none | some d => (X.parseDate d).map some
  pure { name := r.name, salience := r.salience, noLoop := r.noLoop, lockOnActive := r.lockOnActive,
         agendaGroup := r.agendaGroup, activationGroup := r.activationGroup, dateEffective := de, dateExpires := dx,
         cond := r.cond.map expectedAtom, actions := r.stmts.map (expectedStmt X) }

/-! ## canonical printer (the wire format of observations; mirrors `harness/src/bin/c04.rs`) -/

def hexDigitC (n : Nat) : Char := if n < 10 then Char.ofNat (n + 48) else Char.ofNat (n - 10 + 97)

def hexStr (s : Str) : String :=
  if s.isEmpty then "-" else
  String.ofList ((String.ofList s).toUTF8.data.toList.flatMap fun b => [hexDigitC (b.toNat / 16), hexDigitC (b.toNat % 16)])

def optHex : Option Str → String
  | some s => hexStr s
  | none => "~"

def hex16 (n : Nat) : String :=
  String.ofList ((List.range 16).reverse.map fun i => hexDigitC ((n / 16 ^ i) % 16))

def pValue : Value → String
  | .str s => s!"(s {hexStr s})"
  | .num b => s!"(n {hex16 b})"
  | .int i => s!"(i {i})"
  | .bool b => s!"(b {if b then 1 else 0})"
  | .arr vs => "(a" ++ String.join (vs.attach.map fun ⟨v, _⟩ => " " ++ pValue v) ++ ")"
  | .null => "nil"
  | .expr e => s!"(e {hexStr e})"

def pOp : Op → String
  | .eq => "eq" | .ne => "ne" | .gt => "gt" | .ge => "ge" | .lt => "lt" | .le => "le"
  | .contains => "contains" | .notContains => "notcontains" | .startsWith => "startswith"
  | .endsWith => "endswith" | .matches_ => "matches" | .in_ => "in"

def pStrs (xs : List Str) : String := "(" ++ " ".intercalate (xs.map hexStr) ++ ")"

def pCondition (c : Condition) : String :=
  let e := match c.expr with
    | .field f => s!"(field {hexStr f})"
    | .call n as => s!"(call {hexStr n} {pStrs as})"
    | .test n as => s!"(test {hexStr n} {pStrs as})"
    | .multi f o v => s!"(multi {hexStr f} {hexStr o} {optHex v})"
  s!"(single {e} {pOp c.op} {pValue c.value})"

def pCond : Cond Condition → String
  | .single c => pCondition c
  | .and l r => s!"(and {pCond l} {pCond r})"
  | .or l r => s!"(or {pCond l} {pCond r})"
  | .not c => s!"(not {pCond c})"
  | .ex c => s!"(exists {pCond c})"
  | .fa c => s!"(forall {pCond c})"

def pAction : Action → String
  | .set f v => s!"(set {hexStr f} {pValue v})"
  | .log m => s!"(log {hexStr m})"
  | .method o m as => s!"(method {hexStr o} {hexStr m} ({" ".intercalate (as.map pValue)}))"
  | .retract o => s!"(retract {hexStr o})"
  | .custom t ps => s!"(custom {hexStr t} ({" ".intercalate (ps.map fun (k, v) => s!"({hexStr k} {pValue v})")}))"
  | .activate g => s!"(activate {hexStr g})"
  | .schedule r d => s!"(schedule {hexStr r} {d})"
  | .complete w => s!"(complete {hexStr w})"
  | .wfdata k v => s!"(wfdata {hexStr k} {pValue v})"
  | .append f v => s!"(append {hexStr f} {pValue v})"

def optInt : Option Int → String
  | some i => toString i
  | none => "~"

def b01 (b : Bool) : String := if b then "1" else "0"

/-- `description` is never filled by the parser and `enabled` is always true -/
def pRule (r : Rule) : String :=
  s!"(rule {hexStr r.name} ~ {r.salience} 1 {b01 r.noLoop} {b01 r.lockOnActive} {optHex r.agendaGroup} {optHex r.activationGroup} {optInt r.dateEffective} {optInt r.dateExpires} {pCond r.cond} ({" ".intercalate (r.actions.map pAction)}))"

def pRules (rs : List String) : String :=
  if rs.isEmpty then "(ok)" else "(ok " ++ " ".intercalate rs ++ ")"

def pResult : Except Err (List Rule) → String
  | .ok rs => pRules (rs.map pRule)
  | .error _ => "(err)"

/-- the observation line of a file given as segments (odd segments are single rules) -/
def observe (pr pm : Except Err (List Rule)) (singles : List (Except Err Rule)) : String :=
  let spr := pResult pr
  let spm := pResult pm
  let allOk := singles.all fun | .ok _ => true | .error _ => false
  let ss := singles.map fun | .ok r => pRule r | .error _ => "(err)"
  let p1 := if allOk then pRules ss else "(mixed " ++ " ".intercalate ss ++ ")"
  spr ++ " ;; " ++ (if spm == spr then "=" else spm) ++ " ;; " ++ (if p1 == spr then "=" else p1)

/-- **the oracle**: all three entry points returned exactly the rules that were written -/
def expectedObs (X : Ext) (rs : List ARule) : Option String := do
  let es ← rs.mapM (expectedRule X)
  pure (pRules (es.map pRule) ++ " ;; = ;; =")

def specOk (X : Ext) (rs : List ARule) (obs : String) : Bool := expectedObs X rs == some obs

/-! ## a condition with one concrete layout -/

/-- a condition tree over leaf *texts* together with a layout: the white space around every token
and redundant parentheses -/
inductive LT where
  | leaf (s : Str)
  | paren (wl wr : Str) (t : LT)            -- `(` wl t wr `)`
  | not (w : Str) (t : LT)                  -- `!` w t
  | ex (wl wr : Str) (t : LT)               -- `exists(` wl t wr `)`
  | fa (wl wr : Str) (t : LT)               -- `forall(` wl t wr `)`
  | or (l : LT) (wl wr : Str) (r : LT)      -- l wl `||` wr r
  | and (l : LT) (wl wr : Str) (r : LT)     -- l wl `&&` wr r
deriving Repr, Inhabited

def LT.render : LT → Str
  | .leaf s => s
  | .paren wl wr t => '(' :: wl ++ t.render ++ wr ++ [')']
  | .not w t => '!' :: w ++ t.render
  | .ex wl wr t => sExists ++ wl ++ t.render ++ wr ++ [')']
  | .fa wl wr t => sForall ++ wl ++ t.render ++ wr ++ [')']
  | .or l wl wr r => l.render ++ wl ++ ['|', '|'] ++ wr ++ r.render
  | .and l wl wr r => l.render ++ wl ++ ['&', '&'] ++ wr ++ r.render

/-- the condition tree that was written (layout and redundant parentheses erased) -/
def LT.sem : LT → Cond Str
  | .leaf s => .single s
  | .paren _ _ t => t.sem
  | .not _ t => .not t.sem
  | .ex _ _ t => .ex t.sem
  | .fa _ _ t => .fa t.sem
  | .or l _ _ r => .or l.sem r.sem
  | .and l _ _ r => .and l.sem r.sem

def LT.leaves : LT → List Str
  | .leaf s => [s]
  | .paren _ _ t | .not _ t | .ex _ _ t | .fa _ _ t => t.leaves
  | .or l _ _ r | .and l _ _ r => l.leaves ++ r.leaves

end C04
