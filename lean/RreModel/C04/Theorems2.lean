import RreModel.C04.HeaderLemmas
/-
C04 — property theorems, part 2: the rule header.  Every attribute, in every order, with any white space,
through the masked pipeline (`mask_string_literals` first, `unmask` where text enters the AST).
-/
namespace C04

/-- **Every attribute in every order (general form).** For every list of attributes as written — any of the seven
keywords, in any order, repeated or not, any non-empty white space (blanks, tabs, line breaks) after each keyword and
each value, salience over the whole `i32` range, group names / date texts with ARBITRARY bodies (only `"` and a line
break excluded) — masking the section and running `extract_salience` and `parse_rule_attributes` on it returns exactly
what was written: the first salience (0 if none), the flags that occur, the first group names / dates with their
bodies restored.  (`n = pre.length` table entries precede the section in the file; `T` is the file's table.) -/
theorem attributes_render (X : Ext) (as : List HAttr) (has : ∀ a ∈ as, a.Ok) (T pre post : List Str)
    (hT : T = pre ++ lits (renderAttrs as) ++ post) :
    maskGo (renderAttrs as) none pre.length = mattrs pre.length as
    ∧ extractSalience (mattrs pre.length as) = .ok (firstSal as)
    ∧ parseAttrs X T (mattrs pre.length as) = expectedAttrs X as := by
  have p := renderAttrs_piece as has
  exact ⟨p.2.1 _, extractSalience_mattrs _ as has, parseAttrs_mattrs X as has T pre post (by rw [hT, p.2.2])⟩

def OAttr.conv : OAttr → HAttr
  | .noLoop => { kind := .nl }
  | .lockOnActive => { kind := .loa }
  | .activationGroup g => { kind := .actg, val := g }

theorem ws_sp : Ws [' '] ∧ [' '] ≠ ([] : Str) := ⟨by intro c hc; simp at hc; subst hc; rfl, by simp⟩

theorem OAttr.conv_ok (a : OAttr) (h : a.Ok) : a.conv.Ok := by
  cases a with
  | noLoop => exact ⟨ws_sp, ws_sp, by intro h; exact absurd h (by decide), by decide⟩
  | lockOnActive => exact ⟨ws_sp, ws_sp, by intro h; exact absurd h (by decide), by decide⟩
  | activationGroup g => exact ⟨ws_sp, ws_sp, fun _ => h, by simp [OAttr.conv]⟩

theorem OAttr.conv_render (a : OAttr) : a.render = a.conv.kind.kw ++ a.conv.tail := by
  cases a with
  | noLoop => decide +kernel
  | lockOnActive => decide +kernel
  | activationGroup g =>
    have l1 : "activation-group \"".toList = AKind.actg.kw ++ [' ', '"'] := by decide +kernel
    have l2 : "\" ".toList = ['"', ' '] := by decide +kernel
    have e1 : (OAttr.activationGroup g).render = "activation-group \"".toList ++ g ++ "\" ".toList := rfl
    have e2 : (OAttr.activationGroup g).conv.tail = [' '] ++ '"' :: g ++ '"' :: [' '] := by
      simp [OAttr.conv, HAttr.tail, AKind.flag, AKind.quoted]
    have e3 : (OAttr.activationGroup g).conv.kind = .actg := rfl
    rw [e1, e2, e3, l1, l2]
    simp

theorem OAttr.flatMap_render (ps : List OAttr) : ps.flatMap OAttr.render = renderAttrs (ps.map OAttr.conv) := by
  unfold renderAttrs
  rw [List.flatMap_map]
  congr 1
  funext a
  exact a.conv_render

theorem firstOf_conv (k : AKind) (hk : k = .sal ∨ k = .ag ∨ k = .de ∨ k = .dx) (ps : List OAttr) (rest : List HAttr) :
    firstOf k (ps.map OAttr.conv ++ rest) = firstOf k rest := by
  induction ps with
  | nil => rfl
  | cons a ps ih =>
    have : decide (a.conv.kind = k) = false := by
      rcases hk with rfl | rfl | rfl | rfl <;> cases a <;> simp [OAttr.conv]
    simp only [firstOf, List.map_cons, List.cons_append, List.find?_cons, this] at ih ⊢
    exact ih

/-- **Every attribute in every order** (the statement kept open so far): `salience … agenda-group "…"` between any
two lists of the other attributes — the salience (whole `i32` range) and the group name (ARBITRARY body: also
`salience 9`, `agenda-group `, `{`) come back as written. -/
theorem attributes_any_order (X : Ext) : attributes_any_order_full X := by
  intro sal g ps qs hlo hhi hg hgne hpq
  intro header
  let as : List HAttr := ps.map OAttr.conv ++ ({ kind := .sal, sal := sal } :: { kind := .ag, val := g } :: qs.map OAttr.conv)
  have l1 : "salience ".toList = AKind.sal.kw ++ [' '] := by decide +kernel
  have l2 : " agenda-group \"".toList = ' ' :: AKind.ag.kw ++ [' ', '"'] := by decide +kernel
  have l3 : "\" ".toList = ['"', ' '] := by decide +kernel
  have hh : header = renderAttrs as := by
    show ps.flatMap OAttr.render ++ "salience ".toList ++ intShow sal ++ " agenda-group \"".toList ++ g ++ "\" ".toList
      ++ qs.flatMap OAttr.render = _
    rw [OAttr.flatMap_render, OAttr.flatMap_render, l1, l2, l3]
    simp [as, renderAttrs, HAttr.tail, AKind.flag, AKind.quoted]
  have has : ∀ a ∈ as, a.Ok := by
    intro a ha
    simp only [as, List.mem_append, List.mem_cons, List.mem_map] at ha
    rcases ha with ⟨o, ho, rfl⟩ | rfl | rfl | ⟨o, ho, rfl⟩
    · exact o.conv_ok (hpq o (by simp [ho]))
    · exact ⟨ws_sp, ws_sp, by intro h; simp [AKind.quoted] at h, ⟨hlo, hhi⟩⟩
    · exact ⟨ws_sp, ws_sp, fun _ => ⟨hgne, hg⟩, by simp⟩
    · exact o.conv_ok (hpq o (by simp [ho]))
  obtain ⟨hm, hs, hp⟩ := attributes_render X as has (lits (renderAttrs as)) [] [] (by simp)
  have hmask : mask header = mattrs 0 as := by rw [hh]; exact hm
  have f1 : firstOf .sal as = some { kind := .sal, sal := sal } := by
    simp only [as]; rw [firstOf_conv _ (Or.inl rfl)]; rfl
  have f2 : firstOf .ag as = some { kind := .ag, val := g } := by
    simp only [as]; rw [firstOf_conv _ (Or.inr (Or.inl rfl))]; rfl
  have f3 : firstOf .de as = none := by
    simp only [as]; rw [firstOf_conv _ (Or.inr (Or.inr (Or.inl rfl)))]
    have := firstOf_conv .de (Or.inr (Or.inr (Or.inl rfl))) qs []
    simp only [List.append_nil] at this
    simp only [firstOf, List.find?_cons] at this ⊢
    simpa using this
  have f4 : firstOf .dx as = none := by
    simp only [as]; rw [firstOf_conv _ (Or.inr (Or.inr (Or.inr rfl)))]
    have := firstOf_conv .dx (Or.inr (Or.inr (Or.inr rfl))) qs []
    simp only [List.append_nil] at this
    simp only [firstOf, List.find?_cons] at this ⊢
    simpa using this
  constructor
  · rw [hmask]; simpa [firstSal, f1] using hs
  · rw [hmask, hh]
    have := hp
    simp only [List.length_nil] at this
    rw [this]
    simp [expectedAttrs, firstVal, f2, f3, f4, parseDateOpt, Except.map, bind, Except.bind, pure, Except.pure]

/-- non-vacuity: `lock-on-active activation-group "x { salience 9" salience -2147483648 agenda-group "a } b" no-loop ` -/
example : extractSalience (mask ([OAttr.lockOnActive, .activationGroup "x { salience 9".toList].flatMap OAttr.render
      ++ "salience ".toList ++ intShow (-2147483648) ++ " agenda-group \"".toList ++ "a } b".toList ++ "\" ".toList
      ++ [OAttr.noLoop].flatMap OAttr.render)) = .ok (-2147483648) :=
  (attributes_any_order ⟨fun _ => none, fun _ => 0, fun _ => [], fun _ => none⟩ (-2147483648) "a } b".toList
    [.lockOnActive, .activationGroup "x { salience 9".toList] [.noLoop] (by decide) (by decide) (by decide +kernel) (by decide +kernel)
    (by intro a ha; simp only [List.cons_append, List.nil_append, List.mem_cons, List.mem_nil_iff, or_false] at ha
        rcases ha with rfl | rfl | rfl
        · trivial
        · exact ⟨by decide +kernel, by decide +kernel⟩
        · trivial)).1

end C04
