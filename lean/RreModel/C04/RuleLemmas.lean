import RreModel.C04.FileLemmas
/-
C04 — one rule: the header / body capture (`rule_regex`, model `matchRuleAt`), the `when … then …` capture
(`when_then_regex`, models `matchWhenAt` / `lazyThen`) and the composition of `parse_prepared_rule` after `clean_text`
on the masked text of a rendered rule.
-/
namespace C04

/-- the part of `parse_prepared_rule` after `clean_text` -/
def parseCleaned (X : Ext) (T : List Str) (cleaned : Str) : Except Err Rule :=
  match searchFrom matchRuleAt cleaned with
  | none => .error .parse
  | some (name, attrs, body) => do
    let sal ← extractSalience attrs
    match searchFrom matchWhenAt body with
    | none => .error .parse
    | some (w, th) =>
      let cond ← parseWhen (parseSingleCondition X T) (trim w)
      let acts ← parseThen X T (trim th)
      let ats ← parseAttrs X T attrs
      pure { name := unmask T name, salience := sal, noLoop := ats.noLoop, lockOnActive := ats.lockOnActive,
             agendaGroup := ats.agendaGroup, activationGroup := ats.activationGroup,
             dateEffective := ats.dateEffective, dateExpires := ats.dateExpires, cond := cond, actions := acts }

theorem parsePreparedRule_eq (X : Ext) (T : List Str) (text : Str) :
    parsePreparedRule X T text = parseCleaned X T (cleanText text) := rfl

/-! ## statements: the text after `then` -/

theorem renderStmts_ws (xs : List (Str × Str × Str)) (w : Str) : renderStmts xs w = renderStmts xs [] ++ w := by
  induction xs with
  | nil => rfl
  | cons x xs ih => obtain ⟨a, s, b⟩ := x; simp only [renderStmts]; rw [ih]; simp

theorem renderStmts_last (xs : List (Str × Str × Str)) (h : xs ≠ []) : (renderStmts xs []).getLast? = some ';' := by
  induction xs with
  | nil => exact absurd rfl h
  | cons x xs ih =>
    obtain ⟨a, s, b⟩ := x
    simp only [renderStmts]
    cases xs with
    | nil => simp [renderStmts]
    | cons y ys =>
      have := ih (by simp)
      rw [show a ++ s ++ b ++ ';' :: renderStmts (y :: ys) [] = (a ++ s ++ b ++ [';']) ++ renderStmts (y :: ys) [] by simp]
      exact getLast_append_some _ _ _ this

/-- the statement list without the white space before the first statement and after the last `;` -/
def stmtsCore (a s b : Str) (xs : List (Str × Str × Str)) : Str := renderStmts (([], s, b) :: xs) []

theorem renderStmts_core (a s b : Str) (xs : List (Str × Str × Str)) (w : Str) :
    renderStmts ((a, s, b) :: xs) w = a ++ (stmtsCore a s b xs ++ w) := by
  unfold stmtsCore
  rw [renderStmts_ws]
  simp [renderStmts]

theorem stmtsCore_edges (a s b : Str) (xs : List (Str × Str × Str)) (hs : Edges s) : Edges (stmtsCore a s b xs) := by
  obtain ⟨⟨c, hc, hw⟩, _⟩ := hs
  refine ⟨⟨c, ?_, hw⟩, ⟨';', renderStmts_last _ (by simp), by decide⟩⟩
  unfold stmtsCore
  simp only [renderStmts, List.nil_append, List.append_assoc]
  exact head_append_some _ _ _ hc

theorem maskStmtsAt_ok (ys : List (Str × Str × Str)) (n : Nat) (h : ∀ x ∈ ys, Ws x.1 ∧ Ws x.2.2 ∧ OpaqueStmt x.2.1) :
    ∀ y ∈ maskStmtsAt n ys, Ws y.1 ∧ Ws y.2.2 ∧ Edges y.2.1 ∧ ∀ c ∈ y.2.1, c ≠ ';' := by
  induction ys generalizing n with
  | nil => intro y hy; simp [maskStmtsAt] at hy
  | cons x xs' ih =>
    intro y hy
    obtain ⟨a, s, b⟩ := x
    simp only [maskStmtsAt, List.mem_cons] at hy
    obtain ⟨h1, h2, h3⟩ := h (a, s, b) (by simp)
    rcases hy with rfl | hy
    · exact ⟨h1, h2, (h3.masked.2.1 n).1, (h3.masked.2.1 n).2⟩
    · exact ih _ (fun z hz => h z (by simp [hz])) y hy

/-! ## `when … then …` -/

theorem matchWhenAt_ws (c : Char) (cs : Str) (h : isWs c = true) : matchWhenAt (c :: cs) = none := by
  unfold matchWhenAt startsWith
  rw [sWhen_eq]
  have : ('w' == c) = false := by simpa using (isWs_ne h).2.1.symm
  simp [List.isPrefixOf, this]

theorem lazyThen_skip (s R acc : Str) (h : ∀ a b, s = a ++ b → b ≠ [] → matchThenAt (b ++ R) = none) :
    lazyThen (s ++ R) acc = lazyThen R (acc ++ s) := by
  induction s generalizing acc with
  | nil => simp
  | cons c cs ih =>
    have h0 := h [] (c :: cs) rfl (by simp)
    simp only [List.cons_append] at h0 ⊢
    have : (if acc.isEmpty = true then none else matchThenAt (c :: (cs ++ R))) = none := by rw [h0]; split <;> rfl
    simp only [lazyThen, this]
    rw [ih _ (fun a b hab hb => h (c :: a) b (by simp [hab]) hb)]
    simp

theorem ws_cons {w : Str} (h : Ws w ∧ w ≠ []) : ∃ c t, w = c :: t ∧ isWs c = true := by
  cases hw : w with
  | nil => exact absurd hw h.2
  | cons c t => exact ⟨c, t, rfl, h.1 c (by simp [hw])⟩

theorem takeWhile_ws_stop (w s : Str) (hw : Ws w) (hs : ∃ c, s.head? = some c ∧ isWs c = false) :
    (w ++ s).takeWhile isWs = w ∧ (w ++ s).dropWhile isWs = s := by
  obtain ⟨c, hc, hcw⟩ := hs
  cases s with
  | nil => simp at hc
  | cons d ds => simp at hc; subst hc; exact takeWhile_stop isWs w d ds hw hcw

/-- `\s+then\s+(.+)` right after the condition: the statement text (leading white space removed) -/
theorem matchThenAt_hit (w4 w5 a core w6 : Str) (h4 : Ws w4 ∧ w4 ≠ []) (h5 : Ws w5 ∧ w5 ≠ []) (ha : Ws a) (hcore : Edges core) :
    matchThenAt (w4 ++ (sThen ++ (w5 ++ (a ++ (core ++ w6))))) = some (core ++ w6) := by
  unfold matchThenAt
  have t1 := takeWhile_ws_stop w4 (sThen ++ (w5 ++ (a ++ (core ++ w6)))) h4.1 ⟨'t', by rw [sThen_eq]; rfl, by decide⟩
  have hcw : ∃ c, (core ++ w6).head? = some c ∧ isWs c = false := by
    obtain ⟨⟨c, hc, hw⟩, _⟩ := hcore
    exact ⟨c, head_append_some _ _ _ hc, hw⟩
  have t2 := takeWhile_ws_stop (w5 ++ a) (core ++ w6) (by
    intro c hc; simp only [List.mem_append] at hc; rcases hc with hc | hc
    · exact h5.1 c hc
    · exact ha c hc) hcw
  have e4 : w4.isEmpty = false := by cases hw : w4 with | nil => exact absurd hw h4.2 | cons _ _ => rfl
  have e5 : (w5 ++ a).isEmpty = false := by cases hw : w5 with | nil => exact absurd hw h5.2 | cons _ _ => rfl
  have ec : (core ++ w6).isEmpty = false := by
    obtain ⟨c, hc, _⟩ := hcw
    cases hcc : core ++ w6 with
    | nil => rw [hcc] at hc; simp at hc
    | cons _ _ => rfl
  have hd : (sThen ++ (w5 ++ (a ++ (core ++ w6)))).drop 4 = (w5 ++ a) ++ (core ++ w6) := by
    have : sThen.length = 4 := rfl
    rw [← this, List.drop_left]; simp
  simp only [t1.1, t1.2, e4, startsWith_append, hd, t2.1, t2.2, e5, ec, Bool.false_eq_true, if_false, Bool.not_true]

/-- `when_then_regex` on the body of a rendered rule: the condition text as written and the statement text -/
theorem searchWhen_body (w2 w3 C w4 w5 a core w6 : Str) (h2 : Ws w2) (h3 : Ws w3 ∧ w3 ≠ []) (hC : Edges C) (hT : ThenFree C)
    (h4 : Ws w4 ∧ w4 ≠ []) (h5 : Ws w5 ∧ w5 ≠ []) (ha : Ws a) (hcore : Edges core) :
    searchFrom matchWhenAt (w2 ++ (sWhen ++ (w3 ++ (C ++ (w4 ++ (sThen ++ (w5 ++ (a ++ (core ++ w6)))))))))
      = some (C, core ++ w6) := by
  rw [searchFrom_dead]
  · apply searchFrom_hit
    · rw [sWhen_eq]; simp
    · unfold matchWhenAt
      have hd : (sWhen ++ (w3 ++ (C ++ (w4 ++ (sThen ++ (w5 ++ (a ++ (core ++ w6)))))))).drop 4
          = w3 ++ (C ++ (w4 ++ (sThen ++ (w5 ++ (a ++ (core ++ w6)))))) := by
        have : sWhen.length = 4 := rfl
        rw [← this, List.drop_left]
      have hCh : ∃ c, (C ++ (w4 ++ (sThen ++ (w5 ++ (a ++ (core ++ w6)))))).head? = some c ∧ isWs c = false := by
        obtain ⟨⟨c, hc, hw⟩, _⟩ := hC
        exact ⟨c, head_append_some _ _ _ hc, hw⟩
      have t1 := takeWhile_ws_stop w3 _ h3.1 hCh
      have e3 : w3.isEmpty = false := by cases hw : w3 with | nil => exact absurd hw h3.2 | cons _ _ => rfl
      simp only [startsWith_append, hd, t1.1, t1.2, e3, Bool.false_eq_true, if_false, Bool.not_true]
      rw [lazyThen_skip C _ [] (fun x y hxy hy => hT x y _ hxy hy (by
        obtain ⟨c, t, hw, hc⟩ := ws_cons h4
        exact ⟨c, t ++ (sThen ++ (w5 ++ (a ++ (core ++ w6)))), by simp [hw], hc⟩))]
      obtain ⟨c, t, hw, hc⟩ := ws_cons h4
      have hm := matchThenAt_hit w4 w5 a core w6 h4 h5 ha hcore
      have hCe : ([] ++ C).isEmpty = false := by
        obtain ⟨⟨c, hc, _⟩, _⟩ := hC
        cases hcc : C with
        | nil => rw [hcc] at hc; simp at hc
        | cons _ _ => rfl
      rw [hw] at hm ⊢
      simp only [List.cons_append] at hm ⊢
      simp only [lazyThen, hCe, Bool.false_eq_true, if_false, hm]
      simp
  · intro x y hxy hy
    cases y with
    | nil => exact absurd rfl hy
    | cons c cs =>
      exact matchWhenAt_ws c _ (h2 c (by rw [hxy]; simp))


/-! ## header and body -/

theorem AKind.kw_head (k : AKind) : k.kw.head?.map isWs = some false := by cases k <;> decide

theorem mattrs_head (n : Nat) (as : List HAttr) (y : Str) :
    ∃ c, (mattrs n as ++ '{' :: y).head? = some c ∧ isWs c = false := by
  cases as with
  | nil => exact ⟨'{', rfl, by decide⟩
  | cons a as =>
    have := AKind.kw_head a.kind
    cases hk : a.kind.kw with
    | nil => rw [hk] at this; simp at this
    | cons c cs =>
      rw [hk] at this
      simp only [List.head?_cons, Option.map_some, Option.some.injEq] at this
      exact ⟨c, by simp [mattrs, hk], this⟩

theorem RuleSrc.mbodyIn_ne (n : Nat) (r : RuleSrc) : (r.mbodyIn n).reverse.isEmpty = false := by
  have : r.mbodyIn n ≠ [] := by
    unfold RuleSrc.mbodyIn
    rw [sWhen_eq]
    intro h
    have := congrArg List.length h
    simp at this
  cases hb : (r.mbodyIn n).reverse with
  | nil => simp at hb; exact absurd hb this
  | cons _ _ => rfl

/-- `rule_regex` on the masked text of a rendered rule: the name, the attribute section, the body between the braces -/
theorem matchRuleAt_block (n : Nat) (r : RuleSrc) (h : r.Ok) :
    matchRuleAt (r.mrender n) = some (r.mname n, mattrs (r.nA n) r.attrs, r.mbodyIn n) := by
  rw [r.mrender_eq n]
  unfold matchRuleAt
  obtain ⟨c, t, hw, hcw⟩ := ws_cons h.w1
  have hm := r.head_match n h (r.mbody n ++ ['}']) ⟨c, t ++ (mattrs (r.nA n) r.attrs ++ ('{' :: r.mbodyIn n)) ++ ['}'], by simp [RuleSrc.mbody, hw], hcw⟩
  rw [hm]
  have t1 := takeWhile_ws_stop r.w1 (mattrs (r.nA n) r.attrs ++ '{' :: (r.mbodyIn n ++ ['}'])) h.w1.1 (mattrs_head _ _ _)
  have e1 : r.mbody n ++ ['}'] = r.w1 ++ (mattrs (r.nA n) r.attrs ++ '{' :: (r.mbodyIn n ++ ['}'])) := by simp [RuleSrc.mbody]
  have t2 := takeWhile_stop (· != '{') (mattrs (r.nA n) r.attrs) '{' (r.mbodyIn n ++ ['}'])
    (fun c hc => by simpa using (mattrs_noBrace _ _ h.attrs c hc).1) (by simp)
  have e3 : (r.mbodyIn n ++ ['}']).reverse = '}' :: (r.mbodyIn n).reverse := by simp
  simp only [Option.bind_eq_bind, Option.bind_some, trimStart, e1, t1.2, t2.1, t2.2, e3, List.dropWhile_cons, bne_self_eq_false,
    Bool.false_eq_true, if_false, r.mbodyIn_ne n, List.reverse_reverse]

theorem isWord_ne_mStart {c : Char} (h : isWord c = true) : c ≠ mStart := by
  intro e; subst e; revert h; decide

theorem RuleSrc.unmask_mname (r : RuleSrc) (h : r.Ok) (T P Q : List Str) (hT : T = P ++ r.lits ++ Q) :
    unmask T (r.mname P.length) = r.name := by
  have hn := h.name
  unfold RuleSrc.mname
  by_cases hq : r.quoted = true
  · simp only [hq, if_true] at hn ⊢
    have := unmask_maskBodyAt T P.length r.name [] (by
      intro _; rw [hT]; simp [RuleSrc.lits, RuleSrc.nameLits, hq, List.append_assoc])
    simpa [unmask_nil] using this
  · have hq' : r.quoted = false := by simpa using hq
    simp only [hq', Bool.false_eq_true, if_false] at hn ⊢
    have := unmask_plain T r.name [] (fun c hc => isWord_ne_mStart (hn.2 c hc))
    simpa [unmask_nil] using this

/-- what `parse_prepared_rule` must return for a rule as written, given what the leaf parsers return (`gc`, `ga`) on the
masked leaf / statement texts -/
def ruleOf (X : Ext) (r : RuleSrc) (n : Nat) (gc : Str → Condition) (ga : Str → Action) : Except Err Rule :=
  (expectedAttrs X r.attrs).map fun ats =>
    { name := r.name, salience := firstSal r.attrs, noLoop := ats.noLoop, lockOnActive := ats.lockOnActive,
      agendaGroup := ats.agendaGroup, activationGroup := ats.activationGroup,
      dateEffective := ats.dateEffective, dateExpires := ats.dateExpires,
      cond := (r.cond.maskAt (r.nC n)).sem.map gc, actions := (maskStmtsAt (r.nS n) r.stmts).map fun x => ga x.2.1 }

theorem parseCleaned_mrender (X : Ext) (r : RuleSrc) (h : r.Ok) (T P Q : List Str) (hT : T = P ++ r.lits ++ Q)
    (hc : r.CodeOk P.length) (gc : Str → Condition) (ga : Str → Action)
    (hA : ∀ s ∈ (r.cond.maskAt (r.nC P.length)).leaves, parseSingleCondition X T s = .ok (gc s))
    (hP : ∀ x ∈ maskStmtsAt (r.nS P.length) r.stmts, parseAction X T x.2.1 = .ok (ga x.2.1)) :
    parseCleaned X T (r.mrender P.length) = ruleOf X r P.length gc ga := by
  have hne : r.mrender P.length ≠ [] := by
    rw [r.mrender_eq]; simp [RuleSrc.mhead, sRule_eq]
  unfold parseCleaned
  rw [searchFrom_hit _ _ _ hne (matchRuleAt_block _ r h)]
  simp only
  rw [extractSalience_mattrs _ _ h.attrs]
  -- the statements
  obtain ⟨x0, xs0, hms⟩ : ∃ x0 xs0, maskStmtsAt (r.nS P.length) r.stmts = x0 :: xs0 := by
    cases hs : r.stmts with
    | nil => exact absurd hs h.stmts.1
    | cons y ys => obtain ⟨a, s, b⟩ := y; exact ⟨_, _, rfl⟩
  obtain ⟨a0, s0, b0⟩ := x0
  have hok := maskStmtsAt_ok r.stmts (r.nS P.length) h.stmts.2
  rw [hms] at hok
  obtain ⟨ha0, hb0, hs0, hsemi0⟩ := hok (a0, s0, b0) (by simp)
  have hcoreE := stmtsCore_edges a0 s0 b0 xs0 hs0
  have hC : (r.cond.maskAt (r.nC P.length)).WF := LT.WFo.masked r.cond h.cond _
  have hbody : r.mbodyIn P.length = r.w2 ++ (sWhen ++ (r.w3 ++ ((r.cond.maskAt (r.nC P.length)).render ++ (r.w4 ++ (sThen ++ (r.w5 ++
      (a0 ++ (stmtsCore a0 s0 b0 xs0 ++ r.w6)))))))) := by
    unfold RuleSrc.mbodyIn; rw [hms, renderStmts_core]
  rw [hbody, searchWhen_body r.w2 r.w3 _ r.w4 r.w5 a0 _ r.w6 h.w2 h.w3 (LT.render_edges _ hC) hc.thenFree h.w4 h.w5 ha0 hcoreE]
  simp only
  -- the condition
  have hcond : parseWhen (parseSingleCondition X T) (trim (r.cond.maskAt (r.nC P.length)).render)
      = .ok ((r.cond.maskAt (r.nC P.length)).sem.map gc) := by
    rw [trim_self (LT.render_edges _ hC)]
    have := parseWhen_render (parseSingleCondition X T) gc _ hC hA [] [] Ws.nil Ws.nil
    simpa using this
  -- the statements
  have hthen : parseThen X T (trim (stmtsCore a0 s0 b0 xs0 ++ r.w6)) = .ok ((maskStmtsAt (r.nS P.length) r.stmts).map fun x => ga x.2.1) := by
    have e : trim (stmtsCore a0 s0 b0 xs0 ++ r.w6) = stmtsCore a0 s0 b0 xs0 := by
      have := trim_pad [] (stmtsCore a0 s0 b0 xs0) r.w6 Ws.nil h.w6 hcoreE
      simpa using this
    rw [e]
    unfold parseThen stmtsCore
    rw [parseThen_render (parseAction X T) (([], s0, b0) :: xs0) [] Ws.nil (by
      intro y hy
      simp only [List.mem_cons] at hy
      rcases hy with rfl | hy
      · exact ⟨Ws.nil, hb0, hs0, hsemi0⟩
      · exact hok y (by simp [hy]))]
    rw [hms]
    have := mapM_ok (parseAction X T) ga ((([], s0, b0) :: xs0 : List (Str × Str × Str)).map (·.2.1)) (by
      intro t ht
      simp only [List.map_cons, List.mem_cons, List.mem_map] at ht
      rcases ht with rfl | ⟨y, hy, rfl⟩
      · exact hP (a0, t, b0) (by rw [hms]; simp)
      · exact hP y (by rw [hms]; simp [hy]))
    rw [this]
    simp
  rw [hcond, hthen]
  -- the attributes and the name
  have hat := parseAttrs_mattrs X r.attrs h.attrs T (P ++ r.nameLits)
    (C04.lits r.cond.render ++ (r.stmts.flatMap fun x => C04.lits x.2.1) ++ Q) (by rw [hT]; simp [RuleSrc.lits, List.append_assoc])
  have hl : (P ++ r.nameLits).length = r.nA P.length := by simp [RuleSrc.nA]
  rw [hl] at hat
  rw [hat, r.unmask_mname h T P Q hT]
  unfold ruleOf
  cases expectedAttrs X r.attrs <;> rfl

end C04
