import RreModel.C04.RuleLemmas
/-
C04 — property theorems, part 3: WHOLE FILES.  "Parsing GRL yields exactly the rules that were written."

The text is `renderFile g0 rs` (`File.lean`): white space, then every rule as written (`RuleSrc`: quoted or bare name,
every attribute in every order, salience over `i32`, a condition tree in any admissible layout, a non-empty statement list,
every white-space slot free) followed by its gap.  String literals — in names, group names, dates, condition leaves,
statements — have ARBITRARY bodies (only their own quote character and a line break excluded).

What is proved here, over the model's scanners for `rule_split_regex`, `rule_regex`, `when_then_regex`
(`splitRules`, `matchRuleAt`, `matchWhenAt`/`lazyThen`; their agreement with the `rexile` engine is checked by the
correspondence, family `RF`, on texts that ARE `renderFile` outputs — tag `render-agrees`):
* `splitRules_render` — the splitter returns exactly one block per rule, in source order;
* `parseRule_render` — one rule (after `clean_text`): name, salience, every attribute, the condition TREE and the statement
  LIST are exactly those written, with the leaf parsers' results at the leaves;
* `parseRules_render` — the whole file, for rules written on one line each (any white space but line breaks inside a
  rule; anything between rules) and without comments;
* `parseRules_render_nth` — rule `i` of the result is determined by rule `i` of the source (and its table offset) alone.
Line breaks (and hence comments) inside rules: `cleanText_layout` / `parseRules_render_full` (Theorems6).  Comments between
rules: Theorems5.
-/
namespace C04

/-- **The rule splitter on a whole file.** `mask_string_literals` of `renderFile g0 rs` is `g0 ++ mfileTail 0 rs`, its table is
the literals of the rules in order, and `rule_split_regex` + `find_iter` return exactly the (masked) rule texts — one per rule,
in source order, each from its `rule` keyword to its closing `}`: a `}`, a `rule x {`, ` then ` inside a string literal, a name
or a group name never moves a boundary. -/
theorem splitRules_render (g0 : Str) (rs : List (RuleSrc × Str)) (hg : Ws g0)
    (h : ∀ x ∈ rs, x.1.Ok ∧ Ws x.2 ∧ x.2 ≠ []) (hc : ∀ k, ∀ x ∈ rs, x.1.CodeOk k) :
    mask (renderFile g0 rs) = g0 ++ mfileTail 0 rs ∧ lits (renderFile g0 rs) = litsFile rs
    ∧ splitRules (mask (renderFile g0 rs)) = mblocks 0 rs ∧ (splitRules (mask (renderFile g0 rs))).length = rs.length := by
  have p := renderFile_piece g0 rs hg (fun x hx => ⟨(h x hx).1, (h x hx).2.1⟩)
  have hm : mask (renderFile g0 rs) = g0 ++ mfileTail 0 rs := p.2.1 0
  have hs : splitRules (mask (renderFile g0 rs)) = mblocks 0 rs := by
    rw [hm]; exact splitRulesF_file rs 0 g0 hg h hc _ (Nat.lt_succ_self _)
  refine ⟨hm, p.2.2, hs, ?_⟩
  rw [hs]
  have : ∀ (n : Nat) (l : List (RuleSrc × Str)), (mblocks n l).length = l.length := by
    intro n l; induction l generalizing n with
    | nil => rfl
    | cons x xs ih => simp [mblocks, ih]
  exact this 0 rs

/-- **One rule.** For every rule as written (`r.Ok`: any name, every attribute in every order, any admissible layout of any
condition tree, any non-empty statement list, literals with arbitrary bodies), at any place in a file (`P` = the table entries
before it, `Q` after it): `parse_prepared_rule` after `clean_text` returns the name, the salience, every attribute, the
condition tree (`&&` over `||`, `!`, parentheses, `exists`/`forall`) and the statement list exactly as written, with the result
of `parse_single_condition` / `parse_action_statement` (`gc`, `ga`) at each masked leaf / statement text.
Hypothesis on the code outside literals (`CodeOk`): no `}` and no ` then ` in the condition and the statements. -/
theorem parseRule_render (X : Ext) (r : RuleSrc) (h : r.Ok) (T P Q : List Str) (hT : T = P ++ r.lits ++ Q)
    (hc : r.CodeOk P.length) (gc : Str → Condition) (ga : Str → Action)
    (hA : ∀ s ∈ (r.cond.maskAt (r.nC P.length)).leaves, parseSingleCondition X T s = .ok (gc s))
    (hP : ∀ x ∈ maskStmtsAt (r.nS P.length) r.stmts, parseAction X T x.2.1 = .ok (ga x.2.1)) :
    maskGo r.render none P.length = r.mrender P.length
    ∧ parseCleaned X T (r.mrender P.length) = ruleOf X r P.length gc ga :=
  ⟨(r.render_piece h).2.1 _, parseCleaned_mrender X r h T P Q hT hc gc ga hA hP⟩

/-! ### `clean_text` on a rule written on one line -/

theorem splitLines_one (s cur : Str) (h : ∀ c ∈ s, c ≠ '\n') :
    splitLines s cur = if (cur ++ s).isEmpty then [] else [cur ++ s] := by
  induction s generalizing cur with
  | nil => simp [splitLines]
  | cons c cs ih =>
    have hc : (c == '\n') = false := by simpa using h c (by simp)
    simp only [splitLines, hc, Bool.false_eq_true, if_false]
    rw [ih _ (fun d hd => h d (by simp [hd]))]
    simp

theorem cleanText_single_line (b : Str) (hb : Edges b) (hnl : ∀ c ∈ b, c ≠ '\n') (hh : b.head? ≠ some '/') :
    cleanText b = b := by
  unfold cleanText
  rw [splitLines_one b [] hnl]
  have hne : b.isEmpty = false := edges_nonempty hb
  have hsl : startsWith b ['/', '/'] = false := by
    cases b with
    | nil => rfl
    | cons c cs =>
      have : ('/' == c) = false := by
        simp only [List.head?_cons, ne_eq, Option.some.injEq] at hh
        simpa using fun e => hh e.symm
      simp [startsWith, List.isPrefixOf, this]
  simp [hne, trim_self hb, hsl]

theorem RuleSrc.mrender_edges (n : Nat) (r : RuleSrc) : Edges (r.mrender n) ∧ (r.mrender n).head? ≠ some '/' := by
  rw [r.mrender_eq]
  refine ⟨⟨⟨'r', by simp [RuleSrc.mhead, sRule_eq], by decide⟩, ⟨'}', ?_, by decide⟩⟩, by simp [RuleSrc.mhead, sRule_eq]⟩
  rw [← List.append_assoc]
  exact getLast_append_some _ _ _ rfl

/-! ### the whole file -/

/-- the expected result, rule by rule (`n` = the table offset of the first rule) -/
def rulesOf (X : Ext) (gc : Str → Condition) (ga : Str → Action) : Nat → List (RuleSrc × Str) → List (Except Err Rule)
  | _, [] => []
  | n, x :: xs => ruleOf X x.1 n gc ga :: rulesOf X gc ga (n + x.1.lits.length) xs

/-- the leaf parsers accept the masked leaf / statement texts of every rule (each at its table offset) -/
def LeavesOk (X : Ext) (T : List Str) (gc : Str → Condition) (ga : Str → Action) : Nat → List (RuleSrc × Str) → Prop
  | _, [] => True
  | n, x :: xs =>
    ((∀ s ∈ (x.1.cond.maskAt (x.1.nC n)).leaves, parseSingleCondition X T s = .ok (gc s))
      ∧ (∀ y ∈ maskStmtsAt (x.1.nS n) x.1.stmts, parseAction X T y.2.1 = .ok (ga y.2.1)))
    ∧ LeavesOk X T gc ga (n + x.1.lits.length) xs

theorem mapM_blocks (X : Ext) (gc : Str → Condition) (ga : Str → Action) (rs : List (RuleSrc × Str)) (T P Q : List Str)
    (hT : T = P ++ litsFile rs ++ Q) (h : ∀ x ∈ rs, x.1.Ok) (hc : ∀ k, ∀ x ∈ rs, x.1.CodeOk k)
    (hl : ∀ b ∈ mblocks P.length rs, ∀ c ∈ b, c ≠ '\n') (hL : LeavesOk X T gc ga P.length rs) :
    (mblocks P.length rs).mapM (parsePreparedRule X T) = (rulesOf X gc ga P.length rs).mapM id := by
  induction rs generalizing P with
  | nil => rfl
  | cons x xs ih =>
    have e : litsFile (x :: xs) = x.1.lits ++ litsFile xs := by simp [litsFile]
    obtain ⟨⟨hA, hP⟩, hL'⟩ := hL
    have hr : parsePreparedRule X T (x.1.mrender P.length) = ruleOf X x.1 P.length gc ga := by
      rw [parsePreparedRule_eq, cleanText_single_line _ (x.1.mrender_edges _).1 (hl _ (by simp [mblocks])) (x.1.mrender_edges _).2]
      exact parseCleaned_mrender X x.1 (h x (by simp)) T P (litsFile xs ++ Q) (by rw [hT, e]; simp [List.append_assoc])
        (hc _ x (by simp)) gc ga hA hP
    have ih' := ih (P ++ x.1.lits) (by rw [hT, e]; simp [List.append_assoc]) (fun y hy => h y (by simp [hy]))
      (fun k y hy => hc k y (by simp [hy])) (fun b hb => hl b (by simp only [List.length_append] at hb; simp [mblocks, hb]))
      (by simpa using hL')
    simp only [List.length_append] at ih'
    simp only [mblocks, rulesOf, List.mapM_cons, hr, ih', id]

/-- **The property, for whole files.** For every list of rules as written (0 … any number; quoted / bare names; every
attribute in every order; salience over `i32`; every condition tree in every admissible layout; every non-empty statement list;
string literals with arbitrary bodies everywhere) and every white space before, between and after the rules,
`GRLParser::parse_rules` on the rendered file returns — in source order, one rule per block — exactly the rules that were
written (`rulesOf`: name, salience, attributes, condition tree, statement list as written; `gc`/`ga` = what the leaf parsers
return on the masked leaf / statement texts).  Hypotheses: the file has no comments (`hnc`), every rule is written on one
line (`hl`: no line break in a masked rule text; between rules anything), the code outside literals has no `}` / ` then ` (`hc`), the leaf parsers accept the
leaves (`hL`). -/
theorem parseRules_render (X : Ext) (g0 : Str) (rs : List (RuleSrc × Str)) (hg : Ws g0)
    (h : ∀ x ∈ rs, x.1.Ok ∧ Ws x.2 ∧ x.2 ≠ []) (hc : ∀ k, ∀ x ∈ rs, x.1.CodeOk k)
    (hnc : stripComments (renderFile g0 rs) none = renderFile g0 rs)
    (hl : ∀ b ∈ mblocks 0 rs, ∀ c ∈ b, c ≠ '\n')
    (gc : Str → Condition) (ga : Str → Action) (hL : LeavesOk X (litsFile rs) gc ga 0 rs) :
    parseRules X (renderFile g0 rs) = (rulesOf X gc ga 0 rs).mapM id := by
  obtain ⟨_, hlits, hs, _⟩ := splitRules_render g0 rs hg h hc
  unfold parseRules parsePreparedRules prepare prepareLits
  rw [hnc, hs, hlits]
  exact mapM_blocks X gc ga rs (litsFile rs) [] [] (by simp) (fun x hx => (h x hx).1) hc hl hL

/-- **`GRLParser::parse_rule` (one rule text).** The single-rule entry point on the text of one rule as written (one line, no
comments) returns that rule: the same `ruleOf` as the whole-file entry point gives for it at table offset 0. -/
theorem parseSingleRule_render (X : Ext) (r : RuleSrc) (h : r.Ok) (hc : r.CodeOk 0)
    (hnc : stripComments r.render none = r.render) (hl : ∀ c ∈ r.mrender 0, c ≠ '\n')
    (gc : Str → Condition) (ga : Str → Action)
    (hA : ∀ s ∈ (r.cond.maskAt (r.nC 0)).leaves, parseSingleCondition X r.lits s = .ok (gc s))
    (hP : ∀ x ∈ maskStmtsAt (r.nS 0) r.stmts, parseAction X r.lits x.2.1 = .ok (ga x.2.1)) :
    parseSingleRule X r.render = ruleOf X r 0 gc ga := by
  have p := r.render_piece h
  unfold parseSingleRule prepare prepareLits
  rw [hnc, p.2.2]
  have hm : mask r.render = r.mrender 0 := p.2.1 0
  rw [hm, parsePreparedRule_eq, cleanText_single_line _ (r.mrender_edges 0).1 hl (r.mrender_edges 0).2]
  exact parseCleaned_mrender X r h r.lits [] [] (by simp) hc gc ga hA hP

/-- the `i`-th expected result depends on the `i`-th rule and its table offset only -/
theorem rulesOf_append (X : Ext) (gc : Str → Condition) (ga : Str → Action) (n : Nat) (rs1 rs2 : List (RuleSrc × Str)) :
    rulesOf X gc ga n (rs1 ++ rs2) = rulesOf X gc ga n rs1 ++ rulesOf X gc ga (n + (litsFile rs1).length) rs2 := by
  induction rs1 generalizing n with
  | nil => simp [rulesOf, litsFile]
  | cons x xs ih => simp [rulesOf, litsFile, ih, Nat.add_assoc]

theorem mapM_id_length {xs : List (Except Err Rule)} {ys : List Rule} (h : xs.mapM id = .ok ys) : ys.length = xs.length := by
  induction xs generalizing ys with
  | nil => simp [List.mapM_nil, pure, Except.pure] at h; subst h; rfl
  | cons x xs ih =>
    rw [List.mapM_cons] at h
    cases x with
    | error e => simp [id, bind, Except.bind] at h
    | ok r =>
      cases hm : xs.mapM id with
      | error e => simp [id, bind, Except.bind, hm] at h
      | ok zs =>
        simp [id, bind, Except.bind, hm, pure, Except.pure] at h
        subst h
        simp [ih hm]

theorem mapM_id_get {xs : List (Except Err Rule)} {ys : List Rule} (h : xs.mapM id = .ok ys) (i : Nat) (x : Except Err Rule)
    (hx : xs[i]? = some x) : ∃ y, x = .ok y ∧ ys[i]? = some y := by
  induction xs generalizing ys i with
  | nil => simp at hx
  | cons x0 xs ih =>
    rw [List.mapM_cons] at h
    cases x0 with
    | error e => simp [id, bind, Except.bind] at h
    | ok r =>
      cases hm : xs.mapM id with
      | error e => simp [id, bind, Except.bind, hm] at h
      | ok zs =>
        simp [id, bind, Except.bind, hm, pure, Except.pure] at h
        subst h
        cases i with
        | zero => simp at hx; exact ⟨r, hx.symm, rfl⟩
        | succ j => simp at hx; simpa using ih hm j hx

/-- **Independent of the neighbours, in source order.** If the file `rs1 ++ [r] ++ rs2` parses, the result has one rule per
block and the rule at position `|rs1|` is exactly `r` as written — determined by `r` and the number of table entries before
it alone, whatever the other rules sharing the text are. -/
theorem parseRules_render_nth (X : Ext) (g0 : Str) (rs1 rs2 : List (RuleSrc × Str)) (r : RuleSrc × Str) (hg : Ws g0)
    (h : ∀ x ∈ rs1 ++ r :: rs2, x.1.Ok ∧ Ws x.2 ∧ x.2 ≠ []) (hc : ∀ k, ∀ x ∈ rs1 ++ r :: rs2, x.1.CodeOk k)
    (hnc : stripComments (renderFile g0 (rs1 ++ r :: rs2)) none = renderFile g0 (rs1 ++ r :: rs2))
    (hl : ∀ b ∈ mblocks 0 (rs1 ++ r :: rs2), ∀ c ∈ b, c ≠ '\n')
    (gc : Str → Condition) (ga : Str → Action) (hL : LeavesOk X (litsFile (rs1 ++ r :: rs2)) gc ga 0 (rs1 ++ r :: rs2))
    (out : List Rule) (hout : parseRules X (renderFile g0 (rs1 ++ r :: rs2)) = .ok out) :
    out.length = rs1.length + 1 + rs2.length
    ∧ ∃ y, ruleOf X r.1 (litsFile rs1).length gc ga = .ok y ∧ out[rs1.length]? = some y := by
  rw [parseRules_render X g0 _ hg h hc hnc hl gc ga hL] at hout
  have hlen : ∀ n (l : List (RuleSrc × Str)), (rulesOf X gc ga n l).length = l.length := by
    intro n l; induction l generalizing n with
    | nil => rfl
    | cons x xs ih => simp [rulesOf, ih]
  constructor
  · rw [mapM_id_length hout, hlen]; simp; omega
  · have hget : (rulesOf X gc ga 0 (rs1 ++ r :: rs2))[rs1.length]? = some (ruleOf X r.1 (litsFile rs1).length gc ga) := by
      rw [rulesOf_append]
      rw [List.getElem?_append_right (by rw [hlen]; exact Nat.le_refl _)]
      simp [hlen, rulesOf]
    obtain ⟨y, hy, hy2⟩ := mapM_id_get hout _ _ hget
    exact ⟨y, hy, hy2⟩

/-! Line breaks (and comments) INSIDE rules: `cleanText_layout`, `parseRules_render_full`, `parseRules_render_layout_comments`
(Theorems6). -/

/-! ### sufficient conditions for the hypotheses, and a concrete file (non-vacuity) -/

/-- no white-space character is directly followed by `t` -/
def noWsT : Str → Bool
  | c :: d :: r => !(isWs c && d == 't') && noWsT (d :: r)
  | _ => true

theorem matchThenAt_noWsT (b rest : Str) (hb : noWsT b = true) (hlast : ∃ c, b.getLast? = some c ∧ isWs c = false) :
    matchThenAt (b ++ rest) = none := by
  -- the first non-blank character of `b ++ rest` lies in `b`, after a blank (or is the first one)
  induction b with
  | nil => obtain ⟨c, hc, _⟩ := hlast; simp at hc
  | cons c cs ih =>
    by_cases hw : isWs c = true
    · cases cs with
      | nil => obtain ⟨d, hd, hdw⟩ := hlast; simp at hd; subst hd; rw [hw] at hdw; exact absurd hdw (by simp)
      | cons d ds =>
        simp only [noWsT, Bool.and_eq_true, Bool.not_eq_true', Bool.and_eq_false_iff] at hb
        have hl' : ∃ c, (d :: ds).getLast? = some c ∧ isWs c = false := by
          obtain ⟨e, he, hew⟩ := hlast
          exact ⟨e, by simpa [List.getLast?_cons_cons] using he, hew⟩
        by_cases hdw : isWs d = true
        · -- two blanks: same match as one position later
          have := ih hb.2 hl'
          unfold matchThenAt at this ⊢
          simp only [List.cons_append, List.takeWhile_cons, List.dropWhile_cons, hw, hdw, if_true] at this ⊢
          simp only [List.isEmpty_cons, Bool.false_eq_true, if_false] at this ⊢
          simpa using this
        · have hdw' : isWs d = false := by simpa using hdw
          have hdt : d ≠ 't' := by
            rcases hb.1 with h | h
            · rw [hw] at h; exact absurd h (by simp)
            · simpa using h
          unfold matchThenAt
          simp only [List.cons_append, List.takeWhile_cons, List.dropWhile_cons, hw, hdw', if_true, Bool.false_eq_true, if_false,
            List.isEmpty_cons]
          have : startsWith (d :: (ds ++ rest)) sThen = false := by
            rw [sThen_eq]
            have : ('t' == d) = false := by simpa using hdt.symm
            simp [startsWith, List.isPrefixOf, this]
          simp [this]
    · have hw' : isWs c = false := by simpa using hw
      unfold matchThenAt
      simp [hw']

theorem noWsT_suffix (a b : Str) (h : noWsT (a ++ b) = true) : noWsT b = true := by
  induction a with
  | nil => exact h
  | cons c cs ih =>
    cases hcb : cs ++ b with
    | nil =>
      have : b = [] := by cases cs <;> simp_all
      subst this; rfl
    | cons d r =>
      simp only [List.cons_append, hcb, noWsT, Bool.and_eq_true] at h
      exact ih (by rw [hcb]; exact h.2)

theorem ThenFree.of_noWsT (s : Str) (h : noWsT s = true) (hlast : ∃ c, s.getLast? = some c ∧ isWs c = false) : ThenFree s := by
  intro a b rest hab hb _
  apply matchThenAt_noWsT b rest (noWsT_suffix a b (hab ▸ h))
  obtain ⟨c, hc, hcw⟩ := hlast
  refine ⟨c, ?_, hcw⟩
  rw [hab, List.getLast?_append] at hc
  cases hbl : b.getLast? with
  | none => simp at hbl; exact absurd hbl hb
  | some d => rw [hbl] at hc; simpa using hc


theorem renderSegs_code (s : Str) : renderSegs [.code s] = s ∧ blankSegs [.code s] = s := by
  simp [renderSegs, blankSegs, Seg.render, Seg.blank]

/-- a leaf without string literals -/
theorem OpaqueLeaf.ofCode (s : Str) (h : LeafOk s) (hq : QuoteFree s) (hm : ∀ c ∈ s, c ≠ mStart) : OpaqueLeaf s :=
  ⟨[.code s], by intro x hx; simp at hx; subst hx; exact ⟨hq, hm⟩, (renderSegs_code s).1.symm, by rw [(renderSegs_code s).2]; exact h⟩

theorem OpaqueStmt.ofCode (s : Str) (he : Edges s) (hs : ∀ c ∈ s, c ≠ ';') (hq : QuoteFree s) (hm : ∀ c ∈ s, c ≠ mStart) :
    OpaqueStmt s :=
  ⟨[.code s], by intro x hx; simp at hx; subst hx; exact ⟨hq, hm⟩, (renderSegs_code s).1.symm,
    by rw [(renderSegs_code s).2]; exact he, by rw [(renderSegs_code s).2]; exact hs⟩

theorem LT.maskAt_code (t : LT) (h : ∀ s ∈ t.leaves, QuoteFree s) (n : Nat) : t.maskAt n = t := by
  induction t generalizing n with
  | leaf s => simp only [LT.maskAt]; rw [(MaskClosed.code (h s (by simp [LT.leaves]))).2.1]
  | paren wl wr t ih => simp only [LT.maskAt]; rw [ih h]
  | not w t ih => simp only [LT.maskAt]; rw [ih h]
  | ex wl wr t ih => simp only [LT.maskAt]; rw [ih h]
  | fa wl wr t ih => simp only [LT.maskAt]; rw [ih h]
  | or l wl wr r ihl ihr =>
    simp only [LT.maskAt]
    rw [ihl (fun s hs => h s (by simp [LT.leaves, hs])), ihr (fun s hs => h s (by simp [LT.leaves, hs]))]
  | and l wl wr r ihl ihr =>
    simp only [LT.maskAt]
    rw [ihl (fun s hs => h s (by simp [LT.leaves, hs])), ihr (fun s hs => h s (by simp [LT.leaves, hs]))]

theorem maskStmtsAt_code (xs : List (Str × Str × Str)) (h : ∀ x ∈ xs, QuoteFree x.2.1) (n : Nat) : maskStmtsAt n xs = xs := by
  induction xs generalizing n with
  | nil => rfl
  | cons x xs ih =>
    obtain ⟨a, s, b⟩ := x
    simp only [maskStmtsAt]
    rw [(MaskClosed.code (h (a, s, b) (by simp))).2.1, ih (fun y hy => h y (by simp [hy]))]

/-- the code of the condition and of the statements is literal-free: `CodeOk` is a statement about the text as written -/
theorem RuleSrc.CodeOk.ofCode (r : RuleSrc) (hl : ∀ s ∈ r.cond.leaves, QuoteFree s) (hs : ∀ x ∈ r.stmts, QuoteFree x.2.1)
    (hb : ∀ c ∈ r.cond.render ++ renderStmts r.stmts r.w6, c ≠ '}') (ht : noWsT r.cond.render = true)
    (hlast : ∃ c, r.cond.render.getLast? = some c ∧ isWs c = false) (k : Nat) : r.CodeOk k :=
  ⟨by rw [LT.maskAt_code _ hl, maskStmtsAt_code _ hs]; exact hb, by rw [LT.maskAt_code _ hl]; exact ThenFree.of_noWsT _ ht hlast⟩

/-! a concrete file: `rule "a } rule x { then" salience -5 agenda-group "g } {" no-loop { when U.a > 1 && !(U.b == 2 || U.c < 3) then U.x = 1; Log(U.y) ; }`
then a gap with a line break, then `rule R2 { when exists(U.k >= 0) then Retract($U); }` -/

def exLeafA : Str := ['U', '.', 'a', ' ', '>', ' ', '1']
def exLeafB : Str := ['U', '.', 'b', ' ', '=', '=', ' ', '2']
def exLeafC : Str := ['U', '.', 'c', ' ', '<', ' ', '3']
def exLeafK : Str := ['U', '.', 'k', ' ', '>', '=', ' ', '0']
def exName1 : Str := ['a', ' ', '}', ' ', 'r', 'u', 'l', 'e', ' ', 'x', ' ', '{', ' ', 't', 'h', 'e', 'n']
def exGrp : Str := ['g', ' ', '}', ' ', '{']

def exR1 : RuleSrc :=
  { name := exName1, quoted := true, w0 := [' '], w1 := [' ', ' '],
    attrs := [{ kind := .sal, sal := -5, w1 := ['\t'] }, { kind := .ag, val := exGrp }, { kind := .nl }],
    w2 := [' '], w3 := [' '],
    cond := .and (.leaf exLeafA) [' '] [' '] (.not [] (.paren [] [' '] (.or (.leaf exLeafB) [' '] [' ', ' '] (.leaf exLeafC)))),
    w4 := [' '], w5 := [' '],
    stmts := [([], ['U', '.', 'x', ' ', '=', ' ', '1'], []), ([' '], ['L', 'o', 'g', '(', 'U', '.', 'y', ')'], [' '])],
    w6 := [' '] }

def exR2 : RuleSrc :=
  { name := ['R', '2'], quoted := false, w0 := [' '], w1 := [' '], attrs := [], w2 := [], w3 := ['\t'],
    cond := .ex [] [] (.leaf exLeafK), w4 := [' '], w5 := [' '],
    stmts := [([], ['R', 'e', 't', 'r', 'a', 'c', 't', '(', '$', 'U', ')'], [])], w6 := [] }

def exFile : List (RuleSrc × Str) := [(exR1, ['\n', '\n']), (exR2, ['\n'])]

theorem leafOk_dec (s : Str) (h1 : ParenOk s) (h2 : (s.all fun c => c != '&' && c != '|') = true) (h3 : Edges s)
    (h4 : s.head? ≠ some '(') (h5 : s.head? ≠ some '!') (h6 : startsWith s sExists = false) (h7 : startsWith s sForall = false)
    (h8 : startsWith s sAccumulate = false) : LeafOk s :=
  ⟨h1, by intro c hc; have := List.all_eq_true.mp h2 c hc; simpa using this, h3, h4, h5, h6, h7, h8⟩

theorem codeChars_dec (s : Str) (h : (s.all fun c => c != '"' && c != '\'' && c != mStart) = true) :
    QuoteFree s ∧ ∀ c ∈ s, c ≠ mStart := by
  constructor
  · intro c hc; have := List.all_eq_true.mp h c hc; simp at this; exact ⟨this.1.1, this.1.2⟩
  · intro c hc; have := List.all_eq_true.mp h c hc; simp at this; exact this.2

theorem exLeaf_opaque : OpaqueLeaf exLeafA ∧ OpaqueLeaf exLeafB ∧ OpaqueLeaf exLeafC ∧ OpaqueLeaf exLeafK := by
  refine ⟨?_, ?_, ?_, ?_⟩ <;>
    exact OpaqueLeaf.ofCode _ (leafOk_dec _ (by decide +kernel) (by decide +kernel) (by decide +kernel) (by decide +kernel)
      (by decide +kernel) (by decide +kernel) (by decide +kernel) (by decide +kernel))
      (codeChars_dec _ (by decide +kernel)).1 (codeChars_dec _ (by decide +kernel)).2

theorem ws_dec (w : Str) (h : (w.all isWs) = true) : Ws w := fun c hc => List.all_eq_true.mp h c hc

theorem exStmt_opaque (s : Str) (he : Edges s) (hs : (s.all fun c => c != ';') = true)
    (hq : (s.all fun c => c != '"' && c != '\'' && c != mStart) = true) : OpaqueStmt s :=
  OpaqueStmt.ofCode s he (by intro c hc; have := List.all_eq_true.mp hs c hc; simpa using this)
    (codeChars_dec s hq).1 (codeChars_dec s hq).2

theorem exR1_ok : exR1.Ok := by
  obtain ⟨la, lb, lc, _⟩ := exLeaf_opaque
  refine ⟨?_, ⟨ws_dec _ rfl, by decide⟩, ⟨ws_dec _ rfl, by decide⟩, ?_, ws_dec _ rfl, ⟨ws_dec _ rfl, by decide⟩, ?_,
    ⟨ws_dec _ rfl, by decide⟩, ⟨ws_dec _ rfl, by decide⟩, ⟨by decide, ?_⟩, ws_dec _ rfl⟩
  · show exName1 ≠ [] ∧ ∀ c ∈ exName1, c ≠ '"' ∧ c ≠ '\n'
    exact ⟨by decide, by decide⟩
  · intro a ha
    simp only [exR1, List.mem_cons, List.mem_nil_iff, or_false] at ha
    rcases ha with rfl | rfl | rfl
    · exact ⟨⟨ws_dec _ rfl, by decide⟩, ⟨ws_dec _ rfl, by decide⟩, by intro h; exact absurd h (by decide), by decide⟩
    · exact ⟨⟨ws_dec _ rfl, by decide⟩, ⟨ws_dec _ rfl, by decide⟩, fun _ => ⟨by decide, by decide⟩, by decide⟩
    · exact ⟨⟨ws_dec _ rfl, by decide⟩, ⟨ws_dec _ rfl, by decide⟩, by intro h; exact absurd h (by decide), by decide⟩
  · exact ⟨ws_dec _ rfl, ws_dec _ rfl, la, ⟨ws_dec _ rfl, rfl, ws_dec _ rfl, ws_dec _ rfl, ws_dec _ rfl, ws_dec _ rfl, lb, lc, rfl⟩, rfl, rfl⟩
  · intro x hx
    simp only [exR1, List.mem_cons, List.mem_nil_iff, or_false] at hx
    rcases hx with rfl | rfl
    · exact ⟨ws_dec _ rfl, ws_dec _ rfl, exStmt_opaque _ (by decide +kernel) (by decide +kernel) (by decide +kernel)⟩
    · exact ⟨ws_dec _ rfl, ws_dec _ rfl, exStmt_opaque _ (by decide +kernel) (by decide +kernel) (by decide +kernel)⟩

theorem exR2_ok : exR2.Ok := by
  obtain ⟨_, _, _, lk⟩ := exLeaf_opaque
  refine ⟨?_, ⟨ws_dec _ rfl, by decide⟩, ⟨ws_dec _ rfl, by decide⟩, ?_, ws_dec _ rfl, ⟨ws_dec _ rfl, by decide⟩, ?_,
    ⟨ws_dec _ rfl, by decide⟩, ⟨ws_dec _ rfl, by decide⟩, ⟨by decide, ?_⟩, ws_dec _ rfl⟩
  · show (∃ c cs, ['R', '2'] = c :: cs ∧ isIdStart c = true) ∧ ∀ c ∈ ['R', '2'], isWord c = true
    exact ⟨⟨'R', ['2'], rfl, by decide⟩, by decide⟩
  · intro a ha; simp [exR2] at ha
  · exact ⟨ws_dec _ rfl, ws_dec _ rfl, lk⟩
  · intro x hx
    simp only [exR2, List.mem_cons, List.mem_nil_iff, or_false] at hx
    subst hx
    exact ⟨ws_dec _ rfl, ws_dec _ rfl, exStmt_opaque _ (by decide +kernel) (by decide +kernel) (by decide +kernel)⟩

theorem exFile_ok : ∀ x ∈ exFile, x.1.Ok ∧ Ws x.2 ∧ x.2 ≠ [] := by
  intro x hx
  simp only [exFile, List.mem_cons, List.mem_nil_iff, or_false] at hx
  rcases hx with rfl | rfl
  · exact ⟨exR1_ok, ws_dec _ rfl, by decide⟩
  · exact ⟨exR2_ok, ws_dec _ rfl, by decide⟩

theorem all_dec {p : Char → Bool} {q : Char → Prop} (s : Str) (h : s.all p = true) (hpq : ∀ c, p c = true → q c) : ∀ c ∈ s, q c :=
  fun c hc => hpq c (List.all_eq_true.mp h c hc)

theorem exFile_code : ∀ k, ∀ x ∈ exFile, x.1.CodeOk k := by
  intro k x hx
  simp only [exFile, List.mem_cons, List.mem_nil_iff, or_false] at hx
  rcases hx with rfl | rfl
  · apply RuleSrc.CodeOk.ofCode
    · intro s hs
      simp only [exR1, LT.leaves, List.mem_append, List.mem_cons, List.mem_nil_iff, or_false] at hs
      rcases hs with rfl | rfl | rfl <;> exact (codeChars_dec _ (by decide +kernel)).1
    · intro y hy
      simp only [exR1, List.mem_cons, List.mem_nil_iff, or_false] at hy
      rcases hy with rfl | rfl <;> exact (codeChars_dec _ (by decide +kernel)).1
    · exact all_dec (p := fun c => c != '}') _ (by decide +kernel) (fun c h => by simpa using h)
    · decide +kernel
    · exact ⟨')', by decide +kernel, by decide⟩
  · apply RuleSrc.CodeOk.ofCode
    · intro s hs
      simp only [exR2, LT.leaves, List.mem_cons, List.mem_nil_iff, or_false] at hs
      subst hs; exact (codeChars_dec _ (by decide +kernel)).1
    · intro y hy
      simp only [exR2, List.mem_cons, List.mem_nil_iff, or_false] at hy
      subst hy; exact (codeChars_dec _ (by decide +kernel)).1
    · exact all_dec (p := fun c => c != '}') _ (by decide +kernel) (fun c h => by simpa using h)
    · decide +kernel
    · exact ⟨')', by decide +kernel, by decide⟩


/-- an `Ext` for the examples (no floats, no dates) -/
def exX : Ext := ⟨fun _ => none, fun _ => 0, fun _ => [], fun _ => none⟩

/-- the leaf parsers' results, as functions -/
def gcOf (X : Ext) (T : List Str) (s : Str) : Condition :=
  match parseSingleCondition X T s with | .ok c => c | .error _ => default
def gaOf (X : Ext) (T : List Str) (s : Str) : Action :=
  match parseAction X T s with | .ok a => a | .error _ => default

theorem gcOf_ok (X : Ext) (T : List Str) (s : Str) (h : (parseSingleCondition X T s).toBool = true) :
    parseSingleCondition X T s = .ok (gcOf X T s) := by
  unfold gcOf; cases hp : parseSingleCondition X T s with
  | ok c => rfl
  | error e => rw [hp] at h; exact absurd h (by simp [Except.toBool])

theorem gaOf_ok (X : Ext) (T : List Str) (s : Str) (h : (parseAction X T s).toBool = true) :
    parseAction X T s = .ok (gaOf X T s) := by
  unfold gaOf; cases hp : parseAction X T s with
  | ok c => rfl
  | error e => rw [hp] at h; exact absurd h (by simp [Except.toBool])

theorem exFile_lits : litsFile exFile = [exName1, exGrp] := by decide +kernel

theorem exR1_qf : (∀ s ∈ exR1.cond.leaves, QuoteFree s) ∧ (∀ x ∈ exR1.stmts, QuoteFree x.2.1) := by
  constructor
  · intro s hs
    simp only [exR1, LT.leaves, List.mem_append, List.mem_cons, List.mem_nil_iff, or_false] at hs
    rcases hs with rfl | rfl | rfl <;> exact (codeChars_dec _ (by decide +kernel)).1
  · intro y hy
    simp only [exR1, List.mem_cons, List.mem_nil_iff, or_false] at hy
    rcases hy with rfl | rfl <;> exact (codeChars_dec _ (by decide +kernel)).1

theorem exR2_qf : (∀ s ∈ exR2.cond.leaves, QuoteFree s) ∧ (∀ x ∈ exR2.stmts, QuoteFree x.2.1) := by
  constructor
  · intro s hs
    simp only [exR2, LT.leaves, List.mem_cons, List.mem_nil_iff, or_false] at hs
    subst hs; exact (codeChars_dec _ (by decide +kernel)).1
  · intro y hy
    simp only [exR2, List.mem_cons, List.mem_nil_iff, or_false] at hy
    subst hy; exact (codeChars_dec _ (by decide +kernel)).1

theorem exFile_leaves : LeavesOk exX (litsFile exFile) (gcOf exX (litsFile exFile)) (gaOf exX (litsFile exFile)) 0 exFile := by
  simp only [exFile, LeavesOk, LT.maskAt_code _ exR1_qf.1, maskStmtsAt_code _ exR1_qf.2, LT.maskAt_code _ exR2_qf.1,
    maskStmtsAt_code _ exR2_qf.2, and_true]
  refine ⟨⟨?_, ?_⟩, ⟨?_, ?_⟩⟩
  · intro s hs
    simp only [exR1, LT.leaves, List.mem_append, List.mem_cons, List.mem_nil_iff, or_false] at hs
    rcases hs with rfl | rfl | rfl <;> exact gcOf_ok _ _ _ (by decide +kernel)
  · intro y hy
    simp only [exR1, List.mem_cons, List.mem_nil_iff, or_false] at hy
    rcases hy with rfl | rfl <;> exact gaOf_ok _ _ _ (by decide +kernel)
  · intro s hs
    simp only [exR2, LT.leaves, List.mem_cons, List.mem_nil_iff, or_false] at hs
    subst hs; exact gcOf_ok _ _ _ (by decide +kernel)
  · intro y hy
    simp only [exR2, List.mem_cons, List.mem_nil_iff, or_false] at hy
    subst hy; exact gaOf_ok _ _ _ (by decide +kernel)

theorem exFile_oneLine : ∀ b ∈ mblocks 0 exFile, ∀ c ∈ b, c ≠ '\n' := by
  have : ((mblocks 0 exFile).all fun b => b.all fun c => c != '\n') = true := by decide +kernel
  intro b hb c hc
  have := List.all_eq_true.mp (List.all_eq_true.mp this b hb) c hc
  simpa using this

/-- non-vacuity of `splitRules_render`: two blocks, the first from `rule "…` to its own `}` although its name contains
`} rule x { then` and its group name `} {` -/
example : (splitRules (mask (renderFile [' '] exFile))).length = 2 :=
  (splitRules_render [' '] exFile (ws_dec _ rfl) exFile_ok exFile_code).2.2.2

/-- non-vacuity of `parseRules_render` / `parseRule_render` / `cleanText_single_line`: the file meets every hypothesis -/
example : parseRules exX (renderFile [' '] exFile)
    = (rulesOf exX (gcOf exX (litsFile exFile)) (gaOf exX (litsFile exFile)) 0 exFile).mapM id :=
  parseRules_render exX [' '] exFile (ws_dec _ rfl) exFile_ok exFile_code (by decide +kernel) exFile_oneLine _ _ exFile_leaves

/-- … and the result is the two rules as written: names (with `}`, `rule x {`, ` then` in them), salience −5, agenda group
`g } {`, `no-loop`, the trees `a && !(b || c)` and `exists(k)`, two statements and one -/
example : ((parseRules exX (renderFile [' '] exFile)).toOption.map (fun rs => rs.map fun r =>
      (r.name, r.salience, r.noLoop, r.agendaGroup, r.actions.length,
        (match r.cond with | .and (.single _) (.not (.or (.single _) (.single _))) => (1 : Nat) | .ex (.single _) => 2 | _ => 0)))
    == some [(exName1, (-5 : Int), true, some exGrp, 2, 1), (['R', '2'], 0, false, none, 1, 2)]) = true := by decide +kernel


/-- non-vacuity of `parseRules_render_nth`: the rule at position 1 of the result is `exR2` as written, whatever `exR1` is -/
example (out : List Rule) (hout : parseRules exX (renderFile [' '] exFile) = .ok out) :
    out.length = 1 + 1 + 0 ∧ ∃ y, ruleOf exX exR2 (litsFile [(exR1, ['\n', '\n'])]).length (gcOf exX (litsFile exFile))
      (gaOf exX (litsFile exFile)) = .ok y ∧ out[1]? = some y :=
  parseRules_render_nth exX [' '] [(exR1, ['\n', '\n'])] [] (exR2, ['\n']) (ws_dec _ rfl) exFile_ok exFile_code
    (by decide +kernel) exFile_oneLine _ _ exFile_leaves out hout

/-- non-vacuity of `attributes_render`: `salience\t-5 agenda-group "g } {" no-loop ` -/
example : extractSalience (mattrs 0 exR1.attrs) = .ok (firstSal exR1.attrs) ∧ firstSal exR1.attrs = -5
    ∧ (expectedAttrs exX exR1.attrs).toOption.map (fun a => (a.noLoop, a.lockOnActive, a.agendaGroup)) = some (true, false, some exGrp) :=
  ⟨(attributes_render exX exR1.attrs exR1_ok.attrs (lits (renderAttrs exR1.attrs)) [] [] (by simp)).2.1, by decide +kernel,
    by decide +kernel⟩

/-- non-vacuity of `parseSingleRule_render`: `exR2` alone -/
example : parseSingleRule exX exR2.render = ruleOf exX exR2 0 (gcOf exX exR2.lits) (gaOf exX exR2.lits) :=
  parseSingleRule_render exX exR2 exR2_ok (exFile_code 0 (exR2, ['\n']) (by simp [exFile])) (by decide +kernel)
    (by
      have : ((exR2.mrender 0).all fun c => c != '\n') = true := by decide +kernel
      intro c hc; simpa using List.all_eq_true.mp this c hc)
    _ _
    (by
      rw [LT.maskAt_code _ exR2_qf.1]
      intro s hs
      simp only [exR2, LT.leaves, List.mem_cons, List.mem_nil_iff, or_false] at hs
      subst hs; exact gcOf_ok _ _ _ (by decide +kernel))
    (by
      rw [maskStmtsAt_code _ exR2_qf.2]
      intro y hy
      simp only [exR2, List.mem_cons, List.mem_nil_iff, or_false] at hy
      subst hy; exact gaOf_ok _ _ _ (by decide +kernel))

/-! ### the third entry point, and a leaf parser on a leaf as written -/

theorem removeDefmodulesF_dead (s : Str) (h : Dead sDefmodule s) (f : Nat) : removeDefmodulesF f s = s := by
  induction s generalizing f with
  | nil => cases f <;> rfl
  | cons c cs ih =>
    cases f with
    | zero => rfl
    | succ f =>
      have h0 := h [] (c :: cs) [] rfl (by simp)
      simp only [List.append_nil] at h0
      have hm : matchDefmoduleAt (c :: cs) = none := by
        unfold matchDefmoduleAt startsWith; simp [h0]
      simp only [removeDefmodulesF, hm]
      rw [ih (fun a b r hab hb => h (c :: a) b r (by simp [hab]) hb)]

/-- **`GRLParser::parse_with_modules`.** On a rendered file in which the word `defmodule` does not occur outside string
literals (no module blocks: they are outside the modelled grammar), the rules returned by the module-aware entry point
are those of `parse_rules`: the same rules, in the same order. -/
theorem parseWithModules_render (X : Ext) (g0 : Str) (rs : List (RuleSrc × Str)) (hg : Ws g0)
    (h : ∀ x ∈ rs, x.1.Ok ∧ Ws x.2 ∧ x.2 ≠ []) (hc : ∀ k, ∀ x ∈ rs, x.1.CodeOk k)
    (hnc : stripComments (renderFile g0 rs) none = renderFile g0 rs)
    (hd : Dead sDefmodule (g0 ++ mfileTail 0 rs)) :
    parseWithModules X (renderFile g0 rs) = parseRules X (renderFile g0 rs) := by
  obtain ⟨hm, _, _, _⟩ := splitRules_render g0 rs hg h hc
  unfold parseWithModules parseRules prepare
  simp only
  rw [hnc, hm, removeDefmodulesF_dead _ hd]


example : parseWithModules exX (renderFile [' '] exFile) = parseRules exX (renderFile [' '] exFile) :=
  parseWithModules_render exX [' '] exFile (ws_dec _ rfl) exFile_ok exFile_code (by decide +kernel)
    (dead_of_deadB _ _ (by decide +kernel))

/-! ### a leaf parser on a leaf as written: the assignment of an integer -/

theorem findSub_hit (p x r : Str) (hp : p ≠ []) (hx : Dead p x) : findSub p (x ++ (p ++ r)) = some x.length := by
  induction x with
  | nil =>
    cases p with
    | nil => exact absurd rfl hp
    | cons k ks =>
      simp only [List.nil_append, List.cons_append, findSub, List.length_nil]
      have : (k :: ks).isPrefixOf (k :: (ks ++ r)) = true := by
        have := startsWith_append (k :: ks) r; simpa [startsWith] using this
      simp [this]
  | cons c cs ih =>
    have h0 := hx [] (c :: cs) (p ++ r) rfl (by simp)
    simp only [List.nil_append, List.cons_append] at h0 ⊢
    simp only [findSub, h0, Bool.false_eq_true, if_false]
    rw [ih (fun a b r' hab hb => hx (c :: a) b r' (by simp [hab]) hb)]
    simp

/-- **`parse_action_statement` on `field = <integer>`** (any field text without `=`, `+`, white space at its ends or a
placeholder delimiter; any `i64`): the assignment that was written. -/
theorem parseAction_set_int (X : Ext) (T : List Str) (f : Str) (i : Int) (hf : Edges f)
    (hc : ∀ c ∈ f, c ≠ '=' ∧ c ≠ '+' ∧ c ≠ mStart)
    (hlo : -9223372036854775808 ≤ i) (hhi : i ≤ 9223372036854775807) :
    parseAction X T (f ++ (' ' :: '=' :: ' ' :: intShow i)) = .ok (.set f (.int i)) := by
  obtain ⟨⟨ih, hih, hihd⟩, ⟨il, hil, hild⟩⟩ := intShow_edges i
  have hiE : Edges (intShow i) := ⟨⟨ih, hih, by rcases hihd with h | h; exact isDigit_notWs h; subst h; decide⟩, ⟨il, hil, isDigit_notWs hild⟩⟩
  have hE : Edges (f ++ (' ' :: '=' :: ' ' :: intShow i)) := by
    obtain ⟨⟨c, hc1, hc2⟩, _⟩ := hf
    refine ⟨⟨c, head_append_some _ _ _ hc1, hc2⟩, ⟨il, ?_, isDigit_notWs hild⟩⟩
    rw [show f ++ (' ' :: '=' :: ' ' :: intShow i) = (f ++ [' ', '=', ' ']) ++ intShow i by simp]
    exact getLast_append_some _ _ _ hil
  have hnoPlus : ∀ c ∈ f ++ (' ' :: '=' :: ' ' :: intShow i), c ≠ '+' := by
    intro c hcm
    simp only [List.mem_append, List.mem_cons] at hcm
    rcases hcm with h | rfl | rfl | rfl | h
    · exact (hc c h).2.1
    · decide
    · decide
    · decide
    · have := intShow_kinert i c h
      rcases this with h1 | h1 | h1 | h1
      · intro e; subst e; revert h1; decide
      · subst h1; decide
      · subst h1; decide
      · intro e; subst e; rcases h1 with h2 | h2 | h2 <;> revert h2 <;> decide
  unfold parseAction
  simp only [trim_self hE]
  rw [findSub_dead ['+', '='] _ (by simp) (Dead.ofHead '+' ['='] _ hnoPlus)]
  have hd : Dead ['='] (f ++ [' ']) := Dead.ofHead '=' [] _ (by
    intro c hcm; simp only [List.mem_append, List.mem_cons, List.mem_nil_iff, or_false] at hcm
    rcases hcm with h | rfl
    · exact (hc c h).1
    · decide)
  have e : f ++ (' ' :: '=' :: ' ' :: intShow i) = (f ++ [' ']) ++ (['='] ++ (' ' :: intShow i)) := by simp
  have hfs := findSub_hit ['='] (f ++ [' ']) (' ' :: intShow i) (by simp) hd
  rw [← e] at hfs
  simp only [hfs]
  have ht : (f ++ (' ' :: '=' :: ' ' :: intShow i)).take (f ++ [' ']).length = f ++ [' '] := by rw [e]; exact List.take_left
  have hdr : (f ++ (' ' :: '=' :: ' ' :: intShow i)).drop ((f ++ [' ']).length + 1) = ' ' :: intShow i := by
    rw [e, ← List.drop_drop, List.drop_left]; rfl
  rw [ht, hdr]
  have t1 : trim (f ++ [' ']) = f := by
    have := trim_pad [] f [' '] Ws.nil (by intro c hc; simp at hc; subst hc; rfl) hf; simpa using this
  have t2 : trim (' ' :: intShow i) = intShow i := by
    have := trim_pad [' '] (intShow i) [] (by intro c hc; simp at hc; subst hc; rfl) Ws.nil hiE; simpa using this
  rw [t1, t2, parseValue_intShow X T i hlo hhi]
  have := unmask_plain T f [] (fun c hcm => (hc c hcm).2.2)
  simp only [List.append_nil, unmask_nil] at this
  rw [this]

example : parseAction exX [] ("U.x = -42".toList) = .ok (.set "U.x".toList (.int (-42))) := by
  have := parseAction_set_int exX [] ['U', '.', 'x'] (-42) (by decide +kernel) (by decide) (by decide) (by decide)
  have e : "U.x = -42".toList = ['U', '.', 'x'] ++ (' ' :: '=' :: ' ' :: intShow (-42)) := by decide +kernel
  have e2 : "U.x".toList = ['U', '.', 'x'] := by decide +kernel
  rw [e, e2]; exact this

end C04
