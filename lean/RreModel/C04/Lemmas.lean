import RreModel.C04.Spec
/-
C04 — helper lemmas for the round-trip theorems (core Lean only).
-/
namespace C04

/-! ## parenthesis depth -/

/-- parenthesis depth after scanning `s` from depth `k`; `none` if it would go below zero -/
def scanDepth : Str → Nat → Option Nat
  | [], k => some k
  | c :: cs, k =>
    if c = '(' then scanDepth cs (k + 1)
    else if c = ')' then (if k = 0 then none else scanDepth cs (k - 1))
    else scanDepth cs k

/-- balanced and never negative -/
def ParenOk (s : Str) : Prop := scanDepth s 0 = some 0

theorem scanDepth_append (s t : Str) (k : Nat) :
    scanDepth (s ++ t) k = (scanDepth s k).bind (scanDepth t) := by
  induction s generalizing k with
  | nil => simp [scanDepth]
  | cons c cs ih =>
    simp only [List.cons_append, scanDepth]
    split
    · exact ih _
    · split
      · split <;> simp [ih]
      · exact ih _

theorem scanDepth_shift (s : Str) (k m j : Nat) (h : scanDepth s k = some m) :
    scanDepth s (k + j) = some (m + j) := by
  induction s generalizing k with
  | nil => simp [scanDepth] at h ⊢; omega
  | cons c cs ih =>
    simp only [scanDepth] at h ⊢
    split
    · rename_i hc; simp only [hc, if_true] at h
      have := ih _ h; rw [show k + j + 1 = k + 1 + j by omega]; exact this
    · rename_i hc; simp only [hc, if_false] at h
      split
      · rename_i hc2; simp only [hc2, if_true] at h
        by_cases hk : k = 0
        · simp [hk] at h
        · simp only [hk, if_false] at h
          have := ih _ h
          rw [if_neg (by omega), show k + j - 1 = k - 1 + j by omega]; exact this
      · rename_i hc2; simp only [hc2, if_false] at h; exact ih _ h

instance (s : Str) : Decidable (ParenOk s) := by unfold ParenOk; infer_instance

theorem ParenOk.at (s : Str) (h : ParenOk s) (k : Nat) : scanDepth s k = some k := by
  have := scanDepth_shift s 0 0 k h; simpa using this

theorem ParenOk.append {s t : Str} (hs : ParenOk s) (ht : ParenOk t) : ParenOk (s ++ t) := by
  unfold ParenOk; rw [scanDepth_append, hs]; exact ht

theorem ParenOk.paren {s : Str} (hs : ParenOk s) : ParenOk ('(' :: s ++ [')']) := by
  unfold ParenOk
  simp only [List.cons_append, scanDepth, if_true]
  rw [scanDepth_append, show (0:Nat) + 1 = 1 from rfl, ParenOk.at s hs 1]; simp [scanDepth]

theorem ParenOk.nil : ParenOk [] := rfl

theorem ParenOk.ofNoParen {s : Str} (h : ∀ c ∈ s, c ≠ '(' ∧ c ≠ ')') : ParenOk s := by
  unfold ParenOk
  induction s with
  | nil => rfl
  | cons c cs ih =>
    have hc := h c (by simp)
    simp only [scanDepth, hc.1, hc.2, if_false]
    exact ih (fun d hd => h d (by simp [hd]))

/-! ## the scanning loop of `split_logical_operator` -/

theorem splitRaw_open (op : Char) (r cur : Str) (d : Int) :
    splitRaw op ('(' :: r) cur d = splitRaw op r (cur ++ ['(']) (d + 1) := by
  cases r <;> simp [splitRaw]

theorem splitRaw_close (op : Char) (r cur : Str) (d : Int) :
    splitRaw op (')' :: r) cur d = splitRaw op r (cur ++ [')']) (d - 1) := by
  cases r <;> simp [splitRaw]

theorem splitRaw_other (op c : Char) (r cur : Str) (d : Int) (h1 : c ≠ '(') (h2 : c ≠ ')')
    (hg : (c == op && d == 0) = false) :
    splitRaw op (c :: r) cur d = splitRaw op r (cur ++ [c]) d := by
  cases r <;> simp [splitRaw, h1, h2, hg]

theorem splitRaw_split (op : Char) (h1 : op ≠ '(') (h2 : op ≠ ')') (r cur : Str) :
    splitRaw op (op :: op :: r) cur 0 = cur :: splitRaw op r [] 0 := by
  simp [splitRaw, h1, h2]

/-- scanning `s` from a state where no split can happen inside it appends it to the current part -/
theorem splitRaw_scan (op : Char) (s : Str) (base k m : Nat)
    (h : scanDepth s k = some m) (hno : (∀ c ∈ s, c ≠ op) ∨ 1 ≤ base) (cur rest : Str) :
    splitRaw op (s ++ rest) cur ((base + k : Nat) : Int) = splitRaw op rest (cur ++ s) ((base + m : Nat) : Int) := by
  induction s generalizing k cur with
  | nil => simp [scanDepth] at h; simp [h]
  | cons c cs ih =>
    have hno' : (∀ c ∈ cs, c ≠ op) ∨ 1 ≤ base := by
      cases hno with
      | inl h1 => exact Or.inl (fun d hd => h1 d (by simp [hd]))
      | inr h2 => exact Or.inr h2
    simp only [scanDepth] at h
    simp only [List.cons_append]
    by_cases hc1 : c = '('
    · subst hc1
      simp only [if_true] at h
      rw [splitRaw_open]
      have := ih (k + 1) h hno' (cur ++ ['('])
      simp only [List.append_assoc, List.singleton_append] at this
      rw [← this]; congr 1
    · simp only [hc1, if_false] at h
      by_cases hc2 : c = ')'
      · subst hc2
        simp only [if_true] at h
        by_cases hk : k = 0
        · simp [hk] at h
        · simp only [hk, if_false] at h
          rw [splitRaw_close]
          have := ih (k - 1) h hno' (cur ++ [')'])
          simp only [List.append_assoc, List.singleton_append] at this
          rw [← this]; congr 1; omega
      · simp only [hc2, if_false] at h
        have hguard : (c == op && ((base + k : Nat) : Int) == 0) = false := by
          cases hno with
          | inl h1 => have := h1 c (by simp); simp [this]
          | inr h2 =>
            have h0 : (((base + k : Nat) : Int) == 0) = false := by
              apply beq_false_of_ne; omega
            rw [h0, Bool.and_false]
        rw [splitRaw_other op c _ _ _ hc1 hc2 hguard]
        have := ih k h hno' (cur ++ [c])
        simp only [List.append_assoc, List.singleton_append] at this
        exact this

/-- `s` passes through the scanning loop at top level without a split -/
def Inert (op : Char) (s : Str) : Prop :=
  ∀ cur rest, splitRaw op (s ++ rest) cur 0 = splitRaw op rest (cur ++ s) 0

theorem Inert.nil (op : Char) : Inert op [] := by intro cur rest; simp

theorem Inert.append {op : Char} {s t : Str} (hs : Inert op s) (ht : Inert op t) : Inert op (s ++ t) := by
  intro cur rest
  rw [List.append_assoc, hs, ht, List.append_assoc]

theorem Inert.ofPlain {op : Char} {s : Str} (hp : ParenOk s) (hno : ∀ c ∈ s, c ≠ op) : Inert op s := by
  intro cur rest
  have := splitRaw_scan op s 0 0 0 hp (Or.inl hno) cur rest
  simpa using this

theorem Inert.paren {op : Char} {s : Str} (hp : ParenOk s) : Inert op ('(' :: s ++ [')']) := by
  intro cur rest
  have := splitRaw_scan op s 1 0 0 hp (Or.inr (Nat.le_refl 1)) (cur ++ ['(']) (')' :: rest)
  have e1 : (((1 + 0 : Nat)) : Int) = 0 + 1 := by decide
  rw [e1] at this
  simp only [List.cons_append, List.append_assoc, List.nil_append]
  rw [splitRaw_open, this, splitRaw_close]
  simp

theorem Inert.ws {op : Char} {w : Str} (hw : ∀ c ∈ w, isWs c = true) (hop : isWs op = false) : Inert op w := by
  apply Inert.ofPlain
  · apply ParenOk.ofNoParen
    intro c hc
    have := hw c hc
    constructor <;> (intro h; subst h; simp [isWs] at this)
  · intro c hc h; subst h; have := hw c hc; simp [this] at hop

def joinOp (op : Char) : List Str → Str
  | [] => []
  | [p] => p
  | p :: q :: ps => p ++ op :: op :: joinOp op (q :: ps)

theorem joinOp_snoc (op : Char) (xs : List Str) (y : Str) (h : xs ≠ []) :
    joinOp op (xs ++ [y]) = joinOp op xs ++ op :: op :: y := by
  induction xs with
  | nil => exact absurd rfl h
  | cons x xs ih =>
    cases xs with
    | nil => simp [joinOp]
    | cons x2 xs2 =>
      have := ih (by simp)
      simp only [List.cons_append, joinOp] at this ⊢
      rw [this]; simp

theorem splitRaw_joinOp (op : Char) (h1 : op ≠ '(') (h2 : op ≠ ')') (p : Str) (ps : List Str)
    (hin : ∀ q ∈ p :: ps, Inert op q) (cur : Str) :
    splitRaw op (joinOp op (p :: ps)) cur 0 = (cur ++ p) :: ps := by
  induction ps generalizing p cur with
  | nil =>
    have := hin p (by simp) cur []
    simp only [List.append_nil] at this
    simp [joinOp, this, splitRaw]
  | cons q qs ih =>
    simp only [joinOp]
    rw [hin p (by simp), splitRaw_split op h1 h2]
    rw [ih q (fun r hr => hin r (by simp [hr])) []]
    simp

/-! ## `is_balanced_parentheses` -/

theorem balancedGo_scan (s : Str) (k m : Nat) (h : scanDepth s k = some m) (y : Str) :
    balancedGo (s ++ y) (k : Int) = balancedGo y (m : Int) := by
  induction s generalizing k with
  | nil => simp [scanDepth] at h; simp [h]
  | cons c cs ih =>
    simp only [scanDepth] at h
    simp only [List.cons_append, balancedGo]
    by_cases hc1 : c = '('
    · subst hc1; simp only [if_true] at h
      simp only [beq_self_eq_true, if_true]
      have := ih (k + 1) h; rw [← this]; congr 1
    · simp only [hc1, if_false] at h
      have hb1 : (c == '(') = false := by simp [hc1]
      simp only [hb1, Bool.false_eq_true, if_false]
      by_cases hc2 : c = ')'
      · subst hc2; simp only [if_true] at h
        by_cases hk : k = 0
        · simp [hk] at h
        · simp only [hk, if_false] at h
          simp only [beq_self_eq_true, if_true]
          rw [if_neg (by omega)]
          have := ih (k - 1) h; rw [← this]; congr 1; omega
      · simp only [hc2, if_false] at h
        have hb2 : (c == ')') = false := by simp [hc2]
        simp only [hb2, Bool.false_eq_true, if_false]
        exact ih k h

theorem balanced_of_parenOk {s : Str} (h : ParenOk s) : balanced s = true := by
  have := balancedGo_scan s 0 0 h []
  simp only [List.append_nil] at this
  unfold balanced; rw [show (0 : Int) = ((0 : Nat) : Int) from rfl, this]; simp [balancedGo]

/-- a closing parenthesis without its opening one: never balanced, whatever follows -/
theorem balancedGo_unmatched (s : Str) (k : Nat) (h : scanDepth s (k + 1) = some 0) (y : Str) :
    balancedGo (s ++ y) (k : Int) = false := by
  induction s generalizing k with
  | nil => simp [scanDepth] at h
  | cons c cs ih =>
    simp only [scanDepth] at h
    simp only [List.cons_append, balancedGo]
    by_cases hc1 : c = '('
    · subst hc1; simp only [if_true] at h
      simp only [beq_self_eq_true, if_true]
      have := ih (k + 1) h; rw [← this]; congr 1
    · simp only [hc1, if_false] at h
      have hb1 : (c == '(') = false := by simp [hc1]
      simp only [hb1, Bool.false_eq_true, if_false]
      by_cases hc2 : c = ')'
      · subst hc2; simp only [if_true] at h
        simp only [Nat.add_eq_zero_iff, Nat.succ_ne_self, and_false, if_false, Nat.add_sub_cancel] at h
        simp only [beq_self_eq_true, if_true]
        by_cases hk : k = 0
        · subst hk; simp
        · rw [if_neg (by omega)]
          have := ih (k - 1) (by rw [show k - 1 + 1 = k by omega]; exact h)
          rw [← this]; congr 1; omega
      · simp only [hc2, if_false] at h
        have hb2 : (c == ')') = false := by simp [hc2]
        simp only [hb2, Bool.false_eq_true, if_false]
        exact ih k h

/-! ## trimming -/

def Ws (w : Str) : Prop := ∀ c ∈ w, isWs c = true

/-- non-empty, and neither the first nor the last character is white space -/
def Edges (s : Str) : Prop := (∃ c, s.head? = some c ∧ isWs c = false) ∧ (∃ c, s.getLast? = some c ∧ isWs c = false)

theorem dropWhile_ws_append (a s : Str) (ha : Ws a) (hs : ∃ c, s.head? = some c ∧ isWs c = false) :
    (a ++ s).dropWhile isWs = s := by
  induction a with
  | nil =>
    obtain ⟨c, hc, hw⟩ := hs
    cases s with
    | nil => simp at hc
    | cons d ds => simp at hc; subst hc; simp [List.dropWhile, hw]
  | cons x xs ih =>
    have hx := ha x (by simp)
    simp only [List.cons_append, List.dropWhile, hx]
    exact ih (fun c hc => ha c (by simp [hc]))

theorem trim_pad (a s b : Str) (ha : Ws a) (hb : Ws b) (hs : Edges s) : trim (a ++ s ++ b) = s := by
  obtain ⟨h1, c, hc, hw⟩ := hs
  unfold trim trimStart trimEnd
  rw [List.append_assoc, dropWhile_ws_append a (s ++ b) ha (by
    obtain ⟨d, hd, hdw⟩ := h1
    cases s with
    | nil => simp at hd
    | cons e es => exact ⟨d, by simpa using hd, hdw⟩)]
  rw [List.reverse_append, dropWhile_ws_append b.reverse s.reverse (fun x hx => hb x (by simpa using hx)) (by
    refine ⟨c, ?_, hw⟩; simpa [List.head?_reverse] using hc)]
  simp

theorem trim_self {s : Str} (hs : Edges s) : trim s = s := by
  have := trim_pad [] s [] (by intro c hc; simp at hc) (by intro c hc; simp at hc) hs
  simpa using this

/-! ## well-formed laid-out conditions -/

/-- what a leaf text must satisfy to be opaque to `parse_when_clause`: balanced parentheses, no `&`/`|`
(string literals without metacharacters), trimmed, and not starting like a structural form -/
structure LeafOk (s : Str) : Prop where
  paren : ParenOk s
  noOp : ∀ c ∈ s, c ≠ '&' ∧ c ≠ '|'
  edges : Edges s
  noParen : s.head? ≠ some '('
  noBang : s.head? ≠ some '!'
  noEx : startsWith s sExists = false
  noFa : startsWith s sForall = false
  noAcc : startsWith s sAccumulate = false

/-- can be an operand of `!` and the right operand of `&&` -/
def LT.atomLevel : LT → Bool
  | .or .. => false
  | .and .. => false
  | _ => true

/-- has no top-level `||` -/
def LT.conjLevel : LT → Bool
  | .or .. => false
  | _ => true

/-- the layout is admissible: white space where white space is written, parentheses wherever the
precedence (`!` over `&&` over `||`, both left associative) needs them -/
def LT.WF : LT → Prop
  | .leaf s => LeafOk s
  | .paren wl wr t => Ws wl ∧ Ws wr ∧ t.WF
  | .not w t => Ws w ∧ t.atomLevel = true ∧ t.WF
  | .ex wl wr t => Ws wl ∧ Ws wr ∧ t.WF
  | .fa wl wr t => Ws wl ∧ Ws wr ∧ t.WF
  | .or l wl wr r => Ws wl ∧ Ws wr ∧ l.WF ∧ r.WF ∧ r.conjLevel = true
  | .and l wl wr r => Ws wl ∧ Ws wr ∧ l.WF ∧ r.WF ∧ l.conjLevel = true ∧ r.atomLevel = true

theorem Ws.parenOk {w : Str} (hw : Ws w) : ParenOk w := by
  apply ParenOk.ofNoParen
  intro c hc
  have := hw c hc
  constructor <;> (intro h; subst h; simp [isWs] at this)

theorem exists_shape (x : Str) : sExists ++ x ++ [')'] = "exists".toList ++ ('(' :: x ++ [')']) := by
  simp [sExists]
theorem forall_shape (x : Str) : sForall ++ x ++ [')'] = "forall".toList ++ ('(' :: x ++ [')']) := by
  simp [sForall]

theorem word_parenOk_exists : ParenOk "exists".toList := by decide
theorem word_parenOk_forall : ParenOk "forall".toList := by decide

theorem LT.render_parenOk (t : LT) (h : t.WF) : ParenOk t.render := by
  induction t with
  | leaf s => exact h.paren
  | paren wl wr t ih =>
    obtain ⟨h1, h2, h3⟩ := h
    have := ParenOk.paren ((h1.parenOk.append (ih h3)).append h2.parenOk)
    simpa [LT.render] using this
  | not w t ih =>
    obtain ⟨h1, _, h3⟩ := h
    have : ParenOk ['!'] := by decide
    simpa [LT.render] using this.append (h1.parenOk.append (ih h3))
  | ex wl wr t ih =>
    obtain ⟨h1, h2, h3⟩ := h
    have := word_parenOk_exists.append (ParenOk.paren ((h1.parenOk.append (ih h3)).append h2.parenOk))
    rw [← exists_shape] at this
    simpa [LT.render] using this
  | fa wl wr t ih =>
    obtain ⟨h1, h2, h3⟩ := h
    have := word_parenOk_forall.append (ParenOk.paren ((h1.parenOk.append (ih h3)).append h2.parenOk))
    rw [← forall_shape] at this
    simpa [LT.render] using this
  | or l wl wr r ihl ihr =>
    obtain ⟨h1, h2, h3, h4, _⟩ := h
    have hop : ParenOk ['|', '|'] := by decide
    simpa [LT.render] using (((ihl h3).append h1.parenOk).append hop).append (h2.parenOk.append (ihr h4))
  | and l wl wr r ihl ihr =>
    obtain ⟨h1, h2, h3, h4, _⟩ := h
    have hop : ParenOk ['&', '&'] := by decide
    simpa [LT.render] using (((ihl h3).append h1.parenOk).append hop).append (h2.parenOk.append (ihr h4))

theorem getLast_append_some (a b : Str) (c : Char) (h : b.getLast? = some c) : (a ++ b).getLast? = some c := by
  simp [List.getLast?_append, h]

theorem head_append_some (a b : Str) (c : Char) (h : a.head? = some c) : (a ++ b).head? = some c := by
  simp [List.head?_append, h]

theorem LT.render_edges (t : LT) (h : t.WF) : Edges t.render := by
  induction t with
  | leaf s => exact h.edges
  | paren wl wr t ih =>
    refine ⟨⟨'(', by simp [LT.render], by decide⟩, ⟨')', ?_, by decide⟩⟩
    simp only [LT.render]
    exact getLast_append_some _ _ _ rfl
  | not w t ih =>
    obtain ⟨_, _, h3⟩ := h
    obtain ⟨_, c, hc, hw⟩ := ih h3
    refine ⟨⟨'!', by simp [LT.render], by decide⟩, ⟨c, ?_, hw⟩⟩
    simp only [LT.render]
    exact getLast_append_some _ _ _ hc
  | ex wl wr t ih =>
    refine ⟨⟨'e', by simp [LT.render, sExists], by decide⟩, ⟨')', ?_, by decide⟩⟩
    simp only [LT.render]
    exact getLast_append_some _ _ _ rfl
  | fa wl wr t ih =>
    refine ⟨⟨'f', by simp [LT.render, sForall], by decide⟩, ⟨')', ?_, by decide⟩⟩
    simp only [LT.render]
    exact getLast_append_some _ _ _ rfl
  | or l wl wr r ihl ihr =>
    obtain ⟨_, _, h3, h4, _⟩ := h
    obtain ⟨⟨c, hc, hw⟩, _⟩ := ihl h3
    obtain ⟨_, d, hd, hdw⟩ := ihr h4
    refine ⟨⟨c, ?_, hw⟩, ⟨d, ?_, hdw⟩⟩
    · simp only [LT.render, List.append_assoc]; exact head_append_some _ _ _ hc
    · simp only [LT.render]; exact getLast_append_some _ _ _ hd
  | and l wl wr r ihl ihr =>
    obtain ⟨_, _, h3, h4, _⟩ := h
    obtain ⟨⟨c, hc, hw⟩, _⟩ := ihl h3
    obtain ⟨_, d, hd, hdw⟩ := ihr h4
    refine ⟨⟨c, ?_, hw⟩, ⟨d, ?_, hdw⟩⟩
    · simp only [LT.render, List.append_assoc]; exact head_append_some _ _ _ hc
    · simp only [LT.render]; exact getLast_append_some _ _ _ hd

theorem isWs_amp : isWs '&' = false := by decide
theorem isWs_bar : isWs '|' = false := by decide

/-- an operand-level rendering is inert for both operators -/
theorem LT.render_inert_atom (op : Char) (hop : op = '&' ∨ op = '|') (t : LT) (h : t.WF) (ha : t.atomLevel = true) :
    Inert op t.render := by
  have hws : isWs op = false := by cases hop <;> (subst op; decide)
  cases t with
  | leaf s =>
    apply Inert.ofPlain h.paren
    intro c hc e
    have := h.noOp c hc
    rcases hop with rfl | rfl
    · exact this.1 e
    · exact this.2 e
  | paren wl wr t =>
    obtain ⟨h1, h2, h3⟩ := h
    have := @Inert.paren op _ ((h1.parenOk.append (t.render_parenOk h3)).append h2.parenOk)
    simpa [LT.render] using this
  | not w t =>
    obtain ⟨h1, h2, h3⟩ := h
    have hb : Inert op ['!'] := Inert.ofPlain (by decide) (by
      intro c hc e; simp at hc; subst hc; rcases hop with rfl | rfl <;> simp at e)
    have ih := LT.render_inert_atom op hop t h3 h2
    simpa [LT.render] using hb.append ((Inert.ws h1 hws).append ih)
  | ex wl wr t =>
    obtain ⟨h1, h2, h3⟩ := h
    have hb : Inert op "exists".toList := Inert.ofPlain (by decide) (by
      intro c hc e; rcases hop with rfl | rfl <;> (subst e; simp at hc))
    have := hb.append (@Inert.paren op _ ((h1.parenOk.append (t.render_parenOk h3)).append h2.parenOk))
    rw [← exists_shape] at this
    simpa [LT.render] using this
  | fa wl wr t =>
    obtain ⟨h1, h2, h3⟩ := h
    have hb : Inert op "forall".toList := Inert.ofPlain (by decide) (by
      intro c hc e; rcases hop with rfl | rfl <;> (subst e; simp at hc))
    have := hb.append (@Inert.paren op _ ((h1.parenOk.append (t.render_parenOk h3)).append h2.parenOk))
    rw [← forall_shape] at this
    simpa [LT.render] using this
  | or l wl wr r => simp [LT.atomLevel] at ha
  | and l wl wr r => simp [LT.atomLevel] at ha

/-- a rendering without a top-level `||` is inert for `||` -/
theorem LT.render_inert_conj (t : LT) (h : t.WF) (hc : t.conjLevel = true) : Inert '|' t.render := by
  induction t with
  | or l wl wr r => simp [LT.conjLevel] at hc
  | and l wl wr r ihl ihr =>
    obtain ⟨h1, h2, h3, h4, h5, h6⟩ := h
    have hop : Inert '|' ['&', '&'] := Inert.ofPlain (by decide) (by intro c hc e; subst e; simp at hc)
    have := (((ihl h3 h5).append (Inert.ws h1 isWs_bar)).append hop).append
      ((Inert.ws h2 isWs_bar).append (LT.render_inert_atom '|' (Or.inr rfl) r h4 h6))
    simpa [LT.render] using this
  | leaf s => exact LT.render_inert_atom '|' (Or.inr rfl) _ h rfl
  | paren wl wr t => exact LT.render_inert_atom '|' (Or.inr rfl) _ h rfl
  | not w t => exact LT.render_inert_atom '|' (Or.inr rfl) _ h rfl
  | ex wl wr t => exact LT.render_inert_atom '|' (Or.inr rfl) _ h rfl
  | fa wl wr t => exact LT.render_inert_atom '|' (Or.inr rfl) _ h rfl

/-! ## top-level segments of a rendering -/

/-- `true` = the operator `||`, `false` = `&&` -/
def opChar (o : Bool) : Char := if o then '|' else '&'

/-- the top-level operands for operator `o` with the white space around them -/
def LT.segs (o : Bool) : LT → Str → Str → List (Str × LT × Str)
  | .or l wl wr r, a, b => if o then l.segs o a wl ++ [(wr, r, b)] else [(a, .or l wl wr r, b)]
  | .and l wl wr r, a, b => if o then [(a, .and l wl wr r, b)] else l.segs o a wl ++ [(wr, r, b)]
  | t, a, b => [(a, t, b)]

def piece (x : Str × LT × Str) : Str := x.1 ++ x.2.1.render ++ x.2.2

/-- the top-level operands -/
def LT.kids (o : Bool) : LT → List LT
  | .or l wl wr r => if o then l.kids o ++ [r] else [.or l wl wr r]
  | .and l wl wr r => if o then [.and l wl wr r] else l.kids o ++ [r]
  | t => [t]

def LT.lvl (o : Bool) (t : LT) : Bool := if o then t.conjLevel else t.atomLevel

theorem LT.segs_ne_nil (o : Bool) (t : LT) (a b : Str) : t.segs o a b ≠ [] := by
  cases t <;> cases o <;> simp [LT.segs]

theorem LT.segs_kids (o : Bool) (t : LT) (a b : Str) : (t.segs o a b).map (·.2.1) = t.kids o := by
  induction t generalizing a b with
  | or l wl wr r ihl _ => cases o <;> simp [LT.segs, LT.kids, ihl]
  | and l wl wr r ihl _ => cases o <;> simp [LT.segs, LT.kids, ihl]
  | _ => simp [LT.segs, LT.kids]

theorem LT.segs_join (o : Bool) (t : LT) (a b : Str) :
    a ++ t.render ++ b = joinOp (opChar o) ((t.segs o a b).map piece) := by
  induction t generalizing a b with
  | or l wl wr r ihl _ =>
    cases o
    · simp [LT.segs, joinOp, piece]
    · simp only [LT.segs, if_true, List.map_append, List.map_cons, List.map_nil]
      rw [joinOp_snoc _ _ _ (by simpa using LT.segs_ne_nil true l a wl), ← ihl]
      simp [LT.render, piece, opChar]
  | and l wl wr r ihl _ =>
    cases o
    · simp only [LT.segs, Bool.false_eq_true, if_false, List.map_append, List.map_cons, List.map_nil]
      rw [joinOp_snoc _ _ _ (by simpa using LT.segs_ne_nil false l a wl), ← ihl]
      simp [LT.render, piece, opChar]
    · simp [LT.segs, joinOp, piece]
  | _ => simp [LT.segs, joinOp, piece]

theorem LT.segs_props (o : Bool) (t : LT) (h : t.WF) (hc : o = false → t.conjLevel = true) (a b : Str)
    (ha : Ws a) (hb : Ws b) :
    ∀ x ∈ t.segs o a b, Ws x.1 ∧ Ws x.2.2 ∧ x.2.1.WF ∧ x.2.1.lvl o = true := by
  induction t generalizing a b with
  | or l wl wr r ihl _ =>
    obtain ⟨h1, h2, h3, h4, h5⟩ := h
    cases o
    · simp [LT.conjLevel] at hc
    · intro x hx
      simp only [LT.segs, if_true, List.mem_append, List.mem_singleton] at hx
      rcases hx with hx | rfl
      · exact ihl h3 (by simp) a wl ha h1 x hx
      · exact ⟨h2, hb, h4, by simpa [LT.lvl] using h5⟩
  | and l wl wr r ihl _ =>
    obtain ⟨h1, h2, h3, h4, h5, h6⟩ := h
    cases o
    · intro x hx
      simp only [LT.segs, Bool.false_eq_true, if_false, List.mem_append, List.mem_singleton] at hx
      rcases hx with hx | rfl
      · exact ihl h3 (fun _ => h5) a wl ha h1 x hx
      · exact ⟨h2, hb, h4, by simpa [LT.lvl] using h6⟩
    · intro x hx
      simp only [LT.segs, if_true, List.mem_singleton] at hx
      subst hx
      exact ⟨ha, hb, ⟨h1, h2, h3, h4, h5, h6⟩, by simp [LT.lvl, LT.conjLevel]⟩
  | leaf s => intro x hx; simp only [LT.segs, List.mem_singleton] at hx; subst hx; exact ⟨ha, hb, h, by cases o <;> rfl⟩
  | paren wl wr t => intro x hx; simp only [LT.segs, List.mem_singleton] at hx; subst hx; exact ⟨ha, hb, h, by cases o <;> rfl⟩
  | not w t => intro x hx; simp only [LT.segs, List.mem_singleton] at hx; subst hx; exact ⟨ha, hb, h, by cases o <;> rfl⟩
  | ex wl wr t => intro x hx; simp only [LT.segs, List.mem_singleton] at hx; subst hx; exact ⟨ha, hb, h, by cases o <;> rfl⟩
  | fa wl wr t => intro x hx; simp only [LT.segs, List.mem_singleton] at hx; subst hx; exact ⟨ha, hb, h, by cases o <;> rfl⟩

theorem piece_props (o : Bool) (x : Str × LT × Str) (h : Ws x.1 ∧ Ws x.2.2 ∧ x.2.1.WF ∧ x.2.1.lvl o = true) :
    Inert (opChar o) (piece x) ∧ ParenOk (piece x) ∧ trim (piece x) = x.2.1.render := by
  obtain ⟨h1, h2, h3, h4⟩ := h
  refine ⟨?_, (h1.parenOk.append (x.2.1.render_parenOk h3)).append h2.parenOk, trim_pad _ _ _ h1 h2 (x.2.1.render_edges h3)⟩
  cases o
  · have := LT.render_inert_atom '&' (Or.inl rfl) x.2.1 h3 (by simpa [LT.lvl] using h4)
    exact ((Inert.ws h1 isWs_amp).append this).append (Inert.ws h2 isWs_amp)
  · have := LT.render_inert_conj x.2.1 h3 (by simpa [LT.lvl] using h4)
    exact ((Inert.ws h1 isWs_bar).append this).append (Inert.ws h2 isWs_bar)

theorem opChar_ne (o : Bool) : opChar o ≠ '(' ∧ opChar o ≠ ')' := by cases o <;> decide

/-- **the splitter on a rendering**: the raw pieces are exactly the padded top-level operands -/
theorem LT.splitRaw_render (o : Bool) (t : LT) (h : t.WF) (hc : o = false → t.conjLevel = true) :
    splitRaw (opChar o) t.render [] 0 = (t.segs o [] []).map piece := by
  have hj := LT.segs_join o t [] []
  simp only [List.nil_append, List.append_nil] at hj
  have hp := LT.segs_props o t h hc [] [] (by intro c hc; simp at hc) (by intro c hc; simp at hc)
  rw [hj]
  cases hs : t.segs o [] [] with
  | nil => exact absurd hs (LT.segs_ne_nil o t [] [])
  | cons x xs =>
    rw [hs] at hp
    simp only [List.map_cons]
    rw [splitRaw_joinOp (opChar o) (opChar_ne o).1 (opChar_ne o).2]
    · simp
    · intro q hq
      simp only [← List.map_cons, List.mem_map] at hq
      obtain ⟨y, hy, rfl⟩ := hq
      exact (piece_props o y (hp y hy)).1

theorem parts_eq (R : List Str) (hne : R ≠ []) (hl : ∀ r ∈ R, (trim r).isEmpty = false) :
    R.dropLast.map trim ++ (if (trim (R.getLast?.getD [])).isEmpty then [] else [trim (R.getLast?.getD [])])
      = R.map trim := by
  obtain ⟨ini, last, rfl⟩ : ∃ i l, R = i ++ [l] := by
    rcases List.eq_nil_or_concat R with h | ⟨i, l, h⟩
    · exact absurd h hne
    · exact ⟨i, l, by simpa using h⟩
  have := hl last (by simp)
  simp [List.dropLast_concat, this]

theorem edges_nonempty {s : Str} (h : Edges s) : s.isEmpty = false := by
  obtain ⟨⟨c, hc, _⟩, _⟩ := h
  cases s <;> simp at hc ⊢

/-- `split_logical_operator` on a rendering returns the renderings of the top-level operands -/
theorem LT.splitLogical_render' (o : Bool) (t : LT) (h : t.WF) (hc : o = false → t.conjLevel = true) :
    splitLogical (opChar o) t.render =
      if ((t.kids o).map LT.render).length > 1 then some ((t.kids o).map LT.render) else none := by
  have hp := LT.segs_props o t h hc [] [] (by intro c hc; simp at hc) (by intro c hc; simp at hc)
  unfold splitLogical
  simp only []
  rw [LT.splitRaw_render o t h hc]
  have hmap : ((t.segs o [] []).map piece).map trim = (t.kids o).map LT.render := by
    rw [← LT.segs_kids o t [] [], List.map_map, List.map_map]
    apply List.map_congr_left
    intro x hx
    exact (piece_props o x (hp x hx)).2.2
  rw [parts_eq _ (by simpa using LT.segs_ne_nil o t [] []) (by
    intro r hr
    simp only [List.mem_map] at hr
    obtain ⟨x, hx, rfl⟩ := hr
    rw [(piece_props o x (hp x hx)).2.2]
    exact edges_nonempty (x.2.1.render_edges (hp x hx).2.2.1)), hmap]

theorem not_wrapped (p rest : Str) (hp : ParenOk p) (hne : p ≠ []) (hr : rest ≠ []) :
    ((p ++ rest).head? == some '(' && (p ++ rest).getLast? == some ')'
      && balanced (((p ++ rest).drop 1).dropLast)) = false := by
  cases p with
  | nil => exact absurd rfl hne
  | cons c p' =>
    by_cases hc : c = '('
    · subst hc
      have h1 : scanDepth p' (0 + 1) = some 0 := by
        have := hp; unfold ParenOk at this; simpa [scanDepth] using this
      have : balanced ((('(' :: p' ++ rest).drop 1).dropLast) = false := by
        simp only [List.cons_append, List.drop_succ_cons, List.drop_zero]
        rw [List.dropLast_append_of_ne_nil hr]
        exact balancedGo_unmatched p' 0 h1 _
      rw [this]; simp
    · simp [hc]

def LT.isOpNode (o : Bool) : LT → Bool
  | .or .. => o
  | .and .. => !o
  | _ => false

theorem LT.kids_not_op (o : Bool) (t : LT) (h : t.isOpNode o = false) : t.kids o = [t] := by
  cases t <;> cases o <;> simp_all [LT.kids, LT.isOpNode]

theorem LT.kids_len (o : Bool) (t : LT) : 1 ≤ (t.kids o).length := by
  cases t <;> cases o <;> simp [LT.kids]

theorem LT.kids_op_len (o : Bool) (t : LT) (h : t.isOpNode o = true) : 2 ≤ (t.kids o).length := by
  cases t with
  | or l wl wr r => cases o <;> simp_all [LT.kids, LT.isOpNode]; have := LT.kids_len true l; omega
  | and l wl wr r => cases o <;> simp_all [LT.kids, LT.isOpNode]; have := LT.kids_len false l; omega
  | _ => simp [LT.isOpNode] at h

/-- an operator node is never a parenthesised whole -/
theorem LT.op_not_wrapped (o : Bool) (t : LT) (h : t.WF) (hc : o = false → t.conjLevel = true)
    (hop : t.isOpNode o = true) :
    (t.render.head? == some '(' && t.render.getLast? == some ')'
      && balanced ((t.render.drop 1).dropLast)) = false := by
  have hj := LT.segs_join o t [] []
  simp only [List.nil_append, List.append_nil] at hj
  have hp := LT.segs_props o t h hc [] [] (by intro c hc; simp at hc) (by intro c hc; simp at hc)
  have hlen : 2 ≤ (t.segs o [] []).length := by
    have := LT.kids_op_len o t hop
    rw [← LT.segs_kids o t [] []] at this; simpa using this
  match hs : t.segs o [] [] with
  | [] => rw [hs] at hlen; simp at hlen
  | [_] => rw [hs] at hlen; simp at hlen
  | x :: y :: zs =>
    rw [hs] at hj hp
    simp only [List.map_cons, joinOp] at hj
    rw [hj]
    have hx := piece_props o x (hp x (by simp))
    apply not_wrapped _ _ hx.2.1
    · intro e
      have := edges_nonempty (x.2.1.render_edges (hp x (by simp)).2.2.1)
      have h2 : trim (piece x) = [] := by rw [e]; rfl
      rw [hx.2.2] at h2; rw [h2] at this; simp at this
    · simp

theorem mapM_ok {α β : Type} (F : α → Except Err β) (h : α → β) (xs : List α) (hx : ∀ x ∈ xs, F x = .ok (h x)) :
    xs.mapM F = .ok (xs.map h) := by
  induction xs with
  | nil => rfl
  | cons x xs ih =>
    rw [List.mapM_cons, hx x (by simp), ih (fun y hy => hx y (by simp [hy]))]
    rfl

def condOp (o : Bool) : Cond α → Cond α → Cond α := if o then Cond.or else Cond.and

theorem LT.kids_fold (o : Bool) (g : Str → α) (t : LT) :
    ∃ hd tl, (t.kids o).map (fun k => k.sem.map g) = hd :: tl ∧ tl.foldl (condOp o) hd = t.sem.map g := by
  induction t with
  | or l wl wr r ihl _ =>
    cases o
    · exact ⟨(LT.or l wl wr r).sem.map g, [], by simp [LT.kids], rfl⟩
    · obtain ⟨hd, tl, h1, h2⟩ := ihl
      refine ⟨hd, tl ++ [r.sem.map g], by simp [LT.kids, h1], ?_⟩
      rw [List.foldl_append, h2]; rfl
  | and l wl wr r ihl _ =>
    cases o
    · obtain ⟨hd, tl, h1, h2⟩ := ihl
      refine ⟨hd, tl ++ [r.sem.map g], by simp [LT.kids, h1], ?_⟩
      rw [List.foldl_append, h2]; rfl
    · exact ⟨(LT.and l wl wr r).sem.map g, [], by simp [LT.kids], rfl⟩
  | leaf s => exact ⟨(LT.leaf s).sem.map g, [], by simp [LT.kids], rfl⟩
  | paren wl wr t => exact ⟨(LT.paren wl wr t).sem.map g, [], by simp [LT.kids], rfl⟩
  | not w t => exact ⟨(LT.not w t).sem.map g, [], by simp [LT.kids], rfl⟩
  | ex wl wr t => exact ⟨(LT.ex wl wr t).sem.map g, [], by simp [LT.kids], rfl⟩
  | fa wl wr t => exact ⟨(LT.fa wl wr t).sem.map g, [], by simp [LT.kids], rfl⟩

theorem LT.kids_shorter (o : Bool) (t : LT) (hop : t.isOpNode o = true) :
    ∀ k ∈ t.kids o, k.render.length < t.render.length := by
  induction t with
  | or l wl wr r ihl _ =>
    cases o
    · simp [LT.isOpNode] at hop
    · intro k hk
      simp only [LT.kids, if_true, List.mem_append, List.mem_singleton] at hk
      simp only [LT.render, List.length_append, List.length_cons, List.length_nil]
      rcases hk with hk | rfl
      · by_cases hl : l.isOpNode true = true
        · have := ihl hl k hk; omega
        · rw [LT.kids_not_op true l (by simpa using hl)] at hk
          simp at hk; subst hk; omega
      · omega
  | and l wl wr r ihl _ =>
    cases o
    · intro k hk
      simp only [LT.kids, Bool.false_eq_true, if_false, List.mem_append, List.mem_singleton] at hk
      simp only [LT.render, List.length_append, List.length_cons, List.length_nil]
      rcases hk with hk | rfl
      · by_cases hl : l.isOpNode false = true
        · have := ihl hl k hk; omega
        · rw [LT.kids_not_op false l (by simpa using hl)] at hk
          simp at hk; subst hk; omega
      · omega
    · simp [LT.isOpNode] at hop
  | _ => simp [LT.isOpNode] at hop

/-! ## the round trip of `parse_when_clause` -/

theorem mapM_map_ok {α β γ : Type} (r : γ → α) (F : α → Except Err β) (h : γ → β) (xs : List γ)
    (hx : ∀ x ∈ xs, F (r x) = .ok (h x)) : (xs.map r).mapM F = .ok (xs.map h) := by
  induction xs with
  | nil => rfl
  | cons x xs ih =>
    rw [List.map_cons, List.mapM_cons, hx x (by simp), ih (fun y hy => hx y (by simp [hy]))]
    rfl

/-- parsing any padded rendering of `k` with enough fuel returns the tree that was written -/
def ParseOK (A : Str → Except Err α) (g : Str → α) (k : LT) : Prop :=
  ∀ f a b, Ws a → Ws b → k.render.length < f → parseWhenF A f (a ++ k.render ++ b) = .ok (k.sem.map g)

theorem Ws.nil : Ws [] := by intro c hc; simp at hc

theorem LT.no_split (o : Bool) (t : LT) (h : t.WF) (hn : t.isOpNode o = false) (hc : t.conjLevel = true) :
    splitLogical (opChar o) t.render = none := by
  rw [LT.splitLogical_render' o t h (fun _ => hc), LT.kids_not_op o t hn]; simp

theorem foldCond_cons (f : Cond α → Cond α → Cond α) (c : Cond α) (cs : List (Cond α)) :
    foldCond f (c :: cs) = .ok (cs.foldl f c) := rfl

theorem parse_op (A : Str → Except Err α) (g : Str → α) (o : Bool) (t : LT) (h : t.WF)
    (hc : o = false → t.conjLevel = true) (hop : t.isOpNode o = true)
    (hk : ∀ k ∈ t.kids o, ParseOK A g k) : ParseOK A g t := by
  intro f a b ha hb hlt
  cases f with
  | zero => omega
  | succ f =>
    have hkids : ((t.kids o).map LT.render).mapM (parseWhenF A f) = .ok ((t.kids o).map fun k => k.sem.map g) := by
      apply mapM_map_ok
      intro k hk'
      have := hk k hk' f [] [] Ws.nil Ws.nil (by have := LT.kids_shorter o t hop k hk'; omega)
      simpa using this
    obtain ⟨hd, tl, h1, h2⟩ := LT.kids_fold o g t
    have hlen : ((t.kids o).map LT.render).length > 1 := by
      have := LT.kids_op_len o t hop; simp; omega
    simp only [parseWhenF]
    rw [trim_pad a _ b ha hb (t.render_edges h), LT.op_not_wrapped o t h hc hop]
    simp only [Bool.false_eq_true, if_false]
    cases o with
    | true =>
      have hs := LT.splitLogical_render' true t h (by simp)
      rw [if_pos hlen] at hs
      simp only [opChar, if_true] at hs
      rw [hs]
      simp only [hkids, h1, bind, Except.bind, foldCond_cons]
      rw [← h2]; rfl
    | false =>
      have hcl := hc rfl
      have hnot : t.isOpNode true = false := by
        cases t <;> simp_all [LT.isOpNode]
      have hs0 := LT.no_split true t h hnot hcl
      simp only [opChar, if_true] at hs0
      rw [hs0]
      have hs := LT.splitLogical_render' false t h hc
      rw [if_pos hlen] at hs
      simp only [opChar, Bool.false_eq_true, if_false] at hs
      simp only [hs, hkids, h1, bind, Except.bind, foldCond_cons]
      rw [← h2]; rfl

theorem beq_some_false {c d : Char} (h : c ≠ d) : (some c == some d) = false := by
  simp [h]

theorem parse_leaf (A : Str → Except Err α) (g : Str → α) (s : Str) (h : LeafOk s) (hA : A s = .ok (g s)) :
    ParseOK A g (.leaf s) := by
  intro f a b ha hb hlt
  cases f with
  | zero => omega
  | succ f =>
    have hwf : (LT.leaf s).WF := h
    have h1 := LT.no_split true (.leaf s) hwf rfl rfl
    have h2 := LT.no_split false (.leaf s) hwf rfl rfl
    simp only [opChar, if_true, Bool.false_eq_true, if_false, LT.render] at h1 h2
    have hp : (s.head? == some '(') = false := by
      cases hh : s.head? with
      | none => rfl
      | some c => have := h.noParen; rw [hh] at this; exact beq_some_false (by intro e; exact this (by rw [e]))
    have hb' : (s.head? == some '!') = false := by
      cases hh : s.head? with
      | none => rfl
      | some c => have := h.noBang; rw [hh] at this; exact beq_some_false (by intro e; exact this (by rw [e]))
    show parseWhenF A (f + 1) (a ++ s ++ b) = _
    simp only [parseWhenF]
    rw [trim_pad a _ b ha hb h.edges]
    simp only [hp, Bool.false_and, Bool.false_eq_true, if_false, h1, h2, hb', h.noEx, h.noFa, h.noAcc, hA]
    rfl

theorem parse_paren (A : Str → Except Err α) (g : Str → α) (wl wr : Str) (t : LT) (h : (LT.paren wl wr t).WF)
    (ih : ParseOK A g t) : ParseOK A g (.paren wl wr t) := by
  intro f a b ha hb hlt
  obtain ⟨h1, h2, h3⟩ := h
  cases f with
  | zero => omega
  | succ f =>
    simp only [parseWhenF]
    rw [trim_pad a _ b ha hb ((LT.paren wl wr t).render_edges ⟨h1, h2, h3⟩)]
    have hin : (((LT.paren wl wr t).render.drop 1).dropLast) = wl ++ t.render ++ wr := by
      simp [LT.render, List.dropLast_concat]
    have hhead : ((LT.paren wl wr t).render.head? == some '(') = true := by simp [LT.render]
    have hlast : ((LT.paren wl wr t).render.getLast? == some ')') = true := by
      simp only [LT.render]; rw [getLast_append_some _ _ ')' rfl]; rfl
    have hbal : balanced (wl ++ t.render ++ wr) = true :=
      balanced_of_parenOk ((h1.parenOk.append (t.render_parenOk h3)).append h2.parenOk)
    rw [hin, hhead, hlast, hbal]
    simp only [Bool.and_self, if_true]
    have := ih f wl wr h1 h2 (by simp [LT.render] at hlt; omega)
    simpa [LT.sem] using this

theorem parse_not (A : Str → Except Err α) (g : Str → α) (w : Str) (t : LT) (h : (LT.not w t).WF)
    (ih : ParseOK A g t) : ParseOK A g (.not w t) := by
  intro f a b ha hb hlt
  have hwf := h
  obtain ⟨h1, h2, h3⟩ := h
  cases f with
  | zero => omega
  | succ f =>
    have s1 := LT.no_split true (.not w t) hwf rfl rfl
    have s2 := LT.no_split false (.not w t) hwf rfl rfl
    simp only [opChar, if_true, Bool.false_eq_true, if_false] at s1 s2
    simp only [parseWhenF]
    rw [trim_pad a _ b ha hb ((LT.not w t).render_edges hwf)]
    have hhead : ((LT.not w t).render.head? == some '(') = false := by simp [LT.render]
    have hbang : ((LT.not w t).render.head? == some '!') = true := by simp [LT.render]
    have hdrop : trim ((LT.not w t).render.drop 1) = t.render := by
      have := trim_pad w t.render [] h1 Ws.nil (t.render_edges h3)
      simpa [LT.render] using this
    simp only [hhead, Bool.false_and, Bool.false_eq_true, if_false, s1, s2, hbang, if_true, hdrop]
    have := ih f [] [] Ws.nil Ws.nil (by simp [LT.render] at hlt; omega)
    simp only [List.nil_append, List.append_nil] at this
    rw [this]; rfl

theorem startsWith_append (p x : Str) : startsWith (p ++ x) p = true := by
  unfold startsWith
  rw [List.isPrefixOf_iff_prefix]
  exact List.prefix_append p x

theorem parse_ex (A : Str → Except Err α) (g : Str → α) (wl wr : Str) (t : LT) (h : (LT.ex wl wr t).WF)
    (ih : ParseOK A g t) : ParseOK A g (.ex wl wr t) := by
  intro f a b ha hb hlt
  have hwf := h
  obtain ⟨h1, h2, h3⟩ := h
  cases f with
  | zero => omega
  | succ f =>
    have s1 := LT.no_split true (.ex wl wr t) hwf rfl rfl
    have s2 := LT.no_split false (.ex wl wr t) hwf rfl rfl
    simp only [opChar, if_true, Bool.false_eq_true, if_false] at s1 s2
    simp only [parseWhenF]
    rw [trim_pad a _ b ha hb ((LT.ex wl wr t).render_edges hwf)]
    have hhead : ((LT.ex wl wr t).render.head? == some '(') = false := by simp [LT.render, sExists]
    have hbang : ((LT.ex wl wr t).render.head? == some '!') = false := by simp [LT.render, sExists]
    have hsw : startsWith (LT.ex wl wr t).render sExists = true := by
      simp only [LT.render, List.append_assoc]; exact startsWith_append _ _
    have hlast : ((LT.ex wl wr t).render.getLast? == some ')') = true := by
      simp only [LT.render]; rw [getLast_append_some _ _ ')' rfl]; rfl
    have hin : (((LT.ex wl wr t).render.drop 7).dropLast) = wl ++ t.render ++ wr := by
      simp [LT.render, sExists, List.dropLast_concat]
    simp only [hhead, Bool.false_and, Bool.false_eq_true, if_false, s1, s2, hbang, hsw, if_true, hlast, hin]
    have := ih f wl wr h1 h2 (by simp [LT.render] at hlt; omega)
    rw [this]; rfl

theorem parse_fa (A : Str → Except Err α) (g : Str → α) (wl wr : Str) (t : LT) (h : (LT.fa wl wr t).WF)
    (ih : ParseOK A g t) : ParseOK A g (.fa wl wr t) := by
  intro f a b ha hb hlt
  have hwf := h
  obtain ⟨h1, h2, h3⟩ := h
  cases f with
  | zero => omega
  | succ f =>
    have s1 := LT.no_split true (.fa wl wr t) hwf rfl rfl
    have s2 := LT.no_split false (.fa wl wr t) hwf rfl rfl
    simp only [opChar, if_true, Bool.false_eq_true, if_false] at s1 s2
    simp only [parseWhenF]
    rw [trim_pad a _ b ha hb ((LT.fa wl wr t).render_edges hwf)]
    have hhead : ((LT.fa wl wr t).render.head? == some '(') = false := by simp [LT.render, sForall]
    have hbang : ((LT.fa wl wr t).render.head? == some '!') = false := by simp [LT.render, sForall]
    have hsx : startsWith (LT.fa wl wr t).render sExists = false := by
      simp [LT.render, sForall, sExists, startsWith, List.isPrefixOf]
    have hsw : startsWith (LT.fa wl wr t).render sForall = true := by
      simp only [LT.render, List.append_assoc]; exact startsWith_append _ _
    have hlast : ((LT.fa wl wr t).render.getLast? == some ')') = true := by
      simp only [LT.render]; rw [getLast_append_some _ _ ')' rfl]; rfl
    have hin : (((LT.fa wl wr t).render.drop 7).dropLast) = wl ++ t.render ++ wr := by
      simp [LT.render, sForall, List.dropLast_concat]
    simp only [hhead, Bool.false_and, Bool.false_eq_true, if_false, s1, s2, hbang, hsx, hsw, if_true, hlast, hin]
    have := ih f wl wr h1 h2 (by simp [LT.render] at hlt; omega)
    rw [this]; rfl

/-- the invariant of the induction: the tree and all its top-level operands (for both operators) parse back -/
theorem parse_all (A : Str → Except Err α) (g : Str → α) (t : LT) (h : t.WF)
    (hA : ∀ s ∈ t.leaves, A s = .ok (g s)) :
    ParseOK A g t ∧ ∀ o, ∀ k ∈ t.kids o, ParseOK A g k := by
  induction t with
  | leaf s =>
    have := parse_leaf A g s h (hA s (by simp [LT.leaves]))
    exact ⟨this, fun o k hk => by simp [LT.kids] at hk; subst hk; exact this⟩
  | paren wl wr t ih =>
    have := parse_paren A g wl wr t h (ih h.2.2 (fun s hs => hA s (by simpa [LT.leaves] using hs))).1
    exact ⟨this, fun o k hk => by simp [LT.kids] at hk; subst hk; exact this⟩
  | not w t ih =>
    have := parse_not A g w t h (ih h.2.2 (fun s hs => hA s (by simpa [LT.leaves] using hs))).1
    exact ⟨this, fun o k hk => by simp [LT.kids] at hk; subst hk; exact this⟩
  | ex wl wr t ih =>
    have := parse_ex A g wl wr t h (ih h.2.2 (fun s hs => hA s (by simpa [LT.leaves] using hs))).1
    exact ⟨this, fun o k hk => by simp [LT.kids] at hk; subst hk; exact this⟩
  | fa wl wr t ih =>
    have := parse_fa A g wl wr t h (ih h.2.2 (fun s hs => hA s (by simpa [LT.leaves] using hs))).1
    exact ⟨this, fun o k hk => by simp [LT.kids] at hk; subst hk; exact this⟩
  | or l wl wr r ihl ihr =>
    have hl := ihl h.2.2.1 (fun s hs => hA s (by simp [LT.leaves, hs]))
    have hr := ihr h.2.2.2.1 (fun s hs => hA s (by simp [LT.leaves, hs]))
    have hk : ∀ k ∈ (LT.or l wl wr r).kids true, ParseOK A g k := by
      intro k hk
      simp only [LT.kids, if_true, List.mem_append, List.mem_singleton] at hk
      rcases hk with hk | rfl
      · exact hl.2 true k hk
      · exact hr.1
    have := parse_op A g true (.or l wl wr r) h (by simp) rfl hk
    refine ⟨this, fun o k hk' => ?_⟩
    cases o
    · simp [LT.kids] at hk'; subst hk'; exact this
    · exact hk k hk'
  | and l wl wr r ihl ihr =>
    have hl := ihl h.2.2.1 (fun s hs => hA s (by simp [LT.leaves, hs]))
    have hr := ihr h.2.2.2.1 (fun s hs => hA s (by simp [LT.leaves, hs]))
    have hk : ∀ k ∈ (LT.and l wl wr r).kids false, ParseOK A g k := by
      intro k hk
      simp only [LT.kids, Bool.false_eq_true, if_false, List.mem_append, List.mem_singleton] at hk
      rcases hk with hk | rfl
      · exact hl.2 false k hk
      · exact hr.1
    have := parse_op A g false (.and l wl wr r) h (fun _ => rfl) rfl hk
    refine ⟨this, fun o k hk' => ?_⟩
    cases o
    · exact hk k hk'
    · simp [LT.kids] at hk'; subst hk'; exact this

/-! ## `parse_then_clause` -/

theorem splitOnChar_piece (d : Char) (p : Str) (hp : ∀ c ∈ p, c ≠ d) (rest cur : Str) :
    splitOnChar d (p ++ d :: rest) cur = (cur ++ p) :: splitOnChar d rest [] := by
  induction p generalizing cur with
  | nil => simp [splitOnChar]
  | cons c cs ih =>
    have hc := hp c (by simp)
    simp only [List.cons_append, splitOnChar]
    rw [if_neg (by simpa using hc), ih (fun x hx => hp x (by simp [hx]))]
    simp

theorem splitOnChar_last (d : Char) (p : Str) (hp : ∀ c ∈ p, c ≠ d) (cur : Str) :
    splitOnChar d p cur = [cur ++ p] := by
  induction p generalizing cur with
  | nil => simp [splitOnChar]
  | cons c cs ih =>
    have hc := hp c (by simp)
    simp only [splitOnChar]
    rw [if_neg (by simpa using hc), ih (fun x hx => hp x (by simp [hx]))]
    simp

theorem trim_ws (w : Str) (hw : Ws w) : trim w = [] := by
  have : w.dropWhile isWs = [] := by
    induction w with
    | nil => rfl
    | cons c cs ih =>
      simp only [List.dropWhile, hw c (by simp)]
      exact ih (fun x hx => hw x (by simp [hx]))
  simp [trim, trimStart, trimEnd, this]

/-- a statement list with its layout: (white space, statement text, white space) before each `;` -/
def renderStmts : List (Str × Str × Str) → Str → Str
  | [], w => w
  | (a, s, b) :: r, w => a ++ s ++ b ++ ';' :: renderStmts r w

theorem Ws.noSemi {w : Str} (hw : Ws w) : ∀ c ∈ w, c ≠ ';' := by
  intro c hc e; subst e; have := hw _ hc; simp [isWs] at this

theorem statements_render (xs : List (Str × Str × Str)) (w : Str) (hw : Ws w)
    (hx : ∀ x ∈ xs, Ws x.1 ∧ Ws x.2.2 ∧ Edges x.2.1 ∧ ∀ c ∈ x.2.1, c ≠ ';') :
    statements (renderStmts xs w) = xs.map (·.2.1) := by
  unfold statements
  induction xs with
  | nil => simp [renderStmts, splitOnChar_last ';' w hw.noSemi, trim_ws w hw]
  | cons x xs ih =>
    obtain ⟨a, s, b⟩ := x
    obtain ⟨h1, h2, h3, h4⟩ := hx (a, s, b) (by simp)
    have hno : ∀ c ∈ a ++ s ++ b, c ≠ ';' := by
      intro c hc
      simp only [List.mem_append] at hc
      rcases hc with (hc | hc) | hc
      · exact h1.noSemi c hc
      · exact h4 c hc
      · exact h2.noSemi c hc
    simp only [renderStmts]
    rw [show a ++ s ++ b ++ ';' :: renderStmts xs w = (a ++ s ++ b) ++ ';' :: renderStmts xs w by simp]
    rw [splitOnChar_piece ';' _ hno]
    simp only [List.nil_append, List.map_cons, trim_pad a s b h1 h2 h3]
    rw [List.filter_cons_of_pos (by simpa using edges_nonempty h3)]
    rw [ih (fun y hy => hx y (by simp [hy]))]

/-! ## behaviour before the fixes (for the counterexamples) -/

/-- `salience\s+(\d+)` — the pattern before fix F-C04a, searched in the raw attribute section (before F-C04e) -/
def matchSalienceAtOld (s : Str) : Option Str :=
  if !startsWith s sSalience then none else
  let r := s.drop 8
  if (r.takeWhile isWs).isEmpty then none else
  let d := (r.dropWhile isWs).takeWhile isDigit
  if d.isEmpty then none else some d

def extractSalienceOld (attrs : Str) : Except Err Int :=
  match searchFrom matchSalienceAtOld attrs with
  | none => .ok 0
  | some t => match parseI32 t with
    | some v => .ok v
    | none => .error .parse

instance (w : Str) : Decidable (Ws w) := by unfold Ws; infer_instance

instance [DecidableEq α] : DecidableEq (Except Err α) := fun a b =>
  match a, b with
  | .ok x, .ok y => if h : x = y then isTrue (by rw [h]) else isFalse (by intro e; cases e; exact h rfl)
  | .error x, .error y => if h : x = y then isTrue (by rw [h]) else isFalse (by intro e; cases e; exact h rfl)
  | .ok _, .error _ => isFalse (by intro e; cases e)
  | .error _, .ok _ => isFalse (by intro e; cases e)

/-- the text of a string value -/
def Value.strText : Value → Option Str
  | .str s => some s
  | _ => none

end C04
