import RreModel.C04.Lemmas
/-
C04 — whole files: the renderer of the round-trip theorems (`Theorems3.lean`) and of the correspondence.

* `HAttr`, `RuleSrc`: one attribute / one rule AS WRITTEN — the grammar-level content together with one concrete
  layout (every white-space slot is a field; condition = `LT`, statements = padded texts);
* `RuleSrc.render`, `renderFile`: the text; `RuleSrc.mrender n`, `mfile n`: the text after `mask_string_literals`
  when `n` table entries precede it;
* `renderAtom` / `renderStmt` / `toSrc` / `renderCase`: from the abstract rule list carried by a case (`ARule`) and a
  layout word (one palette index per white-space slot, in a fixed traversal order) to the `RuleSrc` list and the
  file text.  The harness' `RF` family renders its files with a Rust port of exactly this function and the driver
  re-renders every such case here and compares (`render-agrees`): the premise of the theorems — "the text is
  `renderFile …`" — is observed on the very texts the real parser is run on.
No Mathlib; imported by the driver.
-/
namespace C04

inductive AKind where
  | sal | nl | loa | ag | actg | de | dx
deriving DecidableEq, Repr

def AKind.kw : AKind → Str
  | .sal => "salience".toList
  | .nl => "no-loop".toList
  | .loa => "lock-on-active".toList
  | .ag => "agenda-group".toList
  | .actg => "activation-group".toList
  | .de => "date-effective".toList
  | .dx => "date-expires".toList

def AKind.quoted : AKind → Bool
  | .ag | .actg | .de | .dx => true
  | _ => false

def AKind.flag : AKind → Bool
  | .nl | .loa => true
  | _ => false

/-- one attribute with its layout: `kw w1 value w2` (`kw w2` for the two flags) -/
structure HAttr where
  kind : AKind
  val : Str := []
  sal : Int := 0
  w1 : Str := [' ']
  w2 : Str := [' ']
deriving Repr

structure HAttr.Ok (a : HAttr) : Prop where
  w2 : Ws a.w2 ∧ a.w2 ≠ []
  w1 : Ws a.w1 ∧ a.w1 ≠ []
  val : a.kind.quoted = true → a.val ≠ [] ∧ ∀ c ∈ a.val, c ≠ '"' ∧ c ≠ '\n'
  sal : -2147483648 ≤ a.sal ∧ a.sal ≤ 2147483647

/-- the text after the keyword, as written -/
def HAttr.tail (a : HAttr) : Str :=
  if a.kind.flag then a.w2
  else if a.kind.quoted then a.w1 ++ '"' :: a.val ++ '"' :: a.w2
  else a.w1 ++ intShow a.sal ++ a.w2

/-- … after `mask_string_literals` (`n` table entries before it) -/
def HAttr.mtail (n : Nat) (a : HAttr) : Str :=
  if a.kind.flag then a.w2
  else if a.kind.quoted then a.w1 ++ '"' :: maskBodyAt n a.val ++ '"' :: a.w2
  else a.w1 ++ intShow a.sal ++ a.w2

/-- … after the quoted strings have been removed -/
def HAttr.rtail (a : HAttr) : Str :=
  if a.kind.flag then a.w2
  else if a.kind.quoted then a.w1 ++ a.w2
  else a.w1 ++ intShow a.sal ++ a.w2

def HAttr.lits (a : HAttr) : List Str := if a.kind.quoted then [a.val] else []

def renderAttrs (as : List HAttr) : Str := as.flatMap fun a => a.kind.kw ++ a.tail
def rattrs (as : List HAttr) : Str := as.flatMap fun a => a.kind.kw ++ a.rtail
def litsAttrs (as : List HAttr) : List Str := as.flatMap HAttr.lits
def mattrs : Nat → List HAttr → Str
  | _, [] => []
  | n, a :: as => a.kind.kw ++ a.mtail n ++ mattrs (n + a.lits.length) as


/-! ## one rule as written -/

structure RuleSrc where
  name : Str
  quoted : Bool
  /-- after `rule` (non-empty) and after the name (non-empty) -/
  w0 : Str
  w1 : Str
  attrs : List HAttr
  /-- after `{`; after `when` (non-empty) -/
  w2 : Str
  w3 : Str
  cond : LT
  /-- before and after `then` (both non-empty) -/
  w4 : Str
  w5 : Str
  /-- the statements `(before, text, after)`, each followed by `;` -/
  stmts : List (Str × Str × Str)
  /-- before `}` -/
  w6 : Str
deriving Repr

def RuleSrc.nameText (r : RuleSrc) : Str := if r.quoted then '"' :: r.name ++ ['"'] else r.name
/-- the name after masking (`n` table entries before it) -/
def RuleSrc.mnameText (n : Nat) (r : RuleSrc) : Str := if r.quoted then '"' :: maskBodyAt n r.name ++ ['"'] else r.name
def RuleSrc.nameLits (r : RuleSrc) : List Str := if r.quoted then [r.name] else []

def sOpen : Str := ['{']
def sClose : Str := ['}']

/-- the rule text -/
def RuleSrc.render (r : RuleSrc) : Str :=
  sRule ++ r.w0 ++ r.nameText ++ r.w1 ++ renderAttrs r.attrs ++ sOpen ++ r.w2 ++ sWhen ++ r.w3 ++ r.cond.render
    ++ r.w4 ++ sThen ++ r.w5 ++ renderStmts r.stmts r.w6 ++ sClose

/-- a file: white space / comments `g0`, then every rule followed by its gap -/
def renderFile (g0 : Str) (rs : List (RuleSrc × Str)) : Str := g0 ++ rs.flatMap fun x => x.1.render ++ x.2


/-! ## rewriting the white-space slots (the layout) of a rule; `norm` = what `clean_text` makes of a slot -/

/-- what `clean_text` makes of a white-space slot: one blank if it contains a line break, else the slot as written -/
def norm (w : Str) : Str := if w.contains '\n' then [' '] else w

/-- the same condition with every white-space slot rewritten by `σ` -/
def LT.mapW (σ : Str → Str) : LT → LT
  | .leaf s => .leaf s
  | .paren wl wr t => .paren (σ wl) (σ wr) (t.mapW σ)
  | .not w t => .not (σ w) (t.mapW σ)
  | .ex wl wr t => .ex (σ wl) (σ wr) (t.mapW σ)
  | .fa wl wr t => .fa (σ wl) (σ wr) (t.mapW σ)
  | .or l wl wr r => .or (l.mapW σ) (σ wl) (σ wr) (r.mapW σ)
  | .and l wl wr r => .and (l.mapW σ) (σ wl) (σ wr) (r.mapW σ)

def HAttr.mapW (σ : Str → Str) (a : HAttr) : HAttr := { a with w1 := σ a.w1, w2 := σ a.w2 }

def mapStmtW (σ : Str → Str) (x : Str × Str × Str) : Str × Str × Str := (σ x.1, x.2.1, σ x.2.2)

/-- the same rule with every white-space slot rewritten by `σ` -/
def RuleSrc.mapW (σ : Str → Str) (r : RuleSrc) : RuleSrc :=
  { r with w0 := σ r.w0, w1 := σ r.w1, attrs := r.attrs.map (HAttr.mapW σ), w2 := σ r.w2, w3 := σ r.w3, cond := r.cond.mapW σ,
           w4 := σ r.w4, w5 := σ r.w5, stmts := r.stmts.map (mapStmtW σ), w6 := σ r.w6 }

/-- what `strip_comments` makes of a slot (white space and comments) -/
def stripSlot (w : Str) : Str := stripComments w none

/-! ## from the abstract rule list of a case and a layout word to the text -/

def opSym : Op → Str
  | .eq => "==".toList | .ne => "!=".toList | .gt => ">".toList | .ge => ">=".toList | .lt => "<".toList | .le => "<=".toList
  | .contains => "contains".toList | .notContains => "not_contains".toList | .startsWith => "startsWith".toList
  | .endsWith => "endsWith".toList | .matches_ => "matches".toList | .in_ => "in".toList

def joinWith (sep : Str) : List Str → Str
  | [] => []
  | [x] => x
  | x :: xs => x ++ sep ++ joinWith sep xs

def renderLitPlain : ALit → Str
  | .int i => intShow i
  | .float t _ => t
  | .str q s => q :: s ++ [q]
  | .bool b => if b then "true".toList else "false".toList
  | .null => "null".toList
  | .arr xs => '[' :: joinWith ", ".toList (xs.attach.map fun ⟨x, _⟩ => renderLitPlain x) ++ [']']
  | .ident s | .path s | .arith s => s

/-- the leaf text of an atom in the plain layout (one blank around the operator); `none` = a form the `RF` family does not use -/
def renderAtom : AAtom → Option Str
  | .cmp f o v => some (f ++ [' '] ++ opSym o ++ [' '] ++ renderLitPlain v)
  | .arith l o v => some (l ++ [' '] ++ o ++ [' '] ++ v)
  | .call f as o v => some (f ++ ['('] ++ joinWith ", ".toList as ++ [')'] ++ [' '] ++ opSym o ++ [' '] ++ renderLitPlain v)
  | .test f as => some ("test(".toList ++ f ++ ['('] ++ joinWith ", ".toList as ++ "))".toList)
  | .mcount f o v => some (f ++ " count ".toList ++ opSym o ++ [' '] ++ renderLitPlain v)
  | .mempty f => some (f ++ " empty".toList)
  | .mnotempty f => some (f ++ " not_empty".toList)
  | .mcollect f v => some (f ++ [' '] ++ v)
  | _ => none

def renderStmt : AStmt → Option Str
  | .set f v => some (f ++ " = ".toList ++ renderLitPlain v)
  | .append f v => some (f ++ " += ".toList ++ renderLitPlain v)
  | .call f as => some (f ++ ['('] ++ joinWith ", ".toList (as.map renderLitPlain) ++ [')'])
  | .retract o => some ("Retract($".toList ++ o ++ [')'])
  | .log v => some ("Log(".toList ++ renderLitPlain v ++ [')'])
  | .activate g => some ("ActivateAgendaGroup(\"".toList ++ g ++ "\")".toList)
  | .complete w => some ("CompleteWorkflow(\"".toList ++ w ++ "\")".toList)
  | .schedule d r => some ("ScheduleRule(".toList ++ natDigits d ++ ", \"".toList ++ r ++ "\")".toList)
  | _ => none

/-- the palette of mandatory white space (index 0–8); 6–8 contain comments -/
def palette : List Str :=
  [" ", "  ", "\t", "\n", "\n    ", "\r\n  ", " /*/ note } */ ", " // c { then\n", "\n// rule x {\n  "].map String.toList

/-- the layout word: one digit per slot; when it is used up every slot is one blank -/
abbrev Supply := List Nat

def popW : Supply → Str × Supply
  | [] => ([' '], [])
  | i :: r => (palette.getD (i % 9) [' '], r)

/-- optional white space: digit 9 = nothing -/
def popO : Supply → Str × Supply
  | [] => ([], [])
  | i :: r => (if i % 10 == 9 then [] else palette.getD (i % 9) [' '], r)

/-- precedence level of a node: 0 = `||`, 1 = `&&`, 2 = the rest -/
def condLevel : Cond α → Nat
  | .or .. => 0
  | .and .. => 1
  | _ => 2

/-- lay a condition out (parentheses exactly where the precedence needs them; slots are drawn after the operands) -/
def layCond (leaf : α → Option Str) : Cond α → Nat → Supply → Option (LT × Supply)
  | c, level, s =>
    let core : Option (LT × Supply) :=
      match c with
      | .single a => (leaf a).map fun t => (.leaf t, s)
      | .or a b => do
        let (l, s) ← layCond leaf a 0 s
        let (r, s) ← layCond leaf b 1 s
        let (wl, s) := popW s
        let (wr, s) := popW s
        pure (.or l wl wr r, s)
      | .and a b => do
        let (l, s) ← layCond leaf a 1 s
        let (r, s) ← layCond leaf b 2 s
        let (wl, s) := popW s
        let (wr, s) := popW s
        pure (.and l wl wr r, s)
      | .not a => do
        let (t, s) ← layCond leaf a 2 s
        let (w, s) := popO s
        pure (.not w t, s)
      | .ex a => do
        let (t, s) ← layCond leaf a 0 s
        let (wl, s) := popO s
        let (wr, s) := popO s
        pure (.ex wl wr t, s)
      | .fa a => do
        let (t, s) ← layCond leaf a 0 s
        let (wl, s) := popO s
        let (wr, s) := popO s
        pure (.fa wl wr t, s)
    if condLevel c < level then
      core.map fun (t, s) =>
        let (wl, s) := popO s
        let (wr, s) := popO s
        (.paren wl wr t, s)
    else core

def layStmts : List Str → Bool → Supply → List (Str × Str × Str) × Supply
  | [], _, s => ([], s)
  | t :: ts, first, s =>
    let (a, s) := if first then (([] : Str), s) else popO s
    let (b, s) := popO s
    let (rest, s) := layStmts ts false s
    ((a, t, b) :: rest, s)

/-- the attributes in the order given by the layout word (a digit each: the next attribute is the `d`-th of those
that remain); the fuel is the number of attributes -/
def pickAttrsF : Nat → List HAttr → Supply → List HAttr × Supply
  | 0, l, s => (l, s)
  | _ + 1, [], s => ([], s)
  | _ + 1, a :: as, [] => (a :: as, [])
  | f + 1, a :: as, d :: s' =>
    let k := d % (as.length + 1)
    let (out, s'') := pickAttrsF f ((a :: as).eraseIdx k) s'
    ((a :: as).getD k a :: out, s'')

def pickAttrs (l : List HAttr) (s : Supply) : List HAttr × Supply := pickAttrsF l.length l s

def attrsOf (r : ARule) (s : Supply) : List HAttr × Supply :=
  let base : List HAttr :=
    (if r.salience != 0 then [{ kind := .sal, sal := r.salience }] else [])
    ++ (if r.noLoop then [{ kind := .nl }] else [])
    ++ (if r.lockOnActive then [{ kind := .loa }] else [])
    ++ (match r.agendaGroup with | some g => [{ kind := .ag, val := g }] | none => [])
    ++ (match r.activationGroup with | some g => [{ kind := .actg, val := g }] | none => [])
    ++ (match r.dateEffective with | some g => [{ kind := .de, val := g }] | none => [])
    ++ (match r.dateExpires with | some g => [{ kind := .dx, val := g }] | none => [])
  let (ordered, s) := pickAttrs base s
  -- white space: after the keyword and after the value
  ordered.foldl (fun (acc : List HAttr × Supply) a =>
    let (w1, s) := popW acc.2
    let (w2, s) := popW s
    (acc.1 ++ [{ a with w1 := w1, w2 := w2 }], s)) ([], s)

def isBareName (n : Str) : Bool :=
  match n with
  | [] => false
  | c :: _ => isIdStart c && n.all isWord

/-- one rule: slots in the order w0 w1 attrs… w2 w3 cond… w4 w5 stmts… w6, then the gap after the rule -/
def toSrc (r : ARule) (s : Supply) : Option ((RuleSrc × Str) × Supply) := do
  let (w0, s) := popW s
  let (w1, s) := popW s
  let (attrs, s) := attrsOf r s
  let (w2, s) := popO s
  let (w3, s) := popW s
  let (cond, s) ← layCond renderAtom r.cond 0 s
  let (w4, s) := popW s
  let (w5, s) := popW s
  let texts ← r.stmts.mapM renderStmt
  let (stmts, s) := layStmts texts true s
  let (w6, s) := popO s
  let (gap, s) := popW s
  pure (({ name := r.name, quoted := !isBareName r.name, w0 := w0, w1 := w1, attrs := attrs, w2 := w2, w3 := w3,
           cond := cond, w4 := w4, w5 := w5, stmts := stmts, w6 := w6 }, gap), s)

def toSrcs : List ARule → Supply → Option (List (RuleSrc × Str))
  | [], _ => some []
  | r :: rs, s => do
    let (x, s) ← toSrc r s
    let xs ← toSrcs rs s
    pure (x :: xs)

/-- the file of a case of the `RF` family: leading gap, rules, gaps -/
def renderCase (rs : List ARule) (s : Supply) : Option (Str × List (RuleSrc × Str)) :=
  let (g0, s) := popO s
  (toSrcs rs s).map fun xs => (renderFile g0 xs, xs)

end C04
