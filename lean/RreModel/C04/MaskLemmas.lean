import RreModel.C04.Lemmas
/-
C04 — lemmas about the string literal masking (`mask_string_literals`, `unmask`): the decimal round
trip of the table index, `unmask` restores what `mask` replaced, `mask` distributes over any text that
is closed with respect to quotes, and the masked form of a text differs from the text with emptied
literals only by inert characters.  Core Lean only.
-/
namespace C04

/-! ## decimal round trip -/

theorem isDigit_eq (c : Char) : isDigit c = c.isDigit := by
  unfold isDigit Char.isDigit
  simp [Char.le_def, UInt32.le_iff_toNat_le]

theorem natDigits_eq (n : Nat) : natDigits n = Nat.toDigits 10 n := by
  simp [natDigits]

theorem toDigits_isDigit (n : Nat) : ∀ c ∈ Nat.toDigits 10 n, isDigit c = true := by
  intro c hc
  rw [isDigit_eq]
  exact Nat.isDigit_of_mem_toDigits (by decide) (by decide) hc

theorem digitsVal_snoc (xs : Str) (d : Char) : digitsVal (xs ++ [d]) = 10 * digitsVal xs + (d.toNat - '0'.toNat) := by
  simp [digitsVal, List.foldl_append]

theorem digitsVal_toDigits (n : Nat) : digitsVal (Nat.toDigits 10 n) = n := by
  induction n using Nat.strongRecOn with
  | _ n ih =>
    rw [Nat.toDigits_eq_if (by decide)]
    split
    · rename_i h
      have := Nat.toNat_digitChar_sub_48_of_lt_ten h
      simp [digitsVal, this]
    · rename_i h
      rw [digitsVal_snoc, ih (n / 10) (by omega)]
      have := Nat.toNat_digitChar_sub_48_of_lt_ten (Nat.mod_lt n (by decide : 10 > 0))
      have h0 : '0'.toNat = 48 := rfl
      rw [h0, this]; omega

theorem isDigit_ne {c : Char} (h : isDigit c = true) :
    c ≠ '+' ∧ c ≠ '-' ∧ c ≠ mEnd ∧ c ≠ mStart := by
  refine ⟨?_, ?_, ?_, ?_⟩ <;> (intro e; subst e; revert h; decide)

theorem stripPlus_digits (s : Str) (h : ∀ c ∈ s, isDigit c = true) : stripPlus s = s := by
  cases s with
  | nil => rfl
  | cons c cs =>
    have := (isDigit_ne (h c (by simp))).1
    unfold stripPlus
    split
    · rename_i heq; simp at heq; exact absurd heq.1 this
    · rfl

theorem parseUsize_natDigits (n : Nat) : parseUsize (natDigits n) = some n := by
  unfold parseUsize
  rw [natDigits_eq, stripPlus_digits _ (toDigits_isDigit n), digitsVal_toDigits]
  have h1 : (Nat.toDigits 10 n).isEmpty = false := by
    cases h : Nat.toDigits 10 n with
    | nil => exact absurd h Nat.toDigits_ne_nil
    | cons _ _ => rfl
  have h2 : (Nat.toDigits 10 n).all isDigit = true := by
    rw [List.all_eq_true]; exact toDigits_isDigit n
  simp [h1, h2]

/-! ## decoding a placeholder -/

theorem takeWhile_stop (p : Char → Bool) (x : Str) (y : Char) (r : Str) (hx : ∀ c ∈ x, p c = true) (hy : p y = false) :
    (x ++ y :: r).takeWhile p = x ∧ (x ++ y :: r).dropWhile p = y :: r := by
  induction x with
  | nil => simp [hy]
  | cons c cs ih =>
    have hc := hx c (by simp)
    have := ih (fun d hd => hx d (by simp [hd]))
    simp [hc, this.1, this.2]

theorem natDigits_no_mEnd (n : Nat) : ∀ c ∈ natDigits n, (c != mEnd) = true := by
  intro c hc
  rw [natDigits_eq] at hc
  simpa using (isDigit_ne (toDigits_isDigit n c hc)).2.2.1

theorem decodeRun_natDigits (T : List Str) (n : Nat) (b rest : Str) (h : T[n]? = some b) :
    decodeRun T (natDigits n ++ mEnd :: rest) = some (b, rest) := by
  unfold decodeRun
  obtain ⟨h1, h2⟩ := takeWhile_stop (· != mEnd) (natDigits n) mEnd rest (natDigits_no_mEnd n) (by decide)
  rw [h1, h2, parseUsize_natDigits]
  simp [h]

/-! ## `unmask` -/

theorem decodeRun_len {T : List Str} {cs b rest : Str} (h : decodeRun T cs = some (b, rest)) : rest.length < cs.length := by
  unfold decodeRun at h
  split at h
  · simp at h
  · rename_i x r heq
    have hl : (cs.dropWhile (· != mEnd)).length ≤ cs.length := by
      have := List.dropWhile_sublist (· != mEnd) (l := cs)
      exact this.length_le
    rw [heq] at hl
    simp only [Option.map_eq_some_iff] at h
    obtain ⟨_, _, he⟩ := h
    simp only [Prod.mk.injEq] at he
    rw [← he.2]
    simp at hl; omega

theorem unmaskF_fuel (T : List Str) (f g : Nat) (s : Str) (hf : s.length ≤ f) (hg : s.length ≤ g) :
    unmaskF T f s = unmaskF T g s := by
  induction f generalizing g s with
  | zero =>
    have : s = [] := by cases s <;> simp at hf ⊢
    subst this
    cases g <;> rfl
  | succ f ih =>
    cases s with
    | nil => cases g <;> rfl
    | cons c cs =>
      cases g with
      | zero => simp at hg
      | succ g =>
        simp only [List.length_cons] at hf hg
        simp only [unmaskF]
        split
        · split
          · rename_i b rest hd
            have := decodeRun_len hd
            rw [ih g rest (by omega) (by omega)]
          · rw [ih g cs (by omega) (by omega)]
        · rw [ih g cs (by omega) (by omega)]

theorem unmask_nil (T : List Str) : unmask T [] = [] := rfl

theorem unmask_cons_other (T : List Str) (c : Char) (cs : Str) (h : c ≠ mStart) : unmask T (c :: cs) = c :: unmask T cs := by
  unfold unmask
  simp only [List.length_cons, unmaskF]
  rw [if_neg (by simpa using h)]

theorem unmask_cons_run (T : List Str) (cs b rest : Str) (h : decodeRun T cs = some (b, rest)) :
    unmask T (mStart :: cs) = b ++ unmask T rest := by
  unfold unmask
  simp only [List.length_cons, unmaskF, beq_self_eq_true, if_true, h]
  rw [unmaskF_fuel T cs.length rest.length rest (Nat.le_of_lt (decodeRun_len h)) (Nat.le_refl _)]

/-- text without `MASK_START` passes through -/
theorem unmask_plain (T : List Str) (x r : Str) (hx : ∀ c ∈ x, c ≠ mStart) : unmask T (x ++ r) = x ++ unmask T r := by
  induction x with
  | nil => rfl
  | cons c cs ih =>
    rw [List.cons_append, unmask_cons_other T c _ (hx c (by simp)), ih (fun d hd => hx d (by simp [hd]))]
    rfl

/-- a placeholder is replaced by the table entry it names -/
theorem unmask_maskBodyAt (T : List Str) (n : Nat) (b r : Str) (h : b ≠ [] → T[n]? = some b) :
    unmask T (maskBodyAt n b ++ r) = b ++ unmask T r := by
  unfold maskBodyAt
  cases b with
  | nil => rfl
  | cons c cs =>
    simp only [List.isEmpty_cons, Bool.false_eq_true, if_false, List.cons_append, List.append_assoc]
    exact unmask_cons_run T _ _ _ (decodeRun_natDigits T n (c :: cs) r (h (by simp)))

/-! ## `mask_string_literals` -/

/-- no quote character: the text is not touched by the masking -/
def QuoteFree (x : Str) : Prop := ∀ c ∈ x, c ≠ '"' ∧ c ≠ '\''

theorem maskGo_code (x r : Str) (n : Nat) (hx : QuoteFree x) :
    maskGo (x ++ r) none n = x ++ maskGo r none n ∧ litsGo (x ++ r) none = litsGo r none := by
  induction x with
  | nil => exact ⟨rfl, rfl⟩
  | cons c cs ih =>
    have hc := hx c (by simp)
    have := ih (fun d hd => hx d (by simp [hd]))
    simp only [List.cons_append, maskGo, litsGo]
    rw [if_neg (by simp [hc.1, hc.2]), if_neg (by simp [hc.1, hc.2]), this.1, this.2]
    exact ⟨rfl, rfl⟩

theorem maskGo_body (q : Char) (b buf r : Str) (n : Nat) (hb : ∀ c ∈ b, c ≠ q ∧ c ≠ '\n') :
    maskGo (b ++ q :: r) (some (q, buf)) n
        = q :: maskBodyAt n (buf ++ b) ++ q :: maskGo r none (n + bodyCnt (buf ++ b))
    ∧ litsGo (b ++ q :: r) (some (q, buf)) = (if (buf ++ b).isEmpty then [] else [buf ++ b]) ++ litsGo r none := by
  induction b generalizing buf with
  | nil => simp [maskGo, litsGo]
  | cons c cs ih =>
    have hc := hb c (by simp)
    have := ih (buf ++ [c]) (fun d hd => hb d (by simp [hd]))
    simp only [List.cons_append, maskGo, litsGo]
    rw [if_neg (by simpa using hc.1), if_neg (by simpa using hc.2), if_neg (by simpa using hc.1), if_neg (by simpa using hc.2),
      this.1, this.2]
    simp

/-- a complete literal: its body is replaced by the placeholder and the scan continues outside -/
theorem maskGo_lit (q : Char) (hq : q = '"' ∨ q = '\'') (b r : Str) (n : Nat) (hb : ∀ c ∈ b, c ≠ q ∧ c ≠ '\n') :
    maskGo (q :: b ++ q :: r) none n = q :: maskBodyAt n b ++ q :: maskGo r none (n + bodyCnt b)
    ∧ litsGo (q :: b ++ q :: r) none = (if b.isEmpty then [] else [b]) ++ litsGo r none := by
  simp only [List.cons_append, maskGo, litsGo]
  rw [if_pos (by rcases hq with rfl | rfl <;> rfl), if_pos (by rcases hq with rfl | rfl <;> rfl)]
  have := maskGo_body q b [] r n hb
  simpa using this

/-- `x` ends outside a literal: masking what follows does not depend on it (but for the table offset) -/
def MaskClosed (x : Str) : Prop :=
  ∀ r n, maskGo (x ++ r) none n = maskGo x none n ++ maskGo r none (n + (lits x).length)
    ∧ litsGo (x ++ r) none = lits x ++ litsGo r none

theorem MaskClosed.nil : MaskClosed [] := by intro r n; exact ⟨rfl, rfl⟩

theorem maskGo_nil (n : Nat) : maskGo [] none n = [] := rfl

theorem MaskClosed.append {x y : Str} (hx : MaskClosed x) (hy : MaskClosed y) :
    MaskClosed (x ++ y) ∧ (∀ n, maskGo (x ++ y) none n = maskGo x none n ++ maskGo y none (n + (lits x).length))
      ∧ lits (x ++ y) = lits x ++ lits y := by
  have h2 : ∀ n, maskGo (x ++ y) none n = maskGo x none n ++ maskGo y none (n + (lits x).length) := fun n => (hx y n).1
  have h3 : lits (x ++ y) = lits x ++ lits y := (hx y 0).2
  refine ⟨?_, h2, h3⟩
  intro r n
  rw [List.append_assoc, (hx (y ++ r) n).1, (hy r _).1, (hx (y ++ r) n).2, (hy r 0).2, h2, h3]
  simp [List.append_assoc, Nat.add_assoc]

theorem MaskClosed.code {x : Str} (hx : QuoteFree x) :
    MaskClosed x ∧ (∀ n, maskGo x none n = x) ∧ lits x = [] := by
  have h2 : ∀ n, maskGo x none n = x := by
    intro n; have := (maskGo_code x [] n hx).1; simpa [maskGo] using this
  have h3 : lits x = [] := by
    have := (maskGo_code x [] 0 hx).2; simpa [lits, litsGo] using this
  refine ⟨?_, h2, h3⟩
  intro r n
  rw [h2, h3, (maskGo_code x r n hx).1, (maskGo_code x r n hx).2]
  simp

theorem Ws.quoteFree {w : Str} (hw : Ws w) : QuoteFree w := by
  intro c hc
  have := hw c hc
  constructor <;> (intro e; subst e; revert this; decide)

/-! ## texts as code pieces and string literals -/

inductive Seg where
  | code (s : Str)
  | lit (q : Char) (body : Str)
deriving Repr

/-- as written -/
def Seg.render : Seg → Str
  | .code s => s
  | .lit q b => q :: b ++ [q]
/-- after `mask_string_literals`, when `n` literals came before -/
def Seg.maskedAt (n : Nat) : Seg → Str
  | .code s => s
  | .lit q b => q :: maskBodyAt n b ++ [q]
/-- with the literal emptied -/
def Seg.blank : Seg → Str
  | .code s => s
  | .lit q _ => [q, q]
/-- the table entries -/
def Seg.lits : Seg → List Str
  | .code _ => []
  | .lit _ b => if b.isEmpty then [] else [b]

/-- code has no quote character (and no `MASK_START`); a literal body is ARBITRARY except for its own
quote character and a line break -/
def Seg.Ok : Seg → Prop
  | .code s => QuoteFree s ∧ ∀ c ∈ s, c ≠ mStart
  | .lit q b => (q = '"' ∨ q = '\'') ∧ ∀ c ∈ b, c ≠ q ∧ c ≠ '\n'

def renderSegs (l : List Seg) : Str := l.flatMap Seg.render
def blankSegs (l : List Seg) : Str := l.flatMap Seg.blank
def litsSegs (l : List Seg) : List Str := l.flatMap Seg.lits
def maskedSegsAt : Nat → List Seg → Str
  | _, [] => []
  | n, x :: xs => x.maskedAt n ++ maskedSegsAt (n + x.lits.length) xs

theorem bodyCnt_eq (b : Str) : bodyCnt b = (if b.isEmpty then ([] : List Str) else [b]).length := by
  unfold bodyCnt; split <;> rfl

theorem Seg.closed (x : Seg) (h : x.Ok) :
    MaskClosed x.render ∧ (∀ n, maskGo x.render none n = x.maskedAt n) ∧ C04.lits x.render = x.lits := by
  cases x with
  | code s => exact MaskClosed.code h.1
  | lit q b =>
    obtain ⟨hq, hb⟩ := h
    have h2 : ∀ n, maskGo (q :: b ++ [q]) none n = q :: maskBodyAt n b ++ [q] := by
      intro n; have := (maskGo_lit q hq b [] n hb).1; simpa [maskGo] using this
    have h3 : C04.lits (q :: b ++ [q]) = (if b.isEmpty then [] else [b]) := by
      have := (maskGo_lit q hq b [] 0 hb).2; simpa [C04.lits, litsGo] using this
    refine ⟨?_, h2, h3⟩
    intro r n
    have := maskGo_lit q hq b r n hb
    simp only [Seg.render]
    rw [h2, h3, ← bodyCnt_eq]
    constructor
    · simpa using this.1
    · simpa using this.2

/-- **masking a text** built from code and literals replaces exactly the literal bodies, numbered in order -/
theorem renderSegs_closed (l : List Seg) (h : ∀ x ∈ l, x.Ok) :
    MaskClosed (renderSegs l) ∧ (∀ n, maskGo (renderSegs l) none n = maskedSegsAt n l)
      ∧ lits (renderSegs l) = litsSegs l := by
  induction l with
  | nil => exact ⟨MaskClosed.nil, fun _ => rfl, rfl⟩
  | cons x xs ih =>
    obtain ⟨c1, m1, l1⟩ := x.closed (h x (by simp))
    obtain ⟨c2, m2, l2⟩ := ih (fun y hy => h y (by simp [hy]))
    obtain ⟨c3, m3, l3⟩ := c1.append c2
    simp only [renderSegs, litsSegs, List.flatMap_cons] at *
    refine ⟨c3, ?_, by rw [l3, l1, l2]⟩
    intro n
    rw [m3, m1, m2, l1]; rfl

/-- **`unmask` restores what the masking replaced**: `T` contains the literals of `l` from index `n` on -/
theorem unmask_maskedSegsAt (T pre post : List Str) (l : List Seg) (h : ∀ x ∈ l, x.Ok)
    (hT : T = pre ++ litsSegs l ++ post) :
    unmask T (maskedSegsAt pre.length l) = renderSegs l := by
  induction l generalizing pre with
  | nil => rfl
  | cons x xs ih =>
    have hx := h x (by simp)
    have e : litsSegs (x :: xs) = x.lits ++ litsSegs xs := by simp [litsSegs]
    have ih' := ih (pre ++ x.lits) (fun y hy => h y (by simp [hy])) (by rw [hT, e]; simp [List.append_assoc])
    simp only [List.length_append] at ih'
    simp only [maskedSegsAt, renderSegs, List.flatMap_cons] at *
    cases x with
    | code s =>
      simp only [Seg.maskedAt, Seg.render]
      rw [unmask_plain T s _ hx.2]
      simpa [Seg.lits] using congrArg (s ++ ·) ih'
    | lit q b =>
      obtain ⟨hq, _⟩ := hx
      have hqm : q ≠ mStart := by rcases hq with rfl | rfl <;> decide
      have hget : b ≠ [] → T[pre.length]? = some b := by
        intro hb
        have hl : (Seg.lit q b).lits = [b] := by
          simp only [Seg.lits]; rw [if_neg]; cases b with
          | nil => exact absurd rfl hb
          | cons _ _ => simp
        rw [hT, e, hl]
        simp [List.append_assoc]
      simp only [Seg.maskedAt, Seg.render, List.cons_append, List.append_assoc]
      rw [unmask_cons_other T q _ hqm, unmask_maskBodyAt T pre.length b _ hget, List.nil_append,
        unmask_cons_other T q _ hqm, ih']
      simp

theorem unmask_mask_segs (l : List Seg) (h : ∀ x ∈ l, x.Ok) :
    unmask (lits (renderSegs l)) (mask (renderSegs l)) = renderSegs l := by
  obtain ⟨_, m, lt⟩ := renderSegs_closed l h
  unfold mask
  rw [m, lt]
  have := unmask_maskedSegsAt (litsSegs l) [] [] l h (by simp)
  simpa using this

/-! ## the masked text and the text with emptied literals differ by inert characters only -/

/-- a character of a placeholder -/
def InertChar (c : Char) : Prop := c = mStart ∨ c = mEnd ∨ isDigit c = true

theorem maskBodyAt_mem {n : Nat} {b : Str} {c : Char} (h : c ∈ maskBodyAt n b) : InertChar c := by
  unfold maskBodyAt at h
  split at h
  · simp at h
  · simp only [List.mem_cons, List.mem_append, List.mem_nil_iff, or_false] at h
    rcases h with (h | h) | h
    · exact Or.inl h
    · rw [natDigits_eq] at h; exact Or.inr (Or.inr (toDigits_isDigit n c h))
    · exact Or.inr (Or.inl h)

/-- none of the characters the structural scanning looks for -/
theorem InertChar.ne {c : Char} (h : InertChar c) :
    c ≠ '(' ∧ c ≠ ')' ∧ c ≠ '&' ∧ c ≠ '|' ∧ c ≠ ';' ∧ c ≠ '"' ∧ c ≠ '\'' ∧ isWs c = false := by
  rcases h with h | h | h
  · subst h; decide
  · subst h; decide
  · refine ⟨?_, ?_, ?_, ?_, ?_, ?_, ?_, ?_⟩ <;> (try (intro e; subst e; revert h; decide))
    revert h
    unfold isDigit isWs
    intro h
    by_cases h1 : c = ' ' <;> by_cases h2 : c = '\t' <;> by_cases h3 : c = '\n' <;> by_cases h4 : c = '\r' <;>
      first | (subst_vars; revert h; decide) | simp [h1, h2, h3, h4]

theorem Seg.maskedAt_mem (n : Nat) (x : Seg) {c : Char} (h : c ∈ x.maskedAt n) : c ∈ x.blank ∨ InertChar c := by
  cases x with
  | code s => exact Or.inl h
  | lit q b =>
    simp only [Seg.maskedAt, List.mem_cons, List.mem_append, List.mem_nil_iff, or_false] at h
    rcases h with (h | h) | h
    · exact Or.inl (by simp [Seg.blank, h])
    · exact Or.inr (maskBodyAt_mem h)
    · exact Or.inl (by simp [Seg.blank, h])

theorem maskedSegsAt_mem (n : Nat) (l : List Seg) {c : Char} (h : c ∈ maskedSegsAt n l) : c ∈ blankSegs l ∨ InertChar c := by
  induction l generalizing n with
  | nil => simp [maskedSegsAt] at h
  | cons x xs ih =>
    simp only [maskedSegsAt, List.mem_append] at h
    simp only [blankSegs, List.flatMap_cons, List.mem_append] at *
    rcases h with h | h
    · rcases x.maskedAt_mem n h with h1 | h1
      · exact Or.inl (Or.inl h1)
      · exact Or.inr h1
    · rcases ih _ h with h1 | h1
      · exact Or.inl (Or.inr h1)
      · exact Or.inr h1

theorem scanDepth_skip (x r : Str) (k : Nat) (hx : ∀ c ∈ x, c ≠ '(' ∧ c ≠ ')') :
    scanDepth (x ++ r) k = scanDepth r k := by
  induction x with
  | nil => rfl
  | cons c cs ih =>
    have hc := hx c (by simp)
    simp only [List.cons_append, scanDepth, hc.1, hc.2, if_false]
    exact ih (fun d hd => hx d (by simp [hd]))

theorem scanDepth_congr_append (x r₁ r₂ : Str) (h : ∀ k, scanDepth r₁ k = scanDepth r₂ k) (k : Nat) :
    scanDepth (x ++ r₁) k = scanDepth (x ++ r₂) k := by
  rw [scanDepth_append, scanDepth_append]
  cases scanDepth x k with
  | none => rfl
  | some m => exact h m

theorem maskedSegsAt_scanDepth (n : Nat) (l : List Seg) (h : ∀ x ∈ l, x.Ok) (k : Nat) :
    scanDepth (maskedSegsAt n l) k = scanDepth (blankSegs l) k := by
  induction l generalizing k n with
  | nil => rfl
  | cons x xs ih =>
    have ih' := fun n => ih n (fun y hy => h y (by simp [hy]))
    simp only [maskedSegsAt, blankSegs, List.flatMap_cons] at *
    cases x with
    | code s => exact scanDepth_congr_append s _ _ (ih' _) k
    | lit q b =>
      obtain ⟨hq, _⟩ := h (.lit q b) (by simp)
      have hqp : q ≠ '(' ∧ q ≠ ')' := by rcases hq with rfl | rfl <;> decide
      have e1 : Seg.maskedAt n (.lit q b) = (q :: maskBodyAt n b ++ [q]) := rfl
      have e2 : Seg.blank (.lit q b) = [q, q] := rfl
      rw [e1, e2, scanDepth_skip _ _ _ (by
        intro c hc
        simp only [List.mem_cons, List.mem_append, List.mem_nil_iff, or_false] at hc
        rcases hc with (hc | hc) | hc
        · subst hc; exact hqp
        · have := (maskBodyAt_mem hc).ne; exact ⟨this.1, this.2.1⟩
        · subst hc; exact hqp), scanDepth_skip [q, q] _ _ (by
        intro c hc; simp at hc; subst hc; exact hqp)]
      exact ih' _ k

theorem maskedSegsAt_head (n : Nat) (l : List Seg) : (maskedSegsAt n l).head? = (blankSegs l).head? := by
  induction l generalizing n with
  | nil => rfl
  | cons x xs ih =>
    simp only [maskedSegsAt, blankSegs, List.flatMap_cons] at *
    cases x with
    | code s => cases s with
      | nil => simpa [Seg.maskedAt, Seg.blank] using ih _
      | cons c cs => simp [Seg.maskedAt, Seg.blank]
    | lit q b => simp [Seg.maskedAt, Seg.blank]

theorem maskedSegsAt_getLast (n : Nat) (l : List Seg) : (maskedSegsAt n l).getLast? = (blankSegs l).getLast? := by
  induction l generalizing n with
  | nil => rfl
  | cons x xs ih =>
    simp only [maskedSegsAt, blankSegs, List.flatMap_cons] at *
    rw [List.getLast?_append, List.getLast?_append, ih]
    congr 1
    cases x with
    | code s => rfl
    | lit q b =>
      simp only [Seg.maskedAt, Seg.blank]
      rw [show q :: maskBodyAt n b ++ [q] = (q :: maskBodyAt n b) ++ [q] from rfl, List.getLast?_append]
      simp

theorem isPrefixOf_congr_append (x m b : Str)
    (h : ∀ p : Str, QuoteFree p → p.isPrefixOf m = p.isPrefixOf b) (p : Str) (hp : QuoteFree p) :
    p.isPrefixOf (x ++ m) = p.isPrefixOf (x ++ b) := by
  induction x generalizing p with
  | nil => exact h p hp
  | cons a xs ih =>
    cases p with
    | nil => rfl
    | cons c ps =>
      simp only [List.cons_append, List.isPrefixOf]
      rw [ih ps (fun d hd => hp d (by simp [hd]))]

theorem maskedSegsAt_prefix (n : Nat) (l : List Seg) (h : ∀ x ∈ l, x.Ok) (p : Str) (hp : QuoteFree p) :
    p.isPrefixOf (maskedSegsAt n l) = p.isPrefixOf (blankSegs l) := by
  induction l generalizing p n with
  | nil => rfl
  | cons x xs ih =>
    have ih' := fun n => ih n (fun y hy => h y (by simp [hy]))
    simp only [maskedSegsAt, blankSegs, List.flatMap_cons] at *
    cases x with
    | code s => exact isPrefixOf_congr_append s _ _ (ih' _) p hp
    | lit q b =>
      obtain ⟨hq, _⟩ := h (.lit q b) (by simp)
      cases p with
      | nil => rfl
      | cons c ps =>
        have hc := hp c (by simp)
        have hcq : (c == q) = false := by rcases hq with rfl | rfl <;> simp [hc.1, hc.2]
        simp [Seg.maskedAt, Seg.blank, List.isPrefixOf, hcq]

theorem quoteFree_words : QuoteFree sExists ∧ QuoteFree sForall ∧ QuoteFree sAccumulate := by
  refine ⟨?_, ?_, ?_⟩ <;> (intro c hc; revert c; decide)

/-- **opacity of a leaf**: if the text with emptied literals is an admissible leaf, so is the masked text,
whatever the literal bodies contain -/
theorem leafOk_masked (n : Nat) (l : List Seg) (h : ∀ x ∈ l, x.Ok) (hb : LeafOk (blankSegs l)) :
    LeafOk (maskedSegsAt n l) := by
  have hhead := maskedSegsAt_head n l
  have hlast := maskedSegsAt_getLast n l
  refine ⟨?_, ?_, ?_, ?_, ?_, ?_, ?_, ?_⟩
  · unfold ParenOk; rw [maskedSegsAt_scanDepth n l h]; exact hb.paren
  · intro c hc
    rcases maskedSegsAt_mem n l hc with h1 | h1
    · exact hb.noOp c h1
    · exact ⟨h1.ne.2.2.1, h1.ne.2.2.2.1⟩
  · unfold Edges; rw [hhead, hlast]; exact hb.edges
  · rw [hhead]; exact hb.noParen
  · rw [hhead]; exact hb.noBang
  · have := maskedSegsAt_prefix n l h sExists quoteFree_words.1
    unfold startsWith; rw [this]; exact hb.noEx
  · have := maskedSegsAt_prefix n l h sForall quoteFree_words.2.1
    unfold startsWith; rw [this]; exact hb.noFa
  · have := maskedSegsAt_prefix n l h sAccumulate quoteFree_words.2.2
    unfold startsWith; rw [this]; exact hb.noAcc

/-! ## conditions whose leaves contain arbitrary string literals -/

/-- the number of table entries of a laid-out condition -/
def LT.cnt (t : LT) : Nat := (lits t.render).length

/-- the tree after `mask_string_literals` when `n` literals came before it: every leaf is masked with the
table offset it has in the text -/
def LT.maskAt : Nat → LT → LT
  | n, .leaf s => .leaf (maskGo s none n)
  | n, .paren wl wr t => .paren wl wr (t.maskAt n)
  | n, .not w t => .not w (t.maskAt n)
  | n, .ex wl wr t => .ex wl wr (t.maskAt n)
  | n, .fa wl wr t => .fa wl wr (t.maskAt n)
  | n, .or l wl wr r => .or (l.maskAt n) wl wr (r.maskAt (n + l.cnt))
  | n, .and l wl wr r => .and (l.maskAt n) wl wr (r.maskAt (n + l.cnt))

/-- a leaf text made of code and string literals with ARBITRARY bodies (`Seg.Ok`: not the own quote
character, no line break) that is an admissible leaf once its literals are emptied -/
def OpaqueLeaf (s : Str) : Prop := ∃ l : List Seg, (∀ x ∈ l, x.Ok) ∧ s = renderSegs l ∧ LeafOk (blankSegs l)

/-- `LT.WF` with `OpaqueLeaf` instead of `LeafOk` at the leaves -/
def LT.WFo : LT → Prop
  | .leaf s => OpaqueLeaf s
  | .paren wl wr t => Ws wl ∧ Ws wr ∧ t.WFo
  | .not w t => Ws w ∧ t.atomLevel = true ∧ t.WFo
  | .ex wl wr t => Ws wl ∧ Ws wr ∧ t.WFo
  | .fa wl wr t => Ws wl ∧ Ws wr ∧ t.WFo
  | .or l wl wr r => Ws wl ∧ Ws wr ∧ l.WFo ∧ r.WFo ∧ r.conjLevel = true
  | .and l wl wr r => Ws wl ∧ Ws wr ∧ l.WFo ∧ r.WFo ∧ l.conjLevel = true ∧ r.atomLevel = true

theorem LT.maskAt_atomLevel (n : Nat) (t : LT) : (t.maskAt n).atomLevel = t.atomLevel := by
  cases t <;> rfl
theorem LT.maskAt_conjLevel (n : Nat) (t : LT) : (t.maskAt n).conjLevel = t.conjLevel := by
  cases t <;> rfl

theorem OpaqueLeaf.masked {s : Str} (h : OpaqueLeaf s) : MaskClosed s ∧ ∀ n, LeafOk (maskGo s none n) := by
  obtain ⟨l, hl, rfl, hb⟩ := h
  obtain ⟨hc, hm, _⟩ := renderSegs_closed l hl
  exact ⟨hc, fun n => by rw [hm]; exact leafOk_masked n l hl hb⟩

/-- the masked tree is admissible in the sense of the round-trip theorem -/
theorem LT.WFo.masked (t : LT) (h : t.WFo) (n : Nat) : (t.maskAt n).WF := by
  induction t generalizing n with
  | leaf s => exact (OpaqueLeaf.masked h).2 n
  | paren wl wr t ih => exact ⟨h.1, h.2.1, ih h.2.2 n⟩
  | not w t ih => exact ⟨h.1, by rw [LT.maskAt_atomLevel]; exact h.2.1, ih h.2.2 n⟩
  | ex wl wr t ih => exact ⟨h.1, h.2.1, ih h.2.2 n⟩
  | fa wl wr t ih => exact ⟨h.1, h.2.1, ih h.2.2 n⟩
  | or l wl wr r ihl ihr =>
    exact ⟨h.1, h.2.1, ihl h.2.2.1 n, ihr h.2.2.2.1 _, by rw [LT.maskAt_conjLevel]; exact h.2.2.2.2⟩
  | and l wl wr r ihl ihr =>
    exact ⟨h.1, h.2.1, ihl h.2.2.1 n, ihr h.2.2.2.1 _, by rw [LT.maskAt_conjLevel]; exact h.2.2.2.2.1,
      by rw [LT.maskAt_atomLevel]; exact h.2.2.2.2.2⟩

/-- what is known about a piece of text: it is closed, `m` is its masked form at every offset, `L` its table -/
def Piece (x : Str) (m : Nat → Str) (L : List Str) : Prop :=
  MaskClosed x ∧ (∀ n, maskGo x none n = m n) ∧ lits x = L

theorem Piece.code {x : Str} (h : QuoteFree x) : Piece x (fun _ => x) [] := MaskClosed.code h

theorem Piece.append {x y : Str} {mx my : Nat → Str} {Lx Ly : List Str} (hx : Piece x mx Lx) (hy : Piece y my Ly) :
    Piece (x ++ y) (fun n => mx n ++ my (n + Lx.length)) (Lx ++ Ly) := by
  obtain ⟨c1, m1, l1⟩ := hx
  obtain ⟨c2, m2, l2⟩ := hy
  obtain ⟨c3, m3, l3⟩ := c1.append c2
  refine ⟨c3, ?_, by rw [l3, l1, l2]⟩
  intro n; rw [m3, m1, m2, l1]

theorem Piece.congr {x : Str} {m m' : Nat → Str} {L L' : List Str} (h : Piece x m L) (hm : ∀ n, m n = m' n) (hL : L = L') :
    Piece x m' L' := ⟨h.1, fun n => by rw [h.2.1, hm], by rw [h.2.2, hL]⟩

theorem quoteFree_tokens : QuoteFree ['('] ∧ QuoteFree [')'] ∧ QuoteFree ['!'] ∧ QuoteFree ['|', '|'] ∧ QuoteFree ['&', '&'] := by
  refine ⟨?_, ?_, ?_, ?_, ?_⟩ <;> (intro c hc; revert c; decide)

/-- **masking a laid-out condition** masks its leaves (each at its offset) and nothing else -/
theorem LT.render_masked (t : LT) (h : t.WFo) : Piece t.render (fun n => (t.maskAt n).render) (lits t.render) := by
  obtain ⟨qo, qc, qb, qor, qand⟩ := quoteFree_tokens
  induction t with
  | leaf s => exact ⟨(OpaqueLeaf.masked h).1, fun _ => rfl, rfl⟩
  | paren wl wr t ih =>
    obtain ⟨h1, h2, h3⟩ := h
    have p := (((Piece.code qo).append (Piece.code h1.quoteFree)).append (ih h3)).append
      ((Piece.code h2.quoteFree).append (Piece.code qc))
    have e : (LT.paren wl wr t).render = ['('] ++ wl ++ t.render ++ (wr ++ [')']) := by simp [LT.render]
    rw [e]
    exact p.congr (by intro n; simp [LT.render, LT.maskAt]) (by rw [← p.2.2])
  | not w t ih =>
    obtain ⟨h1, _, h3⟩ := h
    have p := ((Piece.code qb).append (Piece.code h1.quoteFree)).append (ih h3)
    have e : (LT.not w t).render = ['!'] ++ w ++ t.render := by simp [LT.render]
    rw [e]
    exact p.congr (by intro n; simp [LT.render, LT.maskAt]) (by rw [← p.2.2])
  | ex wl wr t ih =>
    obtain ⟨h1, h2, h3⟩ := h
    have p := (((Piece.code quoteFree_words.1).append (Piece.code h1.quoteFree)).append (ih h3)).append
      ((Piece.code h2.quoteFree).append (Piece.code qc))
    have e : (LT.ex wl wr t).render = sExists ++ wl ++ t.render ++ (wr ++ [')']) := by simp [LT.render]
    rw [e]
    exact p.congr (by intro n; simp [LT.render, LT.maskAt]) (by rw [← p.2.2])
  | fa wl wr t ih =>
    obtain ⟨h1, h2, h3⟩ := h
    have p := (((Piece.code quoteFree_words.2.1).append (Piece.code h1.quoteFree)).append (ih h3)).append
      ((Piece.code h2.quoteFree).append (Piece.code qc))
    have e : (LT.fa wl wr t).render = sForall ++ wl ++ t.render ++ (wr ++ [')']) := by simp [LT.render]
    rw [e]
    exact p.congr (by intro n; simp [LT.render, LT.maskAt]) (by rw [← p.2.2])
  | or l wl wr r ihl ihr =>
    obtain ⟨h1, h2, h3, h4, _⟩ := h
    have p := ((ihl h3).append (((Piece.code h1.quoteFree).append (Piece.code qor)).append (Piece.code h2.quoteFree))).append (ihr h4)
    have e : (LT.or l wl wr r).render = l.render ++ (wl ++ ['|', '|'] ++ wr) ++ r.render := by simp [LT.render]
    rw [e]
    exact p.congr (by intro n; simp [LT.render, LT.maskAt, LT.cnt]) (by rw [← p.2.2])
  | and l wl wr r ihl ihr =>
    obtain ⟨h1, h2, h3, h4, _⟩ := h
    have p := ((ihl h3).append (((Piece.code h1.quoteFree).append (Piece.code qand)).append (Piece.code h2.quoteFree))).append (ihr h4)
    have e : (LT.and l wl wr r).render = l.render ++ (wl ++ ['&', '&'] ++ wr) ++ r.render := by simp [LT.render]
    rw [e]
    exact p.congr (by intro n; simp [LT.render, LT.maskAt, LT.cnt]) (by rw [← p.2.2])

/-- the table of a binary node is the table of the left operand followed by that of the right one -/
theorem LT.lits_binary (l r : LT) (x : Str) (hx : QuoteFree x) (hl : l.WFo) (hr : r.WFo) :
    lits (l.render ++ x ++ r.render) = lits l.render ++ lits r.render := by
  have p := ((LT.render_masked l hl).append (Piece.code hx)).append (LT.render_masked r hr)
  rw [p.2.2]; simp

/-- **unmasking the masked tree** with a table that contains the tree's literals from index `pre.length` on
gives back every leaf text as written -/
theorem LT.sem_unmask (t : LT) (h : t.WFo) (T pre post : List Str) (hT : T = pre ++ lits t.render ++ post) :
    (t.maskAt pre.length).sem.map (unmask T) = t.sem := by
  obtain ⟨_, _, _, qor, qand⟩ := quoteFree_tokens
  induction t generalizing pre post with
  | leaf s =>
    obtain ⟨l, hl, rfl, _⟩ := h
    obtain ⟨_, m, lt⟩ := renderSegs_closed l hl
    simp only [LT.maskAt, LT.sem, Cond.map]
    rw [m, unmask_maskedSegsAt T pre post l hl (by rw [hT, LT.render, lt])]
  | paren wl wr t ih =>
    obtain ⟨h1, h2, h3⟩ := h
    have hl : lits (LT.paren wl wr t).render = lits t.render := by
      have := (LT.render_masked (.paren wl wr t) ⟨h1, h2, h3⟩)
      have p := (((Piece.code quoteFree_tokens.1).append (Piece.code h1.quoteFree)).append (LT.render_masked t h3)).append
        ((Piece.code h2.quoteFree).append (Piece.code quoteFree_tokens.2.1))
      have e : (LT.paren wl wr t).render = ['('] ++ wl ++ t.render ++ (wr ++ [')']) := by simp [LT.render]
      rw [e, p.2.2]; simp
    exact ih h3 pre post (by rw [hT, hl])
  | not w t ih =>
    obtain ⟨h1, h2, h3⟩ := h
    have hl : lits (LT.not w t).render = lits t.render := by
      have p := ((Piece.code quoteFree_tokens.2.2.1).append (Piece.code h1.quoteFree)).append (LT.render_masked t h3)
      have e : (LT.not w t).render = ['!'] ++ w ++ t.render := by simp [LT.render]
      rw [e, p.2.2]; simp
    simp only [LT.maskAt, LT.sem, Cond.map]
    rw [ih h3 pre post (by rw [hT, hl])]
  | ex wl wr t ih =>
    obtain ⟨h1, h2, h3⟩ := h
    have hl : lits (LT.ex wl wr t).render = lits t.render := by
      have p := (((Piece.code quoteFree_words.1).append (Piece.code h1.quoteFree)).append (LT.render_masked t h3)).append
        ((Piece.code h2.quoteFree).append (Piece.code quoteFree_tokens.2.1))
      have e : (LT.ex wl wr t).render = sExists ++ wl ++ t.render ++ (wr ++ [')']) := by simp [LT.render]
      rw [e, p.2.2]; simp
    simp only [LT.maskAt, LT.sem, Cond.map]
    rw [ih h3 pre post (by rw [hT, hl])]
  | fa wl wr t ih =>
    obtain ⟨h1, h2, h3⟩ := h
    have hl : lits (LT.fa wl wr t).render = lits t.render := by
      have p := (((Piece.code quoteFree_words.2.1).append (Piece.code h1.quoteFree)).append (LT.render_masked t h3)).append
        ((Piece.code h2.quoteFree).append (Piece.code quoteFree_tokens.2.1))
      have e : (LT.fa wl wr t).render = sForall ++ wl ++ t.render ++ (wr ++ [')']) := by simp [LT.render]
      rw [e, p.2.2]; simp
    simp only [LT.maskAt, LT.sem, Cond.map]
    rw [ih h3 pre post (by rw [hT, hl])]
  | or l wl wr r ihl ihr =>
    obtain ⟨h1, h2, h3, h4, _⟩ := h
    have hx : QuoteFree (wl ++ ['|', '|'] ++ wr) := by
      intro c hc; simp only [List.mem_append] at hc
      rcases hc with (hc | hc) | hc
      · exact h1.quoteFree c hc
      · exact qor c hc
      · exact h2.quoteFree c hc
    have hl : lits (LT.or l wl wr r).render = lits l.render ++ lits r.render := by
      have e : (LT.or l wl wr r).render = l.render ++ (wl ++ ['|', '|'] ++ wr) ++ r.render := by simp [LT.render]
      rw [e, LT.lits_binary l r _ hx h3 h4]
    simp only [LT.maskAt, LT.sem, Cond.map]
    rw [ihl h3 pre (lits r.render ++ post) (by rw [hT, hl]; simp [List.append_assoc])]
    have := ihr h4 (pre ++ lits l.render) post (by rw [hT, hl]; simp [List.append_assoc])
    simp only [List.length_append] at this
    rw [LT.cnt, this]
  | and l wl wr r ihl ihr =>
    obtain ⟨h1, h2, h3, h4, _⟩ := h
    have hx : QuoteFree (wl ++ ['&', '&'] ++ wr) := by
      intro c hc; simp only [List.mem_append] at hc
      rcases hc with (hc | hc) | hc
      · exact h1.quoteFree c hc
      · exact qand c hc
      · exact h2.quoteFree c hc
    have hl : lits (LT.and l wl wr r).render = lits l.render ++ lits r.render := by
      have e : (LT.and l wl wr r).render = l.render ++ (wl ++ ['&', '&'] ++ wr) ++ r.render := by simp [LT.render]
      rw [e, LT.lits_binary l r _ hx h3 h4]
    simp only [LT.maskAt, LT.sem, Cond.map]
    rw [ihl h3 pre (lits r.render ++ post) (by rw [hT, hl]; simp [List.append_assoc])]
    have := ihr h4 (pre ++ lits l.render) post (by rw [hT, hl]; simp [List.append_assoc])
    simp only [List.length_append] at this
    rw [LT.cnt, this]

/-! ## statements that contain arbitrary string literals -/

/-- a statement text made of code and string literals with ARBITRARY bodies that is trimmed and has no
`;` once its literals are emptied -/
def OpaqueStmt (s : Str) : Prop :=
  ∃ l : List Seg, (∀ x ∈ l, x.Ok) ∧ s = renderSegs l ∧ Edges (blankSegs l) ∧ ∀ c ∈ blankSegs l, c ≠ ';'

theorem OpaqueStmt.masked {s : Str} (h : OpaqueStmt s) :
    MaskClosed s ∧ (∀ n, Edges (maskGo s none n) ∧ ∀ c ∈ maskGo s none n, c ≠ ';')
      ∧ ∀ T pre post, T = pre ++ lits s ++ post → unmask T (maskGo s none pre.length) = s := by
  obtain ⟨l, hl, rfl, he, hs⟩ := h
  obtain ⟨hc, hm, lt⟩ := renderSegs_closed l hl
  refine ⟨hc, ?_, ?_⟩
  · intro n
    rw [hm]
    refine ⟨by unfold Edges; rw [maskedSegsAt_head, maskedSegsAt_getLast]; exact he, ?_⟩
    intro c hcm
    rcases maskedSegsAt_mem n l hcm with h1 | h1
    · exact hs c h1
    · exact h1.ne.2.2.2.2.1
  · intro T pre post hT
    rw [hm, unmask_maskedSegsAt T pre post l hl (by rw [hT, lt])]

theorem quoteFree_semi : QuoteFree [';'] := by intro c hc; revert c; decide

/-- the statements after `mask_string_literals` when `n` literals came before them -/
def maskStmtsAt : Nat → List (Str × Str × Str) → List (Str × Str × Str)
  | _, [] => []
  | n, (a, s, b) :: r => (a, maskGo s none n, b) :: maskStmtsAt (n + (lits s).length) r

/-- masking a statement list masks its statements (each at its offset) and nothing else -/
theorem renderStmts_masked (xs : List (Str × Str × Str)) (w : Str) (hw : Ws w)
    (hx : ∀ x ∈ xs, Ws x.1 ∧ Ws x.2.2 ∧ OpaqueStmt x.2.1) :
    Piece (renderStmts xs w) (fun n => renderStmts (maskStmtsAt n xs) w) (xs.flatMap fun x => lits x.2.1) := by
  induction xs with
  | nil => exact (Piece.code hw.quoteFree).congr (fun _ => rfl) rfl
  | cons x xs ih =>
    obtain ⟨a, s, b⟩ := x
    obtain ⟨h1, h2, h3⟩ := hx (a, s, b) (by simp)
    have ps : Piece s (fun n => maskGo s none n) (lits s) := ⟨h3.masked.1, fun _ => rfl, rfl⟩
    have p := (((Piece.code h1.quoteFree).append ps).append ((Piece.code h2.quoteFree).append (Piece.code quoteFree_semi))).append
      (ih (fun y hy => hx y (by simp [hy])))
    have e : renderStmts ((a, s, b) :: xs) w = a ++ s ++ (b ++ [';']) ++ renderStmts xs w := by simp [renderStmts]
    rw [e]
    exact p.congr (by intro n; simp [renderStmts, maskStmtsAt]) (by simp)

theorem maskStmtsAt_unmask (xs : List (Str × Str × Str)) (hx : ∀ x ∈ xs, OpaqueStmt x.2.1)
    (T pre post : List Str) (hT : T = pre ++ (xs.flatMap fun x => lits x.2.1) ++ post) :
    (maskStmtsAt pre.length xs).map (fun x => unmask T x.2.1) = xs.map (·.2.1) := by
  induction xs generalizing pre with
  | nil => rfl
  | cons x xs ih =>
    obtain ⟨a, s, b⟩ := x
    have h3 := hx (a, s, b) (by simp)
    have := ih (fun y hy => hx y (by simp [hy])) (pre ++ lits s) (by rw [hT]; simp [List.append_assoc])
    simp only [List.length_append] at this
    simp only [maskStmtsAt, List.map_cons]
    rw [this, h3.masked.2.2 T pre ((xs.flatMap fun x => lits x.2.1) ++ post) (by rw [hT]; simp [List.append_assoc])]

/-! ## integer literals: the decimal rendering of an `i64` is read back -/

theorem toLower_digit (c : Char) (h : isDigit c = true ∨ c = '-') : c.toLower = c := by
  rcases h with h | h
  · have h' : 48 ≤ c.toNat ∧ c.toNat ≤ 57 := by
      unfold isDigit at h
      simp [Char.le_def, UInt32.le_iff_toNat_le] at h
      exact h
    unfold Char.toLower
    split
    · rename_i hc
      have h1 := hc.1
      simp [UInt32.le_iff_toNat_le] at h1
      have : c.val.toNat = c.toNat := rfl
      omega
    · rfl
  · subst h; rfl

theorem lower_ne (s w : Str) (c d : Char) (hs : s.head? = some c) (hc : isDigit c = true ∨ c = '-')
    (hw : w.head? = some d) (hd : d ≠ c) : (lower s == w) = false := by
  cases s with
  | nil => simp at hs
  | cons a as =>
    simp at hs; subst hs
    cases w with
    | nil => simp [lower]
    | cons b bs =>
      simp at hw; subst hw
      simp [lower, toLower_digit a hc]
      intro e; exact absurd e.symm hd

theorem intShow_cases (i : Int) :
    intShow i = if 0 ≤ i then Nat.toDigits 10 i.toNat else '-' :: Nat.toDigits 10 (-i).toNat := by
  unfold intShow
  rw [Int.toString_eq_repr, Int.repr_eq_if]
  split <;> simp


theorem signSplit_digits (D : Str) (hD : ∀ c ∈ D, isDigit c = true) : signSplit D = (false, D) := by
  cases D with
  | nil => rfl
  | cons c cs =>
    have h := isDigit_ne (hD c (by simp))
    unfold signSplit
    split
    · rename_i heq; simp at heq; exact absurd heq.1 h.2.1
    · rename_i heq; simp at heq; exact absurd heq.1 h.1
    · rfl

theorem parseIntIn_digits (lo hi : Int) (neg : Bool) (D : Str) (hne : D ≠ []) (hD : ∀ c ∈ D, isDigit c = true)
    (s : Str) (hs : signSplit s = (neg, D)) (v : Int) (hv : v = if neg then -(digitsVal D : Int) else (digitsVal D : Int))
    (hlo : lo ≤ v) (hhi : v ≤ hi) : parseIntIn lo hi s = some v := by
  unfold parseIntIn
  rw [hs]
  have h1 : D.isEmpty = false := by cases D <;> simp at hne ⊢
  have h2 : D.all isDigit = true := by rw [List.all_eq_true]; exact hD
  simp only [h1, h2, Bool.not_true, Bool.or_self, Bool.false_eq_true, if_false, ← hv]
  simp [hlo, hhi]

theorem parseI64_intShow (i : Int) (hlo : -9223372036854775808 ≤ i) (hhi : i ≤ 9223372036854775807) :
    parseI64 (intShow i) = some i := by
  unfold parseI64
  rw [intShow_cases]
  split
  · rename_i h
    apply parseIntIn_digits _ _ false (Nat.toDigits 10 i.toNat) Nat.toDigits_ne_nil (toDigits_isDigit _) _
      (signSplit_digits _ (toDigits_isDigit _)) i _ hlo hhi
    rw [digitsVal_toDigits]; simp; omega
  · rename_i h
    apply parseIntIn_digits _ _ true (Nat.toDigits 10 (-i).toNat) Nat.toDigits_ne_nil (toDigits_isDigit _) _ rfl i _ hlo hhi
    rw [digitsVal_toDigits]; simp; omega

theorem isDigit_notWs {c : Char} (h : isDigit c = true) : isWs c = false :=
  (InertChar.ne (Or.inr (Or.inr h))).2.2.2.2.2.2.2

theorem toDigits_last (m : Nat) : ∃ c, (Nat.toDigits 10 m).getLast? = some c ∧ isDigit c = true := by
  cases h : (Nat.toDigits 10 m).getLast? with
  | none => simp at h
  | some c => exact ⟨c, rfl, toDigits_isDigit m c (List.mem_of_getLast? h)⟩

theorem toDigits_head (m : Nat) : ∃ c, (Nat.toDigits 10 m).head? = some c ∧ isDigit c = true := by
  cases h : (Nat.toDigits 10 m).head? with
  | none => simp at h
  | some c => exact ⟨c, rfl, toDigits_isDigit m c (List.mem_of_head? h)⟩

/-- head and last character of a rendered integer -/
theorem intShow_edges (i : Int) :
    (∃ c, (intShow i).head? = some c ∧ (isDigit c = true ∨ c = '-')) ∧ (∃ c, (intShow i).getLast? = some c ∧ isDigit c = true) := by
  rw [intShow_cases]
  split
  · obtain ⟨c, hc, hd⟩ := toDigits_head i.toNat
    exact ⟨⟨c, hc, Or.inl hd⟩, toDigits_last _⟩
  · obtain ⟨c, hc, hd⟩ := toDigits_last (-i).toNat
    refine ⟨⟨'-', rfl, Or.inr rfl⟩, c, ?_, hd⟩
    rw [show '-' :: Nat.toDigits 10 (-i).toNat = ['-'] ++ Nat.toDigits 10 (-i).toNat from rfl]
    exact getLast_append_some _ _ c hc

theorem parseValue_intShow (X : Ext) (T : List Str) (i : Int) (hlo : -9223372036854775808 ≤ i) (hhi : i ≤ 9223372036854775807) :
    parseValue X T (intShow i) = .int i := by
  obtain ⟨⟨c, hc, hcd⟩, ⟨d, hd, hdd⟩⟩ := intShow_edges i
  have hcw : isWs c = false := by
    rcases hcd with h | h
    · exact isDigit_notWs h
    · subst h; rfl
  have hed : Edges (intShow i) := ⟨⟨c, hc, hcw⟩, ⟨d, hd, isDigit_notWs hdd⟩⟩
  have hne : ∀ x : Char, (x = '[' ∨ x = '"' ∨ x = '\'' ∨ x = 't' ∨ x = 'f' ∨ x = 'n') → x ≠ c := by
    intro x hx e; subst e
    rcases hcd with h | h
    · rcases hx with rfl | rfl | rfl | rfl | rfl | rfl <;> (revert h; decide)
    · rcases hx with rfl | rfl | rfl | rfl | rfl | rfl <;> (revert h; decide)
  have hb : ((intShow i).head? == some '[') = false := by
    rw [hc]; simp; exact fun e => hne '[' (Or.inl rfl) e.symm
  have hq1 : ((intShow i).head? == some '"') = false := by
    rw [hc]; simp; exact fun e => hne '"' (Or.inr (Or.inl rfl)) e.symm
  have hq2 : ((intShow i).head? == some '\'') = false := by
    rw [hc]; simp; exact fun e => hne '\'' (Or.inr (Or.inr (Or.inl rfl))) e.symm
  have l1 := lower_ne (intShow i) "true".toList c 't' hc hcd rfl (hne 't' (by simp))
  have l2 := lower_ne (intShow i) "false".toList c 'f' hc hcd rfl (hne 'f' (by simp))
  have l3 := lower_ne (intShow i) "null".toList c 'n' hc hcd rfl (hne 'n' (by simp))
  have key : parseScalar X T (intShow i) = .int i := by
    unfold parseScalar
    simp only [hq1, hq2, Bool.false_and, Bool.or_self, Bool.and_false, Bool.false_eq_true, if_false, l1, l2, l3,
      parseI64_intShow i hlo hhi]
  unfold parseValue
  cases hf : (intShow i).length with
  | zero =>
    have : intShow i = [] := List.eq_nil_of_length_eq_zero hf
    rw [this] at hc; simp at hc
  | succ n =>
    simp only [parseValueF]
    rw [trim_self hed, hb]
    simpa using key

/-! ## string concatenation: a value text that starts and ends with a literal -/

theorem maskedSegsAt_append (n : Nat) (xs ys : List Seg) :
    maskedSegsAt n (xs ++ ys) = maskedSegsAt n xs ++ maskedSegsAt (n + (litsSegs xs).length) ys := by
  induction xs generalizing n with
  | nil => simp [maskedSegsAt, litsSegs]
  | cons x xs ih =>
    simp only [List.cons_append, maskedSegsAt, ih, litsSegs, List.flatMap_cons, List.length_append, List.append_assoc,
      Nat.add_assoc]

theorem mem_maskedSegsAt_of_code (n : Nat) (l : List Seg) (s : Str) (c : Char) (hs : Seg.code s ∈ l) (hc : c ∈ s) :
    c ∈ maskedSegsAt n l := by
  induction l generalizing n with
  | nil => simp at hs
  | cons x xs ih =>
    simp only [maskedSegsAt, List.mem_append]
    rcases List.mem_cons.mp hs with h | h
    · left; subst h; exact hc
    · right; exact ih _ h

/-- the shape of the masked concatenation -/
theorem concat_masked (q : Char) (b₁ b₂ : Str) (mid : List Seg) :
    ∃ n, maskedSegsAt 0 (.lit q b₁ :: mid ++ [.lit q b₂]) =
      q :: (maskBodyAt 0 b₁ ++ [q] ++ maskedSegsAt (0 + (Seg.lit q b₁).lits.length) mid ++ q :: maskBodyAt n b₂) ++ [q] := by
  refine ⟨0 + (Seg.lit q b₁).lits.length + (litsSegs mid).length, ?_⟩
  simp [maskedSegsAt, maskedSegsAt_append, Seg.maskedAt]


theorem lower_head (s : Str) (c : Char) (r : Str) (h : s = c :: r) : (lower s).head? = some c.toLower := by
  subst h; simp [lower]

theorem parseI64_quote (q : Char) (r : Str) (hq : q = '"' ∨ q = '\'') : parseI64 (q :: r) = none := by
  rcases hq with rfl | rfl <;> simp [parseI64, parseIntIn, signSplit, isDigit]

end C04
