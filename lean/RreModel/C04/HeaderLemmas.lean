import RreModel.C04.Theorems
import RreModel.C04.File
/-
C04 — the attribute section of a rule header: every attribute, in every order, with any white space.
`HAttr` = one attribute as written (keyword, value, the white space after the keyword and after the
value); `renderAttrs` the text, `mattrs n` the text after `mask_string_literals` when `n` table entries
came before it, `rattrs` the text after the quoted strings have been removed (`"[^"]*"` → ``).
The searches of `parse_rule_attributes` / `extract_salience` (leftmost regex match) are followed through
the attribute list: a keyword is found at the first attribute that carries it and nowhere before
(`Dead`: no suffix of the text before it starts with the keyword).
-/
namespace C04

/-! ## "the keyword does not start anywhere in this text" -/

/-- some position within the common length differs -/
def mismatch : Str → Str → Bool
  | k :: ks, c :: cs => k != c || mismatch ks cs
  | _, _ => false

theorem mismatch_prefix (kw x r : Str) (h : mismatch kw x = true) : kw.isPrefixOf (x ++ r) = false := by
  induction kw generalizing x with
  | nil => simp [mismatch] at h
  | cons k ks ih =>
    cases x with
    | nil => simp [mismatch] at h
    | cons c cs =>
      simp only [mismatch, Bool.or_eq_true] at h
      simp only [List.cons_append, List.isPrefixOf]
      rcases h with h | h
      · have : (k == c) = false := by simpa using h
        simp [this]
      · simp [ih cs h]

/-- no non-empty suffix of `x`, followed by anything, starts with `kw` -/
def Dead (kw x : Str) : Prop := ∀ a b r, x = a ++ b → b ≠ [] → kw.isPrefixOf (b ++ r) = false

def deadB (kw : Str) : Str → Bool
  | [] => true
  | c :: cs => mismatch kw (c :: cs) && deadB kw cs

theorem Dead.nil (kw : Str) : Dead kw [] := by
  intro a b r h hb
  have : b = [] := by
    have := congrArg List.length h; simp at this; exact List.eq_nil_of_length_eq_zero (by omega)
  exact absurd this hb

theorem dead_of_deadB (kw x : Str) (h : deadB kw x = true) : Dead kw x := by
  induction x with
  | nil => exact Dead.nil kw
  | cons c cs ih =>
    simp only [deadB, Bool.and_eq_true] at h
    intro a b r hab hb
    cases a with
    | nil => simp at hab; subst hab; exact mismatch_prefix kw _ r h.1
    | cons a0 a' =>
      simp at hab
      exact ih h.2 a' b r hab.2 hb

theorem Dead.append {kw x y : Str} (hx : Dead kw x) (hy : Dead kw y) : Dead kw (x ++ y) := by
  intro a b r hab hb
  rcases List.append_eq_append_iff.mp hab with ⟨a', h1, h2⟩ | ⟨c', h1, h2⟩
  · -- a = x ++ a', y = a' ++ b
    exact hy a' b r h2 hb
  · -- x = a ++ c', b = c' ++ y
    cases c' with
    | nil => exact hy [] b r (by simpa using h2.symm) hb
    | cons c0 cr =>
      subst h2
      have := hx a (c0 :: cr) (y ++ r) h1 (by simp)
      simpa [List.append_assoc] using this

theorem Dead.ofHead (k : Char) (ks x : Str) (h : ∀ c ∈ x, c ≠ k) : Dead (k :: ks) x := by
  intro a b r hab hb
  cases b with
  | nil => exact absurd rfl hb
  | cons c cs =>
    have hc : c ∈ x := by rw [hab]; simp
    have : (k == c) = false := by simpa using (h c hc).symm
    simp [List.isPrefixOf, this]

theorem searchFrom_dead (m : Str → Option β) (x r : Str)
    (h : ∀ a b, x = a ++ b → b ≠ [] → m (b ++ r) = none) : searchFrom m (x ++ r) = searchFrom m r := by
  induction x with
  | nil => rfl
  | cons c cs ih =>
    have h0 := h [] (c :: cs) rfl (by simp)
    simp only [List.cons_append] at h0 ⊢
    simp only [searchFrom, h0]
    exact ih (fun a b hab hb => h (c :: a) b (by simp [hab]) hb)

theorem searchFrom_hit (m : Str → Option β) (s : Str) (v : β) (hne : s ≠ []) (h : m s = some v) :
    searchFrom m s = some v := by
  cases s with
  | nil => exact absurd rfl hne
  | cons c cs => simp only [searchFrom, h]

/-! ## attributes as written -/

/-! ### the characters of a tail are not the first character of any keyword -/

def KInert (c : Char) : Prop := isWs c = true ∨ c = '"' ∨ c = '-' ∨ InertChar c

theorem KInert.ne {c : Char} (h : KInert c) :
    c ≠ 's' ∧ c ≠ 'n' ∧ c ≠ 'l' ∧ c ≠ 'a' ∧ c ≠ 'd' ∧ c ≠ 'r' ∧ c ≠ 'w' ∧ c ≠ '{' ∧ c ≠ '}' := by
  rcases h with h | h | h | h | h | h
  · refine ⟨?_, ?_, ?_, ?_, ?_, ?_, ?_, ?_, ?_⟩ <;> (intro e; subst e; revert h; decide)
  · subst h; decide
  · subst h; decide
  · subst h; decide
  · subst h; decide
  · refine ⟨?_, ?_, ?_, ?_, ?_, ?_, ?_, ?_, ?_⟩ <;> (intro e; subst e; revert h; decide)

theorem Ws.kinert {w : Str} (h : Ws w) : ∀ c ∈ w, KInert c := fun c hc => Or.inl (h c hc)

theorem intShow_kinert (i : Int) : ∀ c ∈ intShow i, KInert c := by
  intro c hc
  rw [intShow_cases] at hc
  split at hc
  · exact Or.inr (Or.inr (Or.inr (Or.inr (Or.inr (toDigits_isDigit _ c hc)))))
  · simp only [List.mem_cons] at hc
    rcases hc with rfl | hc
    · exact Or.inr (Or.inr (Or.inl rfl))
    · exact Or.inr (Or.inr (Or.inr (Or.inr (Or.inr (toDigits_isDigit _ c hc)))))

theorem HAttr.mtail_kinert (n : Nat) (a : HAttr) (h : a.Ok) : ∀ c ∈ a.mtail n, KInert c := by
  intro c hc
  unfold HAttr.mtail at hc
  split at hc
  · exact h.w2.1.kinert c hc
  · split at hc
    · simp only [List.mem_append, List.mem_cons] at hc
      rcases hc with (hc | hc | hc) | hc | hc
      · exact h.w1.1.kinert c hc
      · exact Or.inr (Or.inl hc)
      · exact Or.inr (Or.inr (Or.inr (maskBodyAt_mem hc)))
      · exact Or.inr (Or.inl hc)
      · exact h.w2.1.kinert c hc
    · simp only [List.mem_append] at hc
      rcases hc with (hc | hc) | hc
      · exact h.w1.1.kinert c hc
      · exact intShow_kinert _ c hc
      · exact h.w2.1.kinert c hc

theorem HAttr.rtail_kinert (a : HAttr) (h : a.Ok) : ∀ c ∈ a.rtail, KInert c := by
  intro c hc
  unfold HAttr.rtail at hc
  split at hc
  · exact h.w2.1.kinert c hc
  · split at hc
    · simp only [List.mem_append] at hc
      rcases hc with hc | hc
      · exact h.w1.1.kinert c hc
      · exact h.w2.1.kinert c hc
    · simp only [List.mem_append] at hc
      rcases hc with (hc | hc) | hc
      · exact h.w1.1.kinert c hc
      · exact intShow_kinert _ c hc
      · exact h.w2.1.kinert c hc

/-- the first character of a tail is white space -/
theorem HAttr.mtail_head (n : Nat) (a : HAttr) (h : a.Ok) : ∃ c t, a.mtail n = c :: t ∧ isWs c = true := by
  unfold HAttr.mtail
  have h1 := h.w1; have h2 := h.w2
  split
  · cases hw : a.w2 with
    | nil => exact absurd hw h2.2
    | cons c t => exact ⟨c, t, rfl, h2.1 c (by simp [hw])⟩
  · cases hw : a.w1 with
    | nil => exact absurd hw h1.2
    | cons c t =>
      have hc := h1.1 c (by simp [hw])
      split
      · exact ⟨c, _, rfl, hc⟩
      · exact ⟨c, _, rfl, hc⟩

theorem HAttr.rtail_head (a : HAttr) (h : a.Ok) : ∃ c t, a.rtail = c :: t ∧ isWs c = true := by
  unfold HAttr.rtail
  have h1 := h.w1; have h2 := h.w2
  split
  · cases hw : a.w2 with
    | nil => exact absurd hw h2.2
    | cons c t => exact ⟨c, t, rfl, h2.1 c (by simp [hw])⟩
  · cases hw : a.w1 with
    | nil => exact absurd hw h1.2
    | cons c t =>
      have hc := h1.1 c (by simp [hw])
      split
      · exact ⟨c, _, rfl, hc⟩
      · exact ⟨c, _, rfl, hc⟩

/-- the words the header searches look for -/
def searchWords : List Str := [AKind.sal.kw, AKind.nl.kw, AKind.loa.kw, AKind.ag.kw, AKind.actg.kw, AKind.de.kw, AKind.dx.kw, sRule]

def allKinds : List AKind := [.sal, .nl, .loa, .ag, .actg, .de, .dx]

theorem allKinds_mem (k : AKind) : k ∈ allKinds := by cases k <;> simp [allKinds]

/-- the finite part: a different keyword followed by one white space character never contains the searched word -/
theorem deadB_table : ∀ kw ∈ searchWords, ∀ k ∈ allKinds, kw ≠ k.kw → ∀ c ∈ [' ', '\t', '\n', '\r'],
    deadB kw (k.kw ++ [c]) = true := by decide +kernel

theorem isWs_cases {c : Char} (h : isWs c = true) : c ∈ [' ', '\t', '\n', '\r'] := by
  unfold isWs at h
  simp only [Bool.or_eq_true, beq_iff_eq] at h
  simp only [List.mem_cons, List.mem_nil_iff, or_false]
  rcases h with ((h | h) | h) | h <;> simp [h]

theorem searchWords_head (kw : Str) (h : kw ∈ searchWords) :
    ∃ k ks, kw = k :: ks ∧ (k = 's' ∨ k = 'n' ∨ k = 'l' ∨ k = 'a' ∨ k = 'd' ∨ k = 'r') := by
  simp only [searchWords, List.mem_cons, List.mem_nil_iff, or_false] at h
  rcases h with rfl | rfl | rfl | rfl | rfl | rfl | rfl | rfl <;> exact ⟨_, _, rfl, by decide⟩

theorem dead_kinert (kw : Str) (h : kw ∈ searchWords) (x : Str) (hx : ∀ c ∈ x, KInert c) : Dead kw x := by
  obtain ⟨k, ks, rfl, hk⟩ := searchWords_head kw h
  apply Dead.ofHead
  intro c hc
  have := (hx c hc).ne
  rcases hk with rfl | rfl | rfl | rfl | rfl | rfl
  · exact this.1
  · exact this.2.1
  · exact this.2.2.1
  · exact this.2.2.2.1
  · exact this.2.2.2.2.1
  · exact this.2.2.2.2.2.1

/-- a piece `keyword tail` with another keyword is dead for the searched word -/
theorem dead_piece (kw : Str) (h : kw ∈ searchWords) (k : AKind) (hk : kw ≠ k.kw) (t : Str)
    (ht : ∀ c ∈ t, KInert c) (hh : ∃ c t', t = c :: t' ∧ isWs c = true) : Dead kw (k.kw ++ t) := by
  obtain ⟨c, t', rfl, hc⟩ := hh
  have e : k.kw ++ c :: t' = (k.kw ++ [c]) ++ t' := by simp
  rw [e]
  exact Dead.append (dead_of_deadB _ _ (deadB_table kw h k (allKinds_mem k) hk c (isWs_cases hc)))
    (dead_kinert kw h t' (fun d hd => ht d (by simp [hd])))


theorem HAttr.shape (a : HAttr) :
    (a.kind.flag = true ∧ a.kind.quoted = false ∧ a.tail = a.w2 ∧ (∀ n, a.mtail n = a.w2) ∧ a.rtail = a.w2 ∧ a.lits = [])
    ∨ (a.kind.flag = false ∧ a.kind.quoted = true ∧ a.tail = a.w1 ++ ('"' :: a.val ++ '"' :: a.w2)
        ∧ (∀ n, a.mtail n = a.w1 ++ ('"' :: (maskBodyAt n a.val ++ '"' :: a.w2))) ∧ a.rtail = a.w1 ++ a.w2 ∧ a.lits = [a.val])
    ∨ (a.kind = .sal ∧ a.tail = a.w1 ++ (intShow a.sal ++ a.w2) ∧ (∀ n, a.mtail n = a.w1 ++ (intShow a.sal ++ a.w2))
        ∧ a.rtail = a.w1 ++ (intShow a.sal ++ a.w2) ∧ a.lits = []) := by
  obtain ⟨k, v, i, w1, w2⟩ := a
  cases k <;> simp [HAttr.tail, HAttr.mtail, HAttr.rtail, HAttr.lits, AKind.flag, AKind.quoted]

/-! ## masking the attribute section -/

theorem AKind.kw_quoteFree (k : AKind) : QuoteFree k.kw := by
  cases k <;> (intro c hc; revert c; decide)

theorem intShow_quoteFree (i : Int) : QuoteFree (intShow i) := by
  intro c hc
  rcases intShow_kinert i c hc with h | h | h | h
  · rw [intShow_cases] at hc
    split at hc
    · exact absurd h (by rw [isDigit_notWs (toDigits_isDigit _ c hc)]; decide)
    · simp only [List.mem_cons] at hc
      rcases hc with rfl | hc
      · decide
      · exact absurd h (by rw [isDigit_notWs (toDigits_isDigit _ c hc)]; decide)
  · rw [intShow_cases] at hc
    split at hc
    · have := toDigits_isDigit _ c hc; subst h; revert this; decide
    · simp only [List.mem_cons] at hc
      rcases hc with hc | hc
      · subst h; revert hc; decide
      · have := toDigits_isDigit _ c hc; subst h; revert this; decide
  · subst h; decide
  · exact ⟨h.ne.2.2.2.2.2.1, h.ne.2.2.2.2.2.2.1⟩

theorem HAttr.piece (a : HAttr) (h : a.Ok) :
    Piece (a.kind.kw ++ a.tail) (fun n => a.kind.kw ++ a.mtail n) a.lits := by
  have pk := Piece.code (AKind.kw_quoteFree a.kind)
  rcases a.shape with ⟨_, _, e1, e2, _, e4⟩ | ⟨_, hq, e1, e2, _, e4⟩ | ⟨_, e1, e2, _, e4⟩
  · rw [e1, e4]
    exact (pk.append (Piece.code h.w2.1.quoteFree)).congr (fun n => by rw [e2]) (by simp)
  · obtain ⟨hne, hv⟩ := h.val hq
    have pl : Piece (Seg.lit '"' a.val).render (fun n => (Seg.lit '"' a.val).maskedAt n) (Seg.lit '"' a.val).lits :=
      Seg.closed _ ⟨Or.inl rfl, hv⟩
    have p := pk.append ((Piece.code h.w1.1.quoteFree).append (pl.append (Piece.code h.w2.1.quoteFree)))
    have e : a.kind.kw ++ a.tail = a.kind.kw ++ (a.w1 ++ ((Seg.lit '"' a.val).render ++ a.w2)) := by
      rw [e1]; simp [Seg.render]
    rw [e, e4]
    refine p.congr (fun n => by rw [e2]; simp [Seg.maskedAt]) ?_
    cases hv' : a.val with
    | nil => exact absurd hv' hne
    | cons c cs => simp [Seg.lits]
  · rw [e1, e4]
    have p := pk.append ((Piece.code h.w1.1.quoteFree).append ((Piece.code (intShow_quoteFree a.sal)).append (Piece.code h.w2.1.quoteFree)))
    exact p.congr (fun n => by rw [e2]) (by simp)

/-- **masking the attribute section** replaces exactly the quoted values, numbered in order -/
theorem renderAttrs_piece (as : List HAttr) (h : ∀ a ∈ as, a.Ok) :
    Piece (renderAttrs as) (fun n => mattrs n as) (litsAttrs as) := by
  induction as with
  | nil => exact ⟨MaskClosed.nil, fun _ => rfl, rfl⟩
  | cons a as ih =>
    have p := (a.piece (h a (by simp))).append (ih (fun b hb => h b (by simp [hb])))
    simp only [renderAttrs, litsAttrs, List.flatMap_cons] at *
    exact p.congr (fun n => by simp [mattrs]) rfl

/-! ## removing the quoted strings -/

theorem removeQuotedGo_code (x r : Str) (hx : ∀ c ∈ x, c ≠ '"') :
    removeQuotedGo (x ++ r) none = x ++ removeQuotedGo r none := by
  induction x with
  | nil => rfl
  | cons c cs ih =>
    have hc : (c == '"') = false := by simpa using hx c (by simp)
    simp only [List.cons_append, removeQuotedGo, hc, Bool.false_eq_true, if_false]
    rw [ih (fun d hd => hx d (by simp [hd]))]

theorem removeQuotedGo_body (b buf r : Str) (hb : ∀ c ∈ b, c ≠ '"') :
    removeQuotedGo (b ++ '"' :: r) (some buf) = removeQuotedGo r none := by
  induction b generalizing buf with
  | nil => simp [removeQuotedGo]
  | cons c cs ih =>
    have hc : (c == '"') = false := by simpa using hb c (by simp)
    simp only [List.cons_append, removeQuotedGo, hc, Bool.false_eq_true, if_false]
    exact ih _ (fun d hd => hb d (by simp [hd]))

theorem Ws.noQuote {w : Str} (h : Ws w) : ∀ c ∈ w, c ≠ '"' := fun c hc => (h.quoteFree c hc).1

theorem maskBodyAt_noQuote (n : Nat) (b : Str) : ∀ c ∈ maskBodyAt n b, c ≠ '"' :=
  fun _ hc => (maskBodyAt_mem hc).ne.2.2.2.2.2.1

theorem removeQuoted_mattrs (n : Nat) (as : List HAttr) (h : ∀ a ∈ as, a.Ok) :
    removeQuoted (mattrs n as) = rattrs as := by
  unfold removeQuoted
  induction as generalizing n with
  | nil => rfl
  | cons a as ih =>
    have ha := h a (by simp)
    have ih' := ih (n + a.lits.length) (fun b hb => h b (by simp [hb]))
    have hk : ∀ c ∈ a.kind.kw, c ≠ '"' := fun c hc => (AKind.kw_quoteFree a.kind c hc).1
    have e : rattrs (a :: as) = a.kind.kw ++ (a.rtail ++ rattrs as) := by simp [rattrs]
    rw [e]
    simp only [mattrs, List.append_assoc]
    rw [removeQuotedGo_code _ _ hk]
    congr 1
    rcases a.shape with ⟨_, _, _, e2, e3, _⟩ | ⟨_, hq, _, e2, e3, _⟩ | ⟨_, _, e2, e3, _⟩
    · rw [e2, e3, removeQuotedGo_code _ _ ha.w2.1.noQuote, ih']
    · rw [e2, e3]
      simp only [List.append_assoc, List.cons_append]
      rw [removeQuotedGo_code _ _ ha.w1.1.noQuote]
      simp only [removeQuotedGo, beq_self_eq_true, if_true]
      rw [removeQuotedGo_body _ _ _ (maskBodyAt_noQuote n a.val), removeQuotedGo_code _ _ ha.w2.1.noQuote, ih']
    · rw [e2, e3]
      simp only [List.append_assoc]
      rw [removeQuotedGo_code _ _ ha.w1.1.noQuote, removeQuotedGo_code _ _ (fun c hc => (intShow_quoteFree a.sal c hc).1),
        removeQuotedGo_code _ _ ha.w2.1.noQuote, ih']

/-! ## a word that no attribute of the list carries is nowhere in the text -/

theorem searchWords_kw (k : AKind) : k.kw ∈ searchWords := by cases k <;> simp [searchWords]

theorem AKind.kw_inj {k k' : AKind} (h : k.kw = k'.kw) : k = k' := by
  revert h; cases k <;> cases k' <;> decide

theorem dead_mattrs (kw : Str) (hkw : kw ∈ searchWords) (n : Nat) (as : List HAttr) (h : ∀ a ∈ as, a.Ok ∧ kw ≠ a.kind.kw) :
    Dead kw (mattrs n as) := by
  induction as generalizing n with
  | nil => exact Dead.nil kw
  | cons a as ih =>
    obtain ⟨ha, hne⟩ := h a (by simp)
    simp only [mattrs]
    exact Dead.append (dead_piece kw hkw a.kind hne _ (a.mtail_kinert n ha) (a.mtail_head n ha))
      (ih _ (fun b hb => h b (by simp [hb])))

theorem dead_rattrs (kw : Str) (hkw : kw ∈ searchWords) (as : List HAttr) (h : ∀ a ∈ as, a.Ok ∧ kw ≠ a.kind.kw) :
    Dead kw (rattrs as) := by
  induction as with
  | nil => exact Dead.nil kw
  | cons a as ih =>
    obtain ⟨ha, hne⟩ := h a (by simp)
    simp only [rattrs, List.flatMap_cons]
    exact Dead.append (dead_piece kw hkw a.kind hne _ (a.rtail_kinert ha) (a.rtail_head ha))
      (ih (fun b hb => h b (by simp [hb])))


/-! ## the searches of `parse_rule_attributes` and `extract_salience` -/

theorem not_startsWith_none_quoted (kw s : Str) (h : startsWith s kw = false) : matchQuotedAttrAt kw s = none := by
  unfold matchQuotedAttrAt; simp [h]

theorem matchQuotedAttrAt_hit (kw w1 v rest : Str) (hw : Ws w1) (hne : w1 ≠ []) (hv : ∀ c ∈ v, c ≠ '"') (hvne : v ≠ []) :
    matchQuotedAttrAt kw (kw ++ (w1 ++ '"' :: (v ++ '"' :: rest))) = some v := by
  unfold matchQuotedAttrAt
  have hq : isWs '"' = false := by decide
  have t1 := takeWhile_stop isWs w1 '"' (v ++ '"' :: rest) hw hq
  have t2 := takeWhile_stop (· != '"') v '"' rest (fun c hc => by simpa using hv c hc) (by simp)
  have e1 : (w1.isEmpty) = false := by cases w1 <;> simp at hne ⊢
  have e2 : (v.isEmpty) = false := by cases v <;> simp at hvne ⊢
  simp only [startsWith_append, Bool.not_true, Bool.false_eq_true, if_false, List.drop_left, t1.1, t1.2, t2.1, t2.2, e1, e2]

def firstOf (k : AKind) (as : List HAttr) : Option HAttr := as.find? fun a => decide (a.kind = k)
def firstVal (k : AKind) (as : List HAttr) : Option Str := (firstOf k as).map (·.val)
def hasKind (k : AKind) (as : List HAttr) : Bool := as.any fun a => decide (a.kind = k)
def firstSal (as : List HAttr) : Int := ((firstOf .sal as).map (·.sal)).getD 0

theorem AKind.kw_ne_nil (k : AKind) : k.kw ≠ [] := by cases k <;> decide

theorem kw_nil_prefix (k : AKind) : startsWith [] k.kw = false := by cases k <;> rfl

/-- a quoted attribute: the leftmost match is the first attribute with that keyword, and its placeholder
unmasks to the value that was written -/
theorem quoted_search (k : AKind) (hk : k.quoted = true) (as : List HAttr) (has : ∀ a ∈ as, a.Ok)
    (T pre post : List Str) (hT : T = pre ++ litsAttrs as ++ post) :
    (searchFrom (matchQuotedAttrAt k.kw) (mattrs pre.length as)).map (unmask T) = firstVal k as := by
  induction as generalizing pre with
  | nil =>
    simp only [mattrs, searchFrom, firstVal, firstOf, List.find?_nil, Option.map_none]
    rw [not_startsWith_none_quoted _ _ (kw_nil_prefix k)]; rfl
  | cons a as ih =>
    have ha := has a (by simp)
    have el : litsAttrs (a :: as) = a.lits ++ litsAttrs as := by simp [litsAttrs]
    simp only [mattrs, firstVal, firstOf, List.find?_cons]
    by_cases hak : a.kind = k
    · subst hak
      simp only [decide_true, Option.map_some]
      rcases a.shape with ⟨_, hq, _⟩ | ⟨_, _, _, e2, _, e4⟩ | ⟨hs, _⟩
      · rw [hq] at hk; exact absurd hk (by decide)
      · obtain ⟨hne, hv⟩ := ha.val hk
        rw [e2]
        simp only [List.append_assoc, List.cons_append]
        rw [searchFrom_hit _ _ _ (by intro h; exact absurd (List.append_eq_nil_iff.mp h).1 (AKind.kw_ne_nil _))
          (matchQuotedAttrAt_hit a.kind.kw a.w1 (maskBodyAt pre.length a.val) _ ha.w1.1 ha.w1.2 (maskBodyAt_noQuote _ _)
            (by unfold maskBodyAt; cases hv' : a.val with
                | nil => exact absurd hv' hne
                | cons c cs => simp))]
        simp only [Option.map_some]
        have := unmask_maskBodyAt T pre.length a.val [] (by
          intro _; rw [hT, el, e4]; simp [List.append_assoc])
        simp only [List.append_nil, unmask_nil] at this
        rw [this]
      · rw [hs] at hk; exact absurd hk (by decide)
    · simp only [hak, decide_false]
      rw [searchFrom_dead _ (a.kind.kw ++ a.mtail pre.length)]
      · have := ih (fun b hb => has b (by simp [hb])) (pre ++ a.lits) (by rw [hT, el]; simp [List.append_assoc])
        simp only [List.length_append] at this
        exact this
      · intro x y hxy hy
        apply not_startsWith_none_quoted
        exact dead_piece k.kw (searchWords_kw k) a.kind (fun e => hak (AKind.kw_inj e).symm) _ (a.mtail_kinert _ ha)
          (a.mtail_head _ ha) x y _ hxy hy

theorem not_startsWith_none_sal (s : Str) (h : startsWith s sSalience = false) : matchSalienceAt s = none := by
  unfold matchSalienceAt; simp [h]

theorem isDigit_ws_false {c : Char} (h : isWs c = true) : isDigit c = false := by
  rcases List.mem_cons.mp (isWs_cases h) with rfl | h'
  · decide
  · simp only [List.mem_cons, List.mem_nil_iff, or_false] at h'
    rcases h' with rfl | rfl | rfl <;> decide

theorem matchSalienceAt_hit (i : Int) (w1 w2 rest : Str) (hw1 : Ws w1) (hne1 : w1 ≠ []) (hw2 : Ws w2) (hne2 : w2 ≠ []) :
    matchSalienceAt (sSalience ++ (w1 ++ (intShow i ++ (w2 ++ rest)))) = some (intShow i) := by
  unfold matchSalienceAt
  have e1 : (w1.isEmpty) = false := by cases w1 <;> simp at hne1 ⊢
  obtain ⟨c2, t2, rfl⟩ : ∃ c t, w2 = c :: t := by cases w2 with | nil => exact absurd rfl hne2 | cons c t => exact ⟨c, t, rfl⟩
  have hc2 : isDigit c2 = false := isDigit_ws_false (hw2 c2 (by simp))
  have hd : (sSalience ++ (w1 ++ (intShow i ++ (c2 :: t2 ++ rest)))).drop 8 = w1 ++ (intShow i ++ (c2 :: t2 ++ rest)) := by
    have : sSalience.length = 8 := rfl
    rw [← this, List.drop_left]
  simp only [startsWith_append, Bool.not_true, Bool.false_eq_true, if_false, hd]
  rw [intShow_cases]
  split
  · obtain ⟨d, hdh, hdd⟩ := toDigits_head i.toNat
    have hdw : isWs d = false := isDigit_notWs hdd
    have t1 : (w1 ++ (Nat.toDigits 10 i.toNat ++ (c2 :: t2 ++ rest))).takeWhile isWs = w1
        ∧ (w1 ++ (Nat.toDigits 10 i.toNat ++ (c2 :: t2 ++ rest))).dropWhile isWs = Nat.toDigits 10 i.toNat ++ (c2 :: t2 ++ rest) := by
      cases hD : Nat.toDigits 10 i.toNat with
      | nil => simp [hD] at hdh
      | cons d' D' =>
        simp [hD] at hdh; subst hdh
        exact takeWhile_stop isWs w1 d' _ hw1 hdw
    rw [t1.1, t1.2]
    simp only [e1, Bool.false_eq_true, if_false]
    cases hD : Nat.toDigits 10 i.toNat with
    | nil => simp [hD] at hdh
    | cons d' D' =>
      simp [hD] at hdh; subst hdh
      have hm : d' ≠ '-' := (isDigit_ne hdd).2.1
      have t3 := takeWhile_stop isDigit (d' :: D') c2 (t2 ++ rest) (by rw [← hD]; exact toDigits_isDigit _) hc2
      simp only [List.cons_append] at t3 ⊢
      split
      · rename_i heq; simp at heq; exact absurd heq.1 hm
      · simp only [List.nil_append]
        rw [t3.1]
        simp
  · have hmw : isWs '-' = false := by decide
    have t1 := takeWhile_stop isWs w1 '-' (Nat.toDigits 10 (-i).toNat ++ (c2 :: t2 ++ rest)) hw1 hmw
    simp only [List.cons_append] at t1 ⊢
    rw [t1.1, t1.2]
    simp only [e1, Bool.false_eq_true, if_false]
    have t3 := takeWhile_stop isDigit (Nat.toDigits 10 (-i).toNat) c2 (t2 ++ rest) (toDigits_isDigit _) hc2
    rw [t3.1]
    have : (Nat.toDigits 10 (-i).toNat).isEmpty = false := by
      cases h : Nat.toDigits 10 (-i).toNat with
      | nil => exact absurd h Nat.toDigits_ne_nil
      | cons _ _ => rfl
    simp [this]


theorem salience_search (as : List HAttr) (has : ∀ a ∈ as, a.Ok) :
    searchFrom matchSalienceAt (rattrs as) = (firstOf .sal as).map fun a => intShow a.sal := by
  induction as with
  | nil => rfl
  | cons a as ih =>
    have ha := has a (by simp)
    have e : rattrs (a :: as) = (a.kind.kw ++ a.rtail) ++ rattrs as := by simp [rattrs]
    rw [e]
    simp only [firstOf, List.find?_cons]
    by_cases hak : a.kind = .sal
    · simp only [hak, decide_true, Option.map_some]
      rcases a.shape with ⟨hf, _⟩ | ⟨_, hq, _⟩ | ⟨_, _, _, e3, _⟩
      · rw [hak] at hf; exact absurd hf (by decide)
      · rw [hak] at hq; exact absurd hq (by decide)
      · rw [e3]
        simp only [List.append_assoc]
        exact searchFrom_hit _ _ _ (by intro h; exact absurd (List.append_eq_nil_iff.mp h).1 (by decide)) (matchSalienceAt_hit a.sal a.w1 a.w2 _ ha.w1.1 ha.w1.2 ha.w2.1 ha.w2.2)
    · simp only [hak, decide_false]
      rw [searchFrom_dead _ (a.kind.kw ++ a.rtail)]
      · exact ih (fun b hb => has b (by simp [hb]))
      · intro x y hxy hy
        apply not_startsWith_none_sal
        exact dead_piece AKind.sal.kw (searchWords_kw .sal) a.kind (fun e => hak (AKind.kw_inj e).symm) _ (a.rtail_kinert ha)
          (a.rtail_head ha) x y _ hxy hy

theorem parseI32_intShow (i : Int) (hlo : -2147483648 ≤ i) (hhi : i ≤ 2147483647) : parseI32 (intShow i) = some i := by
  unfold parseI32
  rw [intShow_cases]
  split
  · rename_i h
    apply parseIntIn_digits _ _ false (Nat.toDigits 10 i.toNat) Nat.toDigits_ne_nil (toDigits_isDigit _) _
      (signSplit_digits _ (toDigits_isDigit _)) i _ hlo hhi
    rw [digitsVal_toDigits]; simp; omega
  · rename_i h
    apply parseIntIn_digits _ _ true (Nat.toDigits 10 (-i).toNat) Nat.toDigits_ne_nil (toDigits_isDigit _) _ rfl i _ hlo hhi
    rw [digitsVal_toDigits]; simp; omega

/-- **`extract_salience`** on the masked attribute section: the salience that was written (the first one), 0 if none -/
theorem extractSalience_mattrs (n : Nat) (as : List HAttr) (has : ∀ a ∈ as, a.Ok) :
    extractSalience (mattrs n as) = .ok (firstSal as) := by
  unfold extractSalience
  rw [removeQuoted_mattrs n as has, salience_search as has]
  unfold firstSal
  cases h : firstOf .sal as with
  | none => rfl
  | some a =>
    have hmem : a ∈ as := List.mem_of_find?_eq_some h
    have := (has a hmem).sal
    simp only [Option.map_some, parseI32_intShow a.sal this.1 this.2, Option.getD_some]

/-! ### the two flags -/

theorem hasWordGo_dead (kw x : Str) (c : Char) (r : Str) (h : Dead kw (x ++ [c])) (prev : Option Char) :
    hasWordGo kw (x ++ c :: r) prev = hasWordGo kw r (some c) := by
  induction x generalizing prev with
  | nil =>
    have := h [] [c] r rfl (by simp)
    simp only [List.nil_append, List.cons_append] at this ⊢
    simp [hasWordGo, this]
  | cons d ds ih =>
    have h0 := h [] (d :: ds ++ [c]) r rfl (by simp)
    simp only [List.cons_append, List.append_assoc, List.nil_append] at h0 ⊢
    simp only [hasWordGo, h0, Bool.false_and, Bool.false_or]
    exact ih (fun a b r' hab hb => h (d :: a) b r' (by simp [hab]) hb) _

theorem hasWordGo_nil (kw : Str) (p : Option Char) : hasWordGo kw [] p = false := rfl

theorem HAttr.rtail_last (a : HAttr) (h : a.Ok) : ∃ t c, a.rtail = t ++ [c] ∧ isWs c = true := by
  have h2 := h.w2
  have hw : a.w2 = a.w2.dropLast ++ [a.w2.getLast h2.2] := (List.dropLast_concat_getLast h2.2).symm
  have hc : isWs (a.w2.getLast h2.2) = true := h2.1 _ (List.getLast_mem h2.2)
  rcases a.shape with ⟨_, _, _, _, e3, _⟩ | ⟨_, _, _, _, e3, _⟩ | ⟨_, _, _, e3, _⟩
  · exact ⟨a.w2.dropLast, _, by rw [e3]; exact hw, hc⟩
  · exact ⟨a.w1 ++ a.w2.dropLast, _, by rw [e3, List.append_assoc, ← hw], hc⟩
  · exact ⟨a.w1 ++ (intShow a.sal ++ a.w2.dropLast), _, by rw [e3]; simp only [List.append_assoc]; rw [← hw], hc⟩

theorem isWord_ws_false {c : Char} (h : isWs c = true) : isWord c = false := by
  rcases List.mem_cons.mp (isWs_cases h) with rfl | h'
  · decide
  · simp only [List.mem_cons, List.mem_nil_iff, or_false] at h'
    rcases h' with rfl | rfl | rfl <;> decide

theorem hasWord_attrs (k : AKind) (hk : k.flag = true) (as : List HAttr) (has : ∀ a ∈ as, a.Ok)
    (prev : Option Char) (hprev : (prev.map isWord).getD false = false) :
    hasWordGo k.kw (rattrs as) prev = hasKind k as := by
  induction as generalizing prev with
  | nil => rfl
  | cons a as ih =>
    have ha := has a (by simp)
    have e : rattrs (a :: as) = a.kind.kw ++ (a.rtail ++ rattrs as) := by simp [rattrs]
    rw [e]
    simp only [hasKind, List.any_cons]
    by_cases hak : a.kind = k
    · subst hak
      simp only [decide_true, Bool.true_or]
      obtain ⟨c, t, ht, hc⟩ := a.rtail_head ha
      rw [ht]
      have hnw : isWord c = false := isWord_ws_false hc
      obtain ⟨k0, ks, hks⟩ : ∃ k0 ks, a.kind.kw = k0 :: ks := by
        cases hh : a.kind.kw with
        | nil => exact absurd hh (AKind.kw_ne_nil _)
        | cons k0 ks => exact ⟨k0, ks, rfl⟩
      have hp : a.kind.kw.isPrefixOf (a.kind.kw ++ (c :: t ++ rattrs as)) = true := startsWith_append _ _
      have hd : (a.kind.kw ++ (c :: t ++ rattrs as)).drop a.kind.kw.length = c :: t ++ rattrs as := List.drop_left
      rw [hks] at hp hd ⊢
      simp only [List.cons_append] at hp hd ⊢
      simp only [hasWordGo, hp, hd, hprev, List.head?_cons, Option.map_some, Option.getD_some, hnw]
      rfl
    · simp only [hak, decide_false, Bool.false_or]
      obtain ⟨t, c, ht, hc⟩ := a.rtail_last ha
      have hdead : Dead k.kw ((a.kind.kw ++ t) ++ [c]) := by
        rw [List.append_assoc, ← ht]
        exact dead_piece k.kw (searchWords_kw k) a.kind (fun e => hak (AKind.kw_inj e).symm) _ (a.rtail_kinert ha) (a.rtail_head ha)
      have := hasWordGo_dead k.kw (a.kind.kw ++ t) c (rattrs as) hdead prev
      rw [ht]
      simp only [List.append_assoc, List.cons_append, List.nil_append] at this ⊢
      rw [this]
      exact ih (fun b hb => has b (by simp [hb])) (some c) (by simp [isWord_ws_false hc])

theorem findSub_dead (p s : Str) (hp : p ≠ []) (h : Dead p s) : findSub p s = none := by
  induction s with
  | nil => cases p with
    | nil => exact absurd rfl hp
    | cons _ _ => rfl
  | cons c cs ih =>
    have h0 := h [] (c :: cs) [] rfl (by simp)
    simp only [List.nil_append, List.append_nil] at h0
    simp only [findSub, h0, Bool.false_eq_true, if_false]
    rw [ih (fun a b r hab hb => h (c :: a) b r (by simp [hab]) hb)]; rfl

theorem boolAttrSection_mattrs (n : Nat) (as : List HAttr) (has : ∀ a ∈ as, a.Ok) :
    boolAttrSection (mattrs n as) = rattrs as := by
  unfold boolAttrSection
  rw [removeQuoted_mattrs n as has]
  have : findSub sRule (rattrs as) = none :=
    findSub_dead _ _ (by decide) (dead_rattrs sRule (by simp [searchWords]) as (fun a ha => ⟨has a ha, by cases a.kind <;> decide⟩))
  simp only [this]

/-- what `parse_rule_attributes` must return for an attribute list -/
def expectedAttrs (X : Ext) (as : List HAttr) : Except Err Attrs := do
  let de ← parseDateOpt X (firstVal .de as)
  let dx ← parseDateOpt X (firstVal .dx as)
  pure { noLoop := hasKind .nl as, lockOnActive := hasKind .loa as, agendaGroup := firstVal .ag as,
         activationGroup := firstVal .actg as, dateEffective := de, dateExpires := dx }

theorem kwde : AKind.de.kw = "date-effective".toList := by decide
theorem kwdx : AKind.dx.kw = "date-expires".toList := by decide
theorem kwag : AKind.ag.kw = "agenda-group".toList := by decide
theorem kwactg : AKind.actg.kw = "activation-group".toList := by decide
theorem kwnl : AKind.nl.kw = "no-loop".toList := by decide
theorem kwloa : AKind.loa.kw = "lock-on-active".toList := by decide
theorem parseAttrs_mattrs (X : Ext) (as : List HAttr) (has : ∀ a ∈ as, a.Ok) (T pre post : List Str)
    (hT : T = pre ++ litsAttrs as ++ post) :
    parseAttrs X T (mattrs pre.length as) = expectedAttrs X as := by
  have q := fun k hk => quoted_search k hk as has T pre post hT
  have e1 := q .de rfl; have e2 := q .dx rfl; have e3 := q .ag rfl; have e4 := q .actg rfl
  have b1 := hasWord_attrs .nl rfl as has none rfl
  have b2 := hasWord_attrs .loa rfl as has none rfl
  rw [kwde] at e1; rw [kwdx] at e2; rw [kwag] at e3; rw [kwactg] at e4; rw [kwnl] at b1; rw [kwloa] at b2
  unfold parseAttrs expectedAttrs quotedAttr
  rw [boolAttrSection_mattrs pre.length as has]
  unfold hasWord
  rw [e1, e2, e3, e4]
  dsimp only
  rw [b1, b2]
end C04
